"""C02: polyhedron operations compute exactly the documented point set."""
import os, json
import common, polycheck, gen_poly, polyrun

ALL_OPS = ["add_constraint", "add_constraints", "refine_with_constraint", "refine_with_constraints", "add_recycled_constraints",
           "add_generator", "add_generators", "intersection_assign", "poly_hull_assign", "topological_closure_assign",
           "affine_image", "affine_preimage", "generalized_affine_image", "generalized_affine_preimage",
           "bounded_affine_image", "bounded_affine_preimage", "unconstrain", "unconstrain_set",
           "add_space_dimensions_and_embed", "add_space_dimensions_and_project", "remove_space_dimensions",
           "remove_higher_space_dimensions", "map_space_dimensions", "expand_space_dimension", "concatenate_assign",
           "poly_difference_assign", "time_elapse_assign", "fold_space_dimensions", "generalized_affine_image_lhs",
           "simplify_using_context_assign", "poly_hull_assign_if_exact", "refine_with_congruence", "add_congruence",
           "refine_with_congruences", "generalized_affine_preimage_lhs", "positive_time_elapse_assign", "add_generators_from"]


def owner(kind, line):
    # failures of an operation's value / dimension, of constructors, and exceptions on well-formed calls
    return (kind.startswith("op:") and (kind.endswith("/value") or kind.endswith("/dim") or "/" not in kind)) \
        or kind in ("new/value", "new/dim", "ctor-exception")


def run(chk):
    chk.rule = ("histories in the polyhedron case language from tools/gen_poly.py (seeded): 2-3 objects built by every constructor route "
                "(universe/empty/constraints/generators/other topology), then mutators drawn per operator with arguments aimed at the code's case "
                "splits (coefficient of the variable zero/non-zero, sign of the denominator, each relation symbol, empty/universe/unbounded receivers, "
                "aliasing y = x); a case is distinct by its text and non-trivial when the operator changed the denoted set or the receiver was neither "
                "empty nor universe (counted by the judge as verified value checks on op steps)")
    chk.trusted += polycheck.TRUSTED
    chk.assumptions += ["hull / add_generator(s) take the library's own generators of the OPERANDS as a hint; the hint is used only after dd_pair proved it equal to the operand's reference value",
                        "operators not yet modelled (poly_difference, time_elapse, fold, generalized image with lhs expression, congruence refinement, simplify_using_context, *_if_exact) are exercised but only their C01 obligations are judged; listed under coverage.unmodelled"]
    chk.prove(polycheck.BASE_COQ)
    if chk.replay:
        import json as _json
        lines = _json.load(open(chk.replay)).get("case", [])
        out, byid = polycheck.run_cases(chk, lines, "replay", lambda k, l: True)
        chk.count(len(lines), key="replay", sample=" ; ".join(lines))
        chk.nontrivial.add("replay2")
        for f in out["fails"]:
            chk.failure({"site": polycheck.op_of_line(f.line), "kind": f.kind, "detail": f.detail}, {"case": lines, "step": f.step, "line": f.line, "judge": f.detail})
        for (case, line, how) in out["crashes"]:
            chk.failure({"site": polycheck.op_of_line(line), "kind": "crash", "detail": how}, {"case": case, "line": line, "how": how})
        return
    ncase = 760 if chk.quick else 8000
    maxdim = 3 if chk.quick else 3
    lines = []
    # per-operator streams, then mixed histories
    per = 9 if chk.quick else 60
    cid = 0
    for i, op in enumerate(ALL_OPS):
        ls = gen_poly.make_cases(chk.seed * 1000 + i, per, maxdim=maxdim, nobj=2, steps=3, ops=[op], pq=0.0, pobs=0.25, start=cid)
        lines += ls; cid += per
        # the same operator on receivers / arguments in the special states its code branches on
        ls = gen_poly.make_cases(chk.seed * 1000 + 500 + i, per, maxdim=maxdim, nobj=2, steps=2, ops=[op], pq=0.0, pobs=0.15, start=cid, special=0.75)
        lines += ls; cid += per
        # generator-built operands whose points carry non-unit, different divisors
        ls = gen_poly.make_cases(chk.seed * 1000 + 800 + i, per, maxdim=maxdim, nobj=2, steps=2, ops=[op], pq=0.0, pobs=0.15, start=cid, divbias=True)
        lines += ls; cid += per
        # receivers / arguments with PENDING rows (both descriptions minimized, then one more generator or constraint)
        ls = gen_poly.make_cases(chk.seed * 1000 + 1100 + i, max(per // 2, 3), maxdim=maxdim, nobj=2, steps=2, ops=[op], pq=0.0, pobs=0.1, start=cid,
                                 special=0.9, special_kinds=["pending_gens", "pending_cons", "pending_gens"])
        lines += ls; cid += max(per // 2, 3)
        # non-pointed / lower-dimensional operands (lines, implicit equalities)
        ls = gen_poly.make_cases(chk.seed * 1000 + 1400 + i, max(per // 2, 3), maxdim=maxdim, nobj=2, steps=2, ops=[op], pq=0.0, pobs=0.1, start=cid,
                                 special=0.8, special_kinds=["line", "line", "lowdim"])
        lines += ls; cid += max(per // 2, 3)
    # dimension-changing operators in higher dimension (permutations with several cycles, folds of several
    # dimensions, concatenations): the references are renamings, cheap for the verified deciders
    hd = 150 if chk.quick else 1500
    lines += gen_poly.make_cases(chk.seed * 1000 + 1700, hd, maxdim=5, nobj=2, steps=3, pq=0.0, pobs=0.2, start=cid, thin=True,
                                 ops=["map_space_dimensions", "map_space_dimensions", "map_space_dimensions", "remove_space_dimensions", "remove_higher_space_dimensions", "expand_space_dimension",
                                      "fold_space_dimensions", "add_space_dimensions_and_embed", "add_space_dimensions_and_project", "concatenate_assign"])
    cid += hd
    # conversions from rational boxes (both topologies): open / closed / infinite ends, small rationals with equal
    # numerators and different denominators, coinciding and crossing ends
    lines += gen_poly.make_box_cases(chk.seed * 1000 + 2700, 200 if chk.quick else 3000, start=300000)
    # binary operators on pairs of boxes / slabs sharing, touching or crossing faces
    lines += gen_poly.make_boxpair_cases(chk.seed * 1000 + 1900, 150 if chk.quick else 3000,
                                         ["poly_hull_assign", "poly_difference_assign", "intersection_assign", "simplify_using_context_assign",
                                          "time_elapse_assign", "positive_time_elapse_assign"])
    # binary operators whose ARGUMENT (and receiver) hold pending rows: minimized, then one more generator / constraint,
    # with nothing in between that would integrate it
    BIN = ["time_elapse_assign", "poly_hull_assign", "intersection_assign", "poly_difference_assign", "concatenate_assign",
           "simplify_using_context_assign", "poly_hull_assign_if_exact", "positive_time_elapse_assign", "add_generators_from"]
    nb = 45 if chk.quick else 500
    for i, op in enumerate(BIN):
        lines += gen_poly.make_cases(chk.seed * 1000 + 2300 + i, nb, maxdim=maxdim, nobj=2, steps=2, ops=[op], pq=0.0, pobs=0.0, start=200000 + i * nb,
                                     special=0.9, special_kinds=["pending_gens", "pending_gens", "pending_cons"])
    # the predicate-valued variant has the most intricate case analysis (pointed / non-pointed, C / NNC): its own stream
    lines += gen_poly.make_boxpair_cases(chk.seed * 1000 + 2100, 700 if chk.quick else 8000, ["poly_hull_assign_if_exact"], start=100000)
    lines += gen_poly.make_cases(chk.seed * 7919 + 17, ncase - cid if ncase > cid else 50, maxdim=maxdim, nobj=3, steps=6, pq=0.1, pobs=0.2, start=cid)
    # corpus first
    cdir = os.path.join(common.VERIF, "corpus", "C02")
    corpus = []
    if os.path.isdir(cdir):
        for f in sorted(os.listdir(cdir)):
            if f.endswith(".case"):
                corpus += open(os.path.join(cdir, f)).read().split("\n")
    out, byid = polycheck.run_cases(chk, corpus + lines, "c02", owner)
    stat, cov = out["stat"], out["cov"]
    opsteps = sum(v for k, v in cov.items() if k.startswith("op:"))
    chk.evaluations += stat.get("steps", 0)
    chk.undecided += out["undecided"]
    chk.extra["operation_histogram"] = {k[3:]: v for k, v in sorted(cov.items()) if k.startswith("op:")}
    chk.extra["unmodelled"] = {k[11:]: v for k, v in sorted(cov.items()) if k.startswith("unmodelled:")}
    chk.extra["constructor_histogram"] = {k[4:]: v for k, v in sorted(cov.items()) if k.startswith("new:")}
    chk.extra["status_vectors_reached"] = len([k for k in cov if k.startswith("flags:")])
    chk.extra["cases"] = stat.get("cases", 0)
    chk.extra["verified_checks"] = stat.get("checks", 0)
    chk.extra["traces_validated_against_impl"] = stat.get("cases", 0)
    # distinct non-trivial: distinct op lines that were judged by value
    seen = set()
    for c in byid.values():
        for l in c:
            if l.startswith("op "):
                seen.add(l.split(" ", 2)[2])
    for s in seen: chk.nontrivial.add(s)
    for c in list(byid.values())[:3]:
        chk.samples.append(" ; ".join(c[:8]))
    for f in out["fails"]:
        op = polycheck.op_of_line(f.line)
        info = {"site": op, "kind": f.kind.split("/")[-1] if "/" in f.kind else f.kind, "detail": f.detail}
        chk.failure(info, {"case": byid.get(f.case, []), "step": f.step, "line": f.line, "judge": f.detail,
                           "theorem": "C02_* (reference result is the documented set) + C01_equivalence_decided",
                           "replay_cmd": "./check C02 --replay <this file>"})
    for (case, line, how) in out["crashes"]:
        op = polycheck.op_of_line(line)
        info = {"site": op, "kind": "crash", "detail": how}
        chk.failure(info, {"case": case, "line": line, "how": how})
    if stat.get("checks", 0) and chk.undecided * 100 > stat["checks"]:
        chk.broken.append(("too-many-undecided", "%d of %d checks undecided" % (chk.undecided, stat["checks"])))
