"""C11 -- checked arithmetic reports true rounding relations; bounded-coefficient builds never lie.

Proof part:   coq/Checked/*.v, audited through coq/Properties/Properties_C11.v (for all widths and operands).
Tie:          harness/run_checked.cc (real PPL, working tree) | ocaml/judge_checked (extracted Coq model), bit for bit:
              exhaustive 8-bit sweep + boundary-aimed 16/32/64-bit operand tuples (direct path at 64 bits).
Oracle:       exact mpz/mpq arithmetic + documented meaning of the Result word, inside the harness (independent of the model).
Bounded:      harness/run_bounded.cc on the mpz build and on checked-int8 (/int16 ...) builds of the library."""
import os, random, subprocess, sys, time, collections
import common
import translate_checked

COQ_FILES = ["gen/Facts_Result.v", "Checked/Mach.v", "Checked/Result.v", "Checked/Int.v", "Checked/Ext.v",
             "Checked/IntBlocks.v", "Checked/IntArith.v", "Checked/IntDiv.v", "Checked/IntRefuted.v", "Checked/Program.v", "Checked/Summary.v"]


# ------------------------------------------------------------------------------------------------
# boundary-aimed operand tuples for the wide types
# ------------------------------------------------------------------------------------------------
def tuples_for(bits, sgn, n, rng):
    cmin = -(1 << (bits - 1)) if sgn else 0
    cmax = (1 << (bits - 1)) - 1 if sgn else (1 << bits) - 1
    # every value the policies use as finite extreme / special encoding
    lows = [cmin, cmin + 1, cmin + 2, cmin + 3] if sgn else [0, 1, 2]
    highs = [cmax, cmax - 1, cmax - 2, cmax - 3, cmax - 4]
    base = set(lows + highs + [-2, -1, 0, 1, 2, 3])
    for k in range(bits + 1):
        for dlt in (-1, 0, 1):
            base.add((1 << k) + dlt); base.add(-(1 << k) + dlt)
    base = sorted(v for v in base if cmin <= v <= cmax)
    clamp = lambda v: max(cmin, min(cmax, v))
    rnd = lambda: rng.choice(base) if rng.random() < 0.5 else rng.randint(cmin, cmax)
    small = lambda: rng.choice([-7, -3, -2, -1, 1, 2, 3, 5, 7, 10, 16, 255, 256, 1 << (bits // 2), (1 << (bits // 2)) + 1, -(1 << (bits // 2))])
    exps = [0, 1, 2, bits // 2, bits - 2, bits - 1, bits, bits + 1]
    out = []
    # fixed corner tuples
    for x in lows + highs + [-1, 0, 1]:
        for y in lows + highs + [-2, -1, 0, 1, 2]:
            if cmin <= x <= cmax and cmin <= y <= cmax:
                out.append((x, y, rng.choice([0, 1, -1 if sgn else 1, cmax, cmin]), rng.choice(exps)))
    while len(out) < n:
        E = rng.choice(lows + highs)          # the comparison constant a guard uses
        dlt = rng.choice([-2, -1, 0, 1, 2])
        kind = rng.randrange(9)
        x = rnd(); y = rnd(); z = rnd(); e = rng.choice(exps)
        if kind == 0:                          # x + y on the boundary:  x > max - y , x < min - y
            y = E - x + dlt
        elif kind == 1:                        # x - y on the boundary:  x < min + y , x > max + y
            y = x - E + dlt
        elif kind == 2:                        # x * y on the boundary:  x > max / y ...
            y = small()
            if y != 0:
                x = int(abs(E) // abs(y)) * (1 if (E >= 0) == (y > 0) else -1) + dlt
        elif kind == 3:                        # negation boundary: from < -max
            x = -E + dlt; y = rng.choice([-1, 1, -1, 2])
        elif kind == 4:                        # z + x*y / z - x*y on the boundary
            y = small(); x = small() * rng.choice([1, 1 << (bits // 3)])
            z = E - x * y + dlt if rng.random() < 0.5 else E + x * y + dlt
        elif kind == 5:                        # shifts: x near max >> e and its negative twin
            e = rng.choice(exps[:6]); x = (E >> min(e, bits + 1)) + dlt
            if sgn and rng.random() < 0.5: x = -x
        elif kind == 6:                        # division: divisors -1, 1, small, and dividends at the extremes
            x = rng.choice(lows + highs + [rnd()]); y = rng.choice([-1, 1, 2, -2, 3, -3, 7, -7, small(), rnd()])
        elif kind == 7:                        # squares +-1 (sqrt), powers of two
            r = rng.randint(0, (1 << (bits // 2)) - 1); x = r * r + dlt
        x, y, z = clamp(x), clamp(y), clamp(z)
        out.append((x, y, z, e))
    return out[:n]


def retry(f, *a, **kw):
    """build products live in a cache shared with concurrently running checks (a build from another tree hash
    drops this one's directory): rebuild when that happens"""
    last = None
    for _ in range(4):
        try:
            r = f(*a, **kw)
            if os.path.exists(r):
                return r
        except common.BuildError as e:
            last = e
            if "No such file or directory" not in str(e) and "cannot find" not in str(e) and "cannot open" not in str(e):
                raise
        time.sleep(2)
    raise last or common.BuildError("build product vanished repeatedly")


# ------------------------------------------------------------------------------------------------
def run_pipe(harness_cmd, judge_cmd):
    """harness | judge ; returns (judge stdout, harness stderr, harness rc, judge rc)"""
    errf = os.path.join(common.BUILD, "c11_err_%d_%d.txt" % (os.getpid(), run_pipe.n)); run_pipe.n += 1
    with open(errf, "w") as ef:
        h = subprocess.Popen(harness_cmd, stdout=subprocess.PIPE, stderr=ef)
        j = subprocess.Popen(judge_cmd, stdin=h.stdout, stdout=subprocess.PIPE, stderr=subprocess.STDOUT, text=True)
        h.stdout.close()
    return h, j, errf
run_pipe.n = 0


def collect(chk, name, h, j, errf, agg, words, classes, stats):
    jout, _ = j.communicate(timeout=3000)
    hrc = h.wait(timeout=3000)
    err = open(errf).read()
    os.remove(errf)
    S = None
    nm = 0
    for line in jout.splitlines():
        if line.startswith("S "):
            S = [int(v) for v in line.split()[1:]]
        elif line.startswith("K "):
            classes.add(name.split(":")[0] + " " + line[2:])
        elif line.startswith("W "):
            _, r, n = line.split(); words[int(r)] += int(n)
        elif line.startswith("M "):
            nm += 1
            if nm <= 3:
                stats["mismatch_examples"].append(line[:400])
    if hrc != 0 or j.returncode != 0 or S is None:
        chk.broken.append(("harness/judge run failed (%s)" % name, "harness rc=%s judge rc=%s\n%s\n%s" % (hrc, j.returncode, jout[-1500:], err[-1500:])))
        return
    stats["blocks"] += S[0]; stats["compared"] += S[1]; stats["model_undefined"] += S[2]; stats["mismatches"] += S[3]; stats["traps"] += S[4]
    for line in err.splitlines():
        if not line.startswith("O "):
            if line.strip():
                stats["stderr_noise"] += 1
            continue
        f = line.split()
        # O block op signed class x y z e stored r dir bits why...
        op, sg, cls = f[2], f[3], f[4]
        key = (op, sg, cls)
        a = agg.setdefault(key, {"count": 0, "why": collections.Counter(), "example": None, "bits": set()})
        a["count"] += 1; a["why"][" ".join(f[13:])] += 1; a["bits"].add(f[12])
        if a["example"] is None:
            a["example"] = {"op": op, "signed": sg == "1", "x": f[5], "y": f[6], "to_before": f[7], "exp": f[8], "stored": f[9],
                            "result_word": int(f[10]), "dir": int(f[11]), "bits": int(f[12]), "why": " ".join(f[13:]), "run": name}


def run(chk):
    chk.rule = ("8-bit: every operand pair (and every operand x exponent 0..10, every operand x to-value from a boundary set) of "
                "int8_t/uint8_t for each modelled operation x rounding direction {UP,DOWN,IGNORE} x policy "
                "{Check_Overflow_Policy, Extended_Number_Policy, WRD_Extended_Number_Policy, Bounded_Integer_Coefficient_Policy} x "
                "{Checked:: templates directly, *_assign_r on Checked_Number, overloaded operators}; 16/32/64 bit: operand tuples "
                "solved for the boundary (and +-1, +-2) of each overflow guard of the model plus extremes, powers of two +-1 and "
                "seeded noise. A case is non-trivial when it is distinct in (type, policy flags, api, operation, direction, "
                "result word): distinct_nontrivial counts these classes as observed by the judge. Floats / mpz / mpq / conversions between all 12 numeric "
                "types / all comparison entry points: exact-oracle stream of harness/run_checked_num.cc (operands at the representability boundaries of every "
                "type, specials, denormals, dyadic rationals aimed at the rounding decision, seeded random) and textual input (assign_r from strings generated "
                "from a structural description covering every production of parse_number -- sign, 0x / b^^ bases, fractional part, e/E/p/*^ exponents, "
                "NUM/DEN with every exponent-merge sign case, trailing zeros, inf/nan, malformed strings -- into mpq, mpz, float, double and the eight "
                "native integer types, value and relation checked exactly); counted as one class per section.")
    chk.trusted += ["Coq 8.16.1 kernel (coqc), no axioms (Print Assumptions on every theorem of Properties_C11.v)",
                    "extraction with ExtrOcamlBasic only; OCaml 4.13.1; g++",
                    "hand-written transcription coq/Checked/{Int,Ext}.v of checked_int_inlines.hh / checked_ext_inlines.hh "
                    "(tied to the code by the exhaustive / boundary comparison of this run)",
                    "tools/translate_checked.py (enum values), harness/run_checked.cc (incl. the exact-arithmetic oracle), "
                    "ocaml/judge_checked.ml, harness/run_bounded.cc"]
    chk.assumptions += ["the strict machine model (coq/Checked/Mach.v) evaluates each sub-expression in the operand type: it is an "
                        "abstraction of C++ integer promotion in the safe direction",
                        "float / mpz / mpq primitives, conversions between type pairs and the comparison entry points are NOT modelled or proved: "
                        "exact oracle on generated operands only (long double not exercised)",
                        "bounded-coefficient clause for whole-library operations is checked by differential runs only; the theorem "
                        "bounded_never_lies covers programs over the ring operations of the coefficient interface"]
    t0 = time.time()
    translate_checked.generate()
    ok = chk.prove(COQ_FILES, extra_obligations=0)
    # layout lemmas of Result.v (computations on the regenerated numbers) are proof obligations discharged by the build
    if ok:
        chk.obligations += 24; chk.discharged += 24
    chk.log("coq: %.1fs" % (time.time() - t0))
    if not ok:
        chk.log("Coq build failed; continuing with the differential part if an extracted model exists")
    try:
        common.coq_extract("Extract_checked.v", ["checked.ml", "checked.mli"], deps=COQ_FILES)
    except common.BuildError as e:
        chk.broken.append(("extraction", str(e)[-2000:]))
        return
    judge = common.ocaml_build("judge_checked", ["gen/checked.mli", "gen/checked.ml", "judge_checked.ml"])
    exe = retry(common.compile_harness, "run_checked.cc", config="int8")
    chk.log("built harness + judge: %.1fs" % (time.time() - t0))

    tier = "all-thorough" if not chk.quick else "all-quick"
    agg, words, classes = {}, collections.Counter(), set()
    stats = collections.Counter(); stats["mismatch_examples"] = []
    runs = []
    # ---- corpus / replay first ----
    rng = random.Random(chk.seed * 7919 + 11)
    vec_jobs = []
    widths = [(64, 1500 if chk.quick else 6000), (32, 400 if chk.quick else 3000), (16, 400 if chk.quick else 3000)]
    corpus = os.path.join(common.VERIF, "corpus", "C11", "tuples.txt")
    extra = []
    if os.path.exists(corpus):
        for l in open(corpus):
            f = l.split("#")[0].split()
            if len(f) == 5:
                extra.append((int(f[0]), None, (int(f[1]), int(f[2]), int(f[3]), int(f[4]))))
    if chk.replay:
        import json
        rp = json.load(open(chk.replay))
        ex = rp.get("example", {})
        if ex:
            extra.append((int(ex.get("bits", 64)), None, (int(ex["x"]), int(ex["y"]), int(ex["to_before"]), int(ex["exp"]))))
    for bits, n in widths:
        for sgn in (True, False):
            cmin = -(1 << (bits - 1)) if sgn else 0
            cmax = (1 << (bits - 1)) - 1 if sgn else (1 << bits) - 1
            tl = [t for (b, _, t) in extra if b == bits and all(cmin <= v <= cmax for v in t[:3])] + tuples_for(bits, sgn, n, rng)
            path = os.path.join(common.BUILD, "c11_tuples_%d_%s_%d.txt" % (bits, "s" if sgn else "u", os.getpid()))
            with open(path, "w") as fh:
                for t in tl:
                    fh.write("%d %d %d %d\n" % t)
            vec_jobs.append((bits, sgn, path, len(tl)))

    procs = []
    def launch(name, hcmd, jcmd):
        h, j, errf = run_pipe(hcmd, jcmd)
        procs.append((name, h, j, errf))
    maxpar = max(2, common.NCPU - 2)
    pending = []
    for sh in range(9):
        pending.append(("sweep8:%d" % sh, [exe, "sweep8", str(sh), tier], [judge, "sweep"]))
    for bits, sgn, path, n in vec_jobs:
        pending.append(("vec%d%s" % (bits, "s" if sgn else "u"), [exe, "vec", str(bits), path, "s" if sgn else "u", "all"], [judge, "vec", path]))
    while pending or procs:
        while pending and len(procs) < maxpar:
            name, hc, jc = pending.pop(0)
            launch(name, hc, jc)
        name, h, j, errf = procs.pop(0)
        collect(chk, name, h, j, errf, agg, words, classes, stats)
    for _, _, path, _ in vec_jobs:
        if os.path.exists(path):
            os.remove(path)
    chk.log("sweeps done: %.1fs; compared %d entries in %d blocks, model undefined on %d, mismatches %d"
            % (time.time() - t0, stats["compared"], stats["blocks"], stats["model_undefined"], stats["mismatches"]))
    for c in sorted(classes)[:3]:
        chk.count(0, sample={"class (type flags api op dir result-word)": c})
    for c in classes:
        chk.nontrivial.add(c)
    chk.evaluations += stats["compared"]
    chk.extra["exhaustive"] = True
    chk.extra["exhaustive_scope"] = "8-bit operand pairs for the blocks listed in rule; wider types are sampled at the guards' boundaries"
    chk.extra["model_vs_code"] = {k: stats[k] for k in ("blocks", "compared", "model_undefined", "mismatches", "traps")}
    chk.extra["result_word_histogram"] = {str(k): v for k, v in sorted(words.items())}
    chk.extra["vec_tuples"] = {"%d%s" % (b, "s" if s else "u"): n for b, s, _, n in vec_jobs}
    if stats["mismatches"]:
        chk.broken.append(("model-vs-code", "the extracted model and the code disagree on %d entries, e.g. %s"
                           % (stats["mismatches"], " || ".join(stats["mismatch_examples"][:3]))))
    # ---- oracle failures = failures of the property on the real code ----
    oracle_summary = {}
    for (op, sg, cls), a in sorted(agg.items()):
        info = {"op": op, "signed": sg == "1", "class": cls}
        oracle_summary["%s/%s/%s" % (op, "signed" if sg == "1" else "unsigned", cls)] = {"count": a["count"], "why": dict(a["why"].most_common(3)), "bits": sorted(a["bits"])}
        chk.failure(info, {"example": a["example"], "count": a["count"]})
    chk.extra["oracle_failures"] = oracle_summary

    # ---- floats, mpz, mpq, conversions between all type pairs, all comparison entry points: exact oracle only ----
    nexe = retry(common.compile_harness, "run_checked_num.cc", config="mpz")
    rc, nout = common.sh([nexe, str(chk.seed), "quick" if chk.quick else "thorough"], timeout=1500)
    nagg, ncounts = {}, {}
    for line in nout.splitlines():
        if line.startswith("N "):
            f = line.split()
            if f[1] != "suppressed":
                ncounts[f[1]] = int(f[-1])
            else:
                key = (f[2], f[6]) if len(f) >= 8 else (f[2], "other")
                if key in nagg:
                    nagg[key]["count"] += int(f[-1])
        elif line.startswith("O "):
            head, _, rest = line.partition(" | ")
            f = head.split()
            # O section op T1 T2 class dir
            section, op, t1, t2, cls = f[1], f[2], f[3], f[4], f[5]
            key = (section, cls) if cls != "other" and cls != "nan-operand" else (section, cls, op, t1, t2)
            a = nagg.setdefault((section, cls) if len(key) == 2 else key, {"count": 0, "example": None, "ops": set()})
            a["count"] += 1; a["ops"].add("%s(%s,%s)" % (op, t1, t2))
            if a["example"] is None:
                a["example"] = {"section": section, "op": op, "types": [t1, t2], "dir": f[6] if len(f) > 6 else "", "detail": rest[:600]}
    if rc != 0 or "conv" not in ncounts:
        chk.broken.append(("run_checked_num", "rc=%s\n%s" % (rc, nout[-1500:])))
    num_summary = {}
    for key, a in sorted(nagg.items(), key=lambda kv: str(kv[0])):
        info = {"op": key[0], "class": key[1]}
        if len(key) > 2:
            info["entry"] = "%s(%s,%s)" % (key[2], key[3], key[4])
        num_summary["/".join(str(k) for k in key)] = {"count": a["count"], "entries": sorted(a["ops"])[:8]}
        chk.failure(info, {"example": a["example"], "count": a["count"]})
    nev = sum(v for k, v in ncounts.items() if k in ("conv", "arith", "compare", "input"))
    chk.count(nev, key=("num-oracle", tuple(sorted(ncounts.items()))), sample={"exact-oracle stream (no model)": ncounts})
    chk.extra["exact_oracle_float_gmp_compare"] = {"evaluations": ncounts, "failures": num_summary}
    chk.log("float/mpz/mpq/conversion/comparison oracle: %s; failure classes: %s (%.1fs)" % (ncounts, sorted(num_summary), time.time() - t0))

    # ---- bounded-coefficient clause ----
    cfgs = ["int8"] if chk.quick else ["int8", "int16", "int32", "int64"]
    ncases = 200 if chk.quick else 1200
    ref_exe = retry(common.compile_harness, "run_bounded.cc", config="mpz")
    bstats = {}
    for maxc in ((3,) if chk.quick else (2, 3, 6)):
        rc, ref = common.sh([ref_exe, str(chk.seed), str(ncases), str(maxc)], timeout=1200)
        if rc != 0:
            chk.broken.append(("run_bounded(mpz)", ref[-1500:])); break
        ref = ref.splitlines()
        for cfg in cfgs:
            bexe = retry(common.compile_harness, "run_bounded.cc", config=cfg)
            rc, out = common.sh([bexe, str(chk.seed), str(ncases), str(maxc)], timeout=1200)
            out = out.splitlines()
            same = ovf = 0
            if rc != 0 or len(out) != len(ref):
                chk.failure({"op": "library", "class": "bounded-build-crashed", "config": cfg},
                            {"config": cfg, "seed": chk.seed, "ncases": ncases, "maxcoef": maxc, "rc": rc, "tail": out[-3:]})
                continue
            for a, b in zip(ref, out):
                if a == b:
                    same += 1
                elif b.endswith(": OVERFLOW"):
                    ovf += 1
                else:
                    chk.failure({"op": "library", "class": "bounded-build-different-answer", "config": cfg},
                                {"config": cfg, "seed": chk.seed, "maxcoef": maxc, "mpz": a[:600], "bounded": b[:600]})
            bstats["%s/maxcoef%d" % (cfg, maxc)] = {"same": same, "overflow": ovf, "cases": len(ref)}
            chk.count(len(ref), key=("bounded", cfg, maxc, same > 0, ovf > 0),
                      sample={"bounded case": out[1][:200]} if len(out) > 1 else None)
    chk.extra["bounded_builds"] = bstats
    chk.log("bounded builds: %s (%.1fs)" % (bstats, time.time() - t0))
