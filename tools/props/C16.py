"""C16 -- sparse and dense rows are interchangeable; the sparse tree CO_Tree is a correct ordered map.

Proof part: coq/Rows/*.v, audited through coq/Properties/Properties_C16.v.
Tie: harness/run_rows.cc (real PPL, private access) and ocaml/judge_rows.ml (extracted models) run the same
generated histories; every observation line must be identical, the real tree must satisfy OK() and agree
with an independent std::map oracle, and the four representation worlds of the expression histories must
give identical observations on the real code."""
import concurrent.futures, hashlib, json, os, re, sys, time
sys.path.insert(0, os.path.dirname(os.path.dirname(os.path.abspath(__file__))))
import common
import gen_rows
import translate_cotree

COQ_FILES = ["gen/Facts_COTree.v", "Rows/COTree.v", "Rows/SparseTree.v", "Rows/COTreeSpec.v",
             "Rows/Abs.v", "Rows/Dense.v", "Rows/Sparse.v", "Rows/Expr.v", "Rows/RowsFacts.v"]
OPTIONAL_COQ = ["Rows/COTreeBase.v", "Rows/COTreeInorder.v", "Rows/COTreeSearch.v", "Rows/COTreeStatic.v", "Rows/COTreeHint.v",
                "Rows/COTreeDens.v", "Rows/COTreeIter.v", "Rows/COTreeUpdate.v", "Rows/COTreeEraseLb.v",
                "Rows/DenseProofs.v", "Rows/SparseProofs.v", "Rows/ExprProofs.v", "Rows/COTreeMain.v",
                "Rows/COTreeFull.v", "Rows/C16Final.v"]
WORK = os.path.join(common.BUILD, "c16-work")


def rep_sparse(w, r):
    return False if w == 0 else True if w == 1 else (r % 2 == 1) if w == 2 else (r % 2 == 0)


def fields(line):
    d = {}
    for tokn in line.split()[2:]:
        if "=" in tokn:
            k, v = tokn.split("=", 1)
            d[k] = v
    return d


def run_chunk(args):
    """Worker: run one file of histories on both sides and compare. Returns a summary dict."""
    path, exe, judge = args
    rc1, cpp = common.sh([exe, path], timeout=3000)
    rc2, ml = common.sh([judge, path], timeout=3000)
    res = {"ops": 0, "histories": 0, "failures": [], "nontrivial": [], "hist": {}, "maxsize": 0, "rebuilds": 0,
           "hinted": 0, "mixed_bin": 0, "crash": None, "known_lines": 0}
    if rc1 != 0 or rc2 != 0:
        res["crash"] = "harness rc=%s model rc=%s on %s: %s" % (rc1, rc2, path, (cpp if rc1 else ml)[-400:])
    hist_lines = {}
    cur = None
    for ln in open(path):
        ln = ln.rstrip("\n")
        if ln.startswith("H "):
            cur = ln.split()[1]
            hist_lines[cur] = []
        elif cur is not None:
            hist_lines[cur].append(ln)
    cl = cpp.split("\n")
    mlq = ml.split("\n")
    mi = 0
    cur = None
    state = None

    def new_state():
        return {"lastR": None, "rebuilds": 0, "maxS": 0, "hinted": 0, "mixed": 0, "taint": {}, "n": {}, "opi": -1,
                "pending": [], "failed": False}

    def fail(info):
        if state["failed"] and info.get("kind") != "dense-sparse-differ":
            return
        state["failed"] = True
        info = dict(info)
        info["history"] = cur
        res["failures"].append((info, ["H " + cur] + hist_lines.get(cur, [])))

    def finish_history():
        if cur is None:
            return
        nt = state["rebuilds"] >= 2 or state["hinted"] >= 3 or state["mixed"] >= 1
        if nt:
            res["nontrivial"].append(hashlib.md5("\n".join(hist_lines.get(cur, [])).encode()).hexdigest()[:12])
        res["rebuilds"] += state["rebuilds"]
        res["hinted"] += state["hinted"]
        res["mixed_bin"] += state["mixed"]
        res["maxsize"] = max(res["maxsize"], state["maxS"])

    group = []          # the four world lines of one E operation (C++ side)

    def close_group():
        if not group:
            return
        toks = state["cur_e"]
        name = toks[0]
        r = int(toks[1])
        srcs = []
        if name in ("lc", "lca", "laxs", "laxz", "lax0", "sp", "eq", "eqr", "cmp", "copy", "copyn"):
            srcs = [int(toks[2])]
        fs = [fields(g) for g in group]

        def stored(f):
            st = f.get("st", "-")
            if not st.startswith("["):
                return []
            out = []
            for ent in st.strip("[]!TREE").split(";"):
                if ":" in ent:
                    k, v = ent.split(":", 1)
                    try:
                        out.append((int(k), v))
                    except ValueError:
                        pass
            return out
        # taint bookkeeping: a register is tainted by one of the two known-unsafe combinations only when the
        # operation at the known site really left the defect behind in the private Sparse_Row of the real
        # code (a stored zero after the mixed lax0, an entry at or beyond the size after the truncating copy)
        for w in range(4):
            t = state["taint"]
            if name == "new":
                t.pop((w, r), None)
            elif name == "lax0" and rep_sparse(w, r) and not rep_sparse(w, srcs[0]):
                if any(v == "0" for _, v in stored(fs[w])):
                    t[(w, r)] = "lax0-mixed"
            elif name == "copyn" and rep_sparse(w, r) and not rep_sparse(w, srcs[0]) and int(toks[3]) < state["n"].get((w, srcs[0]), 1):
                if any(k >= int(fs[w].get("n", "0")) for k, _ in stored(fs[w])):
                    t[(w, r)] = "trunc-copy"
                else:
                    t.pop((w, r), None)
            elif name in ("copy", "copyn"):
                if (w, srcs[0]) in t:
                    t[(w, r)] = t[(w, srcs[0])]
                else:
                    t.pop((w, r), None)
            elif name in ("lc", "lca", "laxs", "laxz", "lax0") and (w, srcs[0]) in t:
                t[(w, r)] = t[(w, srcs[0])]
        for w in range(4):
            if "n" in fs[w]:
                state["n"][(w, r)] = int(fs[w]["n"])
        if srcs and name in ("lc", "lca", "laxs", "laxz", "lax0", "sp", "eq", "eqr", "cmp"):
            state["mixed"] += 1
        keyf = [(f.get("out"), f.get("n"), f.get("co")) for f in fs]
        if len(set(keyf)) != 1:
            causes = set(state["taint"].get((w, q)) for w in range(4) for q in [r] + srcs) - {None}
            cause = sorted(causes)[0] if causes else "unknown"
            fail({"kind": "dense-sparse-differ", "cause": cause, "op": name,
                  "site": "Linear_Expression_Impl<Row> " + name, "observed": [g for g in group]})
        del group[:]

    cgroup = []

    def close_cgroup():
        if cgroup:
            bodies = set(c.split(" ", 1)[1] for c in cgroup)
            if len(bodies) != 1:
                causes = set(state["taint"].values())
                fail({"kind": "dense-sparse-differ", "cause": sorted(causes)[0] if causes else "unknown",
                      "op": cgroup[0].split()[1], "site": "Constraint/Generator/Congruence built on the expression",
                      "observed": list(cgroup)})
            del cgroup[:]

    if rc1 != 0 and cl:
        cl = cl[:-1]        # the last line of a crashed harness may be cut
    for c in cl:
        if not c or len(c.split()) < 2:
            continue
        if c.startswith("H "):
            close_group(); close_cgroup(); finish_history()
            cur = c.split()[1]
            state = new_state()
            res["histories"] += 1
            if mi < len(mlq) and mlq[mi] == c:
                mi += 1
            else:
                fail({"kind": "model-mismatch", "level": "framing", "op": "H"})
            continue
        if state is None:
            continue
        if c.startswith("!"):
            flag = c.split()[0][1:]
            info = {"kind": "flag", "flag": flag, "line": c[:300]}
            m = re.search(r"k=(\d+)", c)
            if flag == "DCONV" and m:
                info["variant"] = m.group(1)
            if flag == "MIXLC":
                for kk in ("dir", "ranged", "tail"):
                    mm = re.search(kk + r"=(\w+)", c)
                    if mm:
                        info[kk] = mm.group(1)
            fail(info)
            continue
        if re.match(r"C\d ", c):
            close_group()
            cgroup.append(c)
            if len(cgroup) == 4:
                close_cgroup()
            continue
        # a line that the model prints as well
        m = mlq[mi] if mi < len(mlq) else None
        mi += 1
        res["ops"] += 1
        name = c.split()[0] if not re.match(r"E\d ", c) else c.split()[1]
        res["hist"][name] = res["hist"].get(name, 0) + 1
        if re.match(r"E\d ", c):
            w = int(c[1])
            if w == 0:
                close_group()
                state["opi"] += 1
                # recover the tokens of this E operation from the history text
                es = [l for l in hist_lines.get(cur, []) if l.startswith("E ") and l.split()[1] not in ("con", "gen", "cg", "sys", "sysop")]
                state["cur_e"] = es[state["opi"]].split()[1:] if state["opi"] < len(es) else [name, "0"]
            group.append(c)
            if c != m:
                fail({"kind": "model-mismatch", "level": "expression", "op": name, "world": w, "cpp": c[:300], "model": (m or "")[:300]})
            if len(group) == 4:
                close_group()
        else:
            f = fields("T " + c)
            if c != m:
                fail({"kind": "model-mismatch", "level": "tree", "op": name, "cpp": c[:300], "model": (m or "")[:300]})
            if f.get("ok") not in ("1", "~"):
                fail({"kind": "ok-false", "op": name, "cpp": c[:300]})
            try:
                R = int(f.get("R", "0")); S = int(f.get("S", "0"))
            except ValueError:
                R = S = 0
            if state["lastR"] is not None and R != state["lastR"]:
                state["rebuilds"] += 1
            state["lastR"] = R
            state["maxS"] = max(state["maxS"], S)
            if name in ("insh", "inshk", "lb", "find", "bis", "erap") and S >= 7:
                state["hinted"] += 1
    if res["crash"] and state is not None:
        state["failed"] = False
        fail({"kind": "crash", "detail": res["crash"][:300]})
        res["crash"] = None
    try:
        close_group(); close_cgroup()
    except (IndexError, KeyError):
        pass
    finish_history()
    res["failures"] = res["failures"][:20]
    return res


def write_chunk(path, histories):
    with open(path, "w") as f:
        for h in histories:
            f.write("\n".join(h) + "\n")


def run(chk):
    chk.rule = ("histories generated by tools/gen_rows.py from VERIF_SEED: tree histories (Sparse_Row/CO_Tree registers: "
                "insertion orders asc/desc/zigzag/inside-out/random, element counts at 2^k-1 and at the 91%/38% density "
                "thresholds, hinted insert/lower_bound/find/erase with hints begin/end/last/previous result/last erased "
                "slot/position of a key/raw slot, erase during iteration, linear_combine whole and sub-range, "
                "increase_keys_from, erase_element_and_shift_left, swaps, resizes, copies) and expression histories "
                "(Linear_Expression registers in four representation worlds incl. two mixed ones). A history counts as "
                "distinct non-trivial when its text is new and it changed the tree capacity at least twice, or used >= 3 "
                "hinted operations on >= 7 elements, or applied a binary operation whose operands have different "
                "representations in some world.")
    chk.trusted += ["Coq 8.16.1 kernel (coqc), vm_compute in the two refutation lemmas and in Facts_COTree",
                    "extraction (ExtrOcamlBasic only) + OCaml 4.13 compiler", "g++ 12 and the hand-written harness/run_rows.cc, "
                    "ocaml/judge_rows.ml, ocaml/rowsle.ml, tools/gen_rows.py, tools/props/C16.py (glue)",
                    "the hand-written models coq/Rows/{COTree,SparseTree,Dense,Sparse,Expr}.v are tied to the C++ only by "
                    "the differential runs of this check"]
    chk.assumptions += ["Coefficient = mpz_class (unbounded integers), as configured in /repo",
                        "operations are called within the preconditions the code asserts (index < size, nonzero "
                        "linear_combine coefficients, distinct operands)"]
    consts = translate_cotree.translate()
    chk.extra["density_constants"] = consts
    present = [f for f in OPTIONAL_COQ if os.path.exists(os.path.join(common.COQ, f))]
    ok = chk.prove(COQ_FILES + present, extra_obligations=1)   # +1: density_constants_ok re-proved from the regenerated facts
    if not ok:
        return
    common.coq_extract("Extract_rows.v", ["rows.ml", "rows.mli"],
                       deps=COQ_FILES + ["Extract/Extract_rows.v"])
    judge = common.ocaml_build("judge_rows", ["gen/rows.mli", "gen/rows.ml", "rowsle.ml", "judge_rows.ml"])
    exe = common.compile_harness("run_rows.cc")
    os.makedirs(WORK, exist_ok=True)
    for f in os.listdir(WORK):
        os.remove(os.path.join(WORK, f))
    seed = chk.seed
    jobs = []

    # 0. replay / corpus first
    corpus = []
    if chk.replay:
        obj = json.load(open(chk.replay))
        corpus.append(obj.get("history_lines", []))
    cdir = os.path.join(common.VERIF, "corpus", "C16")
    for fn in sorted(os.listdir(cdir)) if os.path.isdir(cdir) else []:
        if fn.endswith(".txt"):
            lines = [l.rstrip("\n") for l in open(os.path.join(cdir, fn)) if l.strip() and not l.startswith("#")]
            corpus.append(lines)
    if corpus:
        p = os.path.join(WORK, "corpus.txt")
        write_chunk(p, corpus)
        jobs.append(p)

    if not chk.replay:
        if chk.quick:
            plan = [("t", 1300, 40), ("t", 250, 300), ("t", 3, 1200), ("e", 700, 0), ("u", 60, 0)]
            per = 100
        else:
            plan = [("t", 90000, 40), ("t", 29000, 200), ("t", 900, 1000), ("t", 16, 5000), ("e", 79000, 0), ("u", 1100, 0)]
            per = 1500
        hid = 0
        ci = 0
        for kind, count, maxn in plan:
            step = per if maxn <= 300 else (20 if maxn <= 1000 else 1)
            i = 0
            while i < count:
                hs = []
                for _ in range(min(step, count - i)):
                    if kind == "t":
                        hs.append(gen_rows.tree_history(seed, hid, maxn))
                    elif kind == "e":
                        hs.append(gen_rows.expr_history(seed, hid, False))
                    else:
                        hs.append(gen_rows.expr_history(seed, hid, True))
                    hid += 1
                    i += 1
                p = os.path.join(WORK, "chunk_%05d.txt" % ci)
                ci += 1
                write_chunk(p, hs)
                jobs.append(p)
        chk.log("generated %d histories in %d chunks" % (hid, ci))

    tot = {"ops": 0, "histories": 0, "hist": {}, "maxsize": 0, "rebuilds": 0, "hinted": 0, "mixed_bin": 0}
    nontriv = set()
    sample_done = 0
    # big chunks first so that the long ones do not trail
    jobs.sort(key=lambda p: -os.path.getsize(p))
    with concurrent.futures.ProcessPoolExecutor(max_workers=max(2, min(common.NCPU, 16))) as ex:
        for res in ex.map(run_chunk, [(p, exe, judge) for p in jobs]):
            if res["crash"]:
                chk.broken.append(("harness-or-model-crash", res["crash"]))
            for k in ("ops", "histories", "rebuilds", "hinted", "mixed_bin"):
                tot[k] += res[k]
            tot["maxsize"] = max(tot["maxsize"], res["maxsize"])
            for k, v in res["hist"].items():
                tot["hist"][k] = tot["hist"].get(k, 0) + v
            nontriv.update(res["nontrivial"])
            for info, lines in res["failures"]:
                if len(chk.violations) >= 8 and chk.match_finding(info) is None:
                    continue        # enough replays written; known findings are still counted
                chk.failure(info, {"history_lines": lines})
    for h in sorted(nontriv):
        chk.nontrivial.add(h)
    chk.evaluations += tot["histories"]
    # samples: a few actual histories
    for p in jobs[-2:]:
        txt = open(p).read().split("\nH ")
        if txt and len(chk.samples) < 4:
            chk.samples.append(("H " + txt[-1] if not txt[-1].startswith("H ") else txt[-1])[:1500])
    chk.extra["operations_compared"] = tot["ops"]
    chk.extra["histogram"] = dict(sorted(tot["hist"].items()))
    chk.extra["max_elements_in_a_tree"] = tot["maxsize"]
    chk.extra["capacity_changes"] = tot["rebuilds"]
    chk.extra["hinted_operations_on_7plus_elements"] = tot["hinted"]
    chk.extra["binary_operations_run_in_mixed_worlds"] = tot["mixed_bin"]
    chk.log("compared %d operation lines over %d histories (max %d elements, %d capacity changes)"
            % (tot["ops"], tot["histories"], tot["maxsize"], tot["rebuilds"]))
    for f in os.listdir(WORK):
        os.remove(os.path.join(WORK, f))
