"""C03: boxes, BD shapes and octagons: every result contains the exact result, for every coefficient type;
definite answers are trustworthy."""
import os
import common, shapescheck, gen_shapes


def owner(kind):
    return kind.startswith("C03:")


def run(chk):
    chk.rule = ("cases in the shapes case language from tools/gen_shapes.py (seeded): for each of the 12 instantiations (BD_Shape / Octagonal_Shape over "
                "mpq, mpz, int8, double; Rational_Box, Z_Box, Int8_Box, Double_Box) histories of 2 objects built by every constructor, then mutators of the "
                "whole common interface with constants drawn at the limits of the carrier (int8: 120..130 and halves; double: thirds, 2^53+-1, 1e300, 2^-1074), "
                "converting constructors from C/NNC polyhedra, grids, generator systems and the other 11 instantiations at each complexity class, pairs "
                "disjoint through a cycle, twins, targeted batteries (half-open boxes met exactly by constraints, non-dividing equalities, general-form transformers on bounded shapes, lazy state vs twin, straddled-equality differences); a step is distinct by (kind, operation text); each result is judged against the exact result computed by "
                "the verified reference on the rational denotation of the ARGUMENTS AS THE IMPLEMENTATION HOLDS THEM (read from its private matrices)")
    chk.trusted += shapescheck.TRUSTED
    chk.assumptions += [
        "the denotation of an integer-bounded box / shape is the real point set between its bounds (as PPL's own constraints() reports it)",
        "carrier laws (add/neg/div/half round upward; negation exact): hypotheses of the DBM/octagon theorems; proved per concrete type by C11, sampled here by the entrywise closure comparison",
        "operators judged only for state invariants (not for value): simplify_using_context_assign, refine/add with proper congruences, relation_with ray/line generators, NOT_EQUAL relation symbol, widenings (outside the property)",
        "constructors from grids: a convex closed set contains a non-empty grid iff it contains its affine hull (equalities of the minimized congruence system), used as the exact result",
    ]
    chk.prove(shapescheck.SHAPES_COQ)
    if chk.replay:
        import json
        rp = json.load(open(chk.replay))
        out, byid = shapescheck.run_cases(chk, "C03", list(rp.get("case", [])), "replay", owner)
        shapescheck.account(chk, out, byid, "replay of " + chk.replay)
        return
    kinds = gen_shapes.ALL_MAIN
    if chk.quick:
        per_op, nmix = 1, 420
    else:
        per_op, nmix = 12, 9000
    lines = []
    cid = 0
    # per-operator streams for every kind, then mixed cases
    for i, op in enumerate(gen_shapes.MUTATORS):
        n = per_op * len(kinds)
        lines += gen_shapes.make_cases(chk.seed * 1000 + i, n, kinds, steps=3, ops=[op, op, op, "add_constraint", "closure"], pq=0.15, start=cid)
        cid += n
    lines += gen_shapes.make_cases(chk.seed * 7919 + 3, nmix, kinds, steps=6, pq=0.3, start=cid)
    # targeted cases: half-open boxes with constraints touching their ends, equalities whose coefficient does not divide the
    # constant (refine_* and converting constructors, every carrier), general-form affine transformers on bounded shapes,
    # queries in the lazy state after dimension changes vs a twin, differences with straddled equalities
    lines += gen_shapes.make_targeted(chk.seed * 104729 + 5, 480 if chk.quick else 4000, kinds)
    # rational / double boxes with half-open intervals get a stream of their own
    lines += gen_shapes.make_targeted(chk.seed * 1299709 + 7, 160 if chk.quick else 1500, ["box_q", "box_d"], start=100000, which=["open_box", "open_box", "diff_eq"])
    # dense family for upper_bound_assign_if_exact (and the integer variant): pairs of small shapes with end points on a tiny
    # grid, sharing / adjacent / crossing faces, both argument orders; and swaps / assignments between lazy states
    lines += gen_shapes.make_targeted(chk.seed * 15485863 + 17, 480 if chk.quick else 3000, kinds, start=200000, which=["ubie", "ubie", "ubie", "swap"])
    # BD shapes / octagons: general-form and one-variable transformers with negative denominators and one unbounded variable
    lines += gen_shapes.make_targeted(chk.seed * 32452843 + 9, 320 if chk.quick else 4000, gen_shapes.MAIN["bds"] + gen_shapes.MAIN["oct"], start=300000, which=["affine_general"])
    # non-dividing divisors in every affine transformer; fold / expand / map / remove with both index orders;
    # relation_with arguments of smaller space dimension
    lines += gen_shapes.make_targeted(chk.seed * 49979687 + 27, 560 if chk.quick else 6000, kinds, start=400000, which=["affine_div", "fold", "relarg", "cg", "simplify"])
    out, byid = shapescheck.run_cases(chk, "C03", shapescheck.corpus_cases("C03") + lines, "c03", owner)
    shapescheck.account(chk, out, byid, "C03_* (closure / refine / meet / join / forget never cut a point; definite answers) + verified inclusion test incl_sys")
