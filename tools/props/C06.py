"""C06 -- MIP solver: status, optimum and witness are right, incrementally or from scratch.

Proof part: coq/MIP/*.v (specification, exact LP + branch-and-bound reference with fuel proved sound,
status machine of MIP_Problem.cc with abstract cores, incremental = fresh).
Tie: harness/run_mip.cc interprets generated histories on the library built from the working tree
(incremental object + two fresh objects per step); ocaml/judge_mip.ml (extracted mip_ref / claim_ok /
step + glue) judges every step."""
import collections, json, os, re, shutil, subprocess, sys, time
import common, gen_mip

COQ_FILES = ["MIP/MipSpec.v", "MIP/MipRef.v", "MIP/MipMachine.v", "MIP/MipExamples.v"]
STEP_TIMEOUT = 6.0


def build_tools(chk):
    common.coq_extract("Extract_mip.v", ["mip.ml", "mip.mli"], deps=COQ_FILES)
    judge = common.ocaml_build("judge_mip", ["gen/mip.mli", "gen/mip.ml", "zutil_mip.ml", "judge_mip.ml"])
    exe = common.compile_harness("run_mip.cc")
    # keep a private copy: common.build_lib may evict the cache directory while another check builds
    bindir = os.path.join(common.BUILD, "c06-bin"); os.makedirs(bindir, exist_ok=True)
    mine = os.path.join(bindir, os.path.basename(exe) + "-" + common.tree_hash("mpzH"))
    if not os.path.exists(mine):
        shutil.copy(exe, mine + ".tmp"); os.rename(mine + ".tmp", mine)
    for old in os.listdir(bindir):
        p = os.path.join(bindir, old)
        if p != mine and time.time() - os.path.getmtime(p) > 6 * 3600:
            try: os.remove(p)
            except OSError: pass
    return mine, judge


def split_cases(lines):
    cases, cur = [], None
    for l in lines:
        if l.startswith("case "):
            cur = [l]; cases.append(cur)
        elif cur is not None and l.strip() and not l.startswith("#"):
            cur.append(l)
    return cases


def run_chunk(exe, cases, workdir, tag):
    """Run cases through the harness; a hang (step timeout) or crash is attributed to the case being run.
    Returns (kept cases, obs lines, incidents[(case, command line, how)])."""
    kept, obs, incidents = [], [], []
    todo = list(cases); rnd = 0
    while todo:
        rnd += 1
        cf = os.path.join(workdir, "%s.%d.case" % (tag, rnd))
        with open(cf, "w") as f:
            for c in todo: f.write("\n".join(c) + "\n")
        try:
            p = subprocess.run([exe, cf, str(STEP_TIMEOUT)], stdout=subprocess.PIPE, stderr=subprocess.PIPE, text=True,
                               timeout=STEP_TIMEOUT * 4 * sum(len(c) for c in todo) + 60)
            rc, out, err = p.returncode, p.stdout, p.stderr
        except subprocess.TimeoutExpired as e:
            rc, out, err = 124, (e.stdout.decode() if isinstance(e.stdout, bytes) else (e.stdout or "")), "timeout"
        os.remove(cf)
        if rc == 3:
            raise RuntimeError("harness rejected a case line (generator/harness bug): %s" % out[-400:])
        blocks = split_cases(out.split("\n"))
        done = [b for b in blocks if b[-1] == "end"]
        kept += todo[:len(done)]
        for b in done: obs += b
        if rc == 0 and len(done) == len(todo):
            break
        k = len(done)
        if k >= len(todo):
            break
        bad = todo[k]
        produced = blocks[k][1:] if k < len(blocks) else []
        nresp = len([l for l in produced if l.startswith("r ")])
        nfresh = len([l for l in produced if l.startswith("f ")])
        cmds = bad[1:-1]
        # which call did not return: the incremental one (no r line yet) or one of the fresh objects (r and s lines are flushed)
        idx = min(nfresh, len(cmds) - 1)
        where = "incremental" if nresp == nfresh else "fresh"
        how = "timeout" if (rc == 4 or rc == 124 or "TIMEOUT" in out[-200:]) else "crash rc=%d %s" % (rc, (err or "").strip()[-200:])
        # root-cause probe lines printed before each command ("b risk 1"): did any query (or the hanging command) start from a risky state?
        risks = [l.endswith(" 1") for l in produced if l.startswith("b risk")]
        risky = any(r and (i < len(cmds)) and cmds[i].split(" ")[0] in ("solve", "issat", "fpoint", "opoint", "oval") for i, r in enumerate(risks))
        incidents.append((bad, idx, where, how, risky))
        todo = todo[k + 1:]
    return kept, obs, incidents


def run_all(exe, judge, lines, workdir, tag, budget):
    """harness + judge over parallel chunks. Returns dict(fails, undecided, stat, cov, incidents, byid)."""
    os.makedirs(workdir, exist_ok=True)
    cases = split_cases(lines)
    byid = {c[0].split(" ")[1]: c for c in cases}
    n = max(1, min(common.NCPU, len(cases) // 20 + 1))
    chunks = [cases[i::n] for i in range(n)]
    import concurrent.futures as cf
    results = []
    with cf.ThreadPoolExecutor(max_workers=n) as ex:
        futs = [ex.submit(run_chunk, exe, ch, workdir, "%s-%d" % (tag, i)) for i, ch in enumerate(chunks)]
        results = [f.result() for f in futs]
    def judge_one(i, kept, obs):
        cfn = os.path.join(workdir, "%s-%d.kept" % (tag, i)); ofn = os.path.join(workdir, "%s-%d.obs" % (tag, i))
        with open(cfn, "w") as f:
            for c in kept: f.write("\n".join(c) + "\n")
        with open(ofn, "w") as f: f.write("\n".join(obs) + "\n")
        env = dict(os.environ); env["VERIF_JUDGE_BUDGET"] = str(budget)
        rc, out = common.sh([judge, cfn, ofn], timeout=7200, env=env)
        os.remove(cfn); os.remove(ofn)
        return rc, out
    with cf.ThreadPoolExecutor(max_workers=n) as ex:
        futs = [ex.submit(judge_one, i, r[0], r[1]) for i, r in enumerate(results)]
        jouts = [f.result() for f in futs]
    fails, undec, stat, cov, incidents, nontrivial = [], [], collections.Counter(), collections.Counter(), [], set()
    for (kept, obs, inc), (rc, out) in zip(results, jouts):
        incidents += inc
        got_stat = False
        for l in out.split("\n"):
            if l.startswith("FAIL ") or l.startswith("UNDECIDED "):
                head, line, feats = (l.split(" | ") + ["", ""])[:3]
                h = head.split(" ")
                fd = dict(kv.split("=", 1) for kv in feats.split(" ") if "=" in kv)
                rec = dict(verdict=h[0], case=h[1], step=int(h[2]), kind=h[3], line=line, feats=fd)
                (fails if h[0] == "FAIL" else undec).append(rec)
            elif l.startswith("STAT "):
                t = l.split(" "); got_stat = True
                for i in range(1, len(t) - 1, 2): stat[t[i]] += int(t[i + 1])
            elif l.startswith("COV "):
                t = l.split(" "); cov[t[1]] += int(t[2])
            elif l.startswith("NT "):
                nontrivial.add(l.split(" ")[1])
            elif l.startswith("JUDGE-ERROR"):
                raise RuntimeError("judge: " + l)
        if rc != 0 or not got_stat:
            raise RuntimeError("judge failed (rc=%s): %s" % (rc, out[-1500:]))
    return dict(fails=fails, undecided=undec, stat=stat, cov=cov, incidents=incidents, byid=byid, nontrivial=nontrivial)


# ------------------------------------------------------------------------------------------------
# classification of a failing case (root-cause predicates, see known_findings.d/C06.json)

def classify(case_fails):
    """case_fails: the FAIL records of one case. Returns the info dict matched against known findings."""
    first = min(f["step"] for f in case_fails)
    at = [f for f in case_fails if f["step"] == first]
    kinds = sorted(set(f["kind"] for f in at))
    ft = at[0]["feats"]
    info = {"kinds": "+".join(kinds), "pricing": ft.get("pricing"), "ref": (ft.get("ref") or "").split(":")[0],
            "relax": (ft.get("relax") or "").split(":")[0], "integer_variables": ft.get("ints") != "0",
            "fresh_agrees_with_ref": ft.get("fresh_agrees_with_ref"), "step": first, "line": at[0]["line"]}
    got = [f["feats"].get("got") for f in at if f["kind"] in ("answer/solve", "fresh/solve") and f["feats"].get("got")]
    info["got"] = (got[0].split(":")[0] if got else None)
    # root-cause predicates
    # (1) solve_mip: LP relaxation unbounded with a vertex that is fractional on an integer variable ->
    #     the recursion's UNBOUNDED children never set have_incumbent_solution -> UNFEASIBLE is returned
    wrong_unf = all(f["kind"] in ("answer/solve", "fresh/solve", "state/UNSATISFIABLE", "answer/fpoint", "answer/issat", "machine/output",
                                  "answer/oval", "answer/opoint") for f in at)
    info["unbounded_relaxation_reported_unfeasible"] = bool(
        info["ref"] == "UNB" and info["relax"] == "UNB" and info["integer_variables"] and wrong_unf and
        any(f["feats"].get("got") == "UNF" or f["kind"] == "state/UNSATISFIABLE" for f in at))
    #     same, when the reference could not decide the MIP: the relaxation is unbounded, solve() says UNFEASIBLE and
    #     is_satisfiable() on the same data says satisfiable
    if (info["ref"] == "?" and info["relax"] == "UNB" and info["integer_variables"] and
            all(f["kind"] in ("fresh/solve-vs-sat", "incr-vs-fresh/solve") for f in at) and
            all(f["feats"].get("solve") == "UNF" and f["feats"].get("sat") == "true" for f in at if f["kind"] == "fresh/solve-vs-sat")):
        info["unbounded_relaxation_reported_unfeasible"] = True
    # (2) incremental-only wrong optimum: the fresh object is right, the incremental object reports an infeasible / suboptimal point
    info["incremental_only"] = bool(ft.get("fresh_agrees_with_ref") == "true" and
                                    all(not f["kind"].startswith("fresh/") for f in at))
    #     root cause probe of the harness: pending constraints were incorporated while last_generator (the point of a
    #     descendant MIP problem) satisfied a pending inequality that the tableau's own basic solution violates
    info["stale_last_generator_slack_made_basic"] = (ft.get("tainted") == "true")
    return info


def data_features(judge, case, upto, workdir):
    """features of the data reached by the first `upto` commands of a case (used for hangs, which the judge never sees)"""
    fn = os.path.join(workdir, "data-%d.case" % os.getpid())
    with open(fn, "w") as f:
        f.write("\n".join([case[0]] + case[1:1 + upto] + ["end"]) + "\n")
    rc, out = common.sh([judge, "--data", fn], timeout=600)
    os.remove(fn)
    for l in out.split("\n"):
        if l.startswith("DATA "):
            return dict(kv.split("=", 1) for kv in l.split(" ")[2:] if "=" in kv)
    return {}


def run(chk):
    chk.rule = ("histories from tools/gen_mip.py (seeded): a problem drawn from a family aimed at one branch of the solver (bounded all-integer boxes, "
                "random rows, degenerate vertices, free variables, equalities, redundant rows, slab without integer point under an unbounded relaxation, "
                "unbounded relaxation with fractional vertex, thin regions needing several branchings, objective parallel to a facet, dimension 0/1, linearly dependent / duplicated / scaled equalities at every position through a degenerate vertex, cones / pyramids in 3-5 variables with >= d+2 constraints tight at the apex) "
                "turned into a history by a shape (constructor + solve; constraints one by one with is_satisfiable() every k-th; solve / change objective, "
                "mode, constraints, pricing / solve again; random interleaving of all mutators and queries; solve or is_satisfiable, THEN new space dimensions whose variables have their own sign / boundedness pattern, constraints on them, new objective, re-solves), pricing rule cycling over the three values; "
                "1-4 variables, coefficients in [-5,5]; a case is distinct by the text of its history and non-trivial when at least one of its queries "
                "(solve / is_satisfiable / feasible_point / optimizing_point / optimal_value) was compared with a DECIDED reference answer")
    chk.trusted += ["Coq 8.16.1 kernel; vm_compute in MIP/MipExamples.v (closed computations only)",
                    "extraction (ExtrOcamlBasic only) of mip_ref / claim_ok / sat_claim_ok / feasible_b / step / apply_data into ocaml/gen/mip.ml; OCaml 4.13.1",
                    "hand-written glue: harness/run_mip.cc (prints what the library returns, its status keyword from ascii_dump, last_generator, OK()), "
                    "ocaml/judge_mip.ml (parsing, calling the extracted functions, comparing), tools/gen_mip.py, tools/props/C06.py",
                    "the Gallina transcription of the status machine (MIP/MipMachine.v) from src/MIP_Problem.cc / MIP_Problem_inlines.hh"]
    chk.assumptions += ["simplex pivots, pricing, artificial variables, split/merged variables and the branch-and-bound recursion of the library are NOT modelled: "
                        "they are the abstract cores of MipMachine.v, whose hypothesis (returns the specification's answer) is validated step by step against mip_ref",
                        "a reference answer OutOfFuel / over the time budget makes the step UNDECIDED (then only incremental-vs-fresh and witness checks are judged)",
                        "the branching cut that is_satisfiable() leaves in input_cs is not part of the modelled data (theorem valid_cut_neutral covers its neutrality)"]
    chk.prove(COQ_FILES)
    exe, judge = build_tools(chk)
    work = os.path.join(common.BUILD, "c06-work-%d" % os.getpid())
    os.makedirs(work, exist_ok=True)
    try:
        # corpus first
        cdir = os.path.join(common.VERIF, "corpus", "C06")
        lines = []
        if chk.replay:
            rp = json.load(open(chk.replay))
            lines = rp.get("case", [])
        else:
            for f in sorted(os.listdir(cdir)) if os.path.isdir(cdir) else []:
                if f.endswith(".case"):
                    lines += [l for l in open(os.path.join(cdir, f)).read().split("\n") if l.strip() and not l.startswith("#")]
            n_gen = 700 if chk.quick else 24000
            n_known = 300 if chk.quick else 12000
            g, meta = gen_mip.make_cases(chk.seed * 7919 + 6, n_gen)
            k, meta2 = gen_mip.known_family(chk.seed * 104729 + 6, n_known)
            de, meta3 = gen_mip.depeq_cases(chk.seed * 15485863 + 6, 450 if chk.quick else 12000)
            da, meta4 = gen_mip.dims_after(chk.seed * 32452843 + 6, 450 if chk.quick else 12000)
            dg, meta5 = gen_mip.degenerate_cases(chk.seed * 49979687 + 6, 400 if chk.quick else 16000)
            lines += g + k + de + da + dg
        budget = 2.0 if chk.quick else 4.0
        out = run_all(exe, judge, lines, work, "c06", budget)
    finally:
        shutil.rmtree(work, ignore_errors=True)
    stat, cov = out["stat"], out["cov"]
    chk.evaluations += stat.get("steps", 0)
    chk.undecided += stat.get("undecided", 0)
    chk.extra["cases"] = stat.get("cases", 0)
    chk.extra["verified_checks"] = stat.get("checks", 0)
    chk.extra["distinct_problems"] = stat.get("distinct_problems", 0)
    chk.extra["distinct_problems_decided_by_reference"] = stat.get("distinct_decided", 0)
    chk.extra["judge_timeouts"] = stat.get("timeouts", 0)
    chk.extra["command_histogram"] = {k[4:]: v for k, v in sorted(cov.items()) if k.startswith("cmd:")}
    chk.extra["reference_status_histogram"] = {k[4:]: v for k, v in sorted(cov.items()) if k.startswith("ref:")}
    chk.extra["relaxation_vs_mip"] = {k[7:]: v for k, v in sorted(cov.items()) if k.startswith("family:")}
    chk.extra["status_keywords_reached"] = {k[6:]: v for k, v in sorted(cov.items()) if k.startswith("state:")}
    chk.extra["machine_transitions_exercised"] = len([k for k in cov if k.startswith("transition:")])
    chk.extra["traces_validated_against_impl"] = stat.get("cases", 0)
    chk.extra["library_hangs_or_crashes"] = len(out["incidents"])
    for cid, c in list(out["byid"].items())[:3]:
        chk.samples.append(" ; ".join(c[:10]))
    for cid, c in out["byid"].items():
        if cid in out["nontrivial"]:
            chk.nontrivial.add(" ".join(c[1:]))
    # failures, one per case
    # two groups per case, judged separately so that a complaint of OK() cannot hide a wrong answer
    per_case = collections.defaultdict(list)
    for f in out["fails"]:
        per_case[(f["case"], "ok" if f["kind"].startswith("ok/") or f["kind"] == "fresh/ok-false" else "sem")].append(f)
    census = collections.Counter()
    for (cid, grp), fs in sorted(per_case.items()):
        info = classify(fs)
        info["keyword"] = fs[0]["feats"].get("keyword")
        if grp == "ok":
            f0 = [f for f in fs if f["step"] == info["step"]][0]["feats"]
            info["last_generator_integral_on_integer_variables"] = f0.get("last_generator_integral_on_integer_variables")
            info["integer_variable_beyond_last_generator"] = f0.get("integer_variable_beyond_last_generator")
        census[(info["kinds"], info["pricing"], "unb->unf" if info["unbounded_relaxation_reported_unfeasible"] else "", "incr-only" if info["incremental_only"] else "",
                "tainted" if info["stale_last_generator_slack_made_basic"] else "", info["keyword"])] += 1
        chk.failure(info, {"case": out["byid"].get(cid, []), "step": info["step"], "line": info["line"],
                           "judge": [dict(kind=f["kind"], step=f["step"], **f["feats"]) for f in fs[:6]],
                           "theorem": "bnb_sound + claim_check_sound (reference answer) ; machine_answers_correct / incremental_equals_fresh",
                           "replay_cmd": "./check C06 --replay <this file>"})
    os.makedirs(work, exist_ok=True)
    for (case, idx, where, how, risky) in out["incidents"]:
        df = data_features(judge, case, idx + 1, work)
        info = {"kinds": "hang-or-crash", "where": where, "detail": how,
                "line": case[1 + idx] if 1 + idx < len(case) else "?",
                "integer_variables": df.get("ints", "0") != "0", "relaxation_region_bounded": df.get("relaxation_region_bounded"),
                "ref": (df.get("ref") or "").split(":")[0], "stale_last_generator_slack_made_basic": risky}
        census[(info["kinds"], where, info["integer_variables"], info["relaxation_region_bounded"], "tainted" if risky else "")] += 1
        chk.failure(info, {"case": case, "step": idx + 1, "how": how, "features": df})
    shutil.rmtree(work, ignore_errors=True)
    chk.extra["failure_census"] = {"|".join(str(x) for x in k): v for k, v in sorted(census.items(), key=lambda kv: -kv[1])}
    if stat.get("checks", 0) and stat.get("undecided", 0) * 20 > stat["checks"]:
        chk.broken.append(("too-many-undecided", "%d undecided against %d checks" % (stat["undecided"], stat["checks"])))
