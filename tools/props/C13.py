"""C13: objects are values -- copies are independent, const arguments unchanged, aliased arguments safe,
self-assignment / self-swap harmless.

Proof part: coq/Values/*.v (store-level models of the places where the C++ shares or reuses storage) and
coq/Properties/Properties_C13.v.  Tie: generated histories (tools/gen_alias.py) run on the real library by
harness/run_alias.cc and judged by ocaml/judge_alias.ml with the verified oracles (equiv_sys, cover_equiv,
gens_equiv)."""
import os, re, json, shutil, subprocess, collections
import common, gen_alias

COQ_FILES = ["Base/FM.v", "Base/Sys.v", "Values/Cover.v", "Values/Store.v", "Values/Pool.v", "Values/Cow.v",
             "Values/LinExpr.v", "Values/LinSys.v", "Values/SwapVec.v", "Values/Lazy.v"]

DOM_ORDER = ["C", "NNC", "Grid", "BDS", "Oct", "Box", "PS", "Prod", "LE", "CS", "GS", "ITV", "PIP", "MIP"]


def build():
    common.coq_extract("Extract_values.v", ["values.ml", "values.mli"], deps=["Values/Cover.v", "Base/Sys.v", "Base/FM.v", "Extract/Extract_values.v"])
    common.coq_extract("Extract_grid.v", ["grid.ml", "grid.mli"],
                       deps=["Grid/QVec.v", "Grid/IntLin.v", "Grid/GridSem.v", "Grid/GridRef.v", "Extract/Extract_grid.v"])
    judge = common.ocaml_build("judge_alias", ["gen/values.mli", "gen/values.ml", "gen/grid.mli", "gen/grid.ml", "judge_alias.ml"])
    exe = common.compile_harness("run_alias.cc")
    # private copy: other checks running on scratch trees may clean the shared library cache
    bindir = os.path.join(common.BUILD, "c13-bin")
    os.makedirs(bindir, exist_ok=True)
    mine = os.path.join(bindir, os.path.basename(exe) + "-" + os.path.basename(os.path.dirname(exe)))
    if not os.path.exists(mine):
        for old in os.listdir(bindir):
            try: os.remove(os.path.join(bindir, old))
            except OSError: pass
        shutil.copy(exe, mine)
    return mine, judge


def split_cases(lines):
    cases, cur = [], None
    for l in lines:
        if l.startswith("case "):
            cur = [l]; cases.append(cur)
        elif cur is not None and l.strip():
            cur.append(l)
    return cases


def run_harness(exe, cases, work, tag, timeout=2400):
    """The harness runs every case in its own process and prints `crashed signal N` for a case that died.
    Crashed cases are dropped from the judged trace and reported.
    Returns (trace_text, crashes) with crashes = [(case_lines, cmd_line, prev_cmds, how)]."""
    os.makedirs(work, exist_ok=True)
    cf = os.path.join(work, "%s.case" % tag)
    with open(cf, "w") as f:
        for c in cases: f.write("\n".join(c) + "\n")
    p = subprocess.run([exe, cf], stdout=subprocess.PIPE, stderr=subprocess.PIPE, text=True, timeout=timeout)
    if p.returncode != 0:
        raise RuntimeError("harness failed (rc=%s; generator/harness bug): %s" % (p.returncode, p.stdout[-600:]))
    byid = {c[0].split(" ")[1]: c for c in cases}
    trace, crashes, cur = [], [], []
    for l in p.stdout.split("\n"):
        if l.startswith("case "):
            cur = [l]
        elif l.startswith("crashed "):
            cmds = [x[4:] for x in cur if x.startswith("cmd ")]
            sig = l.split(" ")[-1]
            how = "timeout" if sig == "14" else "crash signal " + sig
            crashes.append((byid[cur[0].split(" ")[1]], cmds[-1] if cmds else "(none)", cmds[:-1], how))
            cur = None
        elif l == "end":
            if cur is not None: trace += cur + [l]
            cur = []
        elif cur is not None:
            cur.append(l)
    return "\n".join(trace) + "\n", crashes


def run_judge(judge, trace, work, tag, timeout=3000):
    tf = os.path.join(work, tag + ".trace")
    with open(tf, "w") as f: f.write(trace)
    rc, out = common.sh([judge, tf], timeout=timeout)
    fails, und, stat, cov = [], [], {}, {}
    for l in out.split("\n"):
        if l.startswith("FAIL ") or l.startswith("UNDECIDED "):
            head, *rest = l.split(" | ")
            h = head.split(" ")
            rec = dict(verdict=h[0], case=h[1], step=int(h[2]), kind=h[3], line=rest[0] if rest else "", detail=rest[1] if len(rest) > 1 else "")
            (fails if h[0] == "FAIL" else und).append(rec)
        elif l.startswith("STAT "):
            t = l.split(" ")
            stat = {t[i]: int(t[i + 1]) for i in range(1, len(t) - 1, 2)}
        elif l.startswith("COV "):
            t = l.split(" ")
            cov[t[1]] = int(t[2])
    if rc != 0 or not stat:
        raise RuntimeError("judge failed (rc=%s): %s" % (rc, out[-1500:]))
    return fails, und, stat, cov


# ---------------------------------------------------------------------------------------------------------------
def aliasing_of(t):
    """aliasing pattern of an `op X f Y [.. Z]` / `qry X f Y` line: which object positions coincide"""
    if len(t) < 4 or not t[3].lstrip("-").isdigit(): return "unary"
    if t[2] in ("add_assign", "sub_assign", "mul_assign", "div_assign", "join3", "intersect3") and len(t) == 5 and t[4].isdigit():
        z, x, y = t[1], t[3], t[4]       # three-address interval arithmetic z.op(x, y)
        if z == x == y: return "z=x=y"
        if z == x: return "z=x"
        if z == y: return "z=y"
        if x == y: return "x=y"
        return "distinct"
    x, y = t[1], t[3]
    z = t[-1] if (t[2].endswith("_extrapolation_assign_of") and len(t) >= 5) else None
    if z is None: return "x=y" if x == y else "distinct"
    if x == y == z: return "x=y=z"
    if x == y: return "x=y"
    if x == z: return "x=z"
    if y == z: return "y=z"
    return "distinct"


def op_context(case, step):
    """the operation a judge finding at `step` is about: for eq / eqres directives the nearest preceding op / qry line"""
    i = min(step, len(case) - 1)
    while i > 0 and case[i].split(" ")[0] in ("eq", "eqres", "eqres3", "note"):
        i -= 1
    return case[i]


def classify(dom, kind, opline, detail=""):
    t = opline.split(" ")
    op = t[2] if t[0] in ("op", "qry") and len(t) > 2 else t[0]
    info = {"dom": dom, "kind": kind, "op": op, "aliasing": aliasing_of(t) if t[0] in ("op", "qry") else "n/a"}
    site = None
    if dom == "LE" and kind == "pair" and info["aliasing"] == "x=y":
        m = re.search(r"flags=(\w+)", detail)
        rep = m.group(1) if m else "?"
        cancels = (op == "sub_assign") or (op == "add_mul_assign" and t[4] == "-1") or (op == "sub_mul_assign" and t[4] == "1") \
            or (op == "linear_combine_c" and t[4] == "1" and t[5] == "-1")
        if rep == "sparse" and cancels:
            site = "Sparse_Row::linear_combine(y,1,c2):this==&y,coefficient-cancels"
        elif op == "linear_combine_c" and t[4] != "1":
            site = "Linear_Expression::linear_combine(y,c1,c2):this==&y,c1!=1"
    al = info["aliasing"]
    if op.endswith("_extrapolation_assign_of") and al in ("x=z", "y=z", "x=y=z"):
        if dom in ("C", "NNC"): site = "Polyhedron::limited_*_extrapolation_assign(y,cs):cs-is-con_sys-of-x-or-y"
        if dom == "Grid": site = "Grid::limited_*_extrapolation_assign(y,cgs):cgs-is-con_sys-of-x-or-y"
    if dom in ("C", "NNC") and op == "add_generator_first_of" and al == "x=y" and kind in ("crash", "pair", "pair-OK"):
        site = "Polyhedron::add_generator(g):g-refers-into-own-gen_sys"
    if dom == "PS" and al == "x=y":
        if op == "strictly_contains" and kind == "pairres" and re.search(r"twinflags=\S*e", detail):
            site = "Pointset_Powerset::strictly_contains(y):y-not-omega-reduced,empty-disjunct"
        if op in ("BGP99_extrapolation_assign", "BHZ03_widening_assign") and kind == "pair":
            site = "Pointset_Powerset::extrapolation(y):this==&y,y-read-after-x-collapsed"
        if op == "simplify_using_context_assign" and kind == "pair":
            site = "Pointset_Powerset::simplify_using_context_assign(y):this==&y"
    if site: info["site"] = site
    return info


def plan_for(chk):
    if chk.quick:
        n = {"C": 28, "NNC": 28, "Grid": 28, "BDS": 20, "Oct": 20, "Box": 20, "PS": 22, "Prod": 16, "LE": 14, "CS": 12, "GS": 12, "ITV": 30, "PIP": 30, "MIP": 20}
        steps = 14
    else:
        n = {"C": 900, "NNC": 900, "Grid": 800, "BDS": 600, "Oct": 600, "Box": 600, "PS": 600, "Prod": 400, "LE": 300, "CS": 250, "GS": 250, "ITV": 600, "PIP": 500, "MIP": 400}
        steps = 18
    sw = 5 if chk.quick else 60
    sweeps = [("sweep:" + d, sw * (2 if d in ("C", "NNC") else 1), 0) for d in ("C", "NNC", "Grid", "BDS", "Oct", "Box", "PS", "Prod")]
    return [(d, n[d], steps) for d in DOM_ORDER] + sweeps


def run(chk):
    chk.rule = ("per domain (C/NNC polyhedra, Grid, BD_Shape<mpq>, Octagonal_Shape<mpq>, Rational_Box, Pointset_Powerset<C_Polyhedron>, "
                "Constraints_Product<C_Polyhedron,BD_Shape<mpq>>, Linear_Expression, Constraint_System, Generator_System): seeded histories over a pool of 4 "
                "objects (tools/gen_alias.py) with copy construction, destruction, assignment, swap, SELF-assignment, SELF-swap, unary mutators, observers "
                "called on the object itself (they move the lazy state) and EVERY binary/ternary operation and binary query run as a pair: once as chosen "
                "(receiver/argument/system-argument coinciding in every pattern x=y, x=z, y=z, x=y=z, or distinct) and once on fresh copies of every operand; "
                "for powersets the operands are first made to SHARE Determinate representations by every route (self, copy ctor, operator=, swap back and forth, "
                "upper_bound_assign / least_upper_bound_assign, add_disjunct of the other's disjunct) and every disjunct-wise or collection-level operation and query is run a "
                "THIRD time on deep, unshared rebuilds of both operands (each disjunct rebuilt from its constraints): call as chosen = call on copies = call on rebuilds; "
                "every const argument of every binary operation / query is also checked DIRECTLY inside the harness (copy before vs copy after with the library's ==, both containments, "
                "dimension, OK()), and dedicated sweep cases run EVERY binary operation and query of each domain with the argument in the plain / empty-meet / empty-argument / "
                "empty-receiver configurations (strict constraints for NNC); Rational_Interval three-address arithmetic (add/sub/mul/div/join/intersect, compound operators, neg) with "
                "the receiver as first, second or both operands over all sign classes and open/closed/unbounded ends; PIP_Problem / MIP_Problem copies, assignments and swaps of solved "
                "problems followed by mutation / clearing / destruction of the source (value read from the object itself: printed solution tree, parametric values of every leaf, every "
                "tree node owned by this very problem; MIP status and optimum); "
                "after EVERY command every pool object is re-read through a fresh copy and compared AS A SET with what it denoted before (verified equiv_sys / "
                "cover_equiv / gens_equiv; identical text is accepted without the oracle); distinct non-trivial = distinct (domain, operation, aliasing pattern) "
                "triples exercised plus distinct (domain, status-flag vector) pairs reached")
    chk.trusted += [
        "Coq 8.16.1 kernel (coqc); vm_compute only in the Examples; no native_compute; axioms: none (every theorem of Properties_C13.v prints 'Closed under the global context')",
        "extraction: ExtrOcamlBasic only; Z/positive/nat/Q stay the extracted inductive types; OCaml 4.13.1 ocamlopt",
        "hand-written store-level models in coq/Values/*.v of Determinate (copy-on-write), Linear_Expression (impl pointer), Linear_System::insert*, Swapping_Vector::resize/reserve, lazy const update: each transcribes the cited C++ functions by hand",
        "unverified glue: harness/run_alias.cc + vh_common.hh (interpreter, printers; values are read through the copy constructor of the class under test), ocaml/judge_alias.ml (parsing, which objects a command may change), tools/gen_alias.py, tools/props/C13.py; g++ 12.2, GMP",
    ]
    chk.assumptions += [
        "everything NOT modelled at store level (all numeric algorithms of the domains: conversion, minimisation, closure, widenings, ...) is covered per run by the correspondence check only, not by proof",
        "an object's value is read through a fresh copy made by the class's own copy constructor (copy construction is itself judged: `copy X Y` must denote Y, and grids are cross-checked generators vs congruences)",
        "grids are compared through their generator descriptions with gens_equiv (proved sound; complete except when the rejected generator is a line)",
        "BD shapes / octagons / boxes are instantiated over mpq_class, where constraints() is exact; other carriers are not run",
        "operations excluded from generation, with reasons: " + json.dumps(gen_alias.EXCLUDED),
        "crashes of a call executed on FRESH COPIES only (the un-aliased twin, or a unary mutator with literal arguments) are other properties' business and are only counted (coverage.crashes_outside_property)",
    ]
    chk.prove(COQ_FILES)
    exe, judge = build()
    work = os.path.join(common.BUILD, "work-C13-%d" % os.getpid())
    shutil.rmtree(work, ignore_errors=True)

    lines = []
    # corpus first
    cdir = os.path.join(common.VERIF, "corpus", "C13")
    if os.path.isdir(cdir):
        for f in sorted(os.listdir(cdir)):
            if f.endswith(".case"):
                lines += [l for l in open(os.path.join(cdir, f)).read().split("\n") if l and not l.startswith("#")]
    if chk.replay:
        rp = json.load(open(chk.replay))
        lines = list(rp.get("case", []))
    else:
        lines += gen_alias.make_cases(chk.seed * 7919 + 13, plan_for(chk), maxdim=3, start=0)
    cases = split_cases(lines)
    byid = {c[0].split(" ")[1]: c for c in cases}
    domof = {c[0].split(" ")[1]: c[0].split(" ")[2] for c in cases}

    trace, crashes = run_harness(exe, cases, work, "c13")
    fails, und, stat, cov = run_judge(judge, trace, work, "c13")
    shutil.rmtree(work, ignore_errors=True)

    # ---- coverage ----
    chk.evaluations += stat.get("steps", 0)
    chk.undecided += len(und)
    pats = collections.Counter()
    for c in cases:
        dom = c[0].split(" ")[2]
        for l in c[1:]:
            t = l.split(" ")
            if t[0] in ("op", "qry") and t[1] not in ("10", "11", "12", "20", "21", "22"):
                key = "%s:%s:%s" % (dom, t[2], aliasing_of(t))
                pats[key] += 1
                chk.nontrivial.add(key)
    for k in cov:
        if k.startswith("flags:"): chk.nontrivial.add(k)
    chk.extra["cases"] = stat.get("cases", 0)
    chk.extra["verified_checks"] = stat.get("checks", 0)
    chk.extra["oracle_calls"] = stat.get("oracle", 0)
    chk.extra["syntactic_equalities"] = stat.get("syntactic", 0)
    chk.extra["judge_timeouts"] = stat.get("timeouts", 0)
    chk.extra["pairs_per_domain"] = {k[5:]: v for k, v in sorted(cov.items()) if k.startswith("pair:")}
    per_dom = collections.Counter()
    for k, v in cov.items():
        if k.startswith("op:"): per_dom[k.split(":")[1]] += v
    chk.extra["steps_per_domain"] = dict(per_dom)
    al = collections.Counter()
    for k, v in pats.items(): al[k.split(":")[2]] += v
    chk.extra["aliasing_pattern_histogram"] = dict(al)
    chk.extra["operation_pattern_triples"] = len(pats)
    chk.extra["exceptions_seen"] = {k[4:]: v for k, v in sorted(cov.items()) if k.startswith("exn:")}
    chk.extra["status_vectors_reached"] = len([k for k in cov if k.startswith("flags:")])
    chk.extra["traces_validated_against_impl"] = stat.get("cases", 0)
    for c in cases[:2] + cases[len(cases) // 2: len(cases) // 2 + 1]:
        chk.samples.append(" ; ".join(c[:12]))

    # ---- findings ----
    for f in fails:
        case = byid.get(f["case"], [])
        dom = domof.get(f["case"], "?")
        opline = op_context(case, f["step"]) if case else f["line"]
        info = classify(dom, f["kind"].split("/")[0], opline, f["detail"])
        info["detail"] = f["detail"][:400]
        chk.failure(info, {"case": case, "step": f["step"], "line": f["line"], "op_line": opline, "judge": f["detail"],
                           "theorem": "per-run correspondence (not modelled at store level) -- see Properties_C13.v for the modelled mechanisms"})
    outside = 0
    for (case, cmd, prev, how) in crashes:
        dom = case[0].split(" ")[2]
        t = cmd.split(" ")
        twin_ok = False
        if t[0] in ("op", "qry") and len(t) > 3 and t[1] not in ("10", "11", "12", "20", "21", "22") and prev:
            pt = prev[-1].split(" ")
            twin_ok = (pt[0] == t[0] and pt[1] == "10" and pt[2] == t[2])
        lifecycle = t[0] in ("copy", "del", "obs") or (t[0] == "op" and t[2] in ("assign", "swap", "std_swap"))
        if twin_ok or lifecycle:
            info = classify(dom, "crash", cmd)
            info["detail"] = how
            chk.failure(info, {"case": case, "line": cmd, "how": how,
                               "note": "the same call on fresh copies of every operand completed" if twin_ok else "copy / destroy / assign / swap / observer crashed"})
        else:
            outside += 1
    chk.extra["crashes_outside_property"] = outside
    if stat.get("checks", 0) and len(und) * 50 > stat["checks"]:
        chk.broken.append(("too-many-undecided", "%d of %d checks undecided" % (len(und), stat["checks"])))
