"""C14: exceptional exits are clean.
(a) rejected calls: the argument-validation ladders of Polyhedron modelled in coq/Except/Precond.v (precond_complete ...), tied to the
    library by ill-formed calls enumerated from the ladders' own case structure: class of the exception = the model's, every object
    unchanged (verified equiv_sys of the polyhedron judge), still usable.
(b) failure mid-flight: the hand-written guards modelled in coq/Except/Alloc*.v (unwind_balanced for all fault positions, refutations for
    the two defective functions), tied by comparing allocation traces event for event; everything else is EXHAUSTIVE FAULT ENUMERATION on
    the real code (operator new and GMP allocation failing at position k, abandonment at checkpoint k, weight thresholds, coefficient
    overflow on the checked-int8 build) and is reported as enumeration, not proof."""
import os, json, hashlib, shutil, re, time
import common, polycheck, polyrun, c14_fault, c14_reject, c14_rejdom

BIN = os.path.join(common.BUILD, "c14-bin")
HDRS = ["c14_alloc.h", "c14_scenarios.h", "c14_scenarios2.h"]


def retry(f, *a, **k):
    for i in range(4):
        try:
            return f(*a, **k)
        except (common.BuildError, OSError) as e:
            last = e; time.sleep(2 + 3 * i)
    raise last


def build_fault(config):
    """harness/run_fault.cc linked with the library built from the tree; the executable is copied out of the shared cache
    (other checks building a different tree may evict the cache directory while this check runs)."""
    h = hashlib.sha256()
    for f in HDRS:
        h.update(open(os.path.join(common.VERIF, "harness", f), "rb").read())
    os.makedirs(BIN, exist_ok=True)
    with common.Lock("c14-link-" + config):
        exe = retry(common.compile_harness, "run_fault.cc", config=config, extra=["-rdynamic", "-DC14_HDR=" + h.hexdigest()[:10]], libs=("-lgmpxx", "-lgmp", "-ldl"))
        dst = os.path.join(BIN, "run_fault_%s_%s" % (config, os.path.basename(os.path.dirname(exe))[-16:] + os.path.basename(exe)[-10:]))
        if not os.path.exists(dst):
            for old in os.listdir(BIN):
                if old.startswith("run_fault_%s_" % config):
                    try: os.remove(os.path.join(BIN, old))
                    except OSError: pass
            shutil.copy(exe, dst)
    return dst


def build_rejdom():
    os.makedirs(BIN, exist_ok=True)
    with common.Lock("c14-link-rejdom"):
        exe = retry(common.compile_harness, "run_rejdom.cc")
        dst = os.path.join(BIN, "run_rejdom_" + os.path.basename(os.path.dirname(exe))[-16:] + os.path.basename(exe)[-10:])
        if not os.path.exists(dst):
            for old in os.listdir(BIN):
                if old.startswith("run_rejdom_"):
                    try: os.remove(os.path.join(BIN, old))
                    except OSError: pass
            shutil.copy(exe, dst)
    return dst


def build_reject():
    os.makedirs(BIN, exist_ok=True)
    with common.Lock("c14-link-reject"):
        exe = retry(common.compile_harness, "run_reject.cc")
        dst = os.path.join(BIN, "run_reject_" + os.path.basename(os.path.dirname(exe))[-16:] + os.path.basename(exe)[-10:])
        if not os.path.exists(dst):
            for old in os.listdir(BIN):
                if old.startswith("run_reject_"):
                    try: os.remove(os.path.join(BIN, old))
                    except OSError: pass
            shutil.copy(exe, dst)
    return dst


# ---------------------------------------------------------------------------------------------------------------------
# container traces: real library vs Coq model, for every fault position
def trace_request(tag, params, k):
    """params: the text the harness prints after `tracescn <name>`; returns the judge_except request line."""
    t = params.split(" ")
    prog = t[0]
    kv = dict(x.split("=", 1) for x in t[1:] if "=" in x and ":" not in x.split("=")[0])
    def used(s):
        if s == "-": return "0"
        items = s.split(",")
        return "%d %s" % (len(items), " ".join("%s %s" % tuple(i.split(":")) for i in items))
    def nlist(s):
        if s == "-": return "0"
        items = s.split(",")
        return "%d %s" % (len(items), " ".join(items))
    if prog == "init": return "trace %s init %d %s" % (tag, k, kv["n"])
    if prog == "iter": return "trace %s iter %d %s" % (tag, k, nlist(kv["src"]))
    if prog == "copy": return "trace %s copy %d %s %s" % (tag, k, kv["rsz"], used(kv["used"]))
    if prog == "rebuild": return "trace %s rebuild %d %s %s" % (tag, k, kv["rsz"], used(kv["used"]))
    if prog == "assign":
        m = re.match(r"assign this:rsz=(\d+) used=(\S+) y:rsz=(\d+) used=(\S+)", params)
        return "trace %s assign %d %s %s %s %s" % (tag, k, m.group(1), used(m.group(2)), m.group(3), used(m.group(4)))
    if prog == "dense_resize": return "trace %s dense_resize %d %s %s %s" % (tag, k, kv["cap"], nlist(kv["coeffs"]), kv["new"])
    if prog == "dense_copy": return "trace %s dense_copy %d %s %s" % (tag, k, kv["cap"], nlist(kv["coeffs"]))
    if prog == "dense_copy_sized": return "trace %s dense_copy_sized %d %s %s %s" % (tag, k, nlist(kv["coeffs"]), kv["sz"], kv["capacity"])
    if prog == "dense_copy_cap": return "trace %s dense_copy_cap %d %s %s %s" % (tag, k, kv["cap"], nlist(kv["coeffs"]), kv["capacity"])
    if prog == "dense_resize2": return "trace %s dense_resize2 %d %s %s %s %s" % (tag, k, kv["cap"], nlist(kv["coeffs"]), kv["new"], kv["capacity"])
    if prog == "dense_from_sparse": return "trace %s dense_from_sparse %d %s %s" % (tag, k, kv["rsize"], used(kv["elems"]))
    if prog == "sv_reserve":
        return "trace %s sv_reserve %d %s %s %s %s 1" % (tag, k, kv["old_bytes"], kv["size"], str(int(kv["old_bytes"]) + 1) if int(kv["new_bytes"]) > 0 else "0", kv["new_bytes"])
    raise ValueError(params)


def norm_free_runs(ev):
    """the order in which the blocks of an opaque sub-object (the copied Constraint) are released is not part of the model: every maximal
    run of consecutive free events is compared as a multiset"""
    out, run = [], []
    for t in ev.split():
        if t[0] == "F": run.append(t)
        else:
            out += sorted(run); run = []; out.append(t)
    return " ".join(out + sorted(run))


def mip_subs(lines, size, cap, newcap, csize):
    """sub-allocations of `new Constraint(c)` read off the successful real trace: everything after the node"""
    ok = [l for l in lines if l.startswith("trace k=") and " ok=1 " in l]
    if not ok: return None
    ev = ok[-1].split(" ev", 1)[1].split()
    allocs = [t for t in ev if t[0] == "A"]
    if size == cap: allocs = allocs[1:]                 # the reserve
    if not allocs or allocs[0] != "An%d" % csize: return None
    return ["%s %s" % (t[1], t[2:]) for t in allocs[1:]]


def run_traces(chk, exe, judge, names):
    reqs, real = [], {}
    for n in names:
        rc, out = common.sh([exe, "trace", n], timeout=120)
        params = None
        mip = None
        if n.startswith("mip_add_"):
            hdr = [l for l in out.split("\n") if l.startswith("tracescn ")]
            if hdr:
                kvh = c14_fault.parse_kv(hdr[0])
                subs = mip_subs(out.split("\n"), int(kvh["size"]), int(kvh["cap"]), int(kvh["newcap"]), int(kvh["csize"]))
                if subs is None:
                    # the model (proved balanced) reserves room in input_cs BEFORE the new-expression: a successful real trace that is not
                    # [reserve, release of the old buffer,] node, sub-allocations does not follow that order
                    chk.failure({"mode": "trace", "kind": "trace-differs", "site": "mip_add", "family": "container", "model_agrees": False},
                                {"scenario": n, "params": hdr[0], "successful_real_trace": [l for l in out.split("\n") if " ok=1 " in l][-1:],
                                 "expected_order": "size == capacity: An<8*newcap> Fn<8*cap> An<sizeof(Constraint)> <sub-allocations>; otherwise An<sizeof(Constraint)> <sub-allocations>"})
                    continue
                mip = (kvh, subs)
        for l in out.split("\n"):
            if l.startswith("tracescn "):
                params = l.split(" ", 2)[2]
            elif l.startswith("trace k=") and params:
                kv = c14_fault.parse_kv(l)
                k = int(kv["k"]); tag = "%s@%d" % (n, k)
                ev = l.split(" ev", 1)[1].strip() if " ev" in l else ""
                real[tag] = {"ok": kv["ok"], "leaked": kv["leaked"], "owned": kv["owned"], "valid": kv.get("valid", "-"), "ev": ev, "params": params, "scenario": n, "k": k}
                if mip:
                    kvh, subs = mip
                    reqs.append("trace %s mip_add %d %s %s %s %s %d %s" % (tag, k, kvh["size"], kvh["cap"], kvh["newcap"], kvh["csize"], len(subs), " ".join(subs)))
                else:
                    reqs.append(trace_request(tag, params, k))
        if rc != 0:
            chk.broken.append(("trace-harness", "%s: rc=%s %s" % (n, rc, out[-300:])))
    work = os.path.join(common.BUILD, "work-C14-tr-%d" % os.getpid()); os.makedirs(work, exist_ok=True)
    rf = os.path.join(work, "trace.req")
    with open(rf, "w") as f: f.write("\n".join(reqs) + "\n")
    rc, out = common.sh([judge, rf], timeout=600)
    shutil.rmtree(work, ignore_errors=True)
    model = {}
    for l in out.split("\n"):
        if not l.strip(): continue
        tag, rest = l.split(" ", 1)
        kv = c14_fault.parse_kv(rest)
        model[tag] = {"ok": kv.get("ok"), "leaked": kv.get("leaked"), "owned": kv.get("owned"), "valid": kv.get("valid", "-"),
                      "ev": rest.split(" ev", 1)[1].strip() if " ev" in rest else rest}
    agree = 0; events = 0; agg = Agg()
    for tag, r in sorted(real.items()):
        m = model.get(tag)
        prog = r["params"].split(" ")[0]
        cmp_owned = prog not in ("sv_reserve", "mip_add")     # the model counts the vector's buffer only
        ev_same = m is not None and (m["ev"] == r["ev"] or (prog == "mip_add" and norm_free_runs(m["ev"]) == norm_free_runs(r["ev"])))
        same = m is not None and m["ok"] == r["ok"] and m["leaked"] == r["leaked"] and ev_same and (not cmp_owned or m["owned"] == r["owned"]) \
            and (m["valid"] == "-" or m["valid"] == r["valid"])
        if not same:
            detail = "real %s | model %s" % (json.dumps({k: r[k] for k in ("ok", "leaked", "owned", "valid", "ev")}), json.dumps(m))
            if r["leaked"] not in ("0",) or r["valid"] == "0":
                # the real code leaks / leaves an invalid object where the model of the current text (proved balanced for all k) does not
                agg.add({"mode": "trace", "kind": "leak" if r["leaked"] != "0" else "invalid", "site": prog, "family": "container", "model_agrees": False},
                        {"scenario": r["scenario"], "k": r["k"], "params": r["params"], "detail": detail, "theorem": "C14_cotree_%s_unwind_balanced (model of the current text)" % {"iter": "iter_ctor", "copy": "copy_ctor", "rebuild": "rebuild_bigger"}.get(prog, prog)})
            else:
                # no leak observed, but the real code does not perform the allocations / releases in the order the (proved) model states
                agg.add({"mode": "trace", "kind": "trace-differs", "site": prog, "family": "container", "model_agrees": False},
                        {"scenario": r["scenario"], "k": r["k"], "params": r["params"], "detail": detail})
            continue
        agree += 1; events += len(r["ev"].split())
        chk.count(1, key=("trace", prog, r["ok"], r["leaked"] != "0", r["valid"]))
        # agreement on a defect is still a failure of the property on the real code
        if r["leaked"] != "0":
            agg.add({"mode": "trace", "kind": "leak", "site": "CO_Tree::CO_Tree(Iterator,n)" if prog == "iter" else prog, "family": "container"},
                        {"scenario": r["scenario"], "k": r["k"], "params": r["params"], "events": r["ev"], "leaked_blocks": r["leaked"], "theorem": "C14_cotree_iter_ctor_unwind_balanced"})
        if r["valid"] == "0":
            agg.add({"mode": "trace", "kind": "invalid", "site": "CO_Tree::init" if prog == "assign" else prog, "family": "container"},
                        {"scenario": r["scenario"], "k": r["k"], "params": r["params"], "events": r["ev"], "theorem": "C14_cotree_assign_unwind_balanced"})
    agg.flush(chk)
    chk.extra["trace_positions_compared"] = len(real)
    chk.extra["trace_positions_agreeing"] = agree
    chk.extra["trace_events_compared"] = events
    if real:
        k0 = sorted(real)[0]
        chk.samples.append({"trace": k0, "params": real[k0]["params"], "events": real[k0]["ev"]})


# ---------------------------------------------------------------------------------------------------------------------
def classify(rec, leakinfo):
    kinds = []
    if rec.get("leak", "0") not in ("0",) and not rec.get("leak", "0").startswith("-"):      # a negative delta only follows an earlier leak
        li = leakinfo.get(rec.get("k"), {})
        if li.get("blocks") not in (None, "0") and li.get("mpqinit") == li.get("blocks"): kinds.append("leak-gmpxx-mpq")
        else: kinds.append("leak")
    if rec.get("valid") == "0": kinds.append("invalid")
    elif rec.get("use") == "0": kinds.append("unusable")
    if rec.get("arg") == "0": kinds.append("argchg")
    if "chkexn" in rec: kinds.append("check-threw")
    return kinds


def family_of(name):
    return name.split(".")[0] if "." in name else re.sub(r"_\d+(_\d+)?$", "", name)


class Agg:
    """one chk.failure per distinct (mode, kind, site, family): the replay lists the count and the first examples"""
    def __init__(self): self.d = {}
    def add(self, info, example):
        key = tuple(sorted(info.items()))
        e = self.d.setdefault(key, {"info": info, "count": 0, "examples": []})
        e["count"] += 1
        if len(e["examples"]) < 3: e["examples"].append(example)
    def flush(self, chk):
        for key in sorted(self.d, key=str):
            e = self.d[key]
            chk.failure(e["info"], {"positions_failing": e["count"], "examples": e["examples"]})


def report_sweeps(chk, mode, results, expect_exn):
    agg = Agg()
    hist = chk.extra.setdefault("fault_enumeration", {})
    st = hist.setdefault(mode, {"scenarios": 0, "positions": 0, "clean_scenarios": 0, "failing_positions": 0, "crashes": 0, "incomplete": 0, "by_kind": {}})
    for r in results:
        st["scenarios"] += 1
        st["positions"] += len(r["positions"])
        fam = family_of(r["name"]); nbad = 0
        for p in r["positions"]:
            out = p.get("out", "?")
            kinds = classify(p, r["leakinfo"])
            if out not in expect_exn: kinds.append("other-exception:" + out)
            # requesting function and its caller; when everything is inlined into the scenario (no library frame): the scenario + layer
            site = "<".join(c14_fault.frames_of(p)[:2]) if c14_fault.frames_of(p) else "@%s/%s" % (r["name"], p.get("layer", mode))
            alt_site = "<".join(c14_fault.frames_of(p)[1:3]) if len(c14_fault.frames_of(p)) >= 3 else None
            chk.count(1, key=(mode, fam, site, p.get("layer")))
            for kd in kinds:
                nbad += 1; st["by_kind"][kd] = st["by_kind"].get(kd, 0) + 1
                # whether a small leaf helper is a frame of its own depends on the compiler's inlining decisions, which change when unrelated code
                # changes: a failure whose (caller, caller's caller) pair is a known finding is that finding
                if alt_site and chk.match_finding({"mode": mode, "kind": kd, "site": site, "family": fam}) is None \
                        and chk.match_finding({"mode": mode, "kind": kd, "site": alt_site, "family": fam}) is not None:
                    site_used = alt_site
                else:
                    site_used = site
                agg.add({"mode": mode, "kind": kd, "site": site_used, "family": fam},
                            {"scenario": r["name"], "k": p.get("k"), "record": p, "leakinfo": r["leakinfo"].get(p.get("k")),
                             "replay_cmd": "build/c14-bin/run_fault_mpz_* %s %s 100000 ng %s" % (mode, r["name"], p.get("k"))})
        for p in r["crashes"]:
            nbad += 1; st["crashes"] += 1
            site = "<".join(c14_fault.frames_of(p)[:2]) if c14_fault.frames_of(p) else "@%s/%s" % (r["name"], p.get("layer", mode))
            # the harness process died or did not return: after a fault both are manifestations of the same corrupted object (undefined behaviour),
            # which one shows depends on the memory layout, so they share one kind
            kd = "crash-or-hang-" + p.get("phase", "?")
            st["by_kind"][kd] = st["by_kind"].get(kd, 0) + 1
            agg.add({"mode": mode, "kind": kd, "site": site, "family": fam},
                        {"scenario": r["name"], "k": p.get("k"), "record": p, "replay_cmd": "build/c14-bin/run_fault_mpz_* %s %s 100000 ng %s" % (mode, r["name"], p.get("k"))})
        d = r["done"]
        if d is None:
            st["incomplete"] += 1
        else:
            if d.get("rerun_valid") != "1" or d.get("rerun_same") != "1" or d.get("rerun_leak") != "0":
                nbad += 1
                agg.add({"mode": mode, "kind": "library-not-intact", "site": "rerun", "family": fam}, {"scenario": r["name"], "done": d})
            if d.get("spurious", "0") != "0":
                nbad += 1
                agg.add({"mode": mode, "kind": "spurious-exception", "site": "unfaulted", "family": fam}, {"scenario": r["name"], "done": d})
        if nbad == 0: st["clean_scenarios"] += 1
        st["failing_positions"] += nbad
    agg.flush(chk)


QUICK_DOMAIN = ["C_Polyhedron.intersection_sorted_merge", "C_Polyhedron.add_constraint_fresh", "C_Polyhedron.add_constraints_gen", "C_Polyhedron.intersection_assign_min", "C_Polyhedron.upper_bound_assign_fresh",
                "C_Polyhedron.affine_image_gen", "C_Polyhedron.minimized_generators_fresh", "C_Polyhedron.add_generator_min", "C_Polyhedron.copy_gen", "C_Polyhedron.assign_min",
                "C_Polyhedron.remove_space_dimensions_min", "C_Polyhedron.widening_fresh", "C_Polyhedron.queries_min",
                "NNC_Polyhedron.add_constraint_min", "NNC_Polyhedron.generalized_affine_image_fresh", "NNC_Polyhedron.topological_closure_gen", "NNC_Polyhedron.poly_hull_gens_fresh",
                "Grid.add_congruence_fresh", "Grid.intersection_assign_min", "Grid.upper_bound_assign_gen", "Grid.affine_image_fresh", "Grid.copy_min",
                "BD_Shape.add_constraint_fresh", "BD_Shape.upper_bound_assign_min", "BD_Shape.affine_image_gen", "BD_Shape.copy_fresh",
                "Octagonal_Shape.add_constraint_fresh", "Octagonal_Shape.intersection_assign_min",
                "Box.add_constraint_fresh", "Box.upper_bound_assign_min", "Box.affine_image_gen", "Box.copy_fresh",
                "Powerset.add_disjunct", "Powerset.upper_bound_assign", "Powerset.copy",
                "MIP.add_constraint_v0", "MIP.solve_v0", "MIP.copy_v3", "PIP.copy_v2", "PIP.add_constraint_solve_v0"]
ABANDON = ["C_Polyhedron.minimized_generators_fresh", "C_Polyhedron.upper_bound_assign_fresh", "NNC_Polyhedron.minimized_generators_fresh", "C_Polyhedron.add_generators_fresh",
           "MIP.solve_v0", "MIP.solve_v1", "MIP.steepest_edge_v1", "PIP.solve_v0", "PIP.solve_v1", "PIP.add_constraint_solve_v2", "Box.add_constraints_fresh", "Powerset.pairwise_reduce"]


def run(chk):
    chk.rule = ("(a) ill-formed calls enumerated from the case structure of coq/Except/Precond.v (every conjunct of every documented precondition falsified alone and in pairs, "
                "space-dimension overflow included) on receivers of both topologies, dimension 0..3, non-empty / marked empty / undetected-empty, in 5 lazy states; distinct = "
                "(operation, expected outcome, receiver kind, lazy state); (b) allocation traces of the modelled container programs compared event for event with the Coq model "
                "for every fault position; fault enumeration: the k-th allocation request (operator new, GMP) of each scenario fails, k = 1.. until the call completes; "
                "abandonment at the k-th maybe_abandon(); Weightwatch thresholds; std::overflow_error on the int8 build; distinct = (mode, scenario family, function requesting the "
                "failed allocation, layer)")
    chk.trusted += polycheck.TRUSTED + [
        "C14: hand-written model of the validation ladders (coq/Except/Precond.v) and of the allocation behaviour of 10 container / guard programs (coq/Except/AllocProgs.v), "
        "transcribed by reading the C++; tied to the code by the harnesses below, not by translation",
        "C14 glue: harness/run_reject.cc (+ run_poly.cc), harness/run_fault.cc + c14_alloc.h + c14_scenarios*.h (replacement operator new/delete, GMP allocation functions, "
        "block ledger, scenario list, validity / usability probes), ocaml/judge_except.ml, tools/gen_reject.py, tools/c14_reject.py, tools/c14_fault.py; glibc backtrace/dladdr "
        "for the fault-site names used to match known findings",
    ]
    chk.assumptions += [
        "PARTIAL: theorems carry (a) the ladders vs documented preconditions for Polyhedron (+ MIP status queries) and (b) the 10 modelled programs; every other statement "
        "about failures mid-flight is enumeration of fault positions on the real code for the listed scenarios (coverage.fault_enumeration), not proof",
        "GMP layer: the installed GMP 6.2.1 propagates exceptions thrown by the allocation functions (gmpprobe) but mpz_mul & co. free the destination before requesting the "
        "new block, so a failure there leaves a dangling mpz inside GMP itself: only requests issued by _mpz_realloc / mpz_init_set* / mpz_init2 are failed; the others are "
        "counted (gmp_not_injectable) and never failed",
        "gmpxx: mpq_class constructors (mpq_init then a throwing mpz_set / evaluation) leak the denominator limb by themselves; leaks whose blocks were all allocated by "
        "mpq_init are reported under the kind leak-gmpxx-mpq (a known finding outside PPL)",
        "emptiness of the receiver after an ACCEPTED borderline call (e.g. a trivially false strict constraint) is read from the library's is_empty(); initial emptiness is by "
        "construction and cross-checked",
        "rejection of Box / BD_Shape / Octagonal_Shape / Grid / PIP calls is not modelled (time); they take part in the fault enumeration only",
        "concatenate_assign / constructor-from-system space-dimension overflow cannot be exercised (needs an argument of dimension > 2^60): proved in the model only",
    ]
    chk.prove(["Except/Precond.v", "Except/Alloc.v", "Except/AllocProgs.v", "Except/AllocTraceMip.v"])
    # --replay: re-run only the part (and, for the fault modes, only the scenarios) named by the replay file, with its seed and tier
    only, only_scn = None, None
    if chk.replay:
        rp = json.load(open(chk.replay))
        only = rp.get("info", {}).get("mode")
        chk.seed = rp.get("seed", chk.seed); chk.tier = rp.get("tier", chk.tier)
        only_scn = [e.get("scenario") for e in rp.get("examples", []) if e.get("scenario")] or None
        chk.log("replay: mode %s scenarios %s" % (only, only_scn))
    def want(mode): return only is None or only == mode
    # ---- builds ----
    common.coq_extract("ExtractBase.v", ["base.ml", "base.mli"], deps=polycheck.BASE_COQ + ["Extract/ExtractBase.v"])
    common.coq_extract("Extract_except.v", ["except.ml", "except.mli"], deps=["Except/Precond.v", "Except/Alloc.v", "Except/AllocProgs.v", "Except/AllocTraceMip.v", "Extract/Extract_except.v"])
    judge_poly = common.ocaml_build("judge_poly", ["gen/base.mli", "gen/base.ml", "zutil.ml", "judge_poly.ml"])
    judge_exc = common.ocaml_build("judge_except", ["gen/except.mli", "gen/except.ml", "judge_except.ml"])
    rej_exe = build_reject()
    exe = build_fault("mpz")
    chk.log("harnesses built")

    # ---- (a) rejected calls ----
    ncases = (60 if chk.quick else 300) if want("reject") else 0
    res = c14_reject.run(chk, rej_exe, judge_poly, judge_exc, chk.seed * 7919 + 14, ncases, 45)
    chk.evaluations += res["calls"] + res["followups"]
    for v in res["variants"]: chk.nontrivial.add(("reject",) + v)
    chk.undecided += res["undecided"]
    chk.extra["rejected_calls"] = {"calls": res["calls"], "rejected": res["rejected"], "accepted_borderline": res["accepted"], "followup_ops_verified": res["followups"],
                                   "by_expected_class": res["by_class"], "by_operation": dict(sorted(res["by_op"].items())), "verified_state_checks": res["stat"].get("checks", 0),
                                   "generator_emptiness_mismatch": res["generator_emptiness_mismatch"]}
    if res["generator_emptiness_mismatch"]:
        chk.broken.append(("generator-emptiness", "receiver emptiness by construction differs from is_empty() in %d cases" % res["generator_emptiness_mismatch"]))
    for m in res["mismatch"]:
        chk.failure({"mode": "reject", "kind": "wrong-outcome", "site": m["op"], "expected": m["expected"], "actual": m["actual"]},
                    {"case": m["case"], "line": m["line"], "receiver": m["receiver"], "model_shape": m["shape"], "theorem": "C14_precond_complete"})
    for f in res["judge_fails"]:
        chk.failure({"mode": "reject", "kind": "changed-or-invalid:" + f.kind, "site": f.line.split(" ")[0]}, {"case_id": f.case, "step": f.step, "line": f.line, "detail": f.detail})
    for (case, line, how) in res["crashes"]:
        chk.failure({"mode": "reject", "kind": "crash", "site": line.split(" ")[2] if len(line.split(" ")) > 2 else line}, {"case": case, "line": line, "how": how})
    if res["calls"]:
        chk.samples.append({"rejected_call_ops": sorted(res["by_op"])[:8]})
    chk.log("(a) %d ill-formed calls: %d rejected, %d accepted borderline, %d mismatches, %d state failures" % (res["calls"], res["rejected"], res["accepted"], len(res["mismatch"]), len(res["judge_fails"])))

    # ---- (a') rejected calls outside Polyhedron: every domain / solver, every documented kind of ill-formed argument, every receiver state class ----
    if want("rejdom"):
        rd = c14_rejdom.run(build_rejdom(), judge_exc, os.path.join(common.BUILD, "work-C14-rejdom-%d" % os.getpid()))
        shutil.rmtree(os.path.join(common.BUILD, "work-C14-rejdom-%d" % os.getpid()), ignore_errors=True)
        chk.evaluations += rd["attempts"]
        for v in rd["variants"]: chk.nontrivial.add(("rejdom",) + v)
        chk.extra["rejected_calls_other_domains"] = {"attempts": rd["attempts"], "by_domain": dict(rd["by_dom"]), "by_kind": dict(rd["by_kind"]),
                                                       "expectation_from_coq_ladder": rd["model_checked"], "failing_groups": len(rd["groups"]), "exhaustive": True}
        if rd["rc"] != 0 or rd["attempts"] < 5500:
            chk.failure({"mode": "rejdom", "dom": "harness", "what": "crash-or-incomplete"}, {"rc": rd["rc"], "attempts": rd["attempts"], "tail": rd["tail"]})
        for (r, m) in rd["model_disagrees_with_doc_table"]:
            chk.broken.append(("rejdom-model-vs-documentation-table", "%s: coq ladder says %s" % (r, m)))
        agg = Agg()
        for info, detail in rd["groups"]:
            agg.add(info, detail)
        agg.flush(chk)
        chk.log("(a') %d ill-formed calls on the other domains / solvers: %d failing groups" % (rd["attempts"], len(rd["groups"])))

    # ---- (b) experiment on the GMP layer ----
    rc, out = common.sh([exe, "gmpprobe"], timeout=120)
    probe = c14_fault.parse_kv(out)
    chk.extra["gmp_probe"] = {"output": out.strip().split("\n")[-2:] if out.strip() else [], "rc": rc}
    layers = "ng" if (rc == 0 and probe.get("unwinding") == "ok" and probe.get("inconsistent") == "0") else "n"
    chk.extra["gmp_layer_faults"] = "whitelisted callers only" if layers == "ng" else "disabled (GMP does not tolerate throwing allocators)"

    rc, out = common.sh([exe, "list"], timeout=60)
    allnames = [l.split(" ") for l in out.split("\n") if l.strip()]
    containers = [t[0] for t in allnames if len(t) > 1 and t[1] == "container"]
    names = [t[0] for t in allnames]
    rows = [n for n in names if "." not in n and n not in containers]

    # ---- (b) traces of the modelled programs ----
    run_traces(chk, exe, judge_exc, containers if want("trace") else [])
    chk.log("traces compared: %s positions" % chk.extra.get("trace_positions_compared"))

    # ---- (b) fault enumeration ----
    if chk.quick:
        sel = containers + rows + [n for n in QUICK_DOMAIN if n in names]; maxk = 150
    else:
        sel = names; maxk = 400
    if only_scn: sel = [n for n in names if n in only_scn]
    if not want("sweep"): sel = []
    results = c14_fault.run_many(exe, "sweep", sel, maxk=maxk, layers=layers, timeout=60 if chk.quick else 90)
    report_sweeps(chk, "sweep", results, ("bad_alloc",))
    chk.extra["fault_enumeration"]["sweep"]["max_positions_per_scenario"] = maxk
    inj = {}
    for r in results:
        for t in r["gmpcallers"].split():
            nm, cnt, how = t.rsplit(":", 2); inj[nm + ":" + how] = inj.get(nm + ":" + how, 0) + int(cnt)
    chk.extra["gmp_request_callers"] = inj
    chk.log("fault sweep: %s" % json.dumps({k: v for k, v in chk.extra["fault_enumeration"]["sweep"].items() if k != "by_kind"}))
    ab = [n for n in ABANDON if n in names]
    if chk.quick: ab = ab[:6]
    if only_scn: ab = [n for n in names if n in only_scn]
    results = c14_fault.run_many(exe, "abandon", ab if want("abandon") else [], maxk=60 if chk.quick else 400, timeout=60)
    report_sweeps(chk, "abandon", results, ("abandoned",))
    results = c14_fault.run_many(exe, "weight", (ab[:4] if chk.quick else ab) if want("weight") else [], maxk=12 if chk.quick else 40, timeout=60)
    report_sweeps(chk, "weight", results, ("abandoned", "ok"))

    # ---- overflow on the checked-int8 build ----
    try:
        if not want("overflow"): raise StopIteration
        exe8 = build_fault("int8")
        rc, out = common.sh([exe8, "overflow", str(chk.seed), str(400 if chk.quick else 6000)], timeout=900)
        d = None
        for l in out.split("\n"):
            if l.startswith("done overflow"): d = c14_fault.parse_kv(l)
            elif l.startswith("case ") and ("valid=0" in l or "use=0" in l or "arg=0" in l or "leak=" in l):
                kv = c14_fault.parse_kv(l)
                kd = "leak" if "leak" in kv else ("invalid" if kv.get("valid") == "0" else ("unusable" if kv.get("use") == "0" else "argchg"))
                chk.failure({"mode": "overflow", "kind": kd, "site": kv.get("op", "?"), "family": "C_Polyhedron-int8"}, {"line": l, "seed": chk.seed})
        if d is None or rc != 0:
            chk.failure({"mode": "overflow", "kind": "crash", "site": "overflow-run", "family": "C_Polyhedron-int8"}, {"rc": rc, "tail": out[-600:]})
        else:
            chk.extra["overflow_int8"] = d
            chk.evaluations += int(d.get("cases", 0)); chk.nontrivial.add(("overflow", d.get("overflows")))
    except StopIteration:
        pass
    except common.BuildError as e:
        chk.broken.append(("int8-build", str(e)[-800:]))
