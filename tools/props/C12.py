"""C12 -- Interval arithmetic encloses every concrete result.

Proof part: coq/Itv/{Boundary,Interval,QCarrier,Sound,Arith,Encl,Sets,Univ,Exact,Defect,Api}.v audited through
coq/Properties/Properties_C12.v (model = transcription of Boundary_defs.hh / Interval_inlines.hh).
Tie: harness/run_itv.cc runs the real Interval<> operations on an exhaustive palette of intervals
(and on seeded random ones); ocaml/judge_itv.ml recomputes every case with the extracted model
(raw state: bounds, SPECIAL/OPEN bits, observers) and runs an independent enclosure/tightness oracle.
Facts re-read from the sources on every run: the interval policies the model fixes as constants."""
import json, os, re
import common
import translate_float

COQ_FILES = ["Itv/Boundary.v", "Itv/Interval.v", "Itv/QCarrier.v", "Itv/Sound.v", "Itv/Arith.v",
             "Itv/Encl.v", "Itv/Sets.v", "Itv/Univ.v", "Itv/Exact.v", "Itv/Defect.v", "Itv/Api.v",
             "Itv/LinForm.v", "Itv/RelErr.v", "gen/Facts_Float.v", "Itv/FloatErr.v"]

SITES = {
    "mul": "Interval::mul_assign", "div": "Interval::div_assign", "add": "Interval::add_assign",
    "sub": "Interval::sub_assign", "neg": "Interval::neg_assign",
    "join1": "Interval::join_assign(x)", "join2": "Interval::join_assign(x,y)",
    "int1": "Interval::intersect_assign(x)", "int2": "Interval::intersect_assign(x,y)",
    "dif1": "Interval::difference_assign(x)", "dif2": "Interval::difference_assign(x,y)",
}


def site_of(op):
    if op in SITES:
        return SITES[op]
    if op.startswith("rex"):
        return "Interval::refine_existential"
    if op.startswith("run"):
        return "Interval::refine_universal"
    return op


# ---------------------------------------------------------------------------------------------------
# facts the model takes as constants, re-read from /repo on every run
# ---------------------------------------------------------------------------------------------------

def policy_blocks(path):
    """{struct name: {constant: value}} for every struct with const_bool_nodef members in a file."""
    try:
        txt = open(path).read()
    except OSError:
        return {}
    out = {}
    for m in re.finditer(r"struct\s+(\w+)\s*\{(.*?)\};", txt, re.S):
        consts = dict(re.findall(r"const_bool_nodef\(\s*(\w+)\s*,\s*(\w+)\s*\)", m.group(2)))
        if consts:
            out[m.group(1)] = consts
    return out


def check_facts(chk):
    R = common.REPO
    n = 0
    files = [os.path.join(R, "src", f) for f in ("Rational_Interval.hh", "Integer_Interval.hh", "Interval_inlines.hh")] + \
            [os.path.join(R, "interfaces", "interfaced_boxes.hh"), os.path.join(R, "tests", "ppl_test.hh")]
    seen = {}
    for f in files:
        for name, c in policy_blocks(f).items():
            seen[name] = c
            if "may_contain_infinity" in c:
                n += 1
                want = "true" if name == "Scalar_As_Interval_Policy" else "false"
                if c["may_contain_infinity"] != want:
                    chk.broken.append(("fact:may_contain_infinity", "%s in %s has may_contain_infinity=%s; the model "
                                       "fixes it to false" % (name, f, c["may_contain_infinity"])))
            if "check_inexact" in c:
                n += 1
                if c["check_inexact"] != "false":
                    chk.broken.append(("fact:check_inexact", "%s in %s" % (name, f)))
    want = {"Rational_Interval_Info_Policy": {"store_special": "true", "store_open": "true"},
            "Z_Box_Interval_Info_Policy": {"store_special": "true", "store_open": "false"},
            "Floating_Point_Box_Interval_Info_Policy": {"store_special": "false", "store_open": "true"}}
    for name, w in want.items():
        for k, v in w.items():
            n += 1
            if seen.get(name, {}).get(k) != v:
                chk.broken.append(("fact:policy", "%s.%s is %s, harness/model assume %s" % (name, k, seen.get(name, {}).get(k), v)))
    # the lines of the defect site, for the report
    return n


# ---------------------------------------------------------------------------------------------------

def parse(out):
    n, hist, fails = 0, {}, []
    for l in out.splitlines():
        if l.startswith("N "):
            n = int(l.split()[1])
        elif l.startswith("H "):
            p = l.split(" ")
            hist[" ".join(p[1:-1])] = int(p[-1])
        elif l.startswith("F "):
            head, _, text = l.partition(" | ")
            p = head.split()
            fails.append({"kind": p[1], "op": p[2], "i": int(p[3]), "j": int(p[4]), "tag": p[5], "text": text})
    return n, hist, fails


def run_batch(chk, hx, judge, ty, pal, tight=True, cases=None):
    if cases is None:
        cmd = "%s %s %s all | %s %s %s" % (hx, ty, pal, judge, ty, "" if tight else "notight")
        rc, out = common.sh(cmd, timeout=1500)
    else:
        text = "".join("%s %d %d\n" % tuple(c) for c in cases)
        rc, tr = common.sh([hx, ty, pal, "replay"], input=text, timeout=600)
        if rc != 0:
            chk.broken.append(("harness", "exit %s on replay (%s)" % (rc, tr[-300:])))
            return 0, {}, []
        rc, out = common.sh([judge, ty] + ([] if tight else ["notight"]), input=tr, timeout=600)
    if rc != 0:
        chk.broken.append(("harness/judge", "exit %s for type %s palette %s: %s" % (rc, ty, pal, out[-500:])))
        return 0, {}, []
    return parse(out)


def classify(chk, ty, pal, tight, fails):
    """MODEL records: the real code left the transcribed model.  ENCL/TIGHT/CONTAIN records: the property
    fails on the real code (independent oracle).  A known finding needs the failure to be the one the
    model transcribes (model_agrees) with the same site/tag."""
    model_bad = {(f["op"], f["i"], f["j"]) for f in fails if f["kind"] == "MODEL"}
    oracle_bad = set()
    groups = {}
    for f in fails:
        if f["kind"] == "MODEL":
            continue
        key = (f["op"], f["i"], f["j"])
        oracle_bad.add(key)
        g = (f["op"], f["kind"], f["tag"], key not in model_bad)
        groups.setdefault(g, []).append(f)
    # one failure record per (operation, kind of failure, condition tag, explained-by-the-model?) group;
    # its replay holds the first cases of the group
    for (op, kind, tag, agrees), fs in sorted(groups.items()):
        info = {"site": site_of(op), "op": op, "kind": kind, "tag": tag, "type": ty, "model_agrees": agrees,
                "family": op[:3] if op[:3] in ("rex", "run") else op,
                "class": "unsound" if kind in ("ENCL", "CONTAIN") else "inexact", "cases_in_group": len(fs)}
        chk.failure(info, {"type": ty, "palette": pal, "tight": tight,
                           "cases": [[f["op"], f["i"], f["j"]] for f in fs[:20]], "text": fs[0]["text"]})
    left = [f for f in fails if f["kind"] == "MODEL" and (f["op"], f["i"], f["j"]) not in oracle_bad]
    if left:
        f = left[0]
        # the code left the model on inputs where the oracle sees no failure of the property
        chk.broken.append(("model-vs-code:%s:%s" % (ty, f["op"]),
                           "%d cases, first: %s %d %d (%s palette %s): %s" % (len(left), f["op"], f["i"], f["j"], ty, pal, f["text"])))


def build_harness(name="run_itv"):
    """harness/<name>.cc linked against the library built from the working tree.  Like common.compile_harness,
    but the link happens while holding the library lock and the executable is kept outside the library cache
    directory: a concurrent check working on another copy of the repo drops that directory at any time."""
    import hashlib
    src = os.path.join(common.VERIF, "harness", name + ".cc")
    keep = os.path.join(common.BUILD, "c12-bin")
    os.makedirs(keep, exist_ok=True)
    last = ""
    for attempt in range(8):
        libdir = common.build_lib("mpz")
        with common.Lock("lib-mpz"):
            lib = os.path.join(libdir, "libppl_verif.a")
            if not os.path.exists(lib):
                continue
            h = hashlib.sha256(open(src, "rb").read()).hexdigest()[:10]
            mine = os.path.join(keep, "%s-%s_%s" % (os.path.basename(libdir), name, h))
            if os.path.exists(mine):
                return mine
            for old in os.listdir(keep):
                if ("-" + name + "_") in old:
                    try: os.remove(os.path.join(keep, old))
                    except OSError: pass
            tmp = mine + ".tmp%d" % os.getpid()
            rc, out = common.sh(["g++"] + common.cxx_flags(libdir) + ["-I" + os.path.join(common.VERIF, "harness"),
                                 src, "-o", tmp, lib, "-lgmpxx", "-lgmp"], timeout=1800)
            if rc == 0:
                os.rename(tmp, mine)
                return mine
            last = out
            if "No such file or directory" not in out:
                break
    raise common.BuildError("harness %s.cc failed to compile:\n" % name + last[-6000:])


def run_lin(chk, hl, seed, ncases, only=None):
    """Linear forms and linearize(): the harness is its own oracle (exact rationals); see harness/run_lin.cc."""
    args = [hl, str(seed), str(ncases)] + ([str(only)] if only is not None else [])
    rc, out = common.sh(args, timeout=1200)
    if rc != 0:
        chk.broken.append(("harness:run_lin", "exit %s: %s" % (rc, out[-500:])))
        return
    stats, groups = {}, {}
    for l in out.splitlines():
        p = l.split()
        if l.startswith("S "):
            stats[p[1]] = int(p[2])
        elif l.startswith("F "):
            kv = dict(t.split("=", 1) for t in p[2:] if "=" in t)
            if p[1] == "LF":
                key = ("LF", kv.get("op", "?"), kv.get("format", "-"))
                site = "Linear_Form::" + kv.get("op", "?")
            else:
                key = (p[1], kv.get("fmt", "?"), kv.get("mode", "?"))
                site = "linearize"
            groups.setdefault((site,) + key, []).append((int(kv.get("case", "-1")), l))
    n = stats.get("lin:evaluations", 0) + stats.get("lf:entry-checks", 0) + stats.get("lf:relative_error", 0) + stats.get("lf:intervalize", 0)
    chk.count(n)
    for k, v in stats.items():
        if v > 0:
            chk.nontrivial.add(("lin", k))
    chk.extra.setdefault("histogram", {}).update({"linform/" + k: v for k, v in stats.items()})
    chk.log("linear forms / linearize: %d linearized trees (%d reported failure), %d concrete evaluations, %d form-operator checks, %d failing groups"
            % (stats.get("lin:linearized", 0), stats.get("lin:reported-failure", 0), stats.get("lin:evaluations", 0),
               stats.get("lf:entry-checks", 0) + stats.get("lf:relative_error", 0) + stats.get("lf:intervalize", 0), len(groups)))
    if not only and stats.get("lin:evaluations", 0) == 0:
        chk.broken.append(("no-cases", "run_lin produced no concrete evaluation"))
    for (site, kind, a, b), fs in sorted(groups.items()):
        info = {"site": site, "kind": kind, "detail": "%s/%s" % (a, b), "class": "unsound", "cases_in_group": len(fs)}
        chk.failure(info, {"harness": "run_lin", "seed": seed, "ncases": ncases, "case": fs[0][0], "text": fs[0][1]})


def run(chk):
    chk.rule = ("exhaustive: bounds from {-inf,-3,-1,-1/2,0,1/2,1,3,+inf} x open/closed x lower/upper = 225 raw interval "
                "states (105 empty, 7 singletons, 28 half-unbounded, universe), ALL ordered pairs for each of 22 binary "
                "operations (+ neg), for Rational_Interval, the Z_Box interval (integer closed bounds: 36 states) and the "
                "Double_Box interval; plus seeded random intervals (p/q, |p|<=30). A case is counted as distinct "
                "non-trivial per (type, operation, sign branch of the mul/div ladder or input class). "
                "Linear forms / linearize(): seeded random expression trees (depth 1-4 over 3 variables: constants, integer "
                "constants under a cast, references, unary minus, + - * /, casts between IEEE single and double), abstract "
                "stores of intervals with double bounds (some open or half-unbounded), 8 concrete stores sampled inside "
                "(ends, midpoints, points 2^-k away from an end), the tree evaluated by the machine in the analysed format "
                "under each of the 4 rounding modes; random interval linear forms for the operators")
    chk.trusted += ["Coq 8.16.1 kernel; vm_compute in the two refutation witnesses; extraction (ExtrOcamlBasic) of the model "
                    "instantiated with the exact carrier; OCaml glue judge_itv.ml incl. its native-rational oracle; "
                    "harness run_itv.cc (builds raw interval states through info()/lower()/upper()); harness run_lin.cc (its own oracle: <cfenv> "
                    "rounding modes of the host FPU as the analysed machine, exact mpq evaluation); tools/translate_float.py"]
    chk.assumptions += [
        "the model is a hand transcription of Boundary_defs.hh / Interval_defs.hh / Interval_inlines.hh for policies with "
        "store_special, may_contain_infinity=false, check_inexact=false (constants re-read from the sources each run); "
        "I_Result return codes are not modelled",
        "inexact carriers (mpz division, double): the rounding laws CarrierLaws are a hypothesis of the theorems, tied to the "
        "code only by the containment test against the exact model; overflow to infinity is not modelled",
        "linearize() itself (linearize.hh) is NOT modelled in Coq: its soundness is only checked per run by the independent oracle "
        "of harness/run_lin.cc (concrete machine evaluation under the four rounding modes vs exact evaluation of the returned "
        "linear form); the Coq part covers the Linear_Form operators, intervalize, relative_error (additions of exact zeros "
        "elided) and a rational model of rounding (a rounding returns a representable neighbour; no overflow; normal range)",
        "the floating point interval keeps infinities in the bound (store_special=false): compared through the abstraction "
        "bound is infinite <-> SPECIAL, except where the code reads a bound without its info word (oracle only)"]
    nfacts = check_facts(chk)
    try:
        # per-format constants and the exponent expressions of relative_error / compute_absolute_error,
        # re-read from the sources into coq/gen/Facts_Float.v (Itv/FloatErr.v is proved against them)
        nfacts += translate_float.generate()
    except Exception as e:
        chk.broken.append(("fact:float-formats", "tools/translate_float.py: %s" % e))
    chk.prove(COQ_FILES, extra_obligations=nfacts if not [b for b in chk.broken if b[0].startswith("fact:")] else 0)
    if any(b[0].startswith("fact:") for b in chk.broken):
        chk.obligations += nfacts

    common.coq_extract("Extract_itv.v", ["itv.ml", "itv.mli"], deps=["Itv/Api.v", "Itv/Interval.v", "Itv/Boundary.v", "Itv/QCarrier.v"])
    judge = common.ocaml_build("judge_itv", ["gen/itv.mli", "gen/itv.ml", "judge_itv.ml"])
    hx = build_harness()

    hl = build_harness("run_lin")
    if chk.replay:
        obj = json.load(open(chk.replay))
        if obj.get("harness") == "run_lin":
            run_lin(chk, hl, obj["seed"], obj["ncases"], obj["case"])
            return
        n, hist, fails = run_batch(chk, hx, judge, obj["type"], obj["palette"], obj.get("tight", True), obj["cases"])
        chk.count(n)
        classify(chk, obj["type"], obj["palette"], obj.get("tight", True), fails)
        return

    # corpus first: minimised past failures / mutation witnesses (same replay format)
    cdir = os.path.join(common.VERIF, "corpus", "C12")
    for p in sorted(os.listdir(cdir)) if os.path.isdir(cdir) else []:
        if p.endswith(".json"):
            obj = json.load(open(os.path.join(cdir, p)))
            n, hist, fails = run_batch(chk, hx, judge, obj["type"], obj["palette"], obj.get("tight", True), obj["cases"])
            chk.count(n, key=("corpus", p))
            classify(chk, obj["type"], obj["palette"], obj.get("tight", True), fails)

    batches = [("Q", "quick", True), ("Z", "quick", True), ("D", "quick", True)]
    nrand = 60 if chk.quick else 140
    for ty in "QZD":
        batches.append((ty, "random:%d:%d" % (chk.seed, nrand), False))
    if not chk.quick:
        batches += [("Q", "thorough", True), ("Z", "thorough", True), ("D", "thorough", True)]
        for s in range(1, 4):
            batches.append(("Q", "random:%d:%d" % (chk.seed * 1000 + s, 140), False))
    total_hist = {}
    for ty, pal, tight in batches:
        n, hist, fails = run_batch(chk, hx, judge, ty, pal, tight)
        chk.log("%s %-14s %8d cases, %6d flagged records" % (ty, pal, n, len(fails)))
        chk.count(n)
        for k, v in hist.items():
            if v > 0:
                chk.nontrivial.add((ty, pal.split(":")[0], k))
            total_hist["%s/%s/%s" % (ty, pal.split(":")[0], k)] = total_hist.get("%s/%s/%s" % (ty, pal.split(":")[0], k), 0) + v
        if n == 0:
            chk.broken.append(("no-cases", "%s %s produced no cases" % (ty, pal)))
        classify(chk, ty, pal, tight, fails)
    run_lin(chk, hl, chk.seed, 40000 if chk.quick else 600000)
    chk.samples.append({"type": "Q", "op": "mul", "x": "(-1,3]", "y": "[-3,1)", "real": "[-9,3)",
                        "note": "branch 9, second candidate chosen with a different flag (wrong before ed6ee8d); corpus/C12/witnesses.json"})
    chk.extra.setdefault("histogram", {}).update(total_hist)
