"""C07 -- PIP solver: the solution tree yields the lexicographic minimum for every parameter value.

Proof part: coq/PIP/*.v (spec, tree evaluation, reference search, certificate checker, cut arithmetic).
Tie: harness/run_pip.cc runs generated PIP_Problem histories on the library built from the working
tree and prints every tree through the public node interface; ocaml/judge_pip.ml (extracted
eval_tree / lexmin_ref / contextb / tree_cert + glue) compares, for every parameter valuation of
the context in a box, the evaluation of the tree with the verified reference answer."""
import json, os, subprocess, sys, time, random, glob
import common, gen_pip

HERE = os.path.dirname(os.path.abspath(__file__))
COQ_FILES = ["PIP/PipSpec.v", "PIP/PipTree.v", "PIP/PipRef.v", "PIP/PipCuts.v", "PIP/PipCert.v"]
FUEL = 64
MAX_DEATHS = 12          # timeouts per batch after which the rest of the batch is not run
MAX_LONG_RETRIES = 3     # per batch; further cases over the short limit are reported as timeouts (a healthy tree has ~1 per 1000)
LONG_TMO = 20            # CPU seconds after which a solve is reported as not returning
MAX_VIOLATIONS = 6       # enough to show the property is broken; the run stops attributing after that
BIGVALS = [1000003, 1000004, 1000005, 1000006, 1000007, 1000000007]
SITE_ROW_SIGN = "PIP_Solution_Node::row_sign/solve (PIP_Tree.cc)"


def build_tools(chk):
    common.coq_extract("Extract_pip.v", ["pip.ml", "pip.mli"], deps=COQ_FILES)
    judge = common.ocaml_build("judge_pip", ["gen/pip.mli", "gen/pip.ml", "judge_pip.ml"])
    return private_harness(), judge


# Library variants carrying a candidate fix (corpus/C07/<file>.diff applied to a copy of src/PIP_Tree.cc), used
# only to attribute a failure to the code a fix changes.  Empty: every defect that was attributed this way is repaired in /repo
# (481d251, 7d069b5, 3e9e3d9, ff3b439, 8558018, 88fe9bb); a recurrence of any of them, and ANY incremental-only failure that is
# neither the big-parameter nor the strategy-dependent non-termination finding, is an ordinary VIOLATION.
VARIANTS = {}
FRESH_VARIANTS = []
INCREMENTAL_VARIANTS = []


def private_harness(variant=None):
    """libppl compiled from the working tree of common.REPO into a cache directory owned by this
    check (common.build_lib evicts every other tree's cache of the same configuration, so checks
    running concurrently on different VERIF_REPO trees delete each other's library; same sources,
    same flags, same content hash here, but only this check's own stale directories are evicted)."""
    import shutil, hashlib
    key = common.tree_hash("mpz" + "H")
    libdir = os.path.join(common.BUILD, "c07-lib-%s" % key)
    lib = os.path.join(libdir, "libppl_verif.a")
    with common.Lock("c07-lib"):
        if not os.path.exists(lib):
            for old in glob.glob(os.path.join(common.BUILD, "c07-lib-*")):
                if old != libdir and time.time() - os.path.getmtime(old) > 3600:
                    shutil.rmtree(old, ignore_errors=True)
            os.makedirs(libdir, exist_ok=True)
            common._config_dir(libdir, "mpz")
            srcs = common.lib_sources()
            flags = common.cxx_flags(libdir, True)
            mk = ["OBJS=" + " ".join(x[:-3] + ".o" for x in srcs), "all: libppl_verif.a",
                  "libppl_verif.a: $(OBJS)\n\tar rcs $@ $(OBJS)",
                  "%%.o: %s/src/%%.cc\n\tg++ %s -fPIC -c $< -o $@" % (common.REPO, " ".join(flags))]
            with open(os.path.join(libdir, "Makefile"), "w") as f:
                f.write("\n".join(mk) + "\n")
            rc, out = common.sh(["make", "-j%d" % common.NCPU, "-C", libdir], timeout=1800)
            if rc != 0:
                if os.path.exists(lib):
                    os.remove(lib)
                raise common.BuildError("library build failed:\n%s" % out[-6000:])
            for o in glob.glob(os.path.join(libdir, "*.o")):
                os.remove(o)
        src = os.path.join(common.VERIF, "harness", "run_pip.cc")
        h = hashlib.sha256(open(src, "rb").read()).hexdigest()[:10]
        extra_obj = []
        if variant:
            # the same library with src/PIP_Tree.cc replaced by a copy carrying a candidate fix
            # (corpus/C07/patch-*.diff): used ONLY to attribute a failure to the code a fix changes
            ph = hashlib.sha256(b"".join(open(os.path.join(common.VERIF, "corpus", "C07", q), "rb").read()
                                         for q in VARIANTS[variant])).hexdigest()[:8]
            vdir = os.path.join(libdir, "variant-%s-%s" % (variant, ph)); os.makedirs(os.path.join(vdir, "src"), exist_ok=True)
            obj = os.path.join(vdir, "PIP_Tree.o")
            if not os.path.exists(obj):
                import re
                files = set(["PIP_Tree.cc"])
                for q in VARIANTS[variant]:
                    files |= set(re.findall(r"^\+\+\+ b/src/(\S+)", open(os.path.join(common.VERIF, "corpus", "C07", q)).read(), re.M))
                # all PIP headers are copied next to the patched sources, so that every quoted include of a patched
                # header (also from another PIP header) resolves to the patched copy
                files |= set(os.path.basename(h) for h in glob.glob(os.path.join(common.REPO, "src", "PIP_*.hh")))
                for fn in files:
                    shutil.copy(os.path.join(common.REPO, "src", fn), os.path.join(vdir, "src", fn))
                for q in VARIANTS[variant]:
                    rc, out = common.sh(["patch", "-s", "-f", "-p1", "-d", vdir, "-i", os.path.join(common.VERIF, "corpus", "C07", q)], timeout=60)
                    if rc != 0:
                        raise common.BuildError("candidate fix %s no longer applies:\n%s" % (q, out[-500:]))
                if [f for f in files if f.endswith(".cc") and f != "PIP_Tree.cc"]:
                    raise common.BuildError("variant %s touches other translation units: %s" % (variant, sorted(files)))
                fl = common.cxx_flags(libdir, True)
                fl = [fl[0], fl[1], "-I" + os.path.join(vdir, "src")] + fl[2:]
                rc, out = common.sh(["g++"] + fl + ["-fPIC", "-c", os.path.join(vdir, "src", "PIP_Tree.cc"), "-o", obj + ".tmp"], timeout=600)
                if rc != 0:
                    raise common.BuildError("variant %s failed to compile:\n%s" % (variant, out[-3000:]))
                os.rename(obj + ".tmp", obj)
            extra_obj = [obj]
            h = h + "_" + variant + ph
        exe = os.path.join(libdir, "h_run_pip_" + h)
        if not os.path.exists(exe):
            rc, out = common.sh(["g++"] + common.cxx_flags(libdir, True) + [src, "-o", exe + ".tmp"] + extra_obj + [lib, "-lgmpxx", "-lgmp"], timeout=600)
            if rc != 0:
                raise common.BuildError("harness run_pip.cc failed to compile:\n%s" % out[-6000:])
            os.rename(exe + ".tmp", exe)
        os.utime(libdir, None)
    return exe


# ------------------------------------------------------------------------------------------------
# running the library

def run_harness(exe, cases, tmo):
    """cases: list of (cid, ops). Returns {cid: [step, ...]}, step = dict(status=OPT|UNF|TIMEOUT|CRASH|EXC, ...)."""
    res = {cid: [] for cid, _ in cases}
    todo = list(cases)
    deaths = 0
    while todo:
        if deaths >= MAX_DEATHS:
            break          # the library is evidently broken: the cases not run are reported as skipped
        text = "".join(gen_pip.render(cid, ops) for cid, ops in todo)
        p = subprocess.run([exe, str(tmo)], input=text, stdout=subprocess.PIPE, stderr=subprocess.STDOUT, text=True,
                           timeout=20 * tmo * len(todo) + 600)   # wall-clock backstop only; the per-case limit is CPU time
        begun = None; finished = set()
        for line in p.stdout.splitlines():
            t = line.split()
            if not t:
                continue
            if t[0] == "B":
                begun = t[1]; res[begun] = []
            elif t[0] == "Z":
                finished.add(t[1]); begun = None
            elif t[0] == "R" and len(t) >= 4 and t[3] == "TIMEOUT":
                res[t[1]].append({"status": "TIMEOUT"})
            elif t[0] == "R":
                res[t[1]].append({"status": t[3], "ok": t[4] == "ok=1", "dim": int(t[5][4:]), "tree": t[6:]})
            elif t[0] == "X":
                res[t[1]].append({"status": "EXC", "what": " ".join(t[3:])})
        if begun is None and p.returncode == 0:
            break
        # the process died inside case `begun` (timeout -> exit 3, crash -> signal)
        ids = [cid for cid, _ in todo]
        if begun is None:
            # died between cases: cannot attribute; mark the first unfinished one
            rest = [c for c in ids if c not in finished]
            if not rest:
                break
            begun = rest[0]
        if not res[begun] or res[begun][-1]["status"] != "TIMEOUT":
            res[begun].append({"status": "CRASH", "rc": p.returncode, "tail": p.stdout[-300:]})
        i = ids.index(begun)
        todo = todo[i + 1:]
        if res[begun] and res[begun][-1]["status"] == "TIMEOUT":
            deaths += 1        # only timeouts are expensive; a crash costs nothing
    return res


def run_judge(judge, lines, timeout, per_record=30):
    """Run the judge on record lines, in parallel chunks. Returns {rid: json}."""
    if not lines:
        return {}
    n = max(1, min(common.NCPU, len(lines) // 8 + 1))
    chunks = [lines[i::n] for i in range(n)]
    procs = []
    for ch in chunks:
        p = subprocess.Popen([judge, str(per_record)], stdin=subprocess.PIPE, stdout=subprocess.PIPE, stderr=subprocess.STDOUT, text=True)
        procs.append((p, ch))
    out = {}
    import threading
    def feed(p, ch, box):
        try:
            o, _ = p.communicate("\n".join(ch) + "\n", timeout=timeout)
        except subprocess.TimeoutExpired:
            p.kill(); o, _ = p.communicate()
        box.append(o)
    ths = []
    boxes = []
    for p, ch in procs:
        b = []; boxes.append(b)
        th = threading.Thread(target=feed, args=(p, ch, b)); th.start(); ths.append(th)
    for th in ths:
        th.join()
    for b in boxes:
        for line in (b[0] if b else "").splitlines():
            line = line.strip()
            if line.startswith("{"):
                try:
                    j = json.loads(line); out[j["rid"]] = j
                except ValueError:
                    pass
    return out


# ------------------------------------------------------------------------------------------------
# evaluation of a batch of histories

def evaluate(exe, judge, cases, bound, tmo=4, fuel=FUEL, judge_timeout=1500, per_record=30, retry_long=True):
    """cases: list of (cid, ops). Returns list of step verdicts:
       dict(cid, step, ops, snap, kind=None|<failure kind>, detail, judge=<json or None>)."""
    hres = run_harness(exe, cases, tmo)
    # a case that exceeded the (short) CPU limit is run again, alone, with a long one: only a run that does not
    # return within LONG_TMO CPU seconds is reported as "does not return"
    if retry_long and tmo < LONG_TMO:
        slow = [(cid, ops) for cid, ops in cases if any(st["status"] == "TIMEOUT" for st in hres.get(cid, []))]
        for cid, ops in slow[:MAX_LONG_RETRIES]:
            hres[cid] = run_harness(exe, [(cid, ops)], LONG_TMO)[cid]
    lines = []; meta = {}
    verdicts = []
    for cid, ops in cases:
        snaps = gen_pip.snapshots(ops)
        steps = hres.get(cid, [])
        for k, snap in enumerate(snaps):
            v = {"cid": cid, "step": k + 1, "ops": ops, "snap": snap, "kind": None, "detail": None, "judge": None}
            verdicts.append(v)
            if k >= len(steps):
                # an earlier step killed the process or threw: nothing to judge here
                v["kind"] = "skipped"
                continue
            s = steps[k]
            if s["status"] in ("TIMEOUT", "CRASH", "EXC"):
                v["kind"] = {"TIMEOUT": "timeout", "CRASH": "crash", "EXC": "exception"}[s["status"]]
                v["detail"] = s.get("what") or s.get("tail")
                # later steps of this history are not judged (state unknown after an exception)
                for k2 in range(k + 1, len(snaps)):
                    verdicts.append({"cid": cid, "step": k2 + 1, "ops": ops, "snap": snaps[k2], "kind": "skipped",
                                     "detail": None, "judge": None})
                break
            rid = "%s/%d" % (cid, k + 1)
            if s["dim"] != snap["dim"]:
                v["kind"] = "harness_state_mismatch"; v["detail"] = "dim %s vs %s" % (s["dim"], snap["dim"])
                continue
            v["ok"] = s["ok"]; v["status"] = s["status"]; v["tree"] = s["tree"]
            v["earlier_trees"] = [steps[k2]["tree"] for k2 in range(k) if "tree" in steps[k2]]
            lines.append(gen_pip.judge_line(rid, snap, s["status"], s["tree"], bound, BIGVALS if snap["big"] >= 0 else [], fuel))
            meta[rid] = v
    jres = run_judge(judge, lines, judge_timeout, per_record)
    for rid, v in meta.items():
        j = jres.get(rid)
        v["judge"] = j
        if j is None:
            v["kind"] = "judge_no_answer"
        elif "error" in j:
            v["kind"] = "judge_error"; v["detail"] = j["error"]
        elif not v["ok"]:
            v["kind"] = "not_ok"; v["detail"] = "OK() false or status/tree/solve() disagree"
        elif j["malformed"]:
            v["kind"] = "malformed"; v["detail"] = "; ".join(j["malformed"])
        elif j["nfail"] > 0:
            ks = sorted(j["kinds"].items(), key=lambda kv: -kv[1])
            v["kind"] = ks[0][0]; v["detail"] = j["fails"][:3]
        elif j["status_fail"]:
            v["kind"] = j["status_fail"]
    return verdicts



class Tools:
    def __init__(self, chk):
        self.chk = chk
        self.exe, self.judge = build_tools(chk)
        self.variants = {}

    def variant(self, name):
        if name not in self.variants:
            try:
                self.variants[name] = private_harness(name)
            except common.BuildError as e:
                self.chk.log("candidate-fix variant %s unavailable: %s" % (name, str(e)[:200]))
                self.variants[name] = None
        return self.variants[name]


def fresh_case(snap, pivot=None):
    """The same problem, built and solved from scratch."""
    params = [i for i, f in enumerate(snap["flags"]) if f]
    cons = [(c[0], c[1], list(c[2])) for c in snap["cons"]]
    ops = [["newcs", snap["dim"], params, cons], ["ctl", snap["ctl"][0]], ["ctl", pivot if pivot is not None else snap["ctl"][1]]]
    if snap["big"] >= 0:
        ops.append(["big", snap["big"]])
    ops.append(["solve", "solve"])
    return ops


def ops_before_step(ops, step):
    k = 0
    for i, o in enumerate(ops):
        if o[0] == "solve":
            k += 1
            if k == step:
                return ops[:i]
    return ops


def tree_features(tokens):
    """(has artificial parameters, has a decision node with both children) of a printed tree."""
    pos = [0]; two = [False]; arts = [False]
    def expr():
        n = int(tokens[pos[0] + 1]); pos[0] += 2 + n
    def node():
        t = tokens[pos[0]]; pos[0] += 1
        if t == "N":
            return False
        if t == "S":
            nc, na, nv = (int(x) for x in tokens[pos[0]:pos[0] + 3]); pos[0] += 3
        else:
            nc, na = (int(x) for x in tokens[pos[0]:pos[0] + 2]); pos[0] += 2; nv = 0
        for _ in range(nc): pos[0] += 1; expr()
        for _ in range(na): pos[0] += 2; expr(); arts[0] = True
        for _ in range(nv): pos[0] += 1; expr()
        if t == "D":
            node()
            if node():
                two[0] = True
        return True
    try:
        node()
    except (IndexError, ValueError):
        pass
    return arts[0], two[0]


def attribute(v, T, bound):
    """Describe a failure by PREDICATES that state a root cause (each is computed here by a
    differential run or by the judge; none is a fingerprint of the input):
      fails_with_assignment_but_not_with_copy_construction   the object was assigned (operator= -> m_swap) after a solve,
                                       and the same history with the copy constructor in its place is judged correct
      incremental_only                 the failing step re-solves an object that already had a result, and the same
                                       problem solved from scratch by a fresh object is judged correct
      resolved_tree_had                artificial_parameters / two_way_decision / neither: what a tree held by the object
                                       before the failing re-solve contained (the two open incremental defects need one of them)
      vanishes_with_patch = X          the failure disappears when candidate fix X (VARIANTS) is applied to a copy of PIP_Tree.cc
      terminates_under_another_strategy_setting   a timeout that does not occur under another CUTTING x PIVOT setting
      big_parameter / answer_not_affine_in_big_parameter   (judge) the exact answer is not affine in the big parameter
      artificial_parameter_depends_on_big_parameter        (judge) the returned tree cuts on the big parameter"""
    info = {"kind": v["kind"]}
    pre = ops_before_step(v["ops"], v["step"])
    seen_solve = False
    for o in pre:
        if o[0] == "solve":
            seen_solve = True
        if o[0] == "assign" and seen_solve:
            # the same history with the copy constructor in place of operator= (m_swap)
            ops2 = [(["copy"] if x[0] == "assign" else x) for x in v["ops"]]
            cv = [w for w in evaluate(T.exe, T.judge, [("cpy", ops2)], bound) if w["step"] == v["step"]]
            if cv and cv[0]["kind"] is None:
                info["fails_with_assignment_but_not_with_copy_construction"] = True
                return info
            break
    cur = v
    if v["step"] >= 2:
        fv = evaluate(T.exe, T.judge, [("fresh", fresh_case(v["snap"]))], bound, per_record=120)[0]
        if fv["kind"] in ("judge_error", "judge_no_answer"):
            # the judge gave up on the fresh tree (many undecided valuations are expensive): smaller box
            fv = evaluate(T.exe, T.judge, [("fresh", fresh_case(v["snap"]))], min(bound, 6), per_record=120)[0]
        if fv["kind"] is None:
            info["incremental_only"] = True
            # which of the known defects of the incremental path can be involved: both need something in a tree the
            # object held before this re-solve (an incremental failure WITHOUT such a tree is a new defect)
            arts = two = False
            for t in v.get("earlier_trees", []):
                a, d = tree_features(t); arts |= a; two |= d
            info["resolved_tree_had"] = ("artificial_parameters" if arts else "two_way_decision" if two else "neither")
            # the failure is attributed to the open incremental defects only if it disappears when their candidate
            # fixes are applied to the tree under test (any other incremental failure is a new defect)
            for name in INCREMENTAL_VARIANTS:
                exe = T.variant(name)
                if exe is None:
                    continue
                pv = [w for w in evaluate(exe, T.judge, [("var", v["ops"])], bound) if w["step"] == v["step"]]
                if pv and pv[0]["kind"] is None:
                    info["vanishes_with_patch"] = name
                    break
            if "vanishes_with_patch" not in info:
                if v["kind"] == "timeout":
                    # the strategy-dependent non-termination, met on the incremental path: does the same history
                    # return under another CUTTING x PIVOT setting?
                    other = False
                    for cut in (0, 1, 2):
                        for piv in (3, 4):
                            if other:
                                continue
                            ops2 = [(["ctl", cut] if (o[0] == "ctl" and o[1] < 3) else (["ctl", piv] if o[0] == "ctl" else o)) for o in v["ops"]]
                            if ops2 == v["ops"]:
                                continue
                            pv = [w for w in evaluate(T.exe, T.judge, [("alt", ops2)], bound, retry_long=False) if w["step"] == v["step"]]
                            if pv and pv[0]["kind"] != "timeout":
                                other = True
                    info["terminates_under_another_strategy_setting"] = other
                if v["snap"]["big"] >= 0:
                    info["big_parameter"] = True
                    info["answer_not_affine_in_big_parameter"] = bool((v.get("judge") or {}).get("big_nonaffine"))
                    info["artificial_parameter_depends_on_big_parameter"] = bool((v.get("judge") or {}).get("big_in_arts"))
            return info
        info["incremental_only"] = False
        cur = fv; info["fresh_kind"] = fv["kind"]
    fresh_ops = fresh_case(cur["snap"]) if cur is not v else v["ops"]
    if cur["kind"] == "timeout":
        # does any other CUTTING_STRATEGY x PIVOT_ROW_STRATEGY setting terminate on the same problem?
        other = False
        for cut in (0, 1, 2):
            for piv in (3, 4):
                if [cut, piv] == list(cur["snap"]["ctl"]) or other:
                    continue
                sn = dict(cur["snap"]); sn["ctl"] = [cut, piv]
                pv = evaluate(T.exe, T.judge, [("alt", fresh_case(sn))], bound, retry_long=False)[0]
                if pv["kind"] != "timeout":
                    other = True
        info["terminates_under_another_strategy_setting"] = other
        if not other:
            fl = cur["snap"]["flags"]
            info["at_least_3_variables_and_2_parameters"] = (fl.count(0) >= 3 and fl.count(1) >= 2)
    for name in FRESH_VARIANTS:
        exe = T.variant(name)
        if exe is None:
            continue
        pv = evaluate(exe, T.judge, [("var", fresh_ops)], bound)[0]
        if pv["kind"] is None:
            info["vanishes_with_patch"] = name
            return info
    if cur["snap"]["big"] >= 0:
        info["big_parameter"] = True
        info["answer_not_affine_in_big_parameter"] = bool((cur.get("judge") or {}).get("big_nonaffine"))
        info["artificial_parameter_depends_on_big_parameter"] = bool((cur.get("judge") or {}).get("big_in_arts"))
    if cur["kind"] == "malformed":
        info["what"] = cur["detail"]
    return info


def shrink(v, T, bound, budget=80):
    """Greedy reduction of a fresh failing problem: drop constraints, then move coefficients towards 0,
    keeping the failure kind.  Histories are first turned into the fresh problem when that fails too."""
    snap = v["snap"]
    base = evaluate(T.exe, T.judge, [("s", fresh_case(snap))], bound)[0]
    if base["kind"] != v["kind"]:
        return None
    kind = v["kind"]
    cons = [[c[0], c[1], list(c[2])] for c in snap["cons"]]
    def fails(cs):
        nonlocal budget
        budget -= 1
        sn = dict(snap); sn["cons"] = cs
        return evaluate(T.exe, T.judge, [("s", fresh_case(sn))], bound)[0]["kind"] == kind
    i = 0
    while i < len(cons) and budget > 0:
        t = cons[:i] + cons[i + 1:]
        if t and fails(t):
            cons = t
        else:
            i += 1
    for ci in range(len(cons)):
        for j in range(-1, len(cons[ci][2])):
            while budget > 0:
                cur = cons[ci][1] if j < 0 else cons[ci][2][j]
                if cur == 0:
                    break
                t = [[c[0], c[1], list(c[2])] for c in cons]
                nv = cur - (1 if cur > 0 else -1)
                if j < 0: t[ci][1] = nv
                else: t[ci][2][j] = nv
                if fails(t):
                    cons = t
                else:
                    break
    sn = dict(snap); sn["cons"] = cons
    return sn


def nontrivial(v):
    j = v.get("judge") or {}
    return j.get("sol", 0) > 0


def process(chk, T, verdicts, bound, stats):
    for v in verdicts:
        k = v["kind"]
        j = v.get("judge") or {}
        if len(chk.violations) >= MAX_VIOLATIONS:
            stats["not_processed_after_%d_violations" % MAX_VIOLATIONS] += 1
            continue
        if k == "skipped":
            stats["skipped"] += 1
            continue
        stats["steps"] += 1
        stats["valuations"] += j.get("inctx", 0)
        chk.undecided += j.get("undecided", 0)
        if k in ("judge_no_answer", "judge_error"):
            chk.undecided += 1; stats["judge_gave_up"] += 1
            continue
        key = (gen_pip.canon(v["ops"]), v["step"]) if nontrivial(v) else None
        chk.count(1, key=key, sample={"ops": v["ops"], "step": v["step"], "status": v.get("status"),
                                      "tree": " ".join(v.get("tree", []))[:400],
                                      "valuations_in_context": j.get("inctx"), "with_solution": j.get("sol")}
                  if key is not None and j.get("nodes", 0) > 1 else None)
        stats["shape:" + ("resolve" if v["step"] >= 2 else "fresh")] += 1
        cert = j.get("certified", "not_tried")
        stats["cert:" + cert] += 1
        if cert == "yes":
            if j.get("nodes", 0) > 1 or j.get("arts", 0) > 0:
                stats["cert:yes_with_decisions_or_artificials"] += 1
            if k in ("bottom_but_feasible", "solution_but_infeasible", "feasible_not_minimal", "infeasible_point"):
                # a certified tree cannot be wrong on a sampled valuation: theorem tree_cert_sound vs lexmin_ref_exact
                chk.broken.append(("certificate-vs-sampling", "tree certified for all valuations but judged %s: %s" % (k, v["snap"])))
        if j.get("arts", 0) > 0: stats["trees_with_artificial_parameters"] += 1
        if j.get("nodes", 0) > 1: stats["trees_with_decisions"] += 1
        if v["snap"]["big"] >= 0: stats["with_big_parameter"] += 1
        stats["ctl:%d%d" % tuple(v["snap"]["ctl"])] += 1
        if k is None:
            continue
        stats["failing_steps"] += 1
        info = attribute(v, T, bound)
        f = chk.match_finding(info)
        replay = {"ops": v["ops"], "step": v["step"], "bound": bound, "problem": v["snap"], "status": v.get("status"),
                  "tree": " ".join(v.get("tree", [])), "detail": v["detail"],
                  "expected": "eval_tree(tree, q) = lexmin_ref(problem, q) for every valuation q of the context "
                              "(theorems lexmin_ref_exact, eval_tree_computes)"}
        if f is None and v["kind"] not in ("crash", "timeout", "exception"):
            sn = shrink(v, T, bound)
            if sn is not None:
                replay["shrunk_problem"] = sn; replay["shrunk_ops"] = fresh_case(sn)
        r = chk.failure(info, replay)
        stats["attributed:" + (f["id"] if f else "NONE")] += 1
        if r == "violation":
            chk.log("VIOLATION candidate: %s %s" % (info, v["snap"]))


def run(chk):
    import collections
    chk.rule = ("random PIP_Problem histories (1-3 variables, 0-3 parameters at random positions, 1-7 constraints, "
                "coefficients in [-4,4], kinds =,>=,>, 3x2 strategy settings, optional big parameter, constraints / "
                "dimensions / parameters added after a solve, copies); every solve step is one evaluation; a step is "
                "distinct by (op list, step) and non-trivial when the reference finds a feasible point for at least one "
                "valuation of the context")
    chk.trusted += ["Coq 8.16.1 kernel (coqc); vm_compute in the Examples only; extraction with ExtrOcamlBasic; OCaml 4.13.1 "
                    "judge glue (parsing, enumeration of valuations, comparison, classification); g++ harness printing the "
                    "tree through the public node interface; python generator/driver; Base/Sys.v rational oracle (proved)"]
    chk.assumptions += ["valuations are sampled from the box [0..B]^params (B=6 quick, 12 thorough) and the big parameter from "
                        "%s: the all-valuations claim is carried per valuation by lexmin_ref_exact; only the trees counted in "
                        "trees_certified_for_all_valuations are covered for every valuation (tree_cert_sound)" % BIGVALS,
                        "the model of the tree is the documented spanning (PIP_Problem_defs.hh); coefficients on problem "
                        "variables and references to undeclared artificial parameters are reported as malformed trees",
                        "a valuation on which the reference search answers Unknown is counted as undecided, never as agreement"]
    chk.prove(COQ_FILES)
    T = Tools(chk)
    chk.log("tools built")
    bound = 6 if chk.quick else 12
    stats = collections.Counter()
    # ---- replay -------------------------------------------------------------------------------
    if chk.replay:
        r = json.load(open(chk.replay))
        ops = r.get("shrunk_ops") or r["ops"]
        vs = evaluate(T.exe, T.judge, [("replay", ops)], r.get("bound", bound))
        process(chk, T, vs, r.get("bound", bound), stats)
        chk.extra["histogram"] = dict(stats)
        return
    # ---- corpus first -------------------------------------------------------------------------
    cases = []
    for pth in sorted(glob.glob(os.path.join(common.VERIF, "corpus", "C07", "*.json"))):
        for k, c in enumerate(json.load(open(pth)).get("cases", [])):
            cases.append(("corpus-%s-%d" % (os.path.basename(pth)[:-5], k), c["ops"]))
    if cases:
        vs = evaluate(T.exe, T.judge, cases, bound)
        process(chk, T, vs, bound, stats)
        chk.log("corpus: %d cases, %d failing steps" % (len(cases), stats["failing_steps"]))
    # ---- generated histories ------------------------------------------------------------------
    total = 3000 if chk.quick else 14000
    batch = 600 if chk.quick else 1000
    budget_s = 150 if chk.quick else 1500
    done = 0; b = 0
    t_gen = time.time()      # the budget covers generation and judging, not the wait for the shared Coq lock
    while done < total and time.time() - t_gen < budget_s and len(chk.violations) < MAX_VIOLATIONS:
        rng = random.Random(chk.seed * 1000003 + b)
        cases = []
        for i in range(min(batch, total - done)):
            ops, tags = gen_pip.gen_history(rng)
            cases.append(("g%d_%d" % (b, i), ops))
        vs = evaluate(T.exe, T.judge, cases, bound)
        process(chk, T, vs, bound, stats)
        done += len(cases); b += 1
        chk.log("batch %d: %d histories so far, %d steps judged, %d failing steps, %d valuations" %
                (b, done, stats["steps"], stats["failing_steps"], stats["valuations"]))
    chk.extra["histogram"] = dict(stats)
    chk.extra["histories"] = done
    chk.extra["valuations_compared"] = stats["valuations"]
    chk.extra["trees_certified_for_all_valuations"] = stats["cert:yes"]
    chk.extra["trees_certificate_attempted"] = stats["cert:yes"] + stats["cert:no"] + stats["cert:gave_up"]
    chk.extra["explanation"] = ("per valuation: Pip.eval_tree (extracted) on the tree printed by the library vs Pip.lexmin_ref "
                                "(extracted, proved exact); failures are attributed by differential runs (fresh object, "
                                "other strategy settings) before being matched against known findings")
