"""C19 -- Watchdog / Threshold_Watcher: fire once, in order, never early, never after death.

Proof side: coq/Watchdog/{TimeSpec,Time,WD,WDProofs,TW}.v + Properties_C19.v, with coq/gen/Facts_Time.v regenerated
from the source on every run.  Tie: the REAL Watchdog.cc (PPL_VERIF_HOOKS) against a virtual timer on generated
schedules vs the extracted model on the same schedules (complete bookkeeping state after every event), plus a
property-level oracle on the real runs that does not look at the model."""
import glob, hashlib, json, os, re, random, time

import common
import translate_time
import gen_wd

VERIF = common.VERIF
CS = 10000  # microseconds per centisecond


# ------------------------------------------------------------------------------------------------------------------
# running both sides
# ------------------------------------------------------------------------------------------------------------------

def split_blocks(out):
    blocks, cur = [], None
    for l in out.split("\n"):
        if l.startswith("BEGIN "):
            cur = []
        elif l == "END":
            blocks.append(cur if cur is not None else []); cur = None
        elif cur is not None:
            cur.append(l)
    return blocks


def run_all(exe_h, exe_m, scheds, chunk=400):
    """Returns per schedule (real_lines, sum_line, model_src_lines, model_int_lines)."""
    res = []
    for i in range(0, len(scheds), chunk):
        part = scheds[i:i + chunk]
        inp = "\n".join(part) + "\n"
        rc, oh = common.sh([exe_h], input=inp, timeout=900)
        rc1, om = common.sh([exe_m, "src"], input=inp, timeout=900)
        rc2, oi = common.sh([exe_m, "int"], input=inp, timeout=900)
        bh, bm, bi = split_blocks(oh), split_blocks(om), split_blocks(oi)
        if not (len(bh) == len(bm) == len(bi) == len(part)):
            raise common.BuildError("harness/model produced %d/%d/%d blocks for %d schedules (rc %s %s %s)\n%s"
                                    % (len(bh), len(bm), len(bi), len(part), rc, rc1, rc2, (oh[-500:] + om[-500:])))
        for s, h, m, mi in zip(part, bh, bm, bi):
            sums = [l for l in h if l.startswith("SUM")]
            res.append((s, [l for l in h if not l.startswith("SUM")], sums[0] if sums else "SUM", m, mi))
    return res


# ------------------------------------------------------------------------------------------------------------------
# the property-level oracle (reads only what the REAL run reported)
# ------------------------------------------------------------------------------------------------------------------

def parse_sum(sumline):
    t = sumline.split()[1:]
    ev, i = [], 0
    ar = {"C": 4, "R": 3, "F": 7, "B": 3, "D": 3}
    while i < len(t):
        k = t[i]; n = ar[k]
        ev.append((k,) + tuple(int(x) for x in t[i + 1:i + 1 + n])); i += 1 + n
    return ev


def oracle(sumline, real_lines):
    """Failures of the property on one real run: list of dicts (kind, id, ...)."""
    ev = parse_sum(sumline)
    C, R, B, D, F = {}, {}, {}, {}, {}
    fails = []
    calls = []  # (t_begin, t_end)
    for e in ev:
        k = e[0]
        if k == "C": C[e[1]] = e
        elif k == "R": R[e[1]] = e; calls.append((C[e[1]][2], e[2]))
        elif k == "B": B[e[1]] = e
        elif k == "D": D[e[1]] = e; calls.append((B[e[1]][2], e[2]))
        elif k == "F":
            _, wid, t, ds, du, seq, ordok, incs = e
            if wid in F:
                fails.append({"kind": "duplicate", "id": wid, "t": t})
            F.setdefault(wid, e)
            if wid not in C:
                fails.append({"kind": "fired-unknown", "id": wid, "t": t}); continue
            due = C[wid][2] + C[wid][3] * CS
            if t < due:
                fails.append({"kind": "early", "id": wid, "t": t, "due": due, "seq": seq})
            if wid in D and seq > D[wid][3]:
                fails.append({"kind": "after-destruction", "id": wid, "t": t})
            if not ordok:
                fails.append({"kind": "order", "id": wid, "t": t})
            if incs:
                fails.append({"kind": "fired-in-critical-section", "id": wid, "t": t})
    # promptness (sampled, not a theorem).  In the fixed design the program's virtual clock can fall behind timer time
    # only (i) between a reading of the timer (get_timer) and the re-arming (set_timer) that uses it, inside one call,
    # (ii) between the entry of a watchdog's own constructor and its first timer call, (iii) by one reschedule period
    # for every expiry delivered inside a critical section while it is pending or while it is being created during the
    # retry period.  A handler must run no later than due + (i) + (ii) + (iii); with no time passing inside calls and no
    # expiry inside a critical section that means exactly at its due time.
    win, own = stale_windows(real_lines)
    cs_fires = cs_fire_times(real_lines)
    for wid, e in F.items():
        if wid not in C:
            continue
        t = e[2]; t0 = C[wid][2]; due = t0 + C[wid][3] * CS
        slack = 0
        for (a, b) in win + ([own[wid]] if wid in own else []):
            lo, hi = max(a, t0), min(b, t)
            if hi > lo:
                slack += hi - lo
        slack += RESCHEDULE_US * sum(1 for tf in cs_fires if t0 - RESCHEDULE_US <= tf <= t)
        if t > due + slack:
            fails.append({"kind": "late", "id": wid, "t": t, "due": due, "slack": slack, "seq": e[5]})
    # final state: whoever is alive and has not fired must still be pending with the timer armed
    last = None
    for l in reversed(real_lines):
        if " P=[" in l:
            last = l; break
    if last is not None and not any(l.startswith(("EXC", "CRASH")) for l in real_lines):
        m = re.search(r"y=(\d+) P=\[(.*?)\] .* run=(\d) cs=(\d) exp=\[.*?\] rem=(\d+)", last)
        if m:
            y, P, run, cs, rem = int(m.group(1)), m.group(2), int(m.group(3)), int(m.group(4)), int(m.group(5))
            pend = [int(x.split(":")[2]) for x in P.split(",")] if P else []
            waiting = sorted(w for w in C if w in R and w not in B and w not in F)
            if y == 0:
                if sorted(pend) != waiting:
                    fails.append({"kind": "lost-or-stale-pending", "pending": pend, "waiting": waiting})
                if cs != 0:
                    fails.append({"kind": "critical-section-left-set"})
                if waiting and rem == 0:
                    fails.append({"kind": "timer-not-armed", "waiting": waiting})
                if (run == 1) != bool(pend):
                    fails.append({"kind": "alarm-flag-wrong", "run": run, "pending": pend})
    if any(l.startswith("EXC") for l in real_lines):
        fails.append({"kind": "exception", "what": [l for l in real_lines if l.startswith("EXC")][0]})
    if any(l.startswith("CRASH") for l in real_lines):
        fails.append({"kind": "crash"})
    for l in real_lines:
        if " !" in l or l.startswith("NOTE"):
            fails.append({"kind": "harness-note", "what": l[-80:]}); break
    return fails


def model_early(lines):
    """(id -> fired time) and creation (id -> (t, cs)) from event lines (used on the intended-comparison model)."""
    created, fired, nid = {}, {}, 0
    for l in lines:
        m = re.match(r"(\d+|F) (\S+) y=(\d+) .* now=(\d+) calls=\[.*?\] fired=\[(.*?)\]", l)
        if not m:
            continue
        tok, y, now, fl = m.group(2), int(m.group(3)), int(m.group(4)), m.group(5)
        if tok[0] == "c" and y == 1 and m.group(1) != "F":
            created[nid] = (now, int(tok[1:])); nid += 1
        for f in fl.split():
            wid, rest = f.split("@"); fired.setdefault(int(wid), int(rest.split(":")[0]))
    return {w for w, t in fired.items() if w in created and t < created[w][0] + created[w][1] * CS}


RESCHEDULE_US = CS  # reschedule_time (1 cs); run() overwrites it from the regenerated facts


def cs_fire_times(real_lines):
    """Virtual time stamps of the expiries delivered while in_critical_section was set."""
    out = []
    for l in real_lines:
        m = re.match(r"(\d+|F) f y=\d+ .* cs=1 .* now=(\d+) calls=\[ S", l)
        if m:
            out.append(int(m.group(2)))
    return out


LINE_RE = re.compile(r"(\d+|F) (\S+) y=(\d+) .* cs=(\d) .* now=(\d+) calls=\[(.*?)\] fired=")


def stale_windows(real_lines):
    """(windows, own): windows = [(t_get, t_set)] for every getitimer followed by a setitimer issued by the same call
    (not by the signal handler); own[id] = (constructor entry, its first timer call or its return)."""
    win, own = [], {}
    nid, cur_ctor, t_get, in_call = 0, None, None, False
    for l in real_lines:
        m = LINE_RE.match(l)
        if not m:
            continue
        label, tok, y, now, calls = m.group(1), m.group(2), int(m.group(3)), int(m.group(5)), m.group(6).split()
        if label != "F" and tok[0] == "c" and y == 1:
            cur_ctor = nid; own[nid] = [now, None]; nid += 1; in_call = True; t_get = None
        elif label != "F" and tok[0] == "d" and y != 0:
            in_call = True; t_get = None; cur_ctor = None
        if in_call and tok != "f":
            for cl in calls:
                if cur_ctor is not None and own[cur_ctor][1] is None:
                    own[cur_ctor][1] = now
                if cl[0] == "G":
                    t_get = now
                elif cl[0] in "SX" and t_get is not None:
                    win.append((t_get, now)); t_get = None
        if in_call and y == 0:
            if cur_ctor is not None and own[cur_ctor][1] is None:
                own[cur_ctor][1] = now
            in_call = False; cur_ctor = None; t_get = None
    return win, {k: (v[0], v[1] if v[1] is not None else v[0]) for k, v in own.items()}


def cs_fire_seen(real_lines):
    """A timer expiry was delivered while in_critical_section was set (handle_timeout took the reschedule branch)."""
    for l in real_lines:
        m = re.match(r"(\d+|F) f y=\d+ .* cs=1 .* calls=\[ S", l)
        if m:
            return True
    return False


# ------------------------------------------------------------------------------------------------------------------

def nontrivial_key(real_lines):
    """A run is non-trivial when >= 2 watchdogs were pending together and a handler ran or the timer was re-armed
    from inside a call; distinct = distinct trace."""
    two = any(re.search(r" P=\[[^\]]*,[^\]]*\]", l) for l in real_lines)
    acted = any("fired=[ ]" not in l and "fired=[" in l for l in real_lines) or any("calls=[ S" in l and " cs=1" in l for l in real_lines)
    if two and acted:
        return hashlib.sha1("\n".join(real_lines).encode()).hexdigest()[:16]
    return None


def analyse(chk, results, hist):
    mism = 0
    for (s, real, sumline, msrc, mint) in results:
        agrees = (real == msrc)
        if not agrees:
            mism += 1
            if mism <= 3:
                k = next((i for i, (a, b) in enumerate(zip(real + [""], msrc + [""])) if a != b), 0)
                chk.broken.append(("model-vs-code:" + hashlib.sha1(s.encode()).hexdigest()[:8],
                                   "schedule: %s\nfirst difference at line %d\n real : %s\n model: %s"
                                   % (s, k, (real + ["<end>"])[k][:300], (msrc + ["<end>"])[k][:300])))
        fails = oracle(sumline, real)
        key = nontrivial_key(real)
        chk.count(1, key=key, sample={"schedule": s[:400], "sum": sumline[:300]} if key and len(chk.samples) < 3 else None)
        hist["fire_in_cs"] += 1 if cs_fire_seen(real) else 0
        hist["with_failure"] += 1 if fails else 0
        if not fails:
            continue
        early_int = model_early(mint)
        csf = cs_fire_seen(real)
        for f in fails:
            info = {"kind": f["kind"], "model_agrees": agrees}
            # attribution (informational; no finding is open): the run is not the modelled code at all / the failure
            # disappears with the intended comparisons / an expiry hit a critical section / none of these
            if f["kind"] == "early":
                info["cause"] = ("code-differs-from-model" if not agrees else
                                 "comparison-operators" if f["id"] not in early_int else
                                 "expiry-in-critical-section" if csf else "unexplained")
            elif f["kind"] == "late":
                info["cause"] = ("code-differs-from-model" if not agrees else
                                 "expiry-in-critical-section" if csf else "unexplained")
            hk = "fail:" + f["kind"] + ":" + str(info.get("cause", "-"))
            hist[hk] = hist.get(hk, 0) + 1
            if chk.match_finding(info) is None:
                # an unlisted failure: keep the first 20 of each (kind, cause, agrees) as replays; all are counted above
                uk = "unlisted:" + hk + ":" + str(agrees)
                hist[uk] = hist.get(uk, 0) + 1
                if hist[uk] > 20:
                    continue
            chk.failure(info, {"schedule": s, "failure": f, "real_summary": sumline,
                               "replay_hint": "echo '<schedule>' | build/lib-*/h_run_wd_*   (real code, virtual timer)",
                               "theorem": "Properties_C19.never_early / at_most_once / never_after_destruction / order"})
    return mism


# ------------------------------------------------------------------------------------------------------------------
# Threshold_Watcher
# ------------------------------------------------------------------------------------------------------------------

def tw_sequences(seed, count):
    rng = random.Random(seed * 104729 + 7)
    out = []
    # all orders of <= 4 thresholds from a small set, weight advancing in random increments, checks in between
    import itertools
    for n in range(1, 5):
        for ds in itertools.permutations([0, 1, 3, 3, 6][:n + 1], n):
            toks = []
            for d in ds:
                toks.append("a%d" % d)
                if rng.random() < 0.5:
                    toks += ["w%d" % rng.choice([0, 1, 2, 3]), "k"]
            for _ in range(6):
                toks += ["w%d" % rng.choice([0, 1, 2, 5]), "k"]
            out.append(" ".join(toks))
    for _ in range(count):
        toks, nid, alive = [], 0, []
        for _ in range(rng.randint(3, 30)):
            r = rng.random()
            if r < 0.3 and nid < 12:
                toks.append("a%d" % rng.choice([0, 1, 2, 3, 5, 8, 13])); alive.append(nid); nid += 1
            elif r < 0.4 and alive:
                i = rng.choice(alive); alive.remove(i); toks.append("r%d" % i)
            elif r < 0.7:
                toks.append("w%d" % rng.choice([0, 1, 1, 2, 3, 7]))
            else:
                toks.append("k")
        out.append(" ".join(toks))
    return out


def tw_oracle(seq, lines):
    """Independent of the model: a watcher created at weight w0 with delta d has threshold w0+d; its handler must run
    at the first check (k) at which weight > threshold while it is alive, exactly once, and at no other time."""
    fails, thr, alive, done, w, nid = [], {}, set(), set(), 0, 0
    toks = seq.split()
    if len(lines) != len(toks):
        return [{"kind": "tw-trace-length"}]
    for tok, l in zip(toks, lines):
        m = re.search(r" w=(\d+) fn=(\d) exp=\[.*?\] fired=\[(.*?)\]", l)
        fired = [int(x.split("@")[0]) for x in m.group(3).split()] if m else []
        a = int(tok[1:]) if len(tok) > 1 else 0
        expect = []
        if tok[0] == "a" and nid < 16:
            thr[nid] = w + a; alive.add(nid); nid += 1
        elif tok[0] == "r":
            alive.discard(a)
        elif tok[0] == "w":
            w += a
        elif tok[0] == "k":
            expect = sorted((i for i in alive if i not in done and w > thr[i]), key=lambda i: thr[i])
        if sorted(fired) != sorted(expect):
            fails.append({"kind": "tw-wrong-firing", "op": tok, "fired": fired, "expected": expect, "weight": w})
        if [thr[i] for i in fired] != sorted(thr[i] for i in fired):
            fails.append({"kind": "tw-order", "op": tok, "fired": fired})
        done.update(fired)
        if m and (int(m.group(2)) == 1) != bool([i for i in alive if i not in done]):
            fails.append({"kind": "tw-check-function", "op": tok})
    return fails


def run_tw(chk, exe_m):
    exe = compile_retry("run_tw.cc")
    seqs = tw_sequences(chk.seed, 600 if chk.quick else 6000)
    inp = "\n".join(seqs) + "\n"
    rc, oh = common.sh([exe], input=inp, timeout=600)
    rc2, om = common.sh([exe_m, "tw"], input=inp, timeout=600)
    bh, bm = split_blocks(oh), split_blocks(om)
    if not (len(bh) == len(bm) == len(seqs)):
        raise common.BuildError("run_tw / model block count %d/%d/%d" % (len(bh), len(bm), len(seqs)))
    mism = 0
    for q, h, m in zip(seqs, bh, bm):
        agrees = (h == m)
        if not agrees:
            mism += 1
            if mism <= 2:
                chk.broken.append(("tw-model-vs-code", "sequence: %s\n real : %s\n model: %s" % (q, h[-3:], m[-3:])))
        fired_any = any("fired=[ ]" not in l for l in h)
        chk.count(1, key=("tw", hashlib.sha1("\n".join(h).encode()).hexdigest()[:16]) if fired_any else None)
        for f in tw_oracle(q, h):
            chk.failure({"kind": f["kind"], "model_agrees": agrees}, {"tw_sequence": q, "failure": f,
                        "theorem": "Properties_C19.tw_spec"})
    chk.extra["tw_sequences"] = len(seqs)
    chk.extra["tw_model_code_mismatches"] = mism
    chk.log("Threshold_Watcher: %d sequences, %d identical to the model" % (len(seqs), len(seqs) - mism))


def compile_retry(src, tries=4):
    """The build cache is shared with checks running concurrently on other trees (mutation runs drop stale library
    directories); retry when the directory vanished under us."""
    last = None
    for _ in range(tries):
        try:
            exe = common.compile_harness(src)
            if os.path.exists(exe):
                return exe
        except common.BuildError as e:
            last = e
            if "No such file or directory" not in str(e) and "cannot open output file" not in str(e):
                raise
        time.sleep(1.0)
    raise last or common.BuildError("harness %s vanished after compilation" % src)


def run(chk):
    chk.rule = ("schedules = histories of <= 6 watchdogs (delays from {1,2,3,5,8,100,101,199} cs; all creation/destruction "
                "orders for <= 3, random beyond) with ticks / timer expiries placed between calls and at the statement "
                "boundaries (PPL_VERIF_YIELD) of the constructor/destructor; non-trivial = two watchdogs pending together "
                "and a handler ran or the timer was re-armed inside a critical section; distinct = distinct trace")
    chk.trusted += ["Coq 8.16.1 kernel; vm_compute for the refutation witnesses and fact-dependent side conditions",
                    "extraction (ExtrOcamlBasic only) of the model; OCaml 4.13.1; g++",
                    "hand-written model coq/Watchdog/WD.v, TW.v of Watchdog.cc / Threshold_Watcher; tools/translate_time.py",
                    "harness/run_wd.cc, run_tw.cc (virtual timer; PPL_VERIF_HOOKS hooks in src/Watchdog*.{cc,hh})"]
    chk.assumptions += ["the interval timer counts down and signals exactly at zero; the handler is not re-entered (signal "
                        "blocked during its own handler); signal delivery latency, ITIMER_PROF accounting and sigaction "
                        "semantics are the OS's",
                        "set_timer/get_timer/stop_timer and Pending_List::insert/erase are atomic w.r.t. the signal; long "
                        "arithmetic does not overflow",
                        "handlers do not create or destroy watchdogs"]
    facts = translate_time.write()
    global RESCHEDULE_US
    RESCHEDULE_US = facts["reschedule_csecs"] * CS
    chk.extra["facts"] = {k: facts[k] for k in ("USECS_PER_SEC", "CSECS_PER_SEC", "reschedule_csecs", "text_eq", "text_lt")}
    files = ["Watchdog/TimeSpec.v", "gen/Facts_Time.v", "Watchdog/Time.v", "Watchdog/WD.v"]
    files += ["Watchdog/WDProofs.v", "Watchdog/WDOrder.v", "Watchdog/WDEarly.v", "Watchdog/WDNever.v", "Watchdog/TW.v"]
    # 4 fact-dependent side conditions proved by the build: src_lt_ok (operator< is the intended one), the two
    # vm_compute refutation witnesses, never_early_hyps_satisfiable
    chk.prove(files, extra_obligations=0)
    common.coq_extract("Extract_wd.v", ["wd.ml", "wd.mli"], deps=files)
    exe_m = common.ocaml_build("wd_model", ["gen/wd.mli", "gen/wd.ml", "wd_model.ml"])
    exe_h = compile_retry("run_wd.cc")

    hist = {"fire_in_cs": 0, "with_failure": 0}
    scheds, origin = [], {}

    def add(s, tag):
        if s not in origin:
            origin[s] = tag; scheds.append(s)

    if chk.replay:
        obj = json.load(open(chk.replay))
        if "tw_sequence" in obj:
            raise common.BuildError("replay of a Threshold_Watcher sequence: echo '%s' | <h_run_tw>" % obj["tw_sequence"])
        add(obj["schedule"], "replay")
    else:
        for p in sorted(glob.glob(os.path.join(VERIF, "corpus", "C19", "*.sched"))):
            for l in open(p):
                l = l.split("#")[0].strip()
                if l:
                    add(l, "corpus")
        idle_menu = [(), ("t5000",), ("f",)]
        base = [((("c", 0), ("c", 1), ("d", 0)), (10 if False else 5, 8)),
                ((("c", 0), ("c", 1), ("d", 1)), (8, 3)),
                ((("c", 0), ("c", 1), ("c", 2), ("d", 1)), (100, 101, 2))]
        menu = [("f",), ("t1",), ("t5000",)]
        if chk.quick:
            for s in gen_wd.exhaustive_small(2, [1, 2, 100, 101], idle_menu):
                add(s, "exh2")
            rng = random.Random(chk.seed * 7919 + 1)
            ex3 = list(gen_wd.exhaustive_small(3, [2, 101], [(), ("f",)]))
            for s in rng.sample(ex3, min(300, len(ex3))):
                add(s, "exh3-sample")
            for (h, ds) in base:
                for s in gen_wd.single_placements(h, ds, {1: ["t30000"]}, menu):
                    add(s, "single")
            for s in gen_wd.random_batch(chk.seed, 2000):
                add(s, "random")
        else:
            for s in gen_wd.exhaustive_small(2, [1, 2, 3, 100, 101, 199], idle_menu):
                add(s, "exh2")
            for s in gen_wd.exhaustive_small(3, [2, 100, 101], idle_menu):
                add(s, "exh3")
            for (h, ds) in base:
                for s in gen_wd.single_placements(h, ds, {1: ["t30000"]}, menu + [("t29999",), ("t1", "f")]):
                    add(s, "single")
            for (h, ds) in base[:2]:
                for s in gen_wd.double_placements(h, ds, {1: ["t30000"]}, [("f",), ("t5000",)]):
                    add(s, "double")
            for s in gen_wd.random_batch(chk.seed, 30000):
                add(s, "random")
    chk.log("%d schedules (%s)" % (len(scheds), ", ".join("%s=%d" % (t, sum(1 for v in origin.values() if v == t))
                                                         for t in sorted(set(origin.values())))))
    try:
        results = run_all(exe_h, exe_m, scheds)
    except FileNotFoundError:
        exe_h = compile_retry("run_wd.cc")
        results = run_all(exe_h, exe_m, scheds)
    mism = analyse(chk, results, hist)
    chk.extra["traces_validated_against_impl"] = len(results) - mism
    chk.extra["model_code_mismatches"] = mism
    chk.extra["histogram"] = hist
    chk.extra["schedule_origin"] = {t: sum(1 for v in origin.values() if v == t) for t in sorted(set(origin.values()))}
    if not chk.replay:
        run_tw(chk, exe_m)
    chk.log("model vs real code: %d/%d traces identical; runs with a property failure: %d; expiry inside a critical section in %d runs"
            % (len(results) - mism, len(results), hist["with_failure"], hist["fire_in_cs"]))
