"""C10: partially reduced products denote the intersection of their components; reductions never lose it."""
import os, json, shutil, subprocess, hashlib
import common, gen_prp, polyrun

COQ = ["Base/FM.v", "Base/Sys.v", "Base/Gens.v", "Poly/PolyOps.v", "Base/Sup.v", "Poly/PolyQuery.v",
       "Grid/QVec.v", "Grid/IntLin.v", "Grid/GridSem.v", "Grid/GridRef.v",
       "Product/PRPArith.v", "Product/PRP.v", "Product/PRPInst.v", "Product/PRPJudge.v"]
CMDS = ("new", "set", "setempty", "copy", "red", "op", "qry", "shrink")


def run_harness(exe, cases, workdir, tag, timeout=900):
    """polyrun.run_harness with this harness's command set: a crash / hang is attributed to the command being
    executed; that case is dropped from the judged set and reported."""
    os.makedirs(workdir, exist_ok=True)
    kept, obs, crashes = [], [], []
    todo = list(cases)
    rnd = 0
    while todo:
        rnd += 1
        cf = os.path.join(workdir, "%s.%d.case" % (tag, rnd))
        with open(cf, "w") as f:
            for c in todo:
                f.write("\n".join(c) + "\n")
        try:
            p = subprocess.run([exe, cf], stdout=subprocess.PIPE, stderr=subprocess.PIPE, text=True, timeout=timeout)
            rc, out, err = p.returncode, p.stdout, p.stderr
        except subprocess.TimeoutExpired as e:
            rc, out, err = 124, (e.stdout.decode() if isinstance(e.stdout, bytes) else (e.stdout or "")), "timeout"
        blocks = polyrun.split_cases(out.split("\n"))
        if rc == 0:
            kept += todo; obs += [l for b in blocks for l in b]
            break
        if rc == 3:
            raise RuntimeError("harness rejected a case line (generator/harness bug): %s" % out[-400:])
        k = max(len(blocks) - 1, 0)
        kept += todo[:k]
        obs += [l for b in blocks[:k] for l in b]
        bad = todo[k] if k < len(todo) else todo[-1]
        produced = blocks[k][1:] if k < len(blocks) else []
        nresp = len([l for l in produced if l.split(" ")[0] in ("res", "ans")])
        cmds = [l for l in bad[1:] if l.split(" ")[0] in CMDS]
        line = cmds[nresp] if nresp < len(cmds) else "(unknown)"
        how = "timeout" if rc == 124 else "crash rc=%d %s" % (rc, (err or "").strip()[-200:])
        crashes.append((bad, line, how))
        todo = todo[k + 1:]
    return kept, "\n".join(obs) + "\n", crashes


def run_judge(judge, kept, obs_text, workdir, tag, timeout=3000):
    cf = os.path.join(workdir, tag + ".kept.case"); of = os.path.join(workdir, tag + ".obs")
    with open(cf, "w") as f:
        for c in kept: f.write("\n".join(c) + "\n")
    with open(of, "w") as f: f.write(obs_text)
    rc, out = common.sh([judge, cf, of], timeout=timeout)
    res, stat, cov, nt = [], {}, {}, {}
    for l in out.split("\n"):
        if l.startswith("FAIL ") or l.startswith("UNDECIDED "):
            head, *rest = l.split(" | ")
            h = head.split(" ")
            res.append(polyrun.Finding(h[0], h[1], int(h[2]), h[3], rest[0] if rest else "", rest[1] if len(rest) > 1 else ""))
        elif l.startswith("STAT "):
            t = l.split(" "); stat = {t[i]: int(t[i + 1]) for i in range(1, len(t) - 1, 2)}
        elif l.startswith("COV "):
            t = l.split(" "); cov[t[1]] = int(t[2])
        elif l.startswith("NT "):
            t = l.split(" "); nt[t[1]] = int(t[2])
    if rc != 0 or not stat:
        raise RuntimeError("judge failed (rc=%s): %s" % (rc, out[-1500:]))
    return res, stat, cov, nt


def site_of(f):
    """(site, kind) of a judge failure: the product member function (or the reduction) and what went wrong"""
    k = f.kind
    t = f.line.split(" ")
    if k.startswith("op:") and k.endswith("/empty-arg"):
        return "Partially_Reduced_Product::" + k[3:].split("/")[0], "lost-point-with-empty-argument"
    if k.startswith("op:"):
        return "Partially_Reduced_Product::" + k[3:].split("/")[0], "lost-point"
    if k.startswith("qry:"):
        return "Partially_Reduced_Product::" + k[4:], "wrong-definite-answer"
    if k.startswith("shrink/"):
        return "shrink_to_congruence_no_check", k.split("/")[1]
    if k.startswith("reduce/") or k.startswith("flag/"):
        return "product_reduce", k.replace("/", "-")
    if k == "ok":
        return "Partially_Reduced_Product::OK", "false after " + (t[2] if t[0] in ("op", "qry") and len(t) > 2 else t[0])
    return k, k


def run(chk):
    chk.rule = ("seeded cases from tools/gen_prp.py over the 12 instantiated pairs {C,NNC polyhedron, Grid, Rational_Box, BD_Shape<mpq>} x the 5 policies "
                "(Direct, Smash, Constraints, Congruences, Shape_Preserving): (shrink) a grid congruence against a component bounded in its direction, "
                "range width drawn from {<m, =m, <2m, =2m, >2m, 0} with closed/open ends, rational bounds, negative values, both call directions, then "
                "reduce(); (predicate) relation_with a Constraint / Congruence / Generator, contains, is_disjoint_from, maximize / minimize, bounds on every layout: thin slabs "
                "with rational bounds placed beyond the hyperplane of a congruence nearest to zero and touching / crossing / stopping short of the next one "
                "(negative coefficients and residues), generator arguments with non-unit divisors (numerators alone satisfying the grid's congruences, or real "
                "points of the intersection), rays, lines, constraints on the hyperplanes; (transformer) EVERY transformer of the product (affine / generalized -- both overloads -- / bounded images and preimages, unconstrain of a "
                "variable and of a set, time_elapse, all dimension changes incl. remove / map / expand / fold, intersection, upper bound, difference, widening, "
                "concatenate, closure) on layouts with a non-grid second and / or first component (Grid x C, C x NNC, NNC x NNC, Box x C, BDS x C, C x BDS, "
                "Box x Octagon, NNC x Box, ...) with relations whose image and preimage differ; (period) grids with NON-INTEGRAL periods (k*x_i = r mod m, k not dividing m, mixed congruences with non-unit coefficients) against "
                "polyhedra / boxes whose rational bounds lie strictly between two grid hyperplanes, around exactly one, exactly on them (open/closed), over "
                "several periods or one-sided, below / across / above zero, with octagonal and general constraints in 2-3 dimensions, mostly under the "
                "Shape_Preserving and Congruences policies; (reduce) arbitrary components incl. inconsistent pairs and empties, explicit + implicit reduce(), reduce() again; (ops) "
                "histories of transformers and predicates over two objects. A case is distinct by its text; non-trivial when at least one judged "
                "event (reduction step, shrink outcome, image inclusion, definite answer) was decided on it")
    chk.trusted += [
        "Coq 8.16.1 kernel (coqc); vm_compute only in Examples / the _refuted witness; no native_compute",
        "axioms: none (every property theorem prints 'Closed under the global context')",
        "extraction: Require Extraction + ExtrOcamlBasic only; Z, positive, nat, Q stay the extracted inductive types; OCaml 4.13.1 ocamlopt",
        "hand-written model: coq/Product/PRP.v + PRPArith.v are a transcription by hand of Partially_Reduced_Product_templates.hh:505-759 and of the "
        "component-wise members of Partially_Reduced_Product_inlines.hh; the component domains are abstract (soundness laws as hypotheses)",
        "unverified glue: harness/run_prp.cc + vh_common.hh (case interpreter, private access to d1/d2/reduced, printers), ocaml/judge_prp.ml + zutil_prp.ml "
        "(parsing, dispatch, enumeration of candidate lattice points), tools/gen_prp.py, tools/props/C10.py; g++ 12.2, GMP",
    ]
    chk.assumptions += [
        "the soundness laws of the component interface (dom_laws in PRP.v) are hypotheses of the theorems; on every `shrink` step the two law instances "
        "the arithmetic relies on (maximize/minimize of the second component) are compared with the exact supremum/infimum, and the premise "
        "(first component inside its own congruence) is checked; frequency() of grids is not checked here",
        "whenever a grid with a proper congruence takes part, 'no point of the intersection lost' / 'image contained' / 'answer true of the intersection' "
        "are decided on an enumeration of lattice points (sampling) aimed at the constraints: a 1-parameter slice of the grid is enumerated "
        "EXHAUSTIVELY inside the bounds when they are finite (counted in sampled_slices_enumerated_exhaustively), otherwise a window centred at the "
        "lattice point nearest to the centre of the constraints' bounding box; a violation found this way is definite (witness point checked by "
        "mem_con_b / mem_pcg_b, proved exact), absence of a witness is not a proof. Component-vs-old-self inclusions are always exact.",
        "generalized_affine_image, strictly_contains, is_discrete, constrains, affine_dimension, is_topologically_closed, equals are executed (their implicit "
        "reductions are judged) but their results are not judged",
    ]
    chk.prove(COQ)
    common.coq_extract("Extract_prp.v", ["prp.ml", "prp.mli"], deps=COQ + ["Extract/Extract_prp.v"])
    judge = common.ocaml_build("judge_prp", ["gen/prp.mli", "gen/prp.ml", "zutil_prp.ml", "judge_prp.ml"])
    exe = common.compile_harness("run_prp.cc")
    # keep a private copy of the executable: concurrent checks on scratch trees may drop the library cache
    bindir = os.path.join(common.BUILD, "c10-bin"); os.makedirs(bindir, exist_ok=True)
    exe2 = os.path.join(bindir, os.path.basename(os.path.dirname(exe)) + "-" + os.path.basename(exe))
    if not os.path.exists(exe2):
        for old in os.listdir(bindir):
            os.remove(os.path.join(bindir, old))
        shutil.copy(exe, exe2 + ".tmp"); os.rename(exe2 + ".tmp", exe2)
    exe = exe2

    lines = []
    cdir = os.path.join(common.VERIF, "corpus", "C10")
    if os.path.isdir(cdir):
        for f in sorted(os.listdir(cdir)):
            if f.endswith(".case"):
                lines += open(os.path.join(cdir, f)).read().split("\n")
    if chk.replay:
        obj = json.load(open(chk.replay))
        lines = list(obj.get("case", []))
    else:
        if chk.quick:
            lines += gen_prp.make_cases(chk.seed * 1009 + 1, 140, 135, 180, steps=5)
        else:
            for k in range(8):
                lines += gen_prp.make_cases(chk.seed * 1009 + 1 + k, 500, 450, 600, steps=6, start=k * 100000)
    cases = polyrun.split_cases(lines)
    work = os.path.join(common.BUILD, "work-%s-%d" % (chk.pid, os.getpid()))
    shutil.rmtree(work, ignore_errors=True)
    kept, obs, crashes = run_harness(exe, cases, work, "c10")
    res, stat, cov, nt = run_judge(judge, kept, obs, work, "c10")
    shutil.rmtree(work, ignore_errors=True)
    byid = polyrun.case_by_id(cases)

    chk.evaluations += stat.get("checks", 0)
    for cid, n in nt.items():
        if n > 0:
            chk.nontrivial.add(hashlib.sha1("\n".join(byid.get(cid, [cid])[1:]).encode()).hexdigest())
    for c in list(byid.values())[:3]:
        chk.samples.append(" ; ".join(c[:7]))
    chk.extra["cases"] = stat.get("cases", 0)
    chk.extra["steps"] = stat.get("steps", 0)
    chk.extra["verified_checks"] = stat.get("checks", 0)
    chk.extra["checks_decided_by_sampling"] = stat.get("sampled", 0)
    chk.extra["sample_points_tested"] = stat.get("points", 0)
    chk.extra["sampled_slices_enumerated_exhaustively"] = cov.get("exhaustive-1dim-slices", 0)
    chk.extra["period_family_cases"] = len([c for c in byid if c.startswith("p")])
    chk.extra["pair_histogram"] = {k[5:]: v for k, v in sorted(cov.items()) if k.startswith("pair:")}
    chk.extra["policy_histogram"] = {k[7:]: v for k, v in sorted(cov.items()) if k.startswith("policy:")}
    chk.extra["operation_histogram"] = {k[3:]: v for k, v in sorted(cov.items()) if k.startswith("op:")}
    chk.extra["query_histogram"] = {k[4:]: v for k, v in sorted(cov.items()) if k.startswith("qry:")}
    chk.extra["exceptions_on_ops"] = {k[4:]: v for k, v in sorted(cov.items()) if k.startswith("exn:")}
    chk.extra["shrink_outcomes"] = {k[7:]: v for k, v in sorted(cov.items()) if k.startswith("shrink-")}
    chk.extra["reductions_executed"] = {k[7:]: v for k, v in sorted(cov.items()) if k.startswith("reduce:")}
    chk.extra["reduction_branches"] = {k[7:]: v for k, v in sorted(cov.items()) if k.startswith("reduce-")}
    chk.extra["meet_comparisons"] = {"exact": cov.get("meet-exact", 0), "sampled": cov.get("meet-sampled", 0),
                                     "image_exact": cov.get("image-exact", 0), "image_sampled": cov.get("image-sampled", 0)}
    chk.extra["answers_indefinite"] = cov.get("answer-indefinite", 0)
    chk.extra["not_judged"] = cov.get("not-judged", 0)
    chk.extra["not_owned"] = {k[10:]: v for k, v in sorted(cov.items()) if k.startswith("not-owned:")}
    chk.extra["traces_validated_against_impl"] = stat.get("cases", 0)
    for f in res:
        if f.verdict == "UNDECIDED":
            chk.undecided += 1
            continue
        site, kind = site_of(f)
        if "[grid-maxmin]" in f.detail:
            site, kind = "Grid::max_min", "via " + site + " " + kind
        if "[component-relation-cg " in f.detail:
            site, kind = "Box/BD_Shape/Octagonal_Shape::relation_with(Congruence)", "component-wrong-definite-answer"
        if "[not-idempotent]" in f.detail:
            kind = "reduce-not-idempotent"
        info = {"site": site, "kind": kind, "policy_pair": byid.get(f.case, ["case ? ? ?"])[0].split(" ")[2:4], "detail": f.detail}
        if f.kind == "judge/syntax":
            chk.broken.append(("judge-syntax", f.line + " : " + f.detail)); continue
        chk.failure(info, {"case": byid.get(f.case, []), "step": f.step, "line": f.line, "judge": f.detail,
                           "theorem": "C10_reduce_preserves_meet / C10_shrink_to_congruence_sound / C10_*_transformer_sound / C10_*_sound",
                           "replay_cmd": "./check C10 --replay <this file>"})
    for (case, line, how) in crashes:
        t = line.split(" ")
        info = {"site": "Partially_Reduced_Product::" + (t[2] if len(t) > 2 and t[0] in ("op", "qry") else t[0]), "kind": "crash", "detail": how}
        chk.failure(info, {"case": case, "line": line, "how": how})
    if stat.get("checks", 0) and chk.undecided * 50 > stat["checks"]:
        chk.broken.append(("too-many-undecided", "%d of %d checks undecided" % (chk.undecided, stat["checks"])))
