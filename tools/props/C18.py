"""C18 -- termination analysis returns only genuine ranking functions; the MS and PR methods agree.

Proof part: coq/Term/{RankSpec,Encode,Sound,Check,Farkas,Complete,CompletePR2}.v audited through coq/Properties/Properties_C18.v
(Encode.v = transcription of fill_constraint_systems_MS / fill_constraint_system_PR / ..._PR_original /
assign_all_inequalities_approximation of /repo/src/termination.cc).
Tie: harness/run_term.cc (which #includes termination.cc to reach the static builders) runs, on every generated
loop, the builders, the three low-level families and the public entry points; ocaml/judge_term.ml (glue around
the extracted module Term) checks (i) transcribed encodings == systems the C++ built, (ii) every returned
function / every generator of a returned space really ranks the relation, (iii) verdict == exact feasibility of
the encoding, (iv) the methods agree, (v) each returned space (MS, PR, PR_original) == exact projection of its encoding."""
import json, os
import common, polyrun, gen_term

COQ_FILES = ["Term/RankSpec.v", "Term/Encode.v", "Term/Sound.v", "Term/Check.v", "Term/Farkas.v", "Term/Complete.v", "Term/CompletePR2.v", "Term/Spaces.v"]
COQ_FILES = [f for f in COQ_FILES if os.path.exists(os.path.join(common.COQ, f))]

TIE_KINDS = ("tie-", "judge-syntax")

SITE = {
    "MS": "termination_test_MS / one_affine_ranking_function_MS / all_affine_ranking_functions_MS (termination.cc)",
    "PRO": "termination_test_PR_original / one_affine_ranking_function_PR_original / all_affine_ranking_functions_PR_original (termination.cc)",
    "PR": "termination_test_PR / Termination_Helpers::one_affine_ranking_function_PR / all_affine_ranking_functions_PR (termination.cc)",
}


def site_of(kind):
    if kind == "pr2-guard":
        return "fill_constraint_system_PR"
    if kind.startswith("approx"):
        return "assign_all_inequalities_approximation"
    for tag, s in (("_PRO", SITE["PRO"]), ("_PR", SITE["PR"]), ("_MS", SITE["MS"])):
        if tag in kind:
            return s
    return "termination.cc"


def run_judge(judge, cases, obs_text, workdir, tag, timeout):
    cf = os.path.join(workdir, tag + ".kept.case")
    of = os.path.join(workdir, tag + ".obs")
    with open(cf, "w") as f:
        f.write("\n".join(c[0] for c in cases) + "\n")
    with open(of, "w") as f:
        f.write(obs_text)
    rc, out = common.sh([judge, cf, of], timeout=timeout)
    fails, undec, stat, cov, info = [], [], {}, {}, {}
    for l in out.split("\n"):
        if l.startswith("FAIL "):
            head, _, detail = l.partition(" | ")
            h = head.split(" ")
            fails.append((h[1], h[2], detail))
        elif l.startswith("UNDECIDED "):
            h = l.split(" ")
            undec.append((h[1], h[2]))
        elif l.startswith("STAT "):
            t = l.split(" ")
            stat = {t[i]: int(t[i + 1]) for i in range(1, len(t) - 1, 2)}
        elif l.startswith("COV "):
            t = l.split(" ")
            cov[t[1]] = int(t[2])
        elif l.startswith("INFO "):
            t = l.split(" ")
            info[t[1]] = dict(x.split("=") for x in t[2:])
    if rc != 0 or not stat:
        raise RuntimeError("judge failed (rc=%s): %s" % (rc, out[-1500:]))
    return fails, undec, stat, cov, info


def run(chk):
    chk.rule = ("loops over n = 1-2 program variables from tools/gen_term.py (seeded): guarded affine updates that terminate, the same with the "
                "decrement removed or reversed, deterministic (equalities) and non-deterministic (inequalities) updates, strict guards, unbounded "
                "directions, inconsistent systems, the EMPTY element, universe, random small systems; each as C_Polyhedron, NNC_Polyhedron, "
                "BD_Shape<mpq_class>, Octagonal_Shape<mpq_class>, Rational_Box (constraints of the domain's shape), as one 2n-space pointset or a "
                "before/after pair (with the guard in 'before', in both, or only in 'after'); a case is distinct by its text and non-trivial when "
                "its relation is non-empty (decided by the verified nonempty_cons)")
    chk.trusted += ["Coq 8.16.1 kernel (coqc)", "extraction (ExtrOcamlBasic only) + OCaml 4.13.1 for the judge's verified functions",
                    "hand transcription coq/Term/Encode.v of the four builders of termination.cc, re-validated on every run by comparing its output, "
                    "row by row (same_cons_b, proved sound) or by equiv_cons, with what the C++ builders produce on the same input",
                    "glue: harness/run_term.cc, ocaml/judge_term.ml (parsing / dispatch; every verdict is the result of an extracted function), tools/gen_term.py",
                    "the pointset's own constraints() is taken as the definition of the relation it denotes (C01/C03 territory)",
                    "g++ 12 / GMP"]
    chk.assumptions += ["the relation validated against is the one printed by pset.constraints() (for a before/after pair: before shifted onto the unprimed block, conjoined with after)",
                        "PR-family functions are validated against the property's notion (bounded below by some constant, decreasing by some fixed positive amount): "
                        "their mu_0 is 0 / unconstrained in termination.cc and is not a lower bound",
                        "the PR_2 entry points are judged against the two-system encoding of (guard, after), guard = before /\\ exists x'. after as computed by the harness with the same pointset operations and verified by exact elimination (tie-guard)"]
    chk.prove(COQ_FILES)
    common.coq_extract("Extract_term.v", ["term.ml", "term.mli"], deps=COQ_FILES + ["Base/Sys.v", "Base/FM.v", "Base/Sup.v"])
    judge = common.ocaml_build("judge_term", ["gen/term.mli", "gen/term.ml", "zutil_term.ml", "judge_term.ml"])
    exe = common.compile_harness("run_term.cc", drop_objs=["termination.o"])

    lines = []
    if chk.replay:
        obj = json.load(open(chk.replay))
        lines = [obj["case"]] if isinstance(obj.get("case"), str) else list(obj.get("case", []))
    else:
        cdir = os.path.join(common.VERIF, "corpus", "C18")
        if os.path.isdir(cdir):
            for f in sorted(os.listdir(cdir)):
                if f.endswith(".case"):
                    lines += [l for l in open(os.path.join(cdir, f)).read().split("\n") if l.startswith("case ")]
        ncase = 320 if chk.quick else 20000
        lines += gen_term.make_cases(chk.seed, ncase)
    cases = [[l] for l in lines]
    text_of = {l.split(" ")[1]: l for l in lines}

    workdir = os.path.join(common.BUILD, "c18-work-%d" % os.getpid())
    os.makedirs(workdir, exist_ok=True)
    try:
        kept, obs, crashes = polyrun.run_harness(exe, cases, workdir, "c18", timeout=1200)
        fails, undec, stat, cov, info = run_judge(judge, kept, obs, workdir, "c18", timeout=6000)
    finally:
        import shutil
        shutil.rmtree(workdir, ignore_errors=True)

    chk.evaluations += stat.get("checks", 0)
    chk.undecided += len(undec)
    for cid, inf in info.items():
        if inf.get("nonempty") == "1":
            chk.nontrivial.add(text_of.get(cid, cid).split(" ", 2)[2])
    for cid in list(info)[:4]:
        chk.samples.append(text_of.get(cid, cid))
    chk.extra["cases"] = stat.get("cases", 0)
    chk.extra["verified_checks"] = stat.get("checks", 0)
    chk.extra["traces_validated_against_impl"] = stat.get("cases", 0)
    chk.extra["histogram"] = {k: v for k, v in sorted(cov.items()) if not k.startswith("check:")}
    chk.extra["checks_by_kind"] = {k[6:]: v for k, v in sorted(cov.items()) if k.startswith("check:")}
    chk.extra["terminating_nonempty_relations"] = len([1 for i in info.values() if i.get("nonempty") == "1" and i.get("ranking") == "1"])
    chk.extra["nonterminating_relations"] = len([1 for i in info.values() if i.get("ranking") == "0"])

    seen = set()
    for cid, kind, detail in fails:
        if (cid, kind) in seen:
            continue
        seen.add((cid, kind))
        if kind.startswith(TIE_KINDS):
            chk.broken.append(("%s (case %s)" % (kind, text_of.get(cid, cid)), detail[:1500]))
            continue
        info_d = {"site": site_of(kind), "kind": kind, "detail": detail[:600]}
        chk.failure(info_d, {"case": text_of.get(cid, cid), "judge": detail,
                             "theorem": "C18_* (Properties_C18.v): the check that failed is a verified decision on the library's output",
                             "replay_cmd": "./check C18 --replay <this file>"})
    for (case, line, how) in crashes:
        chk.failure({"site": "termination (harness died)", "kind": "crash", "detail": how}, {"case": case[0], "how": how})
    if stat.get("checks", 0) and len(undec) * 100 > stat["checks"]:
        chk.broken.append(("too-many-undecided", "%d of %d checks undecided" % (len(undec), stat["checks"])))
