"""C01: a polyhedron answers every query from one point set, whatever its history."""
import os
import common, polycheck, gen_poly


def owner(kind, line):
    return kind.endswith("/dd") or kind.endswith("/OK") or kind.startswith("qry:") or kind.startswith("obs:") \
        or kind.startswith("unchanged/") or kind.startswith("copy/")


def run(chk):
    chk.rule = ("histories over a pool of 3-4 C/NNC polyhedra (tools/gen_poly.py, seeded): constructors by every route, mutators, and observers "
                "(constraints(), minimized_constraints(), generators(), minimized_generators(), OK()) and queries deliberately interleaved because observers "
                "move the lazy state; after EVERY step the library's constraints() and generators() (read from a copy) are judged by the verified dd_pair, "
                "every query answer by the verified reference answer, and at the end every pool object must still denote its reference value; "
                "distinct non-trivial = distinct (query|observer, status-flag vector of the receiver) pairs plus distinct status-flag vectors reached")
    chk.trusted += polycheck.TRUSTED
    chk.assumptions += ["queries not yet modelled (relation_with(generator), relation_with(congruence), affine_dimension, frequency, contains_integer_point) are executed but not judged; listed in coverage.unmodelled",
                        "the state of an object is read from a copy (copy construction is itself judged: the copy must denote the reference value)"]
    chk.prove(polycheck.BASE_COQ)
    if chk.replay:
        import json as _json
        lines = _json.load(open(chk.replay)).get("case", [])
        out, byid = polycheck.run_cases(chk, lines, "replay", lambda k, l: True)
        chk.count(len(lines), key="replay", sample=" ; ".join(lines))
        chk.nontrivial.add("replay2")
        for f in out["fails"]:
            chk.failure({"site": polycheck.op_of_line(f.line), "kind": f.kind, "detail": f.detail}, {"case": lines, "step": f.step, "line": f.line, "judge": f.detail})
        for (case, line, how) in out["crashes"]:
            chk.failure({"site": polycheck.op_of_line(line), "kind": "crash", "detail": how}, {"case": case, "line": line, "how": how})
        return
    ncase = 220 if chk.quick else 5000
    lines = gen_poly.make_cases(chk.seed * 104729 + 3, ncase, maxdim=3, nobj=3, steps=8, pq=0.38, pobs=0.27)
    lines += gen_poly.make_cases(chk.seed * 31 + 5, ncase // 5, maxdim=2, nobj=4, steps=12, pq=0.3, pobs=0.35, start=ncase)
    # families aimed at the lazy representation (pending rows, stale flags): each query is the first thing
    # that happens to a copy of the object in its lazy state; an equal twin built by another route is compared
    lines += gen_poly.make_lazy_cases(chk.seed * 7 + 11, 700 if chk.quick else 8000, maxdim=3)
    # boundary family: constraints / congruences / directions whose hyperplanes pass through a known vertex
    lines += gen_poly.make_touch_cases(chk.seed * 13 + 5, 120 if chk.quick else 2500, maxdim=3)
    # points and closure points with different divisors (matching of closure points, strong minimization of NNC)
    lines += gen_poly.make_nncdiv_cases(chk.seed * 19 + 7, 400 if chk.quick else 6000)
    # every mutator applied to objects that hold PENDING rows (both descriptions minimized, then one more row):
    # the state in which a mutator most easily leaves the two descriptions / the status word inconsistent
    nm = 160 if chk.quick else 3000
    lines += gen_poly.make_cases(chk.seed * 17 + 29, nm, maxdim=3, nobj=2, steps=3, pq=0.05, pobs=0.05, start=900000,
                                 special=0.9, special_kinds=["pending_gens", "pending_cons", "pending_gens"])
    # binary mutators with arguments (and receivers) holding pending rows, then comparison queries asked twice of the
    # receiver itself and of an equal twin (stale sortedness / saturation flags show only at the second query)
    BIN = ["intersection_assign", "poly_hull_assign", "time_elapse_assign", "poly_difference_assign", "concatenate_assign",
           "add_generators_from", "add_constraints", "add_generators"]
    nbq = 20 if chk.quick else 400
    for i, op in enumerate(BIN):
        ls = gen_poly.make_cases(chk.seed * 23 + 41 + i, nbq, maxdim=3, nobj=2, steps=2, ops=[op], pq=0.0, pobs=0.1, start=950000 + i * nbq,
                                 special=0.7, special_kinds=["pending_cons", "pending_gens", "line", "lowdim"])
        lines += gen_poly.with_battery(ls, chk.seed * 29 + i)
    # merging of row systems (one-description receiver, minimized argument with a pending row), queries asked twice
    lines += gen_poly.make_merge_cases(chk.seed * 37 + 3, 1200 if chk.quick else 12000)
    cdir = os.path.join(common.VERIF, "corpus", "C01")
    corpus = []
    if os.path.isdir(cdir):
        for f in sorted(os.listdir(cdir)):
            if f.endswith(".case"):
                corpus += open(os.path.join(cdir, f)).read().split("\n")
    out, byid = polycheck.run_cases(chk, corpus + lines, "c01", owner)
    stat, cov = out["stat"], out["cov"]
    chk.evaluations += stat.get("steps", 0)
    chk.undecided += out["undecided"]
    chk.extra["query_histogram"] = {k[4:]: v for k, v in sorted(cov.items()) if k.startswith("qry:")}
    chk.extra["observer_histogram"] = {k[4:]: v for k, v in sorted(cov.items()) if k.startswith("obs:")}
    chk.extra["unmodelled"] = {k[11:]: v for k, v in sorted(cov.items()) if k.startswith("unmodelled:")}
    flags = {k[6:]: v for k, v in cov.items() if k.startswith("flags:")}
    chk.extra["status_vectors_reached"] = len(flags)
    chk.extra["status_vector_histogram"] = dict(sorted(flags.items(), key=lambda kv: -kv[1])[:40])
    chk.extra["cases"] = stat.get("cases", 0)
    chk.extra["verified_checks"] = stat.get("checks", 0)
    chk.extra["judge_timeouts"] = stat.get("timeouts", 0)
    chk.extra["traces_validated_against_impl"] = stat.get("cases", 0)
    for k in flags: chk.nontrivial.add("flags:" + k)
    for c in byid.values():
        for l in c:
            if l.startswith("qry ") or l.startswith("obs "):
                chk.nontrivial.add(l.split(" ", 2)[2])
    for c in list(byid.values())[:3]:
        chk.samples.append(" ; ".join(c[:10]))
    for f in out["fails"]:
        op = polycheck.op_of_line(f.line)
        info = {"site": op, "kind": f.kind.split("/")[-1] if "/" in f.kind else f.kind.split(":")[-1], "detail": f.detail}
        chk.failure(info, {"case": byid.get(f.case, []), "step": f.step, "line": f.line, "judge": f.detail,
                           "theorem": "C01_dd_check_sound_complete / C01_<query>_exact"})
    for (case, line, how) in out["crashes"]:
        if line.split(" ")[0] in ("qry", "obs", "copy", "stall"):
            chk.failure({"site": polycheck.op_of_line(line), "kind": "crash", "detail": how}, {"case": case, "line": line, "how": how})
    if stat.get("checks", 0) and chk.undecided * 100 > stat["checks"]:
        chk.broken.append(("too-many-undecided", "%d of %d checks undecided" % (chk.undecided, stat["checks"])))
