"""C17 -- integer-aware operators never discard an integer point of the concrete semantics.

Proof part: coq/Wrap/{WrapSpec,WrapGeneric,WrapRef,IntPts}.v audited through coq/Properties/Properties_C17.v.
Tie: harness/run_wrap.cc runs wrap_assign / contains_integer_point / drop_some_non_integer_points of the real library
on seeded cases for C/NNC polyhedra, BD shapes, octagonal shapes, rational boxes, grids and powersets of polyhedra;
ocaml/judge_wrap.ml decides, with functions extracted from Coq, (a) that every required point of WrapSpec
obtained from an integer point of the argument in the candidate window is in the library's result, (b) that the
generic model (transcription of wrap_assign.hh) run on reference polyhedra is included in the library's polyhedron,
(c) contains_integer_point against the verified bounded integer search, (d) the drop_some_non_integer_points contract
per result."""
import json, os, re, subprocess
import common, gen_wrap

COQ_FILES = ["Wrap/WrapSpec.v", "Wrap/WrapGeneric.v", "Wrap/WrapRef.v", "Wrap/IntPts.v"]

SITE = {"wrap": "wrap_assign", "cip": "contains_integer_point", "drop": "drop_some_non_integer_points"}
GENERIC_SITE = "Implementation::wrap_assign (wrap_assign.hh)"


def run_harness(exe, lines, workdir, tag):
    """Runs all case lines; a crash is attributed to the case being executed (last `beg`), reported, and the run resumes
    after it. Returns (obs_lines, crashes)."""
    os.makedirs(workdir, exist_ok=True)
    obs, crashes = [], []
    todo = list(lines)
    rnd = 0
    while todo:
        rnd += 1
        cf = os.path.join(workdir, "%s.%d.case" % (tag, rnd))
        with open(cf, "w") as f:
            f.write("\n".join(todo) + "\n")
        try:
            p = subprocess.run([exe, cf], stdout=subprocess.PIPE, stderr=subprocess.PIPE, text=True, timeout=1200)
            rc, out, err = p.returncode, p.stdout, p.stderr
        except subprocess.TimeoutExpired as e:
            rc, out, err = 124, (e.stdout.decode() if isinstance(e.stdout, bytes) else (e.stdout or "")), "timeout"
        ls = out.split("\n")
        obs += [l for l in ls if l.startswith(("res ", "ans ", "exc ", "aux "))]
        if rc == 0:
            break
        if rc == 3:
            raise RuntimeError("harness rejected a case line (generator/harness bug): %s" % out[-400:])
        begs = [l.split(" ")[1] for l in ls if l.startswith("beg ")]
        done = set(l.split(" ")[1] for l in ls if l.startswith(("res ", "ans ", "exc ")))
        bad = begs[-1] if begs and begs[-1] not in done else None
        if bad is None:
            raise RuntimeError("harness died outside a case: rc=%s %s" % (rc, err[-300:]))
        idx = [i for i, l in enumerate(todo) if l.split(" ")[1] == bad][0]
        crashes.append((todo[idx], "timeout" if rc == 124 else "crash rc=%d %s" % (rc, (err or "").strip()[-200:])))
        todo = todo[idx + 1:]
    return obs, crashes


def fields(line):
    t = line.split(" ")
    d = {"cmd": t[0], "id": t[1], "dom": t[2], "dim": int(t[3])}
    for k in ("w", "sg", "ov", "thr", "ind", "cx", "st"):
        if k in t:
            # the LAST occurrence before `cand` is the parameter (constraint rows contain only numbers and kinds)
            i = max(j for j, x in enumerate(t) if x == k)
            try: d[k] = int(t[i + 1])
            except (ValueError, IndexError): pass
    d["guard"] = (" guard 1 " in line)
    return d


def grid_cause(fd, aux):
    """triggering condition of a Grid::wrap_assign failure, from the frequencies of the wrapped variables in the argument"""
    if not aux:
        return "other"
    t = aux.split(" ")[3:]
    M = 1 << fd.get("w", 8)
    rational, half, sconst, nofreq, notred = False, False, False, False, False
    mn = -(M >> 1) if fd.get("sg") else 0
    for i in range(0, len(t) - 4, 5):
        v, fn, fdn, vn, vd = t[i:i + 5]
        if fn == "none":
            nofreq = True
            continue
        fn, fdn, vn, vd = int(fn), int(fdn), int(vn), int(vd)
        if fn != 0 and (fdn != 1 or vd != 1):
            rational = True
        if fn != 0 and fdn == 1 and M <= 2 * fn < 2 * M:
            half = True
        if fn == 0 and vd == 1 and fd.get("sg") == 1 and not (mn <= vn <= mn + M - 1):
            sconst = True
        if fn == M and fdn == 1 and vd == 1:
            v2 = vn + M if (not fd.get("sg") and vn < 0) else vn
            if not (mn <= v2 <= mn + M - 1):
                notred = True
    if rational:
        return "rational-frequency"
    if half and fd.get("ov") == 2:
        return "impossible-frequency-below-wrap"
    if sconst and fd.get("ov") == 0:
        return "signed-constant-out-of-range"
    if notred and fd.get("ov") in (0, 2):
        return "frequency-equals-modulus-value-not-reduced"
    if nofreq and fd.get("ov") == 0:
        return "no-frequency-variable-skipped"
    return "other"


def box_cause(fd, res, case):
    """Interval::wrap_assign: a wrapped variable whose interval in the argument has width exactly 2^w"""
    from fractions import Fraction as F
    if not res:
        return "other"
    t = res.split(" ")
    n = fd["dim"]
    i = t.index("cons", t.index("arg")) + 2
    k = int(t[i - 1])
    lo, hi = {}, {}
    for _ in range(k):
        kind, b, co = t[i], int(t[i + 1]), [int(x) for x in t[i + 2:i + 2 + n]]
        nz = [j for j, c in enumerate(co) if c != 0]
        if len(nz) == 1:
            j = nz[0]; v = F(-b, co[j])
            if kind == "=": lo[j] = hi[j] = v
            elif co[j] > 0: lo[j] = v
            else: hi[j] = v
        i += 2 + n
    ct = case.split(" ")
    vi = ct.index("vars"); nv = int(ct[vi + 1]); vs = [int(x) for x in ct[vi + 2:vi + 2 + nv]]
    M = 1 << fd.get("w", 8)
    for v in vs:
        if v in lo and v in hi and hi[v] - lo[v] == M:
            return "interval-width-exactly-modulus"
    return "other"


def cip_cause(case, detail):
    """NNC strict inequality whose inhomogeneous term is negative and not a multiple of the gcd of the coefficients"""
    import math
    if "library says an integer point exists" not in detail:
        return "other"
    t = case.split(" ")
    n = int(t[3])
    i = t.index("cons") + 2
    k = int(t[i - 1])
    for _ in range(k):
        kind, b, co = t[i], int(t[i + 1]), [int(x) for x in t[i + 2:i + 2 + n]]
        g = 0
        for c in co: g = math.gcd(g, abs(c))
        if kind == ">" and b < 0 and g > 1 and b % g != 0:
            return "strict-negative-inhomogeneous"
        i += 2 + n
    return "other"


def harness_part(line):
    i = line.find(" cand ")
    return line if i < 0 else line[:i]


def run(chk):
    chk.rule = ("seeded cases from tools/gen_wrap.py: domain x dimension 2-3 x subset of wrapped variables x width {8,16,32,64} x signedness x "
                "overflow mode x guard (none / one bound / relation between two wrapped variables) x threshold {0,1,2,4,16} x individual/collective; "
                "per wrapped variable the argument lies in one quadrant, straddles 2-5 quadrants, is unbounded on one side or has non-integer ends "
                "(w=8: real magnitudes; larger w: ends within a few units of k*2^w), plus relational constraints; grids by congruences with integer, "
                "rational and 2^w-related frequencies; for contains_integer_point / drop_some_non_integer_points: small rational polyhedra and, for C/NNC, "
                "integer-cornered boxes / diagonal segments / simplices with open or closed sides (closure with integral points the set may lack), each instance "
                "run in EVERY lazy representation state (constraints only, generators computed, both minimized, rebuilt from (minimized) generators, pending "
                "constraint, pending generator); wrap cases on C/NNC take a random state. A wrap case is non-trivial when at least one integer point of the argument in the candidate "
                "window (membership decided by the verified test) has a required point different from itself (it moved); a cip case when the "
                "verified search decided it; a drop case when the exact checks were decided")
    chk.trusted += ["Coq 8.16.1 kernel (coqc)", "vm_compute in the refutation witness and Examples only",
                    "extraction with ExtrOcamlBasic (ocaml/gen/wrap.ml), OCaml 4.13.1", "g++ 12.2",
                    "hand-written transcription coq/Wrap/WrapGeneric.v of src/wrap_assign.hh and specification coq/Wrap/WrapSpec.v",
                    "untrusted glue: harness/run_wrap.cc, ocaml/judge_wrap.ml (parsing, candidate enumeration), tools/gen_wrap.py, tools/props/C17.py"]
    chk.assumptions += [
        "the laws of WrapGeneric (one-sided soundness of minimize/maximize/unconstrain/refine_with_constraint/affine_image/upper_bound_assign/is_empty) are "
        "ASSUMED of each PPL domain; they are proved only for the reference domain (finite unions of reference polyhedra); for the real domains the "
        "conclusion of the theorem is sampled by the independent check",
        "overflow undefined: a wrapped coordinate that is already in range has not overflowed and keeps its value (definitions.dox: `the result of the "
        "operation resulting in an overflow can take any value'); only out-of-range coordinates are re-assigned",
        "required points are checked for the integer points of the argument inside the generated candidate window only (sampling); "
        "in-range re-assignments for overflow undefined are sampled from a candidate list",
        "Box::wrap_assign / Interval::wrap_assign and Grid::wrap_assign are specialised implementations that are NOT modelled: only the independent check covers them",
        "contains_integer_point / drop_some_non_integer_points are judged on bounded arguments (the verified search needs bounds); unbounded ones are not generated"]
    chk.prove(COQ_FILES)
    # extraction + judge + harness
    common.coq_extract("Extract_wrap.v", ["wrap.ml", "wrap.mli"], deps=COQ_FILES + ["Base/Sys.v", "Base/Sup.v", "Poly/PolyOps.v"])
    judge = common.ocaml_build("judge_wrap", ["gen/wrap.mli", "gen/wrap.ml", "zutil_wrap.ml", "judge_wrap.ml"])
    exe = common.compile_harness("run_wrap.cc")
    import tempfile, shutil
    os.makedirs(os.path.join(common.BUILD, "c17"), exist_ok=True)
    work = tempfile.mkdtemp(prefix="run-", dir=os.path.join(common.BUILD, "c17"))
    try:
        _run_cases(chk, judge, exe, work)
    finally:
        shutil.rmtree(work, ignore_errors=True)


def _run_cases(chk, judge, exe, work):

    if chk.replay:
        rp = json.load(open(chk.replay))
        lines = [rp["case"]] if "case" in rp else []
        corpus = []
    else:
        nwrap, ncip, ndrop = (4000, 400, 480) if chk.quick else (150000, 10000, 10000)
        lines = gen_wrap.make_cases(chk.seed * 9973 + 17, nwrap, ncip, ndrop)
        corpus = []
        cdir = os.path.join(common.VERIF, "corpus", "C17")
        if os.path.isdir(cdir):
            for f in sorted(os.listdir(cdir)):
                if f.endswith(".case"):
                    corpus += [l for l in open(os.path.join(cdir, f)).read().split("\n") if l and not l.startswith("#")]
    allc = corpus + lines
    byid = {l.split(" ")[1]: l for l in allc}
    if len(byid) != len(allc):
        raise RuntimeError("duplicate case ids")
    obs, crashes = run_harness(exe, [harness_part(l) for l in allc], work, "t%s" % chk.tier)
    cf, of = os.path.join(work, "all.case"), os.path.join(work, "all.obs")
    open(cf, "w").write("\n".join(allc) + "\n")
    open(of, "w").write("\n".join(obs) + "\n")
    rc, out = common.sh([judge, cf, of], timeout=3000)
    stat, cov, nontriv = {}, {}, set()
    aux = {l.split(" ")[1]: l for l in obs if l.startswith("aux ")}
    resl = {l.split(" ")[1]: l for l in obs if l.startswith("res ")}
    if rc != 0:
        raise RuntimeError("judge failed rc=%s: %s" % (rc, out[-1500:]))
    for l in out.split("\n"):
        if l.startswith("STAT"):
            t = l.split(" ")
            stat = {t[i]: int(t[i + 1]) for i in range(1, len(t) - 1, 2)}
        elif l.startswith("COV "):
            t = l.split(" "); cov[t[1]] = int(t[2])
        elif l.startswith("INFO "):
            t = l.split(" ")
            if int(t[7]) > 0:
                nontriv.add(t[1])
        elif l.startswith("UNDECIDED "):
            chk.undecided += 1
        elif l.startswith("FAIL ") or l.startswith("BROKEN "):
            head, _, detail = l.partition(" | ")
            h = head.split(" ")
            cid, kind = h[1], h[2]
            tag = h[3] if len(h) > 3 else "none"
            case = byid.get(cid, "")
            fd = fields(case) if case else {}
            generic = fd.get("dom") in gen_wrap.GENERIC
            if h[0] == "BROKEN":
                chk.broken.append(("%s:%s" % (kind, cid), detail + " | case: " + case[:600]))
                continue
            site = SITE.get(fd.get("cmd"), "?")
            if fd.get("cmd") == "wrap":
                site = GENERIC_SITE if generic else {"BOX": "Box::wrap_assign", "GRID": "Grid::wrap_assign"}.get(fd.get("dom"), "wrap_assign")
            if fd.get("dom") == "GRID" and fd.get("cmd") == "wrap":
                tag = grid_cause(fd, aux.get(cid))
            if fd.get("dom") == "BOX" and fd.get("cmd") == "wrap":
                tag = box_cause(fd, resl.get(cid), case)
            if fd.get("cmd") == "cip":
                tag = cip_cause(case, detail)
            if fd.get("cmd") == "drop" and fd.get("dim") == 0:
                tag = "zero-dim-universe"
            info = {"site": site, "kind": kind, "domain": fd.get("dom"), "cause": tag, "state": fd.get("st", 0)}
            if fd.get("cmd") == "wrap":
                info["path"] = ("collective" if fd.get("ind") == 0 else "individual") + "-" + {0: "wraps", 1: "undefined", 2: "impossible"}.get(fd.get("ov"), "?")
            chk.failure(info, {"case": case, "judge": detail, "theorem": "wrap_generic_sound_partial / wrap_generic_sound_patched (WrapSpec.required)",
                               "replay_cmd": "./check C17 --replay <this file>"})
    for (case, how) in crashes:
        fd = fields(case)
        chk.failure({"site": SITE.get(fd["cmd"], "?"), "kind": "crash", "domain": fd["dom"], "detail": how}, {"case": case, "how": how})
    # cip / drop non-trivial cases: decided ones
    chk.evaluations += stat.get("required", 0) + stat.get("cip_checked", 0) + stat.get("drop_constraints_validated", 0) + stat.get("drop_points", 0)
    for c in nontriv: chk.nontrivial.add(c)
    for k in range(stat.get("cip_checked", 0)): chk.nontrivial.add("cip%d" % k)
    for k in range(stat.get("drop_subset_checked", 0)): chk.nontrivial.add("drop%d" % k)
    for l in allc[:3]: chk.samples.append(l[:300])
    chk.extra["cases"] = stat.get("cases", 0)
    chk.extra["integer_points_of_arguments_checked"] = stat.get("points", 0)
    chk.extra["required_points_checked"] = stat.get("required", 0)
    chk.extra["required_points_that_moved"] = stat.get("moved", 0)
    chk.extra["model_vs_library_inclusions_decided"] = stat.get("model_included", 0)
    chk.extra["cip_decided"] = stat.get("cip_checked", 0)
    chk.extra["drop_constraints_validated"] = stat.get("drop_constraints_validated", 0)
    chk.extra["drop_subset_decided"] = stat.get("drop_subset_checked", 0)
    chk.extra["histogram"] = dict(sorted(cov.items()))
    sth = {}
    for l in allc:
        fd = fields(l)
        if fd["dom"] in ("C", "NNC"):
            k = "%s:%s:st%d" % (fd["cmd"], fd["dom"], fd.get("st", 0)); sth[k] = sth.get(k, 0) + 1
    chk.extra["lazy_state_histogram"] = dict(sorted(sth.items()))
    chk.extra["traces_validated_against_impl"] = stat.get("model_included", 0)
    tot = stat.get("cases", 0)
    if tot and chk.undecided * 20 > tot:
        chk.broken.append(("too-many-undecided", "%d undecided checks for %d cases" % (chk.undecided, tot)))
    if not chk.replay and stat.get("moved", 0) == 0:
        chk.broken.append(("vacuous", "no required point differed from its source point"))
