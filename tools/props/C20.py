"""C20 -- the C interface is a faithful, exception-tight wrapper of the C++ library.

1. regenerate interfaces/C from the CURRENT m4 templates into build/cif-<hash>/ (never into the repository),
   compile every regenerated file against the tree (cached), preprocess + parse -> coq/gen/Facts_CIface.v
2. Coq: generic theorems on C++ catch semantics + their instances on the regenerated facts (vm_compute over the
   complete finite lists) -> Properties_C20.v; CIface/Refuted_C20.v holds the refutations of the full statements
3. behaviour: generated drivers (tools/gen_cif.py + harness/cif_support.hh) call each entry point and, on a twin
   copy, the C++ operation it wraps; what C must get back is computed by the Coq model (run_entry, evaluated by
   vm_compute on the observed outcomes) and compared; bad_alloc injection, time-outs, ledger of objects/blocks.
"""
import glob, hashlib, json, os, re, shutil, time
import concurrent.futures as cf
import common
import translate_cif as T
import gen_cif

EXEMPT_UNTIGHT = {"ppl_io_wrap_string"}
GETTER = re.compile(r"_get_(minimized_)?(constraints|congruences)$")


def inst_map():
    inst = open(T._path("interfaces/ppl_interface_instantiations.m4")).read()
    names = re.search(r"m4_interface_classes_names', `([^']*)'", inst).group(1).split("@")
    cpps = re.search(r"m4_cplusplus_classes_names', `([^']*)'", inst).group(1).split("@")
    return dict(zip(names, cpps))


TOPO_FAMILY = "polyhedron-operands-cast-by-first-topology"


def topo_unchecked(facts):
    """Entries with two Polyhedron operands that test the topology of the first one only (one call of
    is_necessarily_closed_for_interfaces) and cast BOTH operands by it."""
    pm = {p["name"]: p["params"] for p in facts["protos"]}
    out = []
    for e in facts["entries"]:
        if e["calls"].count("is_necessarily_closed_for_interfaces") == 1 and len(re.findall(r"ppl_(?:const_)?Polyhedron_t \w", pm.get(e["name"], ""))) >= 2:
            out.append(e["name"])
    return out


def py_tight(e):
    """Mirror of Entries.tight (only used to NAME the offending entry when the Coq build fails)."""
    if e["has_try"]:
        ch = e["chain"]
        if not ch or ch[-1]["ctype"] != "...":
            return False
        ptr = "*" in e["ret_type"]
        for h in ch:
            if not h["returns"]:
                return False
            if ptr:       # pointer entry: null pointer + exactly one documented enumerator passed to the handler
                if h["ret"] not in ("nullptr", "NULL", "0") or len([a for a in h["actions"] if a.startswith("notify:") and a[7:] in T.CODES]) != 1:
                    return False
            elif h["ret"] not in T.CODES or ("notify:" + h["ret"]) not in h["actions"]:
                return False
            if any(a.startswith("call:") and a[5:] not in ("what", "reset_timeout", "reset_deterministic_timeout") for a in h["actions"]):
                return False
            if h["ctype"] != "..." and h["ctype"] not in T.CLS:
                return False
        return True
    return not e["calls"]


def static_part(chk, facts, objs):
    entries, protos = facts["entries"], facts["protos"]
    names = {e["name"] for e in entries}
    n = 0
    for e in entries:
        n += 1
        if not py_tight(e):
            chk.failure({"site": e["name"], "condition": "no-try-with-throwing-call" if not e["has_try"] else "chain-not-CATCH_ALL"},
                        {"entry": e["name"], "has_try": e["has_try"], "calls_outside_try": e["calls"],
                         "chain": [(h["ctype"], h["ret"], h["actions"]) for h in e["chain"]], "file": e["file"]})
        if not e["body_returns"]:
            chk.failure({"site": e["name"], "condition": "falls-off-the-end"}, {"entry": e["name"], "file": e["file"]})
    for p in protos:
        n += 1
        if p["name"] not in names:
            chk.failure({"site": p["name"], "condition": "declared-not-defined"}, {"prototype": p})
    for nm, w in sorted(facts["dangling"].items()):
        fam = "get_representation" if GETTER.search(nm) else "linear_partition" if nm.endswith("_linear_partition") else "other"
        chk.failure({"site_family": fam, "condition": "address-of-temporary-returned"}, {"entry": nm, "compiler": w})
    # every generated entry ppl_<D>_<suffix> calls the C++ method its name says (a wrapper of ANOTHER operation returns
    # the wrong information even when the two agree on most objects)
    ALIAS = {"poly_hull_assign": "upper_bound_assign", "poly_hull_assign_if_exact": "upper_bound_assign_if_exact", "poly_difference_assign": "difference_assign"}
    for e in entries:
        if e["file"] == "ppl_c_implementation_common.cc":
            continue
        D = e["file"][6:-3]
        if not e["name"].startswith("ppl_%s_" % D):
            continue
        n += 1
        suf = e["name"][len("ppl_%s_" % D):]
        if suf == "equals_" + D or re.match(r"(const_)?iterator_", suf) or re.match(r"(BHZ03|BGP99)_", suf):
            continue
        m = gen_cif.Gen(D, "", [], {}, 1, False).method_of(suf)
        cands = {m, ALIAS.get(m, m), re.sub(r"^get_", "", m), re.sub(r"_with_point$", "", m)}
        if not (cands & set(e["calls"])) and (e["name"] + "_with_tokens") not in e["calls"]:
            chk.failure({"site": e["name"], "condition": "wraps-other-method"},
                        {"entry": e["name"], "expected_method": sorted(cands), "calls": e["calls"], "file": e["file"]})
    for nm in topo_unchecked(facts):
        chk.failure({"site_family": TOPO_FAMILY, "condition": "second-operand-topology-unchecked"},
                    {"entry": nm, "meaning": "the entry casts both Polyhedron operands to C_/NNC_Polyhedron according to the topology of the FIRST one only"})
    regs = {e["name"]: e.get("static_objs", []) for e in entries if e["name"] in ("ppl_set_timeout", "ppl_set_deterministic_timeout")}
    want = {"ppl_set_timeout": ["timeout_exception"], "ppl_set_deterministic_timeout": ["deterministic_timeout_exception"]}
    for k, v in want.items():
        if regs.get(k) != v:
            chk.failure({"site": k, "condition": "registers-wrong-exception-class"}, {"entry": k, "registers": regs.get(k), "expected": v})
    # the parsed entry list against the compiled objects (nm): same set of global functions
    syms = T.defined_symbols(objs)
    csyms = {s for s in syms if s.startswith("ppl_") and not s.startswith("_Z")}
    if csyms != names:
        chk.broken.append(("entry-list-vs-binary", "only in binary: %s; only parsed: %s" % (sorted(csyms - names)[:10], sorted(names - csyms)[:10])))
    chk.extra["entry_points"] = len(entries)
    chk.extra["prototypes"] = len(protos)
    chk.extra["catch_chains_distinct"] = len({json.dumps(e["chain"], sort_keys=True) for e in entries if e["has_try"]})
    return n


# ---------------------------------------------------------------------------------------------------------
# behaviour
# ---------------------------------------------------------------------------------------------------------

def build_driver(chk, top, gen, libdir, dom, cpp, facts, allmap):
    pm = {p["name"]: p for p in facts["protos"]}
    protos = [pm[e["name"]] for e in facts["entries"] if e["file"] == "ppl_c_%s.cc" % dom and e["name"] in pm]
    g = gen_cif.Gen(dom, cpp, protos, allmap, chk.seed, not chk.quick, facts["dangling"].keys(), topo_unchecked(facts))
    N = 8
    srcs = g.generate_chunks(N)
    support = open(os.path.join(common.VERIF, "harness", "cif_support.hh"), "rb").read()
    key = hashlib.sha256(("".join(srcs)).encode() + support).hexdigest()[:12]
    ddir = os.path.join(top, "drv-" + os.path.basename(libdir))
    for old in glob.glob(os.path.join(top, "drv-*")):
        if old != ddir and T._stale(old):
            shutil.rmtree(old, ignore_errors=True)
    os.makedirs(ddir, exist_ok=True)
    exe = os.path.join(ddir, "drv_%s_%s" % (dom, key))
    if not os.path.exists(exe):
        flags = ["-std=c++11", "-DHAVE_CONFIG_H", "-I" + os.path.join(common.VERIF, "harness")] + T.include_flags(gen, libdir) + ["-O0", "-frounding-math", "-w"]
        def one(k):
            f = os.path.join(ddir, "drv_%s_%d.cc" % (dom, k))
            open(f, "w").write(srcs[k])
            rc, out = common.sh(["g++"] + flags + ["-c", f, "-o", f[:-3] + ".o"], timeout=1800)
            if rc != 0:
                raise common.BuildError("generated driver for %s does not compile:\n%s" % (dom, "\n".join(l for l in out.split("\n") if " error: " in l)[:6000] or out[-3000:]))
            return f[:-3] + ".o"
        with cf.ThreadPoolExecutor(N) as ex:
            os_ = list(ex.map(one, range(N)))
        objs, _ = T.build_objects(top, gen, libdir, sorted({"implementation_common", dom, "Polyhedron"} | ({"Pointset_Powerset_NNC_Polyhedron"} & set(allmap))), chk.log)
        for attempt in range(4):      # the library cache may be evicted by a concurrent run on another tree: rebuild + retry
            libdir2 = common.build_lib("mpz")
            rc, out = common.sh(["g++"] + os_ + objs + [os.path.join(libdir2, "libppl_verif.a"), "-lgmpxx", "-lgmp", "-o", exe + ".tmp"], timeout=1800)
            if rc == 0 or "cannot find" not in out:
                break
        if rc != 0:
            raise common.BuildError("linking the driver for %s failed:\n%s" % (dom, out[-3000:]))
        os.rename(exe + ".tmp", exe)
        for f in os_:
            os.remove(f)
    return exe, g


OPTIONAL_ENTRIES = ["ppl_new_Linear_Expression_from_Grid_Generator"]     # called by the harness only when defined


def build_misc(chk, top, gen, libdir, facts):
    src = os.path.join(common.VERIF, "harness", "run_cif_misc.cc")
    support = open(os.path.join(common.VERIF, "harness", "cif_support.hh"), "rb").read()
    names = {e["name"] for e in facts["entries"]}
    opt = ["-DCIF_HAVE_" + n for n in OPTIONAL_ENTRIES if n in names]
    key = hashlib.sha256(open(src, "rb").read() + support + " ".join(opt).encode()).hexdigest()[:12]
    ddir = os.path.join(top, "drv-" + os.path.basename(libdir))
    os.makedirs(ddir, exist_ok=True)
    exe = os.path.join(ddir, "misc_%s" % key)
    if not os.path.exists(exe):
        objs, _ = T.build_objects(top, gen, libdir, ["implementation_common", "Polyhedron"], chk.log)
        flags = ["-std=c++11", "-DHAVE_CONFIG_H", "-I" + os.path.join(common.VERIF, "harness")] + T.include_flags(gen, libdir) + ["-O0", "-frounding-math", "-w"] + opt
        for attempt in range(4):
            libdir2 = common.build_lib("mpz")
            rc, out = common.sh(["g++"] + flags + [src] + objs + [os.path.join(libdir2, "libppl_verif.a"), "-lgmpxx", "-lgmp", "-o", exe + ".tmp"], timeout=1800)
            if rc == 0 or "cannot find" not in out:
                break
        if rc != 0:
            raise common.BuildError("harness run_cif_misc.cc does not compile/link:\n%s" % out[-3000:])
        os.rename(exe + ".tmp", exe)
    return exe


def model_eval(chk, facts, obs):
    """obs: list of (entry name, class name | 'foreign').  Returns {(name, cls): (ret, notified)} computed by the Coq
    model (run_entry on the regenerated facts, vm_compute)."""
    order = sorted(e["name"] for e in facts["entries"])
    idx = {n: i for i, n in enumerate(order)}
    obs = sorted(set(obs))
    lines = ["From Coq Require Import List String ZArith.",
             "Require Import PPLV.CIface.Exn PPLV.CIface.Entries PPLV.CIface.Spec PPLV.gen.Facts_CIface.",
             "Import ListNotations.", "Open Scope string_scope.",
             "Definition dummy := mkEntry \"\" 0 false [] [] false false.",
             "Definition zcode (c : ecode) : Z := match value_of enum_error_code c with Some z => z | None => 1%Z end.",
             "Definition spec (c : option cls) : Z := documented_value (match c with Some c => documented_code c | None => ERROR_UNEXPECTED_ERROR end).",
             "Definition expect (o : nat * string * option cls) : Z * Z * Z :=",
             "  let '(i, n, c) := o in let en := nth i entries dummy in (fun p : Z * Z => (fst p, snd p, spec c))",
             "  (if negb (String.eqb (e_name en) n) then (2, 2)%Z else",
             "  match run_entry en (Throws (match c with Some c => of_class c | None => foreign end)) with",
             "  | (ReturnedNull, eff) => (0%Z, match eff with [E_notify k2] => zcode k2 | _ => 3%Z end)",
             "  | (ReturnedCode k, eff) => (zcode k, match eff with [E_notify k2] => zcode k2 | E_reset_timeout :: [E_notify k2] => zcode k2",
             "                                        | E_reset_det_timeout :: [E_notify k2] => zcode k2 | _ => 3%Z end)",
             "  | (Escaped _, _) => (4, 4)%Z",
             "  | _ => (5, 5)%Z end).",
             "Definition obs : list (nat * string * option cls) := ["]
    lines.append(";\n".join("  (%d, \"%s\", %s)" % (idx[n], n, "None" if c == "foreign" else "Some " + c) for n, c in obs))
    lines += ["].", "Eval vm_compute in (map expect obs)."]
    f = os.path.join(common.BUILD, "cif_obs_%d.v" % os.getpid())
    open(f, "w").write("\n".join(lines) + "\n")
    rc, out = common.sh(["coqc", "-Q", common.COQ, "PPLV", f], timeout=900)
    for ext in (".v", ".vo", ".vok", ".vos", ".glob"):
        try: os.remove(f[:-2] + ext)
        except OSError: pass
    try: os.remove(os.path.join(common.BUILD, ".cif_obs_%d.aux" % os.getpid()))
    except OSError: pass
    if rc != 0:
        chk.broken.append(("model-eval", out[-2000:]))
        return {}
    flat = re.sub(r"\((-?\d+)\)%Z", r"\1", out).replace("%Z", "")
    vals = re.findall(r"\(\s*(-?\d+)\s*,\s*(-?\d+)\s*,\s*(-?\d+)\s*\)", flat)
    if len(vals) != len(obs):
        chk.broken.append(("model-eval-parse", "%d values for %d observations" % (len(vals), len(obs))))
        return {}
    return {o: (int(a), int(b), int(c)) for o, (a, b, c) in zip(obs, vals)}


def judge_lines(chk, facts, dom, lines, stats):
    T_, O_, T_all = {}, [], []
    obs = []
    for ln in lines:
        f = ln.rstrip("\n").split("|")
        if f[0] == "T" and len(f) >= 13:
            T_[(f[1], f[2])] = f
            T_all.append(f)
            if f[3] != "ret":
                obs.append((f[1], f[3]))
        elif f[0] == "O" and len(f) >= 13:
            O_.append(f)
        elif f[0] == "U" and len(f) >= 5:
            # probe (forked child) of a call the facts say is undefined behaviour: mixed topologies must be rejected
            chk.count(1, key=(f[1], "probe", f[3].split(":")[0]))
            if not (f[3] == "ret:-3" and f[4] == "-3"):
                chk.failure({"site_family": TOPO_FAMILY, "condition": "mixed-topology-not-rejected"},
                            {"domain": dom, "entry": f[1], "variant": f[2], "outcome": f[3], "handler_codes": f[4],
                             "expected": "PPL_ERROR_INVALID_ARGUMENT (-3): every other binary Polyhedron operation rejects topology-incompatible operands"})
        elif f[0] == "L":
            chk.failure({"site": f[1], "condition": "leak"}, {"domain": dom, "line": ln})
        elif f[0] == "X":
            chk.broken.append(("driver-setup", ln[:300]))
        elif f[0] == "S":
            m = re.match(r"S\|created=(\d+)\|deleted=(\d+)\|cases=(\d+)\|live=(-?\d+)", ln)
            if m:
                stats["created"] += int(m.group(1)); stats["deleted"] += int(m.group(2))
                if m.group(1) != m.group(2):
                    chk.failure({"site": dom, "condition": "created-not-deleted-once"}, {"domain": dom, "line": ln})
    names = {e["name"] for e in facts["entries"]}
    obs = [(n, c) for (n, c) in obs if n in names] + [(n, "BadAlloc") for n in {f[1] for f in O_} if n in names]
    model = model_eval(chk, facts, obs) if obs else {}
    def seen(f):
        return [int(x) for x in f[6].split(",") if x]
    for f in T_all:
        entry, variant, m, mv, r = f[1], f[2], f[3], int(f[4]), int(f[5])
        stats["cases"] += 1
        info = None
        if m == "ret":
            # model: run_entry en (Returns v) = (Returned v, [])
            if r != mv or seen(f):
                info = {"site": entry, "condition": "return-value-differs" if r != mv else "handler-called-without-error"}
        else:
            exp = model.get((entry, m))
            if exp is None:
                info = {"site": entry, "condition": "no-model-value"}
            elif r != exp[2] or seen(f) != [exp[2]]:
                # the compiled entry does not return (and notify) the enumerator DOCUMENTED for the thrown class
                info = {"site": entry, "condition": "error-code-differs", "thrown": m}
            elif (exp[0], exp[1]) != (exp[2], exp[2]):
                chk.broken.append(("model-vs-spec", "%s %s: model %s, documented %s" % (entry, m, exp[:2], exp[2])))
        if info is None:
            for col, cond in ((7, "output-handle-differs"), (8, "const-argument-modified"), (9, "handle-unusable-after"), (10, "output-value-differs")):
                if f[col] == "0":
                    info = {"site": entry, "condition": cond}
                    break
        if info is not None:
            chk.failure(info, {"domain": dom, "entry": entry, "variant": variant, "mirror": m, "mirror_value": mv, "c_return": r,
                               "handler_codes": seen(f), "model_expects": model.get((entry, m)), "line": "|".join(f)})
        kind = m if m != "ret" else ("ret" + ("+" if r > 0 else "0"))
        chk.count(1, key=(entry, kind), sample={"entry": entry, "variant": variant, "cxx_outcome": m, "c_return": r, "handler": seen(f)} if m != "ret" else None)
        stats["by_outcome"][m] = stats["by_outcome"].get(m, 0) + 1
    for f in O_:
        entry, variant, m, r = f[1], f[2], f[3], int(f[5])
        stats["oom_cases"] += 1
        base = T_.get((entry, variant))
        ok = False
        if m == "BadAlloc":
            exp = model.get((entry, "BadAlloc"))
            # the injected failure either propagates (model: handles chain BadAlloc) or is absorbed inside the library
            # (iostream formatting of an error message swallows it): then the call behaves as the plain run
            if exp is not None and r == exp[0] and seen(f) == [exp[1]]:
                ok = True; stats["oom_propagated"] += 1
            elif base is not None and r == int(base[5]) and seen(f) == seen(base):
                ok = True; stats["oom_absorbed"] += 1
            elif r == -7 and not seen(f) and re.search(r"^ppl_io_|_ascii_(dump|load)$", entry):
                # the stream absorbed the failure and went bad: the printing entries return PPL_STDIO_ERROR
                ok = True; stats["oom_absorbed"] += 1
        else:
            ok = base is not None and r == int(base[5]) and seen(f) == seen(base)
        cond = None
        if not ok:
            cond = "bad_alloc-not-reported-as-out-of-memory"
        elif f[8] == "0":
            cond = "const-argument-modified-after-bad_alloc"
        elif f[9] == "0":
            # the error was reported correctly and the object can still be dumped and deleted, but its OK() is
            # false: exception safety of the C++ operation itself (not claimed by C20; listed in the evidence)
            stats["oom_left_object_not_OK"].add(entry)
        elif f[11] not in ("0", ""):
            cond = "leak-after-bad_alloc"
        if cond:
            info = {"site": entry, "condition": cond}
            chk.failure(info, {"domain": dom, "entry": entry, "variant": variant, "line": "|".join(f), "plain_run": "|".join(base) if base else None})
        chk.count(1, key=(entry, "oom-" + m))


def judge_sequences(chk, qlines, stats):
    """Q lines of run_cif_misc: sequences of set/reset/conversion events; expected outcome from the Coq SPEC machine
    (CIface/Timeouts.v, vm_compute); the code machine equals it by theorem timeout_sequences."""
    EV = {"T": "SetT", "t": "ResetT", "H": "SetD Huge", "S": "SetD Tiny", "d": "ResetD", "C": "Conv"}
    rows = []
    for ln in qlines:
        f = ln.split("|")
        if f[0] == "Q0":
            if not ln.endswith("back=1"):
                chk.failure({"site": "ppl_reset_timeout", "condition": "watchdog-object-leaked"}, {"line": ln})
        elif f[0] == "Q" and len(f) >= 8:
            rows.append(f)
    if not rows:
        chk.broken.append(("timeout-sequences", "no sequence line in the harness output"))
        return
    src = ["From Coq Require Import List ZArith Bool.", "Require Import PPLV.CIface.TimeoutSpec.", "Import ListNotations.",
           "Fixpoint bits (l : list bool) : Z := match l with [] => 0%Z | b :: r => ((if b then 1 else 0) + 2 * bits r)%Z end.",
           "Definition enc (l : list tev) : Z := let '(s, is) := spec_run (mkS false None) l in",
           "  ((if s_wall s then 1 else 0) + (match s_det s with Some _ => 2 | None => 0 end) + 4 * bits is)%Z.",
           "Eval vm_compute in map enc ["]
    src.append(";\n".join("  [%s]" % "; ".join(EV[c] for c in f[1]) for f in rows))
    src.append("].")
    fn = os.path.join(common.BUILD, "cif_seq_%d.v" % os.getpid())
    open(fn, "w").write("\n".join(src) + "\n")
    rc, out = common.sh(["coqc", "-Q", common.COQ, "PPLV", fn], timeout=900)
    for ext in (".v", ".vo", ".vok", ".vos", ".glob"):
        try: os.remove(fn[:-2] + ext)
        except OSError: pass
    try: os.remove(os.path.join(common.BUILD, ".cif_seq_%d.aux" % os.getpid()))
    except OSError: pass
    vals = [int(x) for x in re.findall(r"-?\d+", out.split("=", 1)[1].split(":")[0].replace("%Z", ""))] if rc == 0 and "=" in out else []
    if len(vals) != len(rows):
        chk.broken.append(("timeout-sequences-model", out[-1500:]))
        return
    nint = 0
    for f, v in zip(rows, vals):
        seq, convs, delta, bW, bD, bal, bad = f[1], [c for c in f[2].split(",") if c], int(f[3]), int(f[4]), int(f[5]), f[6], f[7]
        w, d = v & 1, (v >> 1) & 1
        exp_conv = [((v >> (2 + i)) & 1) for i, c in enumerate(seq) if c == "C"]
        got_conv = [0 if c == "0" else 1 for c in convs]
        cond = None
        if bad != "0":
            cond = "registration-entry-failed"
        elif got_conv != exp_conv or any(c not in ("0", "-11D") for c in convs):
            cond = "conversion-interrupted-differs"
        elif delta != w * bW + d * bD:
            cond = "armed-watchdogs-differ"
        elif bal != "1":
            cond = "watchdog-object-leaked"
        nint += sum(got_conv)
        chk.count(1, key=("timeout-seq", seq))
        if cond:
            chk.failure({"site": "timeout-registration-sequence", "condition": cond},
                        {"sequence": seq, "legend": "T set_timeout t reset_timeout H set_deterministic(huge) S set_deterministic(1) d reset_deterministic C conversion",
                         "conversions": convs, "model_conversions_interrupted": exp_conv, "blocks_delta": delta, "model_armed": {"wall": w, "deterministic": d},
                         "blocks_per_watchdog": {"wall": bW, "deterministic": bD}, "ledger_back_to_base": bal, "line": "|".join(f)})
    stats["timeout_sequences"] = len(rows)
    stats["timeout_sequence_conversions_interrupted"] = nint


def judge_pfunc(chk, plines, stats):
    """P lines: the real Array_Partial_Function_Wrapper on every array over {u,0..3} of length <= 4, against the Coq
    model CIface/PFunc.v evaluated by vm_compute."""
    rows = [ln.split("|") for ln in plines]
    rows = [f for f in rows if len(f) >= 5]
    if len(rows) < 700:
        chk.broken.append(("pfunc", "only %d P lines" % len(rows)))
        return
    def coq_arr(a):
        return "[%s]" % "; ".join("None" if c == "u" else "Some %s" % c for c in a)
    src = ["From Coq Require Import List Arith.", "Require Import PPLV.CIface.PFunc.", "Import ListNotations.",
           "Definition o2n (o : option nat) : nat := match o with Some j => S j | None => 0 end.",
           "Definition ev (v : pfun) : list nat := (if has_empty_codomain v then 1 else 0) :: max_in_codomain v :: map (fun i => o2n (maps v i)) (seq 0 (S (length v))).",
           "Eval vm_compute in map ev ["]
    src.append(";\n".join("  " + coq_arr(f[1]) for f in rows))
    src.append("].")
    fn = os.path.join(common.BUILD, "cif_pf_%d.v" % os.getpid())
    open(fn, "w").write("\n".join(src) + "\n")
    rc, out = common.sh(["coqc", "-Q", common.COQ, "PPLV", fn], timeout=900)
    for ext in (".v", ".vo", ".vok", ".vos", ".glob"):
        try: os.remove(fn[:-2] + ext)
        except OSError: pass
    try: os.remove(os.path.join(common.BUILD, ".cif_pf_%d.aux" % os.getpid()))
    except OSError: pass
    body = out.split("=", 1)[1].rsplit(":", 1)[0] if rc == 0 and "=" in out else ""
    groups = re.findall(r"\[([0-9;\s]*)\]", body.strip()[1:-1] if body.strip().startswith("[") else body)
    vals = [[int(x) for x in g.replace(";", " ").split()] for g in groups]
    if len(vals) != len(rows):
        chk.broken.append(("pfunc-model", "%d model rows for %d arrays: %s" % (len(vals), len(rows), out[-600:])))
        return
    for f, v in zip(rows, vals):
        arr, e, mx, mp = f[1], f[2], f[3], f[4]
        exp_e = str(v[0]); exp_mx = "-" if v[0] == 1 else str(v[1]); exp_mp = "".join("u" if x == 0 else str(x - 1) for x in v[2:])
        chk.count(1, key=("pfunc", arr))
        if (e, mx, mp) != (exp_e, exp_mx, exp_mp):
            chk.failure({"site": "Array_Partial_Function_Wrapper", "condition": "partial-function-wrapper-differs"},
                        {"array": arr, "legend": "u = not_a_dimension()", "has_empty_codomain": e, "max_in_codomain": mx, "maps": mp,
                         "model": {"has_empty_codomain": exp_e, "max_in_codomain": exp_mx, "maps": exp_mp}})
    stats["pfunc_arrays"] = len(rows)


def run(chk):
    chk.rule = ("cases = (entry point of the regenerated C interface, argument variant: one valid tuple per object recipe + one "
                "ill-formed argument at a time, + bad_alloc at the first allocation inside the entry); a case is counted as "
                "distinct non-trivial per (entry point, kind of outcome of the wrapped C++ operation: returns 0 / returns >0 / "
                "throws class X / bad_alloc injected / no allocation)")
    chk.trusted += ["Coq 8.16.1 kernel; vm_compute in the instance lemmas (finite lists enumerated completely) and for evaluating run_entry on observations",
                    "tools/translate_cif.py (m4/cpp driving + a ~300-line C++ top-level parser producing Facts_CIface.v): cross-checked against `nm` of the compiled objects and by the behavioural drivers",
                    "g++ 12 -E / -Wdangling-pointer=2 as fact extractors", "harness/cif_support.hh, tools/gen_cif.py (drivers), C++ catch semantics as modelled in CIface/Exn.v"]
    chk.assumptions += ["the registered C error handler returns normally (does not longjmp / throw)",
                        "what(), notify_error, reset_timeout, reset_deterministic_timeout do not throw (helpers' bodies are checked to call only the user handler / delete)",
                        "a handle is only passed to entry points of its own type, non-null, not already deleted (C cannot check this)"]
    libdir = common.build_lib("mpz", log=chk.log)
    top, gen, doms, facts = T.collect(chk.log, libdir)
    objs, dangling = T.build_objects(top, gen, libdir, ["implementation_common"] + doms, chk.log)
    for e in facts["entries"]:       # syntactic fact: `*out = ... &local ...` (the compiler misses it behind reinterpret_cast)
        if e.get("addr_of_local"):
            dangling.setdefault(e["name"], "address of local %s stored in *%s" % (e["addr_of_local"][0][1], e["addr_of_local"][0][0]))
    facts["dangling"] = dangling
    nchains = T.write_coq(facts, os.path.join(common.COQ, "gen", "Facts_CIface.v"))
    chk.log("facts: %d entry points, %d prototypes, %d domains, %d catch chains, %d dangling outputs" %
            (len(facts["entries"]), len(facts["protos"]), len(doms), nchains, len(dangling)))
    nstatic = static_part(chk, facts, objs)
    chk.count(nstatic)
    ok = chk.prove(["CIface/Exn.v", "CIface/Entries.v", "CIface/Spec.v", "gen/Facts_CIface.v", "CIface/C20.v", "CIface/TimeoutSpec.v", "CIface/Timeouts.v", "CIface/PFunc.v"])
    # refutations of the full statements (not audited obligations: they disappear when upstream fixes the defects)
    okr, outr = common.coq_make(["CIface/Refuted_C20.vo"])
    chk.extra["refutations_compile"] = bool(okr)
    if not okr:
        chk.log("note: CIface/Refuted_C20.v no longer compiles (a known defect was fixed?): %s" % outr[-300:].replace("\n", " "))
    if not ok:
        # the theorems no longer hold on the regenerated facts: still look for a concrete failing input
        okf, _ = common.coq_make(["CIface/Spec.vo", "CIface/TimeoutSpec.vo", "CIface/PFunc.vo", "gen/Facts_CIface.vo"])
        if not okf:
            return

    # ---- behaviour
    allmap = inst_map()
    others = [d for d in doms if d != "Polyhedron"]
    if chk.quick:
        pick = ["Polyhedron"] + ([others[chk.seed % len(others)]] if others else [])
    else:
        pick = doms
    if chk.replay:
        # a replay file names the domain (and entry/variant) of a failing case: re-run that domain's driver
        try:
            rd = json.load(open(chk.replay)).get("domain")
        except (OSError, ValueError):
            rd = None
        if rd in doms:
            pick = [rd]
        chk.log("replay %s: domain %s" % (chk.replay, pick))
    stats = {"created": 0, "deleted": 0, "cases": 0, "oom_cases": 0, "oom_propagated": 0, "oom_absorbed": 0, "by_outcome": {}, "oom_left_object_not_OK": set()}
    driven, undriven = [], []
    for dom in pick:
        t0 = time.time()
        exe, g = build_driver(chk, top, gen, libdir, dom, allmap[dom], facts, allmap)
        driven += g.driven; undriven += g.undriven
        rc, out = common.sh([exe], timeout=600 if chk.quick else 1500)
        lines = out.split("\n")
        if rc != 0:
            last = [l for l in lines if l[:2] in ("T|", "O|")][-1:] or ["<none>"]
            chk.failure({"site": dom, "condition": "driver-crashed" if rc != 124 else "driver-hung"},
                        {"domain": dom, "exit": rc, "last_case": last[0][:300], "tail": out[-600:]})
        judge_lines(chk, facts, dom, lines, stats)
        chk.log("domain %s: %d entries driven, %d not driven, %d lines in %.1fs" % (dom, len(g.driven), len(g.undriven), len(lines), time.time() - t0))
    # ---- hand-written part: time-outs, entry without try, MIP domain errors, common entries
    exe = build_misc(chk, top, gen, libdir, facts)
    rc, out = common.sh([exe, "16"], timeout=300)
    if rc != 0:
        chk.failure({"site": "run_cif_misc", "condition": "driver-crashed"}, {"exit": rc, "tail": out[-800:]})
    judge_lines(chk, facts, "common", out.split("\n"), stats)
    for ln in out.split("\n"):
        f = ln.split("|")
        if f[0] == "W" and len(f) >= 9:
            setter, s, r, h, nxt, rs, after, usable = f[1], int(f[2]), int(f[3]), f[4], int(f[5]), int(f[6]), int(f[7]), int(f[8])
            chk.count(1, key=(setter, "expiry"), sample={"setter": setter, "interrupted_call": r, "handler": h, "next_call": nxt, "after_reset": after})
            if s != 0 or r != -11 or h != "-11" or usable <= 0 or rs != 0 or after != 0:
                chk.failure({"site": setter, "condition": "timeout-not-reported"}, {"line": ln})
            elif nxt != 0:
                chk.failure({"site": setter, "condition": "still-armed-after-expiry"}, {"line": ln, "meaning": "the call after the interrupted one is interrupted again although no time-out was set"})
        if f[0] == "V" and len(f) >= 7:
            chk.count(1, key=("timeouts", "wall-then-deterministic"), sample={"scenario": f[1], "interrupted_call": f[4], "handler_ran": f[5], "cpu_ms": f[6]})
            if f[2] != "0" or f[3] != "0" or f[4] != "-11":
                chk.failure({"site": "ppl_set_timeout", "condition": "timeout-not-reported"}, {"line": ln})
            elif f[5] != "W":
                chk.failure({"site": "ppl_set_deterministic_timeout", "condition": "cancels-wall-clock-timeout"},
                            {"line": ln, "meaning": "ppl_set_timeout(3 cs); ppl_set_deterministic_timeout(2^31); long conversion: interrupted by the %s handler, not by the wall clock" % f[5]})
        if f[0] == "E" and len(f) >= 5:
            chk.count(1, key=("ppl_io_wrap_string", f[2], f[3]))
            if f[2] == "oom" and f[3] != "returned":
                chk.failure({"site": "ppl_io_wrap_string", "condition": "no-try-with-throwing-call"}, {"line": ln, "meaning": "bad_alloc unwound out of the extern \"C\" function"})
            if f[2] == "valid" and f[3] != "same":
                chk.failure({"site": "ppl_io_wrap_string", "condition": "return-value-differs"}, {"line": ln})
    judge_sequences(chk, [l for l in out.split("\n") if l.startswith("Q")], stats)
    judge_pfunc(chk, [l for l in out.split("\n") if l.startswith("P|")], stats)
    for ln in out.split("\n"):
        f = ln.split("|")
        if f[0] == "N" and len(f) >= 6:
            chk.failure({"site": f[1], "condition": "printed-text-differs", "difference": f[6] if len(f) > 6 else "text"},
                        {"entry": f[1], "variable_index": f[2], "return": f[3], "printed": f[4], "cxx_operator_output_default_names": f[5],
                         "meaning": "in a sequence of prints over variables 0,25,26,27,51,52,700,... the text differs from the C++ operator<< with the default variable names"})
        if f[0] == "N0":
            m = re.match(r"N0\|printed=(\d+)\|different=(\d+)", ln)
            if m:
                stats["printed_texts_compared"] = int(m.group(1))
                chk.count(int(m.group(1)), key=("print-sequences", m.group(2)))
    if "printed_texts_compared" not in stats:
        chk.broken.append(("print-sequences", "no N0 line in the harness output"))
    stats["oom_left_object_not_OK"] = sorted(stats["oom_left_object_not_OK"])
    stats["entries_driven"] = len(set(driven)); stats["entries_not_driven"] = len(set(undriven))
    stats["domains_driven"] = pick
    stats["not_driven_examples"] = sorted(set(undriven))[:12]
    chk.extra["behaviour"] = stats
    chk.extra["exhaustive"] = False
    chk.log("behaviour: %d cases + %d oom cases (%d propagated, %d absorbed), outcomes %s; objects created=%d deleted=%d" %
            (stats["cases"], stats["oom_cases"], stats["oom_propagated"], stats["oom_absorbed"], stats["by_outcome"], stats["created"], stats["deleted"]))
