"""C04: over rationals, boxes / BD shapes / octagons are exact and best where documented."""
import os
import common, shapescheck, gen_shapes

KINDS = ["bds_q", "oct_q", "box_q"]


def owner(kind):
    return kind.startswith("C04:")


def run(chk):
    chk.rule = ("cases in the shapes case language from tools/gen_shapes.py (seeded), rational carriers only (BD_Shape<mpq_class>, Octagonal_Shape<mpq_class>, "
                "Rational_Box): histories mixing mutators with closure / reduction / observers so that operations meet closed, non-closed and reduced matrices "
                "(status vectors counted), pairs disjoint only through a cycle alternating between the two shapes, twins (equal sets with different matrices, "
                "one notch apart), targeted batteries (half-open boxes met exactly by constraints, lazy closed / reduced state after dimension changes or added equalities vs a twin rebuilt from constraints, differences with straddled equalities, general-form transformers), constructors from polyhedra / generators / other domains; every predicate and query is compared with the exact reference "
                "answer, exact operators by verified set equality, best operators with the best abstraction computed by sup_expr; distinct by (kind, operation text)")
    chk.trusted += shapescheck.TRUSTED
    chk.assumptions += [
        "which transformers are 'exact in the domain' is decided by the judge's syntactic criterion (constant, or a single variable with coefficient equal to "
        "the denominator, +- for octagons; for boxes only the variable itself); all others are checked for soundness only",
        "affine_dimension / is_discrete reference: counting coordinates not determined by the previous ones, each test decided by the verified emptiness test",
        "contains_integer_point, frequency, relation_with ray/line generators: not judged",
    ]
    chk.prove(shapescheck.SHAPES_COQ)
    if chk.replay:
        import json
        rp = json.load(open(chk.replay))
        out, byid = shapescheck.run_cases(chk, "C04", list(rp.get("case", [])), "replay", owner)
        shapescheck.account(chk, out, byid, "replay of " + chk.replay)
        return
    if chk.quick:
        per_op, nmix = 12, 2500
    else:
        per_op, nmix = 40, 14000
    lines = []
    cid = 0
    for i, op in enumerate(gen_shapes.MUTATORS):
        n = per_op * len(KINDS)
        lines += gen_shapes.make_cases(chk.seed * 1000 + 500 + i, n, KINDS, steps=3, ops=[op, op, op, "closure", "reduction"], pq=0.3, start=cid)
        cid += n
    lines += gen_shapes.make_cases(chk.seed * 7919 + 4, nmix, KINDS, steps=6, pq=0.4, start=cid, mix=(0.5, 0.15, 0.2, 0.15))
    # targeted cases (see tools/gen_shapes.py make_targeted)
    lines += gen_shapes.make_targeted(chk.seed * 104729 + 6, 600 if chk.quick else 6000, KINDS)
    # rational / double boxes with half-open intervals get a stream of their own
    lines += gen_shapes.make_targeted(chk.seed * 1299709 + 8, 160 if chk.quick else 2000, ["box_q"], start=100000, which=["open_box", "open_box", "diff_eq"])
    # dense family for upper_bound_assign_if_exact (and the integer variant): pairs of small shapes with end points on a tiny
    # grid, sharing / adjacent / crossing faces, both argument orders; and swaps / assignments between lazy states
    lines += gen_shapes.make_targeted(chk.seed * 15485863 + 18, 1600 if chk.quick else 12000, ["oct_q", "oct_q", "bds_q", "box_q"], start=200000, which=["ubie", "ubie", "ubie", "swap"])
    # non-dividing divisors in every affine transformer; fold / expand / map / remove with both index orders;
    # relation_with arguments of smaller space dimension
    lines += gen_shapes.make_targeted(chk.seed * 49979687 + 28, 600 if chk.quick else 6000, KINDS, start=400000, which=["affine_div", "fold", "relarg", "cg", "simplify"])
    lines += gen_shapes.make_targeted(chk.seed * 67867967 + 38, 300 if chk.quick else 4000, ["oct_q", "bds_q"], start=500000, which=["fold"])
    out, byid = shapescheck.run_cases(chk, "C04", shapescheck.corpus_cases("C04") + lines, "c04", owner)
    shapescheck.account(chk, out, byid, "C04_* (tightness of closed forms, exactness of the comparisons, best abstraction) + verified equivalence / supremum")
