"""C05 -- Grids: congruence and generator descriptions agree and operations are exact.

Proof part: coq/Grid/{QVec,IntLin,GridSem,GridRef}.v, audited through coq/Properties/Properties_C05.v.
Tie: harness/run_grid.cc runs generated histories on the real Grid class and dumps, after every step,
what every pool object reports; ocaml/judge_grid.ml mirrors every object with the extracted reference
and compares through the verified decision procedures."""
import glob, json, os, random, re, hashlib, shutil, time
import common
import gen_grid

COQ_FILES = ["Grid/QVec.v", "Grid/IntLin.v", "Grid/GridSem.v", "Grid/GridRef.v", "Grid/GridFreq.v", "Grid/GridOps2.v",
             "Grid/GridOpsSpec.v", "Grid/GridOpsSpec2.v", "Grid/GridOpsSpec3.v", "Grid/GridOpsSpec4.v"]


def parse_fail(line):
    d = {}
    for t in line.split()[1:]:
        if "=" in t:
            k, v = t.split("=", 1)
            d[k] = v
    return d


def site_of(d):
    """Root-cause tag of a failure: call site + triggering condition (see known_findings.d/C05.json).  A failure of
    the same operation outside the triggering condition gets no tag and is therefore a VIOLATION."""
    k, op = d.get("kind"), d.get("op")
    g = d.get
    if k == "state" and op == "copy" and g("arg_em") == "1" and g("arg_cu") == "0" and g("desc") in ("C", "MC"):
        return "copy-ctor:marked-empty-source-con_sys-not-copied"
    if k == "result" and op == "rel" and g("cg_proper") == "1" and g("div_ne1") == "1":
        return "relation_with(cg):proper-congruence,generator-divisor-not-1"
    if k == "result" and op == "rel" and g("tgt_pbp") == "1":
        return "relation_with(cg):parameter-row-before-first-point"
    if k == "result" and op == "q" and g("what") == "is_discrete" and g("tgt_r0l") == "1" and g("got") == "bool_1":
        return "is_discrete:line-in-row-0"
    if k == "state" and op == "project" and g("tgt_dim") == "0" and g("tgt_em") == "0":
        return "add_space_dimensions_and_project:zero-dim-universe"
    if k == "crash" and op == "addgens" and g("tgt_em") == "0" and g("tgt_gu") == "0" and g("ref_empty_before") == "1":
        return "add_grid_generators:empty-not-marked,update_generators-result-ignored"
    if op == "rmhigher" and k in ("crash", "state", "ok") and g("tgt_em") == "0" and g("tgt_gu") == "1" and g("tgt_gm") == "1":
        return "remove_higher_space_dimensions:minimized-generators-branch"
    if (k == "result" and op == "q" and g("what") == "is_universe" and g("got") == "bool_1" and g("tgt_cu") == "1"
            and g("tgt_cm") == "0" and g("ref_empty_before") == "1"):
        return "is_universe:unminimized-congruences,origin-not-tested"
    if k == "result" and op == "freq" and g("why") == "value-not-closest-to-zero":
        return "frequency:value-reduced-by-truncating-remainder"
    if k == "result" and op == "freq" and g("tgt_dim") == "0" and g("why") == "value-not-attained" and g("expr_b_zero") == "0":
        return "frequency:zero-dim-ignores-inhomogeneous-term"
    if op == "gpreimage" and k == "state" and g("gp_branch") == "invertible-scaled":
        return "generalized_affine_preimage:invertible-branch,parameter-not-scaled"
    if (k == "result" and op == "relgen" and g("expected") == "bool_0" and g("got") == "bool_1" and g("tgt_em") == "0"
            and g("ref_empty_before") == "1" and g("gen_kind") in ("q", "l")):
        return "relation_with(grid_generator):empty-not-marked"
    if op == "diff" and k == "state" and (g("div_ne1") == "1" or g("tgt_pbp") == "1"):
        return "difference_assign:consequence-of-relation_with(cg)-defects"
    if (k == "state" and g("why") in ("zero-line-reported", "zero-parameter-reported")
            and op in ("rmdims", "rmhigher", "fold", "mapdims", "telapse") and g("obj_is_target") == "1"):
        return "null-generator-rows-left(remove/fold/map_space_dimensions,time_elapse)"
    if (k == "result" and op == "q2" and g("what") == "equals" and g("expected") == "bool_1" and g("got") == "bool_0"
            and g("tgt_gm") == "1" and g("arg_gm") == "1" and g("tgt_ln") == "0" and g("arg_ln") == "0"):
        return "operator==:both-generator-systems-minimized,no-lines,strong-minimal-form-not-canonical"
    if k == "ok" and g("obj_em") == "0" and g("obj_cu") == "0" and g("obj_gu") == "1" and g("obj_gm") == "0":
        return "OK()-false-after-update_congruences-from-unminimized-generators"
    return "-"


def run_cases(chk, hx, judge, text, timeout):
    """Run harness + judge on a batch.  When the harness dies inside a step (a crash inside PPL) the judge
    reports the pending step (PENDING line) from the partial trace; the rest of the batch is then run
    without the crashing case."""
    outs = []
    guard = 0
    while text and guard < 200:
        guard += 1
        rc, trace = common.sh([hx], input=text, timeout=timeout)
        rc2, out = common.sh([judge], input=trace, timeout=timeout)
        if rc2 != 0:
            return None, "judge exit %s: %s" % (rc2, out[-500:])
        outs.append(out)
        if rc == 0:
            break
        pend = [l for l in out.splitlines() if l.startswith("PENDING ")]
        if pend:
            cid = parse_fail(pend[-1])["case"]
        else:
            # died between two steps: attribute it to the last case started
            started = [l.split()[1] for l in trace.splitlines() if l.startswith("case ")]
            if not started:
                return None, "harness exit %s before the first case" % rc
            cid = started[-1]
            if not any(l.startswith("FAIL ") and parse_fail(l).get("case") == cid for l in out.splitlines()):
                outs.append("FAIL case=%s step=0 kind=crash op=between-steps" % cid)
        # drop everything up to and including the crashing case
        idx = text.find("case %s\n" % cid)
        nxt = text.find("\ncase ", idx + 1)
        text = text[nxt + 1:] if nxt >= 0 else ""
    return "\n".join(outs), None


def case_texts(text):
    cases = {}
    cur, cid = [], None
    for l in text.splitlines():
        if l.startswith("case "):
            cid = l.split()[1]
            cur = [l]
        elif cid is not None:
            cur.append(l)
            if l == "end":
                cases[cid] = "\n".join(cur) + "\n"
                cid = None
    return cases


def minimise(chk, hx, judge, ctext, want):
    """Greedy shrink of one failing case: drop lines while the same kind of failure (same op/kind) remains."""
    lines = ctext.splitlines()
    head, body, tail = lines[0], lines[1:-1], lines[-1]

    def fails(b):
        out, err = run_cases(chk, hx, judge, "\n".join([head] + b + [tail]) + "\n", 60)
        if out is None:
            return False
        for l in out.splitlines():
            if l.startswith("FAIL ") or l.startswith("PENDING "):
                d = parse_fail(l)
                return all(d.get(k) == want.get(k) for k in ("kind", "op", "desc", "what", "why", "expected", "got", "tgt_dim"))
        return False
    i = len(body) - 1
    budget = 40
    while i >= 0 and budget > 0:
        cand = body[:i] + body[i + 1:]
        budget -= 1
        if fails(cand):
            body = cand
        i -= 1
    return "\n".join([head] + body + [tail]) + "\n"


def run(chk):
    chk.rule = ("four streams of histories over a pool of 4 Grid objects: TWINS (the same grid built by two routes -- equivalent congruence "
                "systems with equalities rescaled and combined, equivalent generator systems, copies, invertible images and back, "
                "permutations and back -- each driven into an independent lazy state, then ==, contains, strictly_contains, is_disjoint_from "
                "in both argument orders, asked twice); a lazy-state x operator x query matrix (object driven into one of 12 "
                "lazy states -- congruences / generators / both up to date, minimized or not --, ONE operator among the affine, modular, "
                "dimension-changing (embed, project, remove, map with cycles, expand, fold, concatenate) and binary ones, non-invertible "
                "images collapsing several parameters/lines at once, then two queries read immediately; the op x flags coverage is in "
                "histogram keys opflags:*), dense (dimension 0-3, 4 constructions then 4-12 operations) and "
                "sparse (dimension 4-6, vectors touching 1-2 coordinates, 30% 'gappy' generator systems with a line/parameter "
                "overlapping a later parameter column across >= 2 virtual dimensions); operations drawn from "
                "add_congruence(s), refine_with_congruence, add_grid_generator(s), intersection_assign, upper_bound_assign, "
                "affine_image, affine_preimage, add_space_dimensions_and_embed/project, remove_higher_space_dimensions, copy "
                "construction, assignment, swap, the four description observers, OK(), is_empty, is_universe, is_discrete, "
                "is_bounded, contains, strictly_contains, is_disjoint_from, ==, relation_with(Congruence), relation_with(Grid_Generator), "
                "frequency, unconstrain, time_elapse_assign, difference_assign, map_space_dimensions, remove_space_dimensions, "
                "expand_space_dimension, fold_space_dimensions, concatenate_assign, generalized_affine_image/preimage (var, relsym, expr, d, modulus)); congruence moduli "
                "in {0,1,2,3,4,6}, coefficients in [-4,4], generator divisors in {1,2,3}; after EVERY step the four descriptions "
                "reported by every pool object are compared with the reference through the verified engine. evaluations = "
                "individual comparisons made by the judge; a history is distinct by its text and non-trivial when at least 3 of "
                "its steps were judged and at least one mirrored object was neither empty nor the universe")
    chk.trusted += ["Coq 8.16.1 kernel (coqc), no axioms (Print Assumptions: closed)",
                    "extraction (ExtrOcamlBasic only) and OCaml 4.13.1 compiler",
                    "hand-written set-level definitions sat_cgs / in_qgens in coq/Grid/GridSem.v",
                    "hand-written glue: harness/run_grid.cc (printing what PPL reports), ocaml/judge_grid.ml "
                    "(which reference function mirrors which PPL call), tools/props/C05.py",
                    "g++ 12 building PPL from the working tree"]
    chk.assumptions += ["correspondence is by differential execution on generated histories (not a proof about the C++ code)",
                        "a negative answer of gens_incl caused by a LINE of the left grid is not yet backed by a theorem "
                        "(positive answers, and negative answers caused by points/parameters, are)",
                        "saturates() of relation_with is compared only for space dimension > 0",
                        "a reported generator system containing a null line or null parameter is treated as a failure (such rows cannot be "
                        "built through the public interface and make is_discrete()/is_bounded() wrong)",
                        "the reference for difference_assign is glue over verified functions, not a theorem; reference unconstrain, "
                        "time_elapse, generalized image/preimage and subsumes are executable Coq definitions without spec theorems"]
    chk.prove(COQ_FILES)
    common.coq_extract("Extract_grid.v", ["grid.ml", "grid.mli"], deps=COQ_FILES + ["Extract/Extract_grid.v"])
    judge = common.ocaml_build("judge_grid", ["gen/grid.mli", "gen/grid.ml", "judge_grid.ml"])
    # The library cache under build/ is shared and can be dropped by a concurrent check that runs with another
    # VERIF_REPO; the harness executable is therefore copied out of the cache directory, with retries.
    hx, last = None, None
    for attempt in range(5):
        try:
            exe = common.compile_harness("run_grid.cc")
            priv = os.path.join(common.BUILD, "c05_run_grid_%d" % os.getpid())
            shutil.copy2(exe, priv)
            hx = priv
            break
        except (common.BuildError, OSError) as e:
            last = e
            time.sleep(3)
    if hx is None:
        raise common.BuildError(str(last))
    try:
        _run_histories(chk, hx, judge)
    finally:
        try:
            os.remove(hx)
        except OSError:
            pass


def _run_histories(chk, hx, judge):

    batches = []
    if chk.replay:
        obj = json.load(open(chk.replay))
        batches.append(("replay", obj["case"]))
    else:
        corpus = ""
        for p in sorted(glob.glob(os.path.join(common.VERIF, "corpus", "C05", "*.case"))):
            corpus += open(p).read()
        if corpus:
            batches.append(("corpus", corpus))
        r = random.Random(chk.seed * 7919 + 5)
        target = 1200 if chk.quick else 14000
        per = 300
        k = 0
        while k < target:
            txt = "".join(gen_grid.history(r, "g%d" % (k + i), maxdim=3) for i in range(min(per, target - k)))
            batches.append(("gen%d" % k, txt))
            k += per
        # second stream: sparse higher-dimensional histories (dimension 4-6, vectors touching 1-2 coordinates)
        r2 = random.Random(chk.seed * 104729 + 11)
        target2 = 900 if chk.quick else 9000
        k = 0
        while k < target2:
            txt = "".join(gen_grid.history(r2, "s%d" % (k + i), maxdim=6, sparse=True) for i in range(min(per, target2 - k)))
            batches.append(("sparse%d" % k, txt))
            k += per

        # third stream: lazy-state x operator x query matrix (short cases: state driver, one operator, two queries)
        r3 = random.Random(chk.seed * 15485863 + 17)
        target3 = 2400 if chk.quick else 24000
        k = 0
        while k < target3:
            txt = "".join(gen_grid.matrix_case(r3, "m%d" % (k + i)) for i in range(min(600, target3 - k)))
            batches.append(("matrix%d" % k, txt))
            k += 600

        # fourth stream: twins (same grid by two routes, every pair of lazy states, all binary queries twice, both orders)
        r4 = random.Random(chk.seed * 32452843 + 23)
        target4 = 1500 if chk.quick else 15000
        k = 0
        while k < target4:
            txt = "".join(gen_grid.twins_case(r4, "t%d" % (k + i)) for i in range(min(500, target4 - k)))
            batches.append(("twins%d" % k, txt))
            k += 500

        # fifth stream: expression-on-the-left generalized images / preimages (every overlap shape of the two sides)
        r5 = random.Random(chk.seed * 49979687 + 29)
        target5 = 1200 if chk.quick else 12000
        k = 0
        while k < target5:
            txt = "".join(gen_grid.lhs_case(r5, "l%d" % (k + i)) for i in range(min(400, target5 - k)))
            batches.append(("lhs%d" % k, txt))
            k += 400

        # sixth stream: assignment / copy / swap into a live, differently minimized target from every lazy source state
        r6 = random.Random(chk.seed * 67867967 + 31)
        target6 = 1200 if chk.quick else 12000
        k = 0
        while k < target6:
            txt = "".join(gen_grid.assign_case(r6, "a%d" % (k + i)) for i in range(min(400, target6 - k)))
            batches.append(("assign%d" % k, txt))
            k += 400

    hist = {}
    ncases = nfail = nunk = 0
    seen_fail = {}
    for name, text in batches:
        out, err = run_cases(chk, hx, judge, text, 1500)
        if out is None:
            chk.failure({"kind": "crash", "what": err}, {"case": text[-4000:], "note": err})
            continue
        texts = case_texts(text)
        fails = {}
        for l in out.splitlines():
            if l.startswith("FAIL ") or l.startswith("PENDING "):
                d = parse_fail(l)
                if l.startswith("PENDING "):
                    ncases += 1
                    if d.pop("after_fail", "0") == "1":
                        continue
                fails[d["case"]] = d
            elif l.startswith("UNK "):
                nunk += 1
                chk.undecided += 1
                chk.log("undecided: " + l)
            elif l.startswith("STAT "):
                d = parse_fail(l)
                ncases += 1
                steps, checks = int(d["steps"]), int(d["checks"])
                ctext = texts.get(d["case"], "")
                nontrivial = steps >= 3 and (" gens " in ctext or " cgs " in ctext)
                key = hashlib.sha1(ctext.encode()).hexdigest() if nontrivial else None
                chk.count(checks, key=key, sample=(ctext.splitlines()[:8] if ncases % 400 == 1 else None))
            elif l.startswith("HIST "):
                _, k, v = l.split()
                hist[k] = hist.get(k, 0) + int(v)
        for cid, d in fails.items():
            nfail += 1
            info = {k: v for k, v in d.items() if k not in ("case", "step")}
            info["site"] = site_of(info)
            ctext = texts.get(cid, "")
            sig = (info.get("kind"), info.get("op"), info.get("desc"), info.get("expected"), info.get("got"))
            f = chk.match_finding(info)
            if f is None and seen_fail.get(sig, 0) < 3:
                ctext = minimise(chk, hx, judge, ctext, info)
            seen_fail[sig] = seen_fail.get(sig, 0) + 1
            if f is None and seen_fail[sig] > 3:
                continue   # same signature already reported three times this run
            chk.failure(info, {"case": ctext, "failure": d,
                               "how_to_replay": "./check C05 --replay <this file>"})
    chk.extra["histogram"] = dict(sorted(hist.items()))
    chk.extra["cases"] = ncases
    chk.extra["failing_cases"] = nfail
    chk.extra["sampling_only"] = "nothing: every comparison goes through the verified engine (no lattice-point enumeration is used)"
    if ncases and nunk > 0.01 * ncases:
        chk.broken.append(("undecided", "%d of %d cases undecided (engine returned Unk or an operation is not modelled)" % (nunk, ncases)))
    chk.log("cases %d, failing %d, undecided %d" % (ncases, nfail, nunk))
