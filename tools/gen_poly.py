"""Generator of polyhedron histories in the case language (see harness/run_poly.cc, ocaml/judge_poly.ml).
Every random choice derives from one random.Random(seed). The generator tracks only dimension and
topology of each object (to keep calls well-formed); values are the library's and the reference's business."""
import random

class G:
    def __init__(self, seed, maxdim=3, big=0.08):
        self.r = random.Random(seed)
        self.maxdim = maxdim
        self.big = big

    # ---- numbers ----
    def coef(self, lo=-3, hi=3):
        r = self.r
        if r.random() < self.big:
            return r.choice([-1, 1]) * r.choice([2**31 + 1, 2**40 + 3, 10**12 + 7, 2**63 + 5])
        return r.randint(lo, hi)

    def vec(self, n, nz=True, sparse=0.35):
        r = self.r
        while True:
            v = [0 if r.random() < sparse else self.coef() for _ in range(n)]
            if not nz or n == 0 or any(v):
                return v

    def con(self, n, topo, allow_eq=True, strict_ok=True):
        r = self.r
        k = r.random()
        if k < 0.15 and allow_eq: kind = "="
        elif k < 0.40 and topo == "NNC" and strict_ok: kind = ">"
        else: kind = ">="
        v = self.vec(n, nz=(r.random() < 0.95))
        b = self.coef(-4, 6)
        return "%s %d %s" % (kind, b, " ".join(map(str, v))) if n else "%s %d" % (kind, b)

    def cons(self, n, topo, lo=1, hi=4):
        r = self.r
        if getattr(self, "thin", False): hi = min(hi, 2)
        if n > 0 and r.random() < 0.18:
            return self.thin_cons(n, topo)
        k = r.randint(lo, hi)
        return "%d %s" % (k, " ".join(self.con(n, topo) for _ in range(k)))

    def thin_cons(self, n, topo):
        """pairs of opposite bounds on one expression with gap -1 / 0 / +1 (and strict variants for NNC):
        empty-but-not-detected, lower-dimensional and very thin sets"""
        r = self.r
        v = self.vec(n, nz=True)
        b = r.randint(-3, 3)
        gap = r.choice([-1, 0, 0, 1])
        k1 = ">" if (topo == "NNC" and r.random() < 0.5) else ">="
        k2 = ">" if (topo == "NNC" and r.random() < 0.5) else ">="
        # v.x + b >= 0  and  -v.x - b + gap >= 0
        cs = ["%s %d %s" % (k1, b, " ".join(map(str, v))), "%s %d %s" % (k2, -b + gap, " ".join(str(-x) for x in v))]
        extra = r.randint(0, 2)
        cs += [self.con(n, topo) for _ in range(extra)]
        r.shuffle(cs)
        return "%d %s" % (len(cs), " ".join(cs))

    def gen(self, n, topo, kind=None):
        r = self.r
        if kind is None:
            kind = r.choice("pppprrl" + ("cc" if topo == "NNC" else ""))
        if kind in "pc":
            d = r.choice(getattr(self, "divs", [1, 1, 1, 2, 3]))
            v = [self.coef() for _ in range(n)]
        else:
            d = 1
            v = self.vec(n, nz=True, sparse=0.3) if n else []
            if n == 0: kind = "p"
        return "%s %d %s" % (kind, d, " ".join(map(str, v))) if n else "%s %d" % (kind, d)

    def gens(self, n, topo, lo=1, hi=4):
        if getattr(self, "thin", False): hi = min(hi, 2)
        k = self.r.randint(lo, hi)
        gs = [self.gen(n, topo, "p")] + [self.gen(n, topo) for _ in range(k - 1)]
        self.r.shuffle(gs)
        return "%d %s" % (k, " ".join(gs))

    def expr(self, n):
        v = self.vec(n, nz=False, sparse=0.3)
        return "%d %d %s" % (n, self.coef(-4, 4), " ".join(map(str, v))) if n else "0 %d" % self.coef(-4, 4)

    def den(self):
        return self.r.choice([1, 1, 1, 2, 3, -1, -2])

    # ---- objects ----
    def special(self, oid, n, topo):
        """receivers in the states the operators branch on: empty but not yet detected (several ways), marked empty,
        universe, a single point (non-unit divisor), with a line, lower-dimensional"""
        r = self.r
        k = r.choice(getattr(self, "special_kinds", None) or
                     ["undetected_empty", "undetected_empty", "marked_empty", "universe", "point", "line", "lowdim", "undetected_empty_gens_then_con",
                      "pending_gens", "pending_cons"])
        if n == 0 and k in ("point", "line", "lowdim"): k = "universe"
        if k in ("pending_gens", "pending_cons"):
            # both descriptions minimized, then one more row: it stays pending until something forces it
            base = "new %d %s %d %s" % (oid, topo, n, r.choice(["universe", "cons %s" % self.cons(n, topo, 1, 3), "gens %s" % self.gens(n, topo, 1, 3)]))
            prep = ["obs %d minimized_generators" % oid, "obs %d minimized_constraints" % oid]
            if k == "pending_gens": last = "op %d add_generator %s" % (oid, self.gen(n, topo, r.choice("ppr") if n else "p"))
            else: last = "op %d add_constraint %s" % (oid, self.con(n, topo))
            return "\n".join([base] + prep + [last])
        if k == "undetected_empty":
            if n == 0: return "new %d %s 0 cons 2 >= 1 >= -1" % (oid, topo)
            v = self.vec(n, nz=True); b = r.randint(-2, 2)
            strictness = ">" if (topo == "NNC" and r.random() < 0.5) else ">="
            gap = 0 if strictness == ">" else -1
            cs = ["%s %d %s" % (strictness, b, " ".join(map(str, v))), ">= %d %s" % (-b + gap, " ".join(str(-x) for x in v))]
            cs += [self.con(n, topo) for _ in range(r.randint(0, 2))]
            return "new %d %s %d cons %d %s" % (oid, topo, n, len(cs), " ".join(cs))
        if k == "marked_empty": return "new %d %s %d empty" % (oid, topo, n)
        if k == "universe": return "new %d %s %d universe" % (oid, topo, n)
        if k == "point": return "new %d %s %d gens 1 p %d %s" % (oid, topo, n, r.choice([1, 2, 3]), " ".join(str(r.randint(-3, 3)) for _ in range(n)))
        if k == "line":
            return "new %d %s %d gens 3 p 1 %s l 1 %s %s" % (oid, topo, n, " ".join(str(r.randint(-2, 2)) for _ in range(n)),
                                                            " ".join(map(str, self.vec(n, nz=True))), self.gen(n, topo, "r"))
        if k == "lowdim":
            return "new %d %s %d cons 2 = %d %s %s" % (oid, topo, n, r.randint(-2, 2), " ".join(map(str, self.vec(n, nz=True))), self.con(n, topo))
        # generators up to date, then (in the history) a constraint will empty it: start from a point
        return "new %d %s %d gens 1 p 1 %s" % (oid, topo, n, " ".join(str(r.randint(-1, 1)) for _ in range(n)))

    def new(self, oid, dims, topos, pool_ok=True):
        r = self.r
        topo = r.choice(["C", "C", "NNC"])
        n = r.randint(0, self.maxdim) if r.random() < 0.9 else 0
        if getattr(self, "special_rate", 0) and r.random() < self.special_rate:
            if dims and r.random() < 0.7:
                n = r.choice(list(dims.values()))
            dims[oid] = n; topos[oid] = topo
            return self.special(oid, n, topo)
        # reuse a dimension already present, so that binary operations have partners
        if dims and r.random() < 0.7:
            n = r.choice(list(dims.values()))
        how = r.random()
        if getattr(self, "divs", None) and n > 0 and r.random() < 0.7:
            how = 0.7   # build from generators (points with non-unit divisors)
        if n > 0 and not getattr(self, "divs", None) and r.random() < 0.06:
            # conversion from a rational box (small rationals: equal numerators with different denominators,
            # coinciding and crossing ends, open and closed ends, infinite ends)
            iv = []
            for _ in range(n):
                lk = r.choice(["-inf", "[", "[", "("]); uk = r.choice(["+inf", "]", "]", ")"])
                ln, un = r.randint(-3, 3), r.randint(-3, 3); ld, ud = r.choice([1, 2, 3, 4]), r.choice([1, 2, 3, 4])
                if r.random() < 0.7 and ln * ud > un * ld: ln, ld, un, ud = un, ud, ln, ld      # mostly non-empty
                if r.random() < 0.2: un = ln                                                   # equal numerators
                iv.append("%s %d %d %s %d %d" % (lk, ln, ld, uk, un, ud))
            dims[oid] = n; topos[oid] = topo
            return "new %d %s %d box %s" % (oid, topo, n, " ".join(iv))
        if how < 0.08: s = "new %d %s %d universe" % (oid, topo, n)
        elif how < 0.14: s = "new %d %s %d empty" % (oid, topo, n)
        elif how < 0.60: s = "new %d %s %d cons %s" % (oid, topo, n, self.cons(n, topo))
        elif how < 0.92 or not dims:
            gtxt = self.gens(n, topo)
            s = "new %d %s %d gens %s" % (oid, topo, n, gtxt)
            t = gtxt.split(" ")[1:]
            if not hasattr(self, "pts"): self.pts = {}
            self.pts[oid] = [list(map(int, t[i + 2:i + 2 + n])) for i in range(0, len(t), n + 2) if t[i] in "pc" and t[i + 1] == "1"]
        else:
            src = r.choice(list(dims.keys()))
            n = dims[src]
            s = "new %d %s %d from %d" % (oid, topo, n, src)
        dims[oid] = n; topos[oid] = topo
        return s

    OBS = ["constraints", "minimized_constraints", "generators", "minimized_generators", "OK"]

    def mutator(self, x, dims, topos, ops=None):
        """one well-formed mutator call on object x; returns the case line (and updates dims)"""
        r = self.r
        n = dims[x]; topo = topos[x]
        same = [y for y in dims if dims[y] == n and topos[y] == topo]
        cands = ["add_constraint", "add_constraints", "refine_with_constraint", "refine_with_constraints", "add_generator", "add_generators",
                 "intersection_assign", "poly_hull_assign", "topological_closure_assign",
                 "add_space_dimensions_and_embed", "add_space_dimensions_and_project", "poly_difference_assign", "time_elapse_assign",
                 "add_recycled_constraints", "simplify_using_context_assign", "poly_hull_assign_if_exact",
                 "refine_with_congruence", "add_congruence", "refine_with_congruences", "positive_time_elapse_assign",
                 "add_generators_from"]
        if n > 0:
            cands += ["affine_image", "affine_image", "affine_preimage", "generalized_affine_image", "generalized_affine_preimage",
                      "bounded_affine_image", "bounded_affine_preimage", "unconstrain", "unconstrain_set",
                      "remove_space_dimensions", "remove_higher_space_dimensions", "map_space_dimensions",
                      "expand_space_dimension", "fold_space_dimensions", "generalized_affine_image_lhs", "generalized_affine_preimage_lhs"]
        cands += ["concatenate_assign"]
        if ops: cands = [c for c in cands if c in ops] or cands
        op = r.choice(cands)
        p = "op %d %s" % (x, op)
        if op in ("add_constraint", "refine_with_constraint"):
            return "%s %s" % (p, self.con(n, topo if op == "add_constraint" else "NNC"))
        if op in ("add_constraints", "refine_with_constraints", "add_recycled_constraints"):
            return "%s %s" % (p, self.cons(n, topo if op != "refine_with_constraints" else "NNC", 1, 3))
        if op == "add_generator":
            return "%s %s" % (p, self.gen(n, topo))
        if op == "add_generators":
            return "%s %s" % (p, self.gens(n, topo, 1, 3))
        if op in ("intersection_assign", "poly_hull_assign", "poly_difference_assign", "time_elapse_assign",
                  "simplify_using_context_assign", "poly_hull_assign_if_exact", "positive_time_elapse_assign"):
            others = [y for y in same if y != x]
            if getattr(self, "partners", False) and (not others or r.random() < 0.5):
                # a fresh argument of the receiver's dimension and topology (often a single half-space or a
                # slab: one- and two-piece differences, hulls with one new face), so that the operator is not
                # applied to the receiver itself most of the time
                o = len(dims); dims[o] = n; topos[o] = topo
                if getattr(self, "special_rate", 0) and r.random() < self.special_rate:
                    return [self.special(o, n, topo), "%s %d" % (p, o)]
                u = r.random()
                if u < 0.45: how = "cons %s" % self.cons(n, topo, 1, 2)
                elif u < 0.65: how = "cons %s" % self.cons(n, topo)
                elif u < 0.90: how = "gens %s" % self.gens(n, topo)
                else: return [self.special(o, n, topo), "%s %d" % (p, o)]
                return ["new %d %s %d %s" % (o, topo, n, how), "%s %d" % (p, o)]
            return "%s %d" % (p, r.choice(same))
        if op == "add_generators_from":
            ys = [y for y in dims if dims[y] == n and y != x]
            if not ys or r.random() < 0.4:
                o = len(dims); t2 = r.choice(["C", "NNC", "NNC"]); dims[o] = n; topos[o] = t2
                return ["new %d %s %d gens %s" % (o, t2, n, self.gens(n, t2)), "%s %d" % (p, o)]
            return "%s %d" % (p, r.choice(ys))
        if op in ("refine_with_congruence", "add_congruence"):
            m = r.choice([0, 0, 1, 2, 3]) if op == "refine_with_congruence" else 0
            return "%s %d %d %s" % (p, m, self.coef(-3, 3), " ".join(map(str, self.vec(n, nz=False))))
        if op == "refine_with_congruences":
            k = r.randint(1, 2)
            return "%s %d %s" % (p, k, " ".join("%d %d %s" % (r.choice([0, 0, 2, 3]), self.coef(-3, 3), " ".join(map(str, self.vec(n, nz=False)))) for _ in range(k)))
        if op == "concatenate_assign":
            ys = [y for y in dims if topos[y] == topo and dims[y] + n <= self.maxdim + 1]
            if not ys: return "op %d topological_closure_assign" % x
            y = r.choice(ys); dims[x] = n + dims[y]
            return "%s %d" % (p, y)
        if op == "topological_closure_assign": return p
        if op in ("affine_image", "affine_preimage"):
            return "%s %d %d %s" % (p, r.randrange(n), self.den(), self.expr(n))
        if op in ("generalized_affine_image", "generalized_affine_preimage"):
            rel = r.choice(["<=", ">=", "=="] + (["<", ">"] if topo == "NNC" else []))
            return "%s %d %s %d %s" % (p, r.randrange(n), rel, self.den(), self.expr(n))
        if op in ("generalized_affine_image_lhs", "generalized_affine_preimage_lhs"):
            rel = r.choice(["<=", ">=", "=="] + (["<", ">"] if topo == "NNC" else []))
            return "%s %s %s %s" % (p, self.expr(n), rel, self.expr(n))
        if op in ("bounded_affine_image", "bounded_affine_preimage"):
            return "%s %d %d %s %s" % (p, r.randrange(n), self.den(), self.expr(n), self.expr(n))
        if op == "unconstrain": return "%s %d" % (p, r.randrange(n))
        if op == "unconstrain_set":
            vs = sorted(r.sample(range(n), r.randint(1, n)))
            return "%s %d %s" % (p, len(vs), " ".join(map(str, vs)))
        if op in ("add_space_dimensions_and_embed", "add_space_dimensions_and_project"):
            if n >= self.maxdim + 1: return "op %d topological_closure_assign" % x
            m = r.randint(1, min(2, self.maxdim + 1 - n)); dims[x] = n + m
            return "%s %d" % (p, m)
        if op == "remove_space_dimensions":
            vs = sorted(r.sample(range(n), r.randint(1, n))); dims[x] = n - len(vs)
            return "%s %d %s" % (p, len(vs), " ".join(map(str, vs)))
        if op == "remove_higher_space_dimensions":
            k = 0 if r.random() < 0.3 else r.randint(0, n); dims[x] = k
            return "%s %d" % (p, k)
        if op == "map_space_dimensions":
            keep = [i for i in range(n) if r.random() < (0.75 if n < 4 else 0.93)]
            tgt = list(range(len(keep))); r.shuffle(tgt)
            m = [-1] * n
            for i, j in zip(keep, tgt): m[i] = j
            dims[x] = len(keep)
            return "%s %d %s" % (p, n, " ".join(map(str, m)))
        if op == "expand_space_dimension":
            if n >= self.maxdim + 1: return "op %d unconstrain %d" % (x, r.randrange(n))
            m = 1; dims[x] = n + m
            return "%s %d %d" % (p, r.randrange(n), m)
        if op == "fold_space_dimensions":
            if n < 2: return "op %d unconstrain %d" % (x, r.randrange(n))
            d = r.randrange(n)
            vs = sorted(r.sample([i for i in range(n) if i != d], r.randint(1, min(2, n - 1)))); dims[x] = n - len(vs)
            return "%s %d %s %d" % (p, len(vs), " ".join(map(str, vs)), d)
        raise AssertionError(op)

    def query(self, x, dims, topos):
        r = self.r
        n = dims[x]; topo = topos[x]
        same = [y for y in dims if dims[y] == n]
        qs = ["is_empty", "is_universe", "is_bounded", "is_topologically_closed", "contains", "strictly_contains",
              "is_disjoint_from", "equals", "relation_with_con", "bounds_from_above", "bounds_from_below", "maximize", "minimize",
              "relation_with_gen", "affine_dimension", "relation_with_cg", "frequency", "is_discrete"]
        if n > 0: qs += ["constrains"]
        q = r.choice(qs)
        p = "qry %d %s" % (x, q)
        if q in ("contains", "strictly_contains", "is_disjoint_from"): return "%s %d" % (p, r.choice(same))
        if q == "equals":
            ys = [y for y in same if topos[y] == topo]
            return "%s %d" % (p, r.choice(ys))
        if q == "relation_with_con": return "%s %s" % (p, self.con(n, "NNC"))
        if q == "relation_with_gen": return "%s %s" % (p, self.gen(n, topo))
        if q == "relation_with_cg":
            pts = getattr(self, "pts", {}).get(x)
            if pts and n > 0 and r.random() < 0.6:
                # a congruence one of whose hyperplanes passes through a point the object was built from
                # (the polyhedron may only touch it), possibly shifted by a multiple of the modulus
                pt = r.choice(pts); a = self.vec(n, nz=True); m = r.choice([1, 2, 3, 5])
                b = -sum(ai * pi for ai, pi in zip(a, pt)) + m * r.randint(-2, 2)
                return "%s %d %d %s" % (p, m, b, " ".join(map(str, a)))
            return "%s %d %d %s" % (p, r.choice([0, 1, 2, 3]), self.coef(-3, 3), " ".join(map(str, self.vec(n, nz=False))))
        if q in ("bounds_from_above", "bounds_from_below", "maximize", "minimize", "frequency"): return "%s %s" % (p, self.expr(n))
        if q == "constrains": return "%s %d" % (p, r.randrange(n))
        return p

    def history(self, cid, nobj=3, steps=7, ops=None, pq=0.3, pobs=0.2):
        r = self.r
        dims, topos = {}, {}
        self.pts = {}
        lines = ["case %s" % cid]
        for o in range(nobj):
            lines.append(self.new(o, dims, topos))
        for _ in range(steps):
            x = r.choice(list(dims.keys()))
            u = r.random()
            if u < pobs: lines.append("obs %d %s" % (x, r.choice(self.OBS)))
            elif u < pobs + pq: lines.append(self.query(x, dims, topos))
            elif u < pobs + pq + 0.04:
                o = len(dims); lines.append("copy %d %d" % (o, x)); dims[o] = dims[x]; topos[o] = topos[x]
            else:
                m = self.mutator(x, dims, topos, ops)
                if isinstance(m, list): lines += m
                else: lines.append(m)
        lines.append("stall")
        lines.append("end")
        return [l for x in lines for l in x.split("\n")]

def with_battery(lines, seed):
    """after the last mutator of each case: an equal twin of its receiver built from the other description, and the
    comparison queries asked TWICE on the object itself (a query may leave a flag behind that poisons the next one)"""
    import random
    r = random.Random(seed)
    out, cur = [], []
    def flush():
        if not cur: return
        ops = [l for l in cur if l.startswith("op ")]
        ids = [int(l.split(" ")[1]) for l in cur if l.split(" ")[0] in ("new", "copy", "twin")]
        if ops and ids:
            x = int(ops[-1].split(" ")[1]); t = max(ids) + 1
            extra = ["twin %d %d %s" % (t, x, r.choice(["cons", "gens", "cons_nm", "gens_nm"]))]
            for _ in range(2):
                extra += ["qry %d equals %d" % (x, t), "qry %d contains %d" % (x, t), "qry %d contains %d" % (t, x)]
            extra += ["qry %d is_disjoint_from %d" % (x, t), "qry %d strictly_contains %d" % (x, t), "obs %d %s" % (x, r.choice(G.OBS)),
                      "qry %d equals %d" % (x, t)]
            k = len(cur) - 1
            while k >= 0 and cur[k] not in ("stall",): k -= 1
            cur[k:k] = extra
        out.extend(cur); del cur[:]
    for l in lines:
        if l.startswith("case "): flush()
        cur.append(l)
    flush()
    return out


def make_cases(seed, count, maxdim=3, nobj=3, steps=7, ops=None, pq=0.3, pobs=0.2, start=0, special=0.0, divbias=False, partners=True,
               special_kinds=None, thin=False):
    g = G(seed, maxdim)
    g.thin = thin
    g.special_rate = special
    g.special_kinds = special_kinds
    g.partners = partners
    if divbias:
        g.divs = [2, 3, 5, 7, 1]
    out = []
    for i in range(count):
        out += g.history("%d" % (start + i), nobj, steps, ops, pq, pobs)
    return out


# ---------------------------------------------------------------------------------------------------
# Families aimed at the lazy representation: a query must see pending rows, stale sortedness flags,
# only-one-description-up-to-date states, exactly when it is the FIRST thing that happens after the
# mutator (the object is therefore copied in its lazy state for every query of the battery).

class Lazy(G):
    def unit(self, n, i, s=1):
        return [s if j == i else 0 for j in range(n)]

    def box_gens(self, n, lo=0, hi=2):
        pts = []
        for m in range(1 << n):
            pts.append("p 1 " + " ".join(str(hi if (m >> j) & 1 else lo) for j in range(n)))
        return "%d %s" % (len(pts), " ".join(pts))

    def base(self, oid, n, topo):
        """a base object in one of several shapes, built by one of two routes"""
        r = self.r
        shape = r.choice(["box", "halfspace", "cone", "slab_line", "random"])
        if shape == "box":
            if r.random() < 0.5:
                return "new %d %s %d gens %s" % (oid, topo, n, self.box_gens(n, r.randint(-1, 0), r.randint(1, 3)))
            cs = []
            for i in range(n):
                cs.append(">= %d %s" % (r.randint(0, 1), " ".join(map(str, self.unit(n, i)))))
                cs.append(">= %d %s" % (r.randint(1, 3), " ".join(map(str, self.unit(n, i, -1)))))
            return "new %d %s %d cons %d %s" % (oid, topo, n, len(cs), " ".join(cs))
        if shape == "halfspace":
            v = self.vec(n, nz=True)
            return "new %d %s %d cons 1 >= %d %s" % (oid, topo, n, r.randint(-2, 2), " ".join(map(str, v)))
        if shape == "cone":
            cs = [">= 0 %s" % " ".join(map(str, self.unit(n, i))) for i in range(n)]
            return "new %d %s %d cons %d %s" % (oid, topo, n, len(cs), " ".join(cs))
        if shape == "slab_line":
            # bounded in some coordinates, a line in another (no equalities)
            cs = []
            for i in range(n - 1):
                cs.append(">= %d %s" % (r.randint(0, 2), " ".join(map(str, self.unit(n, i)))))
                cs.append(">= %d %s" % (r.randint(1, 3), " ".join(map(str, self.unit(n, i, -1)))))
            if not cs:
                return "new %d %s %d universe" % (oid, topo, n)
            return "new %d %s %d cons %d %s" % (oid, topo, n, len(cs), " ".join(cs))
        return "new %d %s %d cons %s" % (oid, topo, n, self.cons(n, topo, 1, 3))

    def battery(self, x, n, topo, twin, dirs):
        """queries, each to be asked of a fresh copy of x in its current lazy state"""
        qs = ["is_empty", "is_universe", "is_bounded", "is_topologically_closed", "affine_dimension", "is_discrete",
              "equals %d" % twin, "contains %d" % twin, "strictly_contains %d" % twin, "is_disjoint_from %d" % twin]
        for d in dirs:
            e = "%d 0 %s" % (n, " ".join(map(str, d)))
            qs += ["bounds_from_above " + e, "bounds_from_below " + e, "maximize " + e, "minimize " + e, "frequency " + e]
        if n > 0:
            qs.append("relation_with_cg %d %d %s" % (self.r.choice([1, 2, 3]), self.coef(-3, 3), " ".join(map(str, dirs[0]))))
        for i in range(n):
            qs.append("constrains %d" % i)
        qs.append("relation_with_con %s" % self.con(n, "NNC"))
        qs.append("relation_with_gen %s" % self.gen(n, topo))
        return qs

    def lazy_history(self, cid):
        r = self.r
        n = r.randint(1, self.maxdim)
        topo = r.choice(["C", "C", "NNC"])
        L = ["case %s" % cid, self.base(0, n, topo)]
        # bring the object to a chosen lazy state
        for o in r.sample(["minimized_constraints", "minimized_generators", "constraints", "generators"], r.randint(1, 3)):
            L.append("obs 0 %s" % o)
        if r.random() < 0.5:
            L.append("copy 1 0"); L.append("qry 0 equals 1")      # sets sortedness / sat flags
        # one mutator leaving something pending / stale
        m = r.random()
        d = self.vec(n, nz=True)
        if m < 0.45:
            kind = r.choice("rrlp")
            L.append("op 0 add_generator %s" % (self.gen(n, topo, kind) if r.random() < 0.4 else
                                                  "%s 1 %s" % (kind, " ".join(map(str, d)))))
        elif m < 0.65:
            L.append("op 0 add_constraint %s" % self.con(n, topo))
        elif m < 0.85:
            v = r.randrange(n)
            # invertible affine map, e.g. x := c - x
            a = [0] * n; a[v] = r.choice([-1, 1, 2, -2])
            L.append("op 0 affine_image %d %d %d %d %s" % (v, r.choice([1, 1, 2, -1]), n, r.randint(-2, 2), " ".join(map(str, a))))
        else:
            v = r.randrange(n)
            a = [0] * n; a[v] = r.choice([-1, 1, 2])
            L.append("op 0 affine_preimage %d %d %d %d %s" % (v, 1, n, r.randint(-2, 2), " ".join(map(str, a))))
        # an equal twin built by another route (from a copy: the lazy state of 0 is not disturbed)
        L.append("twin 2 0 %s" % r.choice(["cons", "gens", "cons_nm", "gens_nm"]))
        if r.random() < 0.5: L.append("obs 2 %s" % r.choice(["minimized_constraints", "minimized_generators"]))
        dirs = [d, [-x for x in d], self.vec(n, nz=True)]
        k = 3
        qs = self.battery(0, n, topo, 2, dirs)
        r.shuffle(qs)
        for q in qs[: r.randint(6, 12)]:
            L.append("copy %d 0" % k)
            L.append("qry %d %s" % (k, q))
            k += 1
        L.append("qry 0 equals 2")
        if r.random() < 0.6:
            L.append("copy %d 2" % k); L.append("qry %d affine_dimension" % k); k += 1
            L.append("copy %d 0" % k); L.append("qry %d affine_dimension" % k); k += 1
        L.append("stall"); L.append("end")
        return L


    def touch_history(self, cid):
        """a polytope (or polyhedron with a ray) with known integer vertices, in a random lazy state; constraints,
        congruences and optimisation directions whose hyperplanes pass through a vertex (the set may only TOUCH them),
        possibly shifted by a multiple of the modulus; each query on a fresh copy"""
        r = self.r
        n = r.randint(1, self.maxdim)
        topo = r.choice(["C", "NNC", "NNC"])
        cone = r.random() < 0.3
        pts = [[r.randint(-3, 3) for _ in range(n)] for _ in range(1 if cone else r.randint(1, 4))]
        gs = ["p 1 %s" % " ".join(map(str, q)) for q in pts]
        if topo == "NNC" and len(pts) > 1 and r.random() < 0.5:
            gs[-1] = "c" + gs[-1][1:]            # one vertex is only a closure point
        if cone:
            # an apex with rays / lines (and, for NNC, sometimes the apex also as a closure point)
            for _ in range(r.randint(1, 3)): gs.append(self.gen(n, topo, r.choice("rrl")))
            if topo == "NNC" and r.random() < 0.3: gs.append("c 1 %s" % " ".join(map(str, pts[0])))
        elif r.random() < 0.25: gs.append(self.gen(n, topo, "r"))
        # a non-unit divisor somewhere (scaled vertex: same point)
        if r.random() < 0.5:
            j = r.randrange(len(pts)); d = r.choice([2, 3])
            gs[j] = "%s %d %s" % (gs[j][0], d, " ".join(str(d * x) for x in pts[j]))
        r.shuffle(gs)
        if not any(g.startswith("p") for g in gs): gs.append("p 1 %s" % " ".join(map(str, pts[0])))
        L = ["case %s" % cid, "new 0 %s %d gens %d %s" % (topo, n, len(gs), " ".join(gs))]
        for o in r.sample(["minimized_constraints", "minimized_generators", "constraints", "generators"], r.randint(0, 2)):
            L.append("obs 0 %s" % o)
        if r.random() < 0.3: L.append("op 0 add_generator %s" % self.gen(n, topo, "p"))       # a pending row
        k = 1
        for _ in range(r.randint(4, 8)):
            v = r.choice(pts); a = self.vec(n, nz=True)
            if len(pts) >= 2 and n >= 2 and r.random() < 0.4:
                # a hyperplane containing TWO of the vertices (supporting an edge / facet, or cutting through both)
                w = r.choice([q for q in pts if q is not v] or pts); d = [x - y for x, y in zip(w, v)]
                if n == 2: b2 = [-d[1], d[0]]
                else:
                    e = self.vec(3, nz=True); b2 = [d[1] * e[2] - d[2] * e[1], d[2] * e[0] - d[0] * e[2], d[0] * e[1] - d[1] * e[0]]
                if any(b2): a = b2
            dot = sum(x * y for x, y in zip(a, v))
            u = r.random()
            if u < 0.4:
                m = r.choice([1, 2, 3, 5]); q = "relation_with_cg %d %d %s" % (m, -dot + m * r.choice([0, 0, 1, -1, 2]), " ".join(map(str, a)))
            elif u < 0.65:
                q = "relation_with_con %s %d %s" % (r.choice([">=", ">", "="]), -dot, " ".join(map(str, a)))
            elif u < 0.8:
                q = "%s %d 0 %s" % (r.choice(["maximize", "minimize", "frequency", "bounds_from_above"]), n, " ".join(map(str, a)))
            else:
                q = "relation_with_gen p 1 %s" % " ".join(map(str, v))
            L.append("copy %d 0" % k); L.append("qry %d %s" % (k, q)); k += 1
        L.append("stall"); L.append("end")
        return L


    def nncdiv_history(self, cid):
        """NNC (sometimes C) polyhedra in dimension 1-2 whose points and closure points carry DIFFERENT divisors and small
        numerators (so that products of coordinates and divisors coincide by accident), brought to a minimized state;
        the queries that depend on matching closure points with points, on each a fresh copy, plus an equal twin"""
        r = self.r
        n = r.choice([1, 1, 2])
        topo = r.choice(["NNC", "NNC", "NNC", "C"])
        k = r.randint(2, 3)
        gs = []
        for j in range(k):
            kind = "p" if (j == 0 or topo == "C") else r.choice("pcc")
            gs.append("%s %d %s" % (kind, r.choice([1, 2, 3, 4]), " ".join(str(r.randint(-4, 4)) for _ in range(n))))
        if r.random() < 0.15: gs.append(self.gen(n, topo, "r"))
        r.shuffle(gs)
        L = ["case %s" % cid, "new 0 %s %d gens %d %s" % (topo, n, len(gs), " ".join(gs))]
        for o in r.sample(["minimized_constraints", "minimized_generators", "constraints", "generators"], r.randint(1, 3)):
            L.append("obs 0 %s" % o)
        L.append("twin 1 0 %s" % r.choice(["cons", "gens", "cons_nm", "gens_nm"]))
        qs = ["is_topologically_closed", "is_empty", "is_bounded", "is_universe", "equals 1", "contains 1", "strictly_contains 1", "affine_dimension", "is_discrete"]
        for i in range(n):
            for sgn in (1, -1):
                e = "%d 0 %s" % (n, " ".join(str(sgn if j == i else 0) for j in range(n)))
                qs += ["maximize " + e, "minimize " + e]
        t = gs[0].split(" ")
        qs.append("relation_with_gen p %s" % " ".join(t[1:]))
        r.shuffle(qs)
        k = 2
        for q in qs[: r.randint(5, 9)]:
            L.append("copy %d 0" % k); L.append("qry %d %s" % (k, q)); k += 1
        L.append("qry 0 is_topologically_closed")
        L.append("copy %d 1" % k); L.append("qry %d affine_dimension" % k); k += 1
        L.append("copy %d 0" % k); L.append("qry %d affine_dimension" % k); k += 1
        L.append("stall"); L.append("end")
        return L


    def boxpair_history(self, cid, ops):
        """binary operators on pairs of axis-aligned boxes / slabs with endpoints from a tiny grid (shared, adjacent, nested,
        crossing faces; unbounded ends give rays and lines): unions that are exactly or almost convex, differences with
        one or two pieces, hulls that add a single face"""
        r = self.r
        n = r.randint(1, 3)
        topo = r.choice(["C", "C", "NNC"])
        def box(oid):
            cs = []
            for i in range(n):
                lo = r.choice([None, None, 0, 1, 2]); hi = r.choice([None, None, 1, 2, 3])
                if lo is not None and hi is not None and lo > hi: lo, hi = hi, lo
                u = " ".join("1" if j == i else "0" for j in range(n)); m = " ".join("-1" if j == i else "0" for j in range(n))
                if lo is not None: cs.append("%s %d %s" % (">" if topo == "NNC" and r.random() < 0.3 else ">=", -lo, u))
                if hi is not None: cs.append("%s %d %s" % (">" if topo == "NNC" and r.random() < 0.3 else ">=", hi, m))
            if not cs: return "new %d %s %d universe" % (oid, topo, n)
            return "new %d %s %d cons %d %s" % (oid, topo, n, len(cs), " ".join(cs))
        L = ["case %s" % cid, box(0), box(1)]
        for o in (0, 1):
            if r.random() < 0.4: L.append("obs %d %s" % (o, r.choice(["minimized_generators", "minimized_constraints", "generators"])))
        x = r.choice([0, 1]); op = r.choice(ops)
        L.append("op %d %s %d" % (x, op, 1 - x))
        if r.random() < 0.5:
            L.append(box(2)); L.append("op %d %s 2" % (x, r.choice(ops)))
        L.append("stall"); L.append("end")
        return L


    def merge_history(self, cid):
        """merging of row systems: a receiver that holds ONE description, never minimized (its rows as given), meets or
        joins an argument that is minimized and then holds a pending row; afterwards the comparison queries are asked
        twice against a MINIMIZED twin (the quick equivalence test trusts sortedness / minimization flags)"""
        r = self.r
        n = r.randint(2, 3)
        topo = r.choice(["C", "C", "NNC"])
        side = r.choice(["cons", "cons", "gens"])
        def scon():
            # sparse inequality on one or two of the first n-1 variables: the last variable stays free (a line)
            vs = r.sample(range(n - 1), r.randint(1, min(2, n - 1))); v = [0] * n
            for i in vs: v[i] = r.choice([-2, -1, 1, 1, 2])
            return "%s %d %s" % (">" if topo == "NNC" and r.random() < 0.2 else ">=", r.randint(-3, 20), " ".join(map(str, v)))
        if side == "cons" and r.random() < 0.6:
            L = ["case %s" % cid, "new 0 %s %d cons %d %s" % (topo, n, 1, scon()),
                 "new 1 %s %d cons %d %s" % (topo, n, 1, scon()),
                 "obs 1 %s" % r.choice(["minimized_generators", "minimized_constraints"]),
                 "op 1 add_constraint %s" % scon()]
            if r.random() < 0.4: L.append("op 1 add_constraint %s" % scon())
            L.append("op 0 intersection_assign 1")
        elif side == "cons":
            L = ["case %s" % cid, "new 0 %s %d cons %d %s" % (topo, n, 1, self.con(n, topo, allow_eq=False)) if r.random() < 0.6
                 else "new 0 %s %d cons %s" % (topo, n, self.cons(n, topo, 1, 2)),
                 "new 1 %s %d cons %d %s" % (topo, n, 2, " ".join(self.con(n, topo, allow_eq=False) for _ in range(2))),
                 "obs 1 %s" % r.choice(["minimized_generators", "minimized_constraints"]),
                 "op 1 add_constraint %s" % self.con(n, topo, allow_eq=False)]
            if r.random() < 0.6: L.append("op 1 add_constraint %s" % self.con(n, topo, allow_eq=False))
            L.append("op 0 %s 1" % r.choice(["intersection_assign", "intersection_assign", "concatenate_assign"]))
        else:
            L = ["case %s" % cid, "new 0 %s %d gens %s" % (topo, n, self.gens(n, topo, 1, 3)),
                 "new 1 %s %d gens %s" % (topo, n, self.gens(n, topo, 1, 2)),
                 "obs 1 %s" % r.choice(["minimized_generators", "minimized_constraints"]),
                 "op 1 add_generator %s" % self.gen(n, topo, r.choice("prl"))]
            L.append("op 0 %s 1" % r.choice(["poly_hull_assign", "time_elapse_assign", "add_generators_from"]))
        L += ["twin 2 0 %s" % r.choice(["cons", "gens"]), "obs 2 %s" % r.choice(["minimized_constraints", "minimized_generators"])]
        for _ in range(2):
            L += ["qry 0 equals 2", "qry 0 contains 2", "qry 2 contains 0", "qry 2 equals 0"]
        L += ["obs 0 minimized_constraints", "qry 0 equals 2", "stall", "end"]
        return L


def make_merge_cases(seed, count, start=0):
    g = Lazy(seed, 3, big=0.0)
    out = []
    for i in range(count):
        out += g.merge_history("M%d" % (start + i))
    return out


def make_box_cases(seed, count, start=0):
    import random
    r = random.Random(seed)
    out = []
    for i in range(count):
        n = r.randint(1, 3); L = ["case X%d" % (start + i)]
        for oid, topo in enumerate(r.sample(["C", "NNC"], 2)):
            iv = []
            for _ in range(n):
                lk = r.choice(["-inf", "[", "[", "("]); uk = r.choice(["+inf", "]", "]", ")"])
                ln, un = r.randint(-3, 3), r.randint(-3, 3); ld, ud = r.choice([1, 2, 3, 4]), r.choice([1, 2, 3, 4])
                if r.random() < 0.75 and ln * ud > un * ld: ln, ld, un, ud = un, ud, ln, ld
                if r.random() < 0.3: un = ln
                iv.append("%s %d %d %s %d %d" % (lk, ln, ld, uk, un, ud))
            L.append("new %d %s %d box %s" % (oid, topo, n, " ".join(iv)))
            if r.random() < 0.4: L.append("obs %d %s" % (oid, r.choice(G.OBS)))
        L += ["stall", "end"]
        out += L
    return out


def make_boxpair_cases(seed, count, ops, start=0):
    g = Lazy(seed, 3, big=0.0)
    out = []
    for i in range(count):
        out += g.boxpair_history("B%d" % (start + i), ops)
    return out


def make_nncdiv_cases(seed, count, start=0):
    g = Lazy(seed, 2, big=0.0)
    out = []
    for i in range(count):
        out += g.nncdiv_history("D%d" % (start + i))
    return out


def make_touch_cases(seed, count, maxdim=3, start=0):
    g = Lazy(seed, maxdim, big=0.0)
    out = []
    for i in range(count):
        out += g.touch_history("T%d" % (start + i))
    return out


def make_lazy_cases(seed, count, maxdim=3, start=0):
    g = Lazy(seed, maxdim, big=0.02)
    out = []
    for i in range(count):
        out += g.lazy_history("L%d" % (start + i))
    return out
