#!/bin/bash
# usage: tools/seeded_verify_c20.sh <name>   -- independent confirmation of a seeded change to interfaces/C:
# demo passes on a clean scratch copy of /repo HEAD, fails with the patch, repository C tests still pass.
V=/verif; N=$1; D=$V/seeded/$N; T=/tmp/seedv-$N
rm -rf $T; mkdir -p $T; git -C /repo archive HEAD | tar -x -C $T
cp /repo/ppl-config.h /repo/config.h $T/; cp -n /repo/src/*.hh $T/src/ 2>/dev/null
/root/mut/run_tests.sh $T Watchdog > $T/lib.log 2>&1
run_demo() {
  bash $D/build_c.sh $T > $T/cbuild.log 2>&1 || { echo "C BUILD FAILED"; tail -5 $T/cbuild.log; return 99; }
  g++ -std=c++11 -DHAVE_CONFIG_H -I$T/src -I$T -I$T/_mutbuild/cgen -O1 -frounding-math -w $D/demo.cc $T/_mutbuild/cobj/*.o $(ls $T/_mutbuild/obj/*.o | grep -v -e ppl_test.o -e files.o) -lgmpxx -lgmp -o $T/demo || return 98
  $T/demo > $T/demo.out 2>&1; return $?
}
run_demo; RC0=$?
patch -p1 -s -d $T -i $D/patch.diff
rm -rf $T/_mutbuild/cgen $T/_mutbuild/cobj
run_demo; RC1=$?
CT=$(bash $D/run_ctests.sh $T 2>&1 | grep SUMMARY)
python3 - <<P
import json
p='$D/meta.json'; m=json.load(open(p))
m['confirmed_by_lead']={'demo_clean_rc':$RC0,'demo_mutated_rc':$RC1,'tests':'''$CT'''}
json.dump(m,open(p,'w'),indent=1)
P
echo "$D/meta.json clean rc $RC0 mutated rc $RC1 | $CT"
rm -rf $T
