#!/usr/bin/env python3
"""C19: regenerate coq/gen/Facts_Time.v from /repo's working tree.

Facts: USECS_PER_SEC, CSECS_PER_SEC (Time_defs.hh), reschedule_time in centiseconds (Watchdog.cc), and the
bodies of Time's operator== / != / < / <= (Time_inlines.hh) parsed into the `bexp` language of
coq/Watchdog/TimeSpec.v -- as written, typo included.  Untrusted glue: a mis-translation shows up as a
model/code disagreement in the correspondence run."""
import os, re, sys

sys.path.insert(0, os.path.dirname(os.path.abspath(__file__)))
import common


class TranslateError(Exception):
    pass


def _tokens(s):
    toks = re.findall(r"\s*(\|\||&&|==|!=|<=|>=|<|>|!|\(|\)|[xy]\.seconds\(\)|[xy]\.microseconds\(\)|[xy]\b)", s)
    if "".join(toks).replace(" ", "") != re.sub(r"\s+", "", s):
        raise TranslateError("unrecognised token in comparison body: %r" % s)
    return toks


class _P:
    def __init__(self, toks):
        self.t, self.i = toks, 0

    def peek(self):
        return self.t[self.i] if self.i < len(self.t) else None

    def eat(self, x=None):
        tok = self.peek()
        if tok is None or (x is not None and tok != x):
            raise TranslateError("parse error at token %d (%r), wanted %r" % (self.i, tok, x))
        self.i += 1
        return tok

    def p_or(self):
        e = self.p_and()
        while self.peek() == "||":
            self.eat()
            e = "(BOr %s %s)" % (e, self.p_and())
        return e

    def p_and(self):
        e = self.p_un()
        while self.peek() == "&&":
            self.eat()
            e = "(BAnd %s %s)" % (e, self.p_un())
        return e

    def p_un(self):
        if self.peek() == "!":
            self.eat()
            return "(BNot %s)" % self.p_un()
        if self.peek() == "(":
            self.eat()
            e = self.p_or()
            self.eat(")")
            return e
        return self.p_cmp()

    def operand(self):
        tok = self.eat()
        m = re.fullmatch(r"([xy])(?:\.(seconds|microseconds)\(\))?", tok)
        if not m:
            raise TranslateError("operand expected, got %r" % tok)
        side = "SX" if m.group(1) == "x" else "SY"
        if m.group(2) is None:
            return ("time", side)
        return ("atom", "(At %s %s)" % (side, "FSec" if m.group(2) == "seconds" else "FUsec"))

    def p_cmp(self):
        a = self.operand()
        op = self.eat()
        b = self.operand()
        if a[0] != b[0]:
            raise TranslateError("comparison between a Time and a number")
        if a[0] == "atom":
            x, y = a[1], b[1]
            table = {"==": "(BEq %s %s)" % (x, y), "!=": "(BNe %s %s)" % (x, y), "<": "(BLt %s %s)" % (x, y),
                     "<=": "(BLe %s %s)" % (x, y), ">": "(BLt %s %s)" % (y, x), ">=": "(BLe %s %s)" % (y, x)}
        else:
            x, y = a[1], b[1]
            table = {"==": "(BCallEq %s %s)" % (x, y), "!=": "(BNot (BCallEq %s %s))" % (x, y),
                     "<": "(BCallLt %s %s)" % (x, y), ">": "(BCallLt %s %s)" % (y, x),
                     "<=": "(BOr (BCallLt %s %s) (BCallEq %s %s))" % (x, y, x, y),
                     ">=": "(BOr (BCallLt %s %s) (BCallEq %s %s))" % (y, x, y, x)}
        if op not in table:
            raise TranslateError("operator expected, got %r" % op)
        return table[op]


def parse_body(expr):
    p = _P(_tokens(expr))
    e = p.p_or()
    if p.peek() is not None:
        raise TranslateError("trailing tokens in %r" % expr)
    return e


def operator_body(txt, op):
    m = re.search(r"inline\s+bool\s+operator%s\s*\(\s*const\s+Time&\s*x\s*,\s*const\s+Time&\s*y\s*\)\s*\{(.*?)\n\}" % re.escape(op),
                  txt, re.S)
    if not m:
        raise TranslateError("operator%s(const Time& x, const Time& y) not found" % op)
    body = re.sub(r"//[^\n]*", "", m.group(1))
    body = re.sub(r"assert\s*\([^;]*\)\s*;", "", body)
    r = re.fullmatch(r"\s*return\s+(.*?);\s*", body, re.S)
    if not r:
        raise TranslateError("operator%s: body is not a single return statement: %r" % (op, body))
    return re.sub(r"\s+", " ", r.group(1).strip())


def facts(repo=None):
    repo = repo or common.REPO
    src = os.path.join(repo, "src")
    defs = open(os.path.join(src, "Time_defs.hh")).read()
    inl = open(os.path.join(src, "Time_inlines.hh")).read()
    wd = open(os.path.join(src, "Watchdog.cc")).read()
    out = {}
    for k in ("USECS_PER_SEC", "CSECS_PER_SEC"):
        m = re.search(r"static\s+const\s+long\s+%s\s*=\s*(\d+)L?\s*;" % k, defs)
        if not m:
            raise TranslateError(k + " not found in Time_defs.hh")
        out[k] = int(m.group(1))
    m = re.search(r"Watchdog::reschedule_time\s*\(\s*(\d+)\s*\)\s*;", wd)
    if not m:
        raise TranslateError("reschedule_time(<centiseconds>) not found in Watchdog.cc")
    out["reschedule_csecs"] = int(m.group(1))
    for name, op in (("eq", "=="), ("ne", "!="), ("lt", "<"), ("le", "<=")):
        text = operator_body(inl, op)
        out["text_" + name] = text
        out["spec_" + name] = parse_body(text)
    return out


def render(f):
    return ("(* GENERATED by tools/translate_time.py from src/Time_defs.hh, src/Time_inlines.hh, src/Watchdog.cc -- do not edit *)\n"
            "Require Import ZArith.\nRequire Import PPLV.Watchdog.TimeSpec.\nOpen Scope Z_scope.\n\n"
            "Definition USECS_PER_SEC : Z := %d.\nDefinition CSECS_PER_SEC : Z := %d.\n"
            "Definition reschedule_csecs : Z := %d.\n\n" % (f["USECS_PER_SEC"], f["CSECS_PER_SEC"], f["reschedule_csecs"])
            + "".join("(* operator%s:  return %s; *)\nDefinition time_%s_spec : bexp :=\n  %s.\n\n"
                      % (op, f["text_" + n], n, f["spec_" + n]) for n, op in (("eq", "=="), ("ne", "!="), ("lt", "<"), ("le", "<="))))


def write(repo=None):
    f = facts(repo)
    txt = render(f)
    path = os.path.join(common.COQ, "gen", "Facts_Time.v")
    os.makedirs(os.path.dirname(path), exist_ok=True)
    old = open(path).read() if os.path.exists(path) else None
    if old != txt:
        with open(path, "w") as fh:
            fh.write(txt)
    return f


if __name__ == "__main__":
    print(render(write()))
