#!/bin/bash
# Run every registered quick check on /repo itself (seed from VERIF_SEED, default 1), rebuild MANIFEST.json and the
# generated tables of DESIGN.md, and validate MANIFEST and every evidence file against the schemas.
cd /verif
rc_all=0
for c in C01 C02 C03 C04 C05 C06 C07 C08 C09 C10 C11 C12 C13 C14 C15 C16 C17 C18 C19 C20; do
  ./check $c --tier quick > /tmp/final_$c.log 2>&1; rc=$?
  echo "$c rc=$rc $(tail -1 /tmp/final_$c.log | cut -c1-170)"
  [ $rc -ne 0 ] && rc_all=1
done
python3 tools/mkmanifest.py
python3 tools/mkdesign_tables.py
python3-vt - <<'P'
import json, jsonschema, glob
m=json.load(open('/verif/MANIFEST.json')); jsonschema.validate(m, json.load(open('/root/.vp/MANIFEST.schema.json')))
es=json.load(open('/root/.vp/EVIDENCE.schema.json'))
bad=0
for f in sorted(glob.glob('/verif/evidence/C*.json')):
    try: jsonschema.validate(json.load(open(f)), es)
    except Exception as e: bad+=1; print('EVIDENCE INVALID', f, str(e)[:200])
print('manifest valid; evidence files valid:', 20-bad, '/ 20')
P
exit $rc_all
