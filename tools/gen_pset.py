"""Generator of powerset histories (C09) in the case language of harness/run_pset.cc.

Every random choice derives from the seed given.  A case fixes the base domain (C / NNC polyhedra),
a space dimension (1..3) and a PALETTE of pieces built to be redundant (duplicates, nested),
empty, overlapping, adjacent (sharing a face, with complementary strictness for NNC) or disjoint;
powersets are sequences of <= 6 pieces; histories interleave the mutators with explicit and
implicit omega-reduction, pairwise reduction, collapse, copies / assignments / swaps followed by
mutation of either side, and the Boolean queries."""
import random


def con(kind, b, coefs):
    return "%s %d %s" % (kind, b, " ".join(str(a) for a in coefs))


def cons(cs):
    return "cons %d %s" % (len(cs), " ".join(cs)) if cs else "cons 0"


def unit(dim, i, a=1):
    return [a if j == i else 0 for j in range(dim)]


def box(rnd, dim, nnc, lo=-2, hi=3):
    cs = []
    bounds = []
    for i in range(dim):
        a = rnd.randint(lo, hi - 1); b = rnd.randint(a, hi)
        bounds.append((a, b))
    return bounds


def box_cons(dim, bounds, strict=None, open_sides=()):
    cs = []
    for i, (a, b) in enumerate(bounds):
        sl = ">" if strict and strict.get((i, 0)) else ">="
        su = ">" if strict and strict.get((i, 1)) else ">="
        if (i, 0) not in open_sides and a is not None:
            cs.append(con(sl, -a, unit(dim, i)))         # x_i - a >= 0
        if (i, 1) not in open_sides and b is not None:
            cs.append(con(su, b, unit(dim, i, -1)))      # b - x_i >= 0
    return cs


def make_palette(rnd, dim, nnc):
    pal = []
    def rstrict(bounds):
        if not nnc: return None
        return {(i, s): (rnd.random() < 0.3 and bounds[i][0] != bounds[i][1]) for i in range(dim) for s in (0, 1)}
    base = box(rnd, dim, nnc)
    st = rstrict(base)
    pal.append(box_cons(dim, base, st))
    # duplicate with different syntax (scaled)
    pal.append([c for c in box_cons(dim, base, st)] + ([con(">=", 7, [0] * dim)] if rnd.random() < 0.5 else []))
    # nested
    inner = [(a + (1 if b - a >= 2 else 0), b - (1 if b - a >= 1 else 0)) for (a, b) in base]
    inner = [(a, max(a, b)) for (a, b) in inner]
    pal.append(box_cons(dim, inner, rstrict(inner)))
    # adjacent along variable k: shares the face x_k = b_k
    k = rnd.randrange(dim)
    adj = list(base); a, b = base[k]; adj[k] = (b, b + rnd.randint(1, 2))
    sta = rstrict(adj)
    if nnc and st is not None:
        # complementary strictness on the shared face in half of the cases (exact union is convex)
        if rnd.random() < 0.5: sta[(k, 0)] = not st[(k, 1)]
    pal.append(box_cons(dim, adj, sta))
    # overlapping: shifted by one along a variable
    k2 = rnd.randrange(dim)
    ov = list(base); a, b = base[k2]; ov[k2] = (a + 1, b + 1)
    pal.append(box_cons(dim, ov, rstrict(ov)))
    # empty (contradictory, not syntactically obvious)
    e = rnd.randrange(dim)
    pal.append([con(">=", -1, unit(dim, e)), con(">=", 0, unit(dim, e, -1))] + ([con(">=", 2, unit(dim, (e + 1) % dim))] if dim > 1 else []))
    # half-space, possibly diagonal
    co = [rnd.randint(-2, 2) for _ in range(dim)]
    if all(c == 0 for c in co): co[0] = 1
    pal.append([con(">" if nnc and rnd.random() < 0.4 else ">=", rnd.randint(-2, 3), co)])
    # the complementary half-space (union = universe, adjacent along a hyperplane)
    last = pal[-1][0].split(" ")
    kind = ">=" if last[0] == ">" else (">" if nnc else ">=")
    pal.append([con(kind, -int(last[1]), [-int(x) for x in last[2:]])])
    # box cut by a diagonal
    if dim >= 2:
        b2 = box(rnd, dim, nnc)
        d = [0] * dim; d[0] = 1; d[1] = rnd.choice([1, -1])
        pal.append(box_cons(dim, b2) + [con(">=", rnd.randint(0, 3), [-x for x in d])])
        pal.append(box_cons(dim, b2) + [con(">" if nnc else ">=", -rnd.randint(0, 3), d)])
    # a point / a segment (equalities)
    pt = [rnd.randint(-1, 2) for _ in range(dim)]
    pal.append([con("=", -pt[i], unit(dim, i)) for i in range(dim if rnd.random() < 0.5 else max(1, dim - 1))])
    # unbounded strip
    sb = box(rnd, dim, nnc)
    pal.append(box_cons(dim, sb, rstrict(sb), open_sides={(rnd.randrange(dim), rnd.randint(0, 1))}))
    # independent random box
    rb = box(rnd, dim, nnc)
    pal.append(box_cons(dim, rb, rstrict(rb)))
    return pal


UNARY = ["add_constraint", "refine_with_constraint", "add_constraints", "affine_image", "affine_preimage", "unconstrain",
         "topological_closure_assign", "omega_reduce", "pairwise_reduce", "collapse", "collapse_all",
         "add_non_bottom_disjunct_preserve_reduction", "drop_disjunct", "mutate_disjunct"]
DIMOPS = ["add_space_dimensions_and_embed", "add_space_dimensions_and_project", "remove_higher_space_dimensions",
          "remove_space_dimensions", "expand_space_dimension", "map_space_dimensions"]
BINARY = ["intersection_assign", "meet_assign", "upper_bound_assign", "least_upper_bound_assign", "difference_assign",
          "concatenate_assign"]
QUERIES = ["is_empty", "is_bottom", "is_top", "is_universe", "size", "OK", "contains", "strictly_contains",
           "geometrically_covers", "geometrically_equals", "definitely_entails", "equals", "is_disjoint_from"]


# operations that consult abandon_expensive_computations (directly: concatenate_assign; through omega_reduce(): the others)
# and are monotone in their operands, so that the degraded result must still contain the exact one
HURRY_OPS = ("omega_reduce", "pairwise_reduce", "collapse", "concatenate_assign", "meet_assign", "intersection_assign",
             "upper_bound_assign", "least_upper_bound_assign", "map_space_dimensions")


HURRY_QUERIES = ("is_bottom", "is_top", "strictly_contains", "equals", "geometrically_equals", "contains", "geometrically_covers",
                 "is_empty", "definitely_entails", "is_disjoint_from")


class Gen:
    def __init__(self, rnd, cid, maxdim=2, nobj=3, steps=10, ops=None, pq=0.25, closure=True, dimops=True, phurry=0.12):
        self.rnd = rnd; self.cid = cid
        self.nnc = rnd.random() < 0.5
        self.dim0 = rnd.randint(1, maxdim)
        self.pal = {self.dim0: make_palette(rnd, self.dim0, self.nnc)}
        self.objs = {}      # id -> (dim, size upper bound)
        self.lines = ["case %s %s" % (cid, "NNC" if self.nnc else "C")]
        self.ops = ops; self.pq = pq; self.steps = steps; self.nobj = nobj
        self.closure = closure; self.dimops = dimops; self.phurry = phurry

    def piece(self, dim):
        if dim not in self.pal:
            self.pal[dim] = make_palette(self.rnd, dim, self.nnc)
        return self.rnd.choice(self.pal[dim])

    def rcon(self, dim, allow_strict=True):
        co = [self.rnd.randint(-2, 2) for _ in range(dim)]
        if all(c == 0 for c in co) and self.rnd.random() < 0.9: co[self.rnd.randrange(dim)] = 1
        kind = self.rnd.choice([">=", ">=", "=", ">"] if (self.nnc and allow_strict) else [">=", ">=", "="])
        return con(kind, self.rnd.randint(-2, 3), co)

    def new_obj(self, oid):
        r = self.rnd
        how = r.random()
        dim = self.dim0
        if how < 0.08: self.lines.append("new %d %d universe" % (oid, dim)); self.objs[oid] = [dim, 1]; return
        if how < 0.2: self.lines.append("new %d %d poly %s" % (oid, dim, cons(self.piece(dim)))); self.objs[oid] = [dim, 1]
        elif how < 0.3: self.lines.append("new %d %d cons %s" % (oid, dim, cons(self.piece(dim))[5:])); self.objs[oid] = [dim, 1]
        else: self.lines.append("new %d %d empty" % (oid, dim)); self.objs[oid] = [dim, 0]
        k = r.randint(1, 6) if how >= 0.3 else r.randint(0, 3)
        for _ in range(k):
            self.lines.append("op %d add_disjunct %s" % (oid, cons(self.piece(dim))))
            self.objs[oid][1] += 1

    def step(self):
        n0 = len(self.lines)
        self.step0()
        # with probability phurry the step runs with the abandon flag raised (only its last line: the operation itself)
        if len(self.lines) > n0 and self.rnd.random() < self.phurry:
            t = self.lines[-1].split(" ")
            if (t[0] == "op" and t[2] in HURRY_OPS) or (t[0] == "qry" and t[2] in HURRY_QUERIES):
                self.lines[-1] = "hurry " + self.lines[-1]

    def step0(self):
        r = self.rnd
        ids = sorted(self.objs)
        x = r.choice(ids); dim, sz = self.objs[x]
        if r.random() < self.pq:
            q = r.choice(QUERIES)
            if q in ("contains", "strictly_contains", "geometrically_covers", "geometrically_equals", "definitely_entails", "equals", "is_disjoint_from"):
                ys = [i for i in ids if i != x and self.objs[i][0] == dim]
                if not ys: return
                self.lines.append("qry %d %s %d" % (x, q, r.choice(ys)))
            else:
                self.lines.append("qry %d %s" % (x, q))
            return
        pool = list(self.ops) if self.ops else (["add_disjunct"] * 3 + UNARY + BINARY * 2 + ["copy", "copy", "assign", "assign", "swap"]
                                                + (DIMOPS if self.dimops else []))
        op = r.choice(pool)
        if op == "topological_closure_assign" and not self.closure: op = "omega_reduce"
        L = self.lines
        if op == "add_disjunct":
            if sz >= 7: op = "collapse"
            else: L.append("op %d add_disjunct %s" % (x, cons(self.piece(dim)))); self.objs[x][1] += 1; return
        if op == "copy":
            nid = max(ids) + 1 if len(ids) < self.nobj + 1 else r.choice([i for i in ids if i != x] or [x])
            if nid == x: return
            L.append("copy %d %d" % (nid, x)); self.objs[nid] = list(self.objs[x]); return
        if op in ("assign", "swap") or op in BINARY:
            ys = [i for i in ids if i != x and (self.objs[i][0] == dim or op in ("assign", "swap", "concatenate_assign"))]
            if not ys: return
            y = r.choice(ys); ydim, ysz = self.objs[y]
            if op == "assign": L.append("op %d assign %d" % (x, y)); self.objs[x] = list(self.objs[y]); return
            if op == "swap": L.append("op %d swap %d" % (x, y)); self.objs[x], self.objs[y] = self.objs[y], self.objs[x]; return
            if op == "concatenate_assign":
                if dim + ydim > 3 or sz * ysz > 9: return
                L.append("op %d concatenate_assign %d" % (x, y)); self.objs[x] = [dim + ydim, sz * ysz]; return
            if op in ("intersection_assign", "meet_assign"):
                if sz * ysz > 20: L.append("op %d collapse %d" % (x, 3)); self.objs[x][1] = min(sz, 3); return
                L.append("op %d %s %d" % (x, op, y)); self.objs[x][1] = sz * ysz; return
            if op in ("upper_bound_assign", "least_upper_bound_assign"):
                if sz + ysz > 10: L.append("op %d collapse %d" % (x, 3)); self.objs[x][1] = min(sz, 3); return
                L.append("op %d %s %d" % (x, op, y)); self.objs[x][1] = sz + ysz; return
            if op == "difference_assign":
                if sz > 4 or ysz > 3: return
                L.append("op %d difference_assign %d" % (x, y)); self.objs[x][1] = min(12, sz * (2 * dim + 1) ** min(ysz, 2)); return
        if op in ("add_constraint", "refine_with_constraint"):
            L.append("op %d %s %s" % (x, op, self.rcon(dim, allow_strict=(self.nnc or op == "refine_with_constraint")))); return
        if op == "add_constraints":
            k = r.randint(0, 2); L.append("op %d add_constraints %d %s" % (x, k, " ".join(self.rcon(dim) for _ in range(k)))); return
        if op in ("affine_image", "affine_preimage"):
            v = r.randrange(dim); co = [r.randint(-2, 2) for _ in range(dim)]
            if r.random() < 0.3: co[v] = 0
            den = r.choice([1, 1, 2, -1, 3])
            L.append("op %d %s %d %d %d %d %s" % (x, op, v, den, dim, r.randint(-2, 2), " ".join(map(str, co)))); return
        if op == "unconstrain": L.append("op %d unconstrain %d" % (x, r.randrange(dim))); return
        if op in ("topological_closure_assign", "omega_reduce", "pairwise_reduce", "collapse_all"):
            L.append("op %d %s" % (x, op))
            if op == "collapse_all": self.objs[x][1] = min(sz, 1)
            return
        if op == "collapse":
            m = r.randint(1, 4); L.append("op %d collapse %d" % (x, m)); self.objs[x][1] = min(sz, m); return
        if op == "add_non_bottom_disjunct_preserve_reduction":
            # the argument must not be bottom: take a palette piece that is not the designated empty one
            if dim not in self.pal: self.pal[dim] = make_palette(self.rnd, dim, self.nnc)
            p = r.choice(self.pal[dim][:5])          # the five boxes of the palette are never empty
            L.append("op %d omega_reduce" % x)
            L.append("op %d %s %s" % (x, op, cons(p))); self.objs[x][1] += 1; return
        if op in ("drop_disjunct", "mutate_disjunct"):
            # position must exist whatever reductions happened: ask for size first is not possible; use position 0 after add
            L.append("op %d add_disjunct %s" % (x, cons(self.piece(dim)))); self.objs[x][1] += 1
            # the freshly added disjunct is the last one; position 0 always exists now
            if op == "drop_disjunct": L.append("op %d drop_disjunct 0" % x); self.objs[x][1] -= 1
            else: L.append("op %d mutate_disjunct 0 %s" % (x, self.rcon(dim, allow_strict=self.nnc)))
            return
        if op == "add_space_dimensions_and_embed" or op == "add_space_dimensions_and_project":
            if dim >= 3: return
            L.append("op %d %s 1" % (x, op)); self.objs[x][0] = dim + 1; return
        if op == "remove_higher_space_dimensions":
            k = r.randint(max(1, dim - 1), dim); L.append("op %d %s %d" % (x, op, k)); self.objs[x][0] = k; return
        if op == "remove_space_dimensions":
            if dim < 2: return
            v = r.randrange(dim); L.append("op %d %s 1 %d" % (x, op, v)); self.objs[x][0] = dim - 1; return
        if op == "expand_space_dimension":
            if dim >= 3: return
            L.append("op %d %s %d 1" % (x, op, r.randrange(dim))); self.objs[x][0] = dim + 1; return
        if op == "map_space_dimensions":
            perm = list(range(dim)); r.shuffle(perm)
            if dim >= 2 and r.random() < 0.3: perm[r.randrange(dim)] = -1;
            # renumber the image to be a compact range
            used = sorted(p for p in perm if p >= 0)
            ren = {p: i for i, p in enumerate(used)}
            perm = [ren[p] if p >= 0 else -1 for p in perm]
            if not used: return
            L.append("op %d %s %d %s" % (x, op, dim, " ".join(map(str, perm)))); self.objs[x][0] = len(used); return

    def cow_block(self):
        r = self.rnd; n = 4; L = self.lines; dim = self.dim0
        L.append("cw slots %d" % n)
        live = set()
        for _ in range(r.randint(6, 14)):
            dead = [h for h in range(n) if h not in live]
            ch = r.random()
            if (not live or ch < 0.15) and dead:
                h = r.choice(dead); L.append("cw new %d %d %s" % (h, dim, cons(self.piece(dim)))); live.add(h)
            elif ch < 0.4 and dead and live:
                h = r.choice(dead); L.append("cw copy %d %d" % (h, r.choice(sorted(live)))); live.add(h)
            elif ch < 0.55 and len(live) >= 1:
                L.append("cw assign %d %d" % (r.choice(sorted(live)), r.choice(sorted(live))))
            elif ch < 0.65 and len(live) >= 2:
                a, b = r.sample(sorted(live), 2); L.append("cw swap %d %d" % (a, b))
            elif ch < 0.85 and live:
                L.append("cw mutate %d %s" % (r.choice(sorted(live)), self.rcon(dim, allow_strict=self.nnc)))
            elif ch < 0.9 and live:
                L.append("cw read %d" % r.choice(sorted(live)))
            elif live:
                h = r.choice(sorted(live)); L.append("cw destroy %d" % h); live.discard(h)

    def run(self, cow=False):
        for oid in range(1, self.nobj + 1):
            self.new_obj(oid)
        for _ in range(self.steps):
            self.step()
        if cow:
            self.cow_block()
        self.lines.append("end")
        return self.lines


def hurry_cases(seed, n, start=0):
    """operations driven with abandon_expensive_computations raised, on reduced and unreduced operands of 1-4 disjuncts:
    mostly concatenate_assign (whose hurry-up branch needs >= 2 disjuncts on each side, already flagged reduced)"""
    rnd = random.Random(seed)
    out = []
    for i in range(n):
        g = Gen(rnd, "h%d" % (start + i), maxdim=1 if rnd.random() < 0.7 else 2, nobj=2, steps=0)
        dim = g.dim0
        L = g.lines
        for oid in (1, 2):
            L.append("new %d %d empty" % (oid, dim))
            k = rnd.randint(1, 4)
            # mostly pairwise incomparable pieces (so that several disjuncts survive omega-reduction)
            for j in range(k):
                if rnd.random() < 0.7:
                    lo = [rnd.randint(-2, 1) + 10 * j * (1 if rnd.random() < 0.8 else 0) for _ in range(dim)]
                    bounds = [(a, a + rnd.randint(0, 2)) for a in lo]
                    L.append("op %d add_disjunct %s" % (oid, cons(box_cons(dim, bounds))))
                else:
                    L.append("op %d add_disjunct %s" % (oid, cons(g.piece(dim))))
            if rnd.random() < 0.7: L.append("op %d omega_reduce" % oid)      # operand already flagged reduced
        ops = ["concatenate_assign"] * 4 + ["meet_assign", "upper_bound_assign", "omega_reduce", "pairwise_reduce", "collapse 2", "qry", "qry", "qry", "difference_assign"]
        for _ in range(rnd.randint(1, 3)):
            o = rnd.choice(ops)
            x = rnd.choice([1, 2]); y = 3 - x
            if o == "concatenate_assign":
                L.append("hurry op %d concatenate_assign %d" % (x, y))
                break                                                        # dimensions differ afterwards
            elif o in ("meet_assign", "upper_bound_assign", "difference_assign"): L.append("hurry op %d %s %d" % (x, o, y))
            elif o == "qry":
                q = rnd.choice(HURRY_QUERIES)
                L.append("hurry qry %d %s" % (x, q) if q in ("is_bottom", "is_top", "is_empty") else "hurry qry %d %s %d" % (x, q, y))
            else: L.append("hurry op %d %s" % (x, o))
        L.append("qry 1 OK")
        L.append("end")
        out += L
    return out


def boxpair_cases(seed, n, start=0):
    """powersets of axis-aligned slabs and boxes with unbounded sides: per variable an interval with endpoints from
    {-inf, 0, 1, 2, +inf} (lines, rays, segments, points), 2-3 disjuncts, EVERY order of the disjuncts (one object per
    permutation), then pairwise_reduce / omega_reduce / collapse on each and geometric comparison between the orders"""
    import itertools
    rnd = random.Random(seed)
    out = []
    ENDS = [None, 0, 1, 2]
    for i in range(n):
        nnc = rnd.random() < 0.25
        dim = rnd.choice([1, 2, 2, 2, 3])
        k = rnd.choice([2, 2, 2, 3])
        def interval():
            u = rnd.random()
            if u < 0.25: return (None, None)                                              # a line
            if u < 0.6: return (rnd.choice([0, 1, 2]), None) if rnd.random() < 0.5 else (None, rnd.choice([0, 1, 2]))   # a ray
            lo = rnd.choice([0, 1, 2]); hi = rnd.choice([0, 1, 2])
            return (min(lo, hi), max(lo, hi))
        boxes = []
        base = [interval() for _ in range(dim)]
        boxes.append(base)
        for _ in range(k - 1):
            b = list(base)
            # adjacent / overlapping along one variable (the exact-union shapes), the other variables equal or independent
            v = rnd.randrange(dim)
            lo, hi = base[v]
            ch = rnd.random()
            if ch < 0.45 and hi is not None: b[v] = (hi, rnd.choice([None, hi + 1, hi + 1]))
            elif ch < 0.7 and lo is not None: b[v] = (rnd.choice([None, lo - 1, lo - 1]), lo)
            else: b[v] = interval()
            for w in range(dim):
                if w != v and rnd.random() < 0.7: b[w] = interval()
            boxes.append(b)
        L = ["case b%d %s" % (start + i, "NNC" if nnc else "C")]
        perms = list(itertools.permutations(range(k)))
        for oid, perm in enumerate(perms, 1):
            L.append("new %d %d empty" % (oid, dim))
            for j in perm:
                L.append("op %d add_disjunct %s" % (oid, cons(box_cons(dim, boxes[j]))))
        op = rnd.choice(["pairwise_reduce", "pairwise_reduce", "pairwise_reduce", "omega_reduce", "collapse 1"])
        for oid in range(1, len(perms) + 1):
            L.append("op %d %s" % (oid, op))
        for oid in range(2, len(perms) + 1):
            L.append("qry 1 geometrically_equals %d" % oid)
        L.append("end")
        out += L
    return out


def boxpair_systematic(start=0):
    """the `boxpair' shapes exhaustively in dimension 2: a slab v in [a, a+1] whose other variable w ranges over each of the 13
    intervals with endpoints in {-inf, 0, 1, 2, +inf}, next to the adjacent slab v in [a+1, a+2] (or [a-1, a]) with w a line, in
    both orders; pairwise_reduce, then the two orders are compared geometrically"""
    INTS = [(lo, hi) for lo in (None, 0, 1, 2) for hi in (0, 1, 2, None) if lo is None or hi is None or lo <= hi]
    out = []
    n = start
    for v in (0, 1):
        w = 1 - v
        for side in (1, -1):
            for iw in INTS:
                b1 = [None, None]; b2 = [None, None]
                b1[v] = (0, 1); b1[w] = (None, None)
                b2[v] = (1, 2) if side == 1 else (-1, 0); b2[w] = iw
                L = ["case bs%d C" % n]; n += 1
                for oid, order in ((1, (b1, b2)), (2, (b2, b1))):
                    L.append("new %d 2 empty" % oid)
                    for b in order:
                        L.append("op %d add_disjunct %s" % (oid, cons(box_cons(2, b))))
                L += ["op 1 pairwise_reduce", "op 2 pairwise_reduce", "qry 1 geometrically_equals 2", "end"]
                out += L
    return out


def grid_cases(seed, n, start=0):
    """Pointset_Powerset<Grid>: a target grid against covers of 2-3 grid disjuncts, some pairs of which have NO finite partition
    (grids constraining DIFFERENT variables), others finer / coarser on the same variable; every order of the cover's disjuncts
    (one object per permutation); geometrically_covers / check_containment / geometrically_equals both ways, difference_assign,
    omega_reduce"""
    import itertools
    rnd = random.Random(seed)
    out = []
    def gcg(m, b, a): return "%d %d %s" % (m, b, " ".join(map(str, a)))
    def grid(cgs): return "cgs %d %s" % (len(cgs), " ".join(cgs)) if cgs else "universe"
    for i in range(n):
        dim = rnd.choice([2, 2, 2, 3])
        def one_var_grid(v=None, m=None):
            v = rnd.randrange(dim) if v is None else v
            a = [0] * dim; a[v] = rnd.choice([1, 1, 1, 2])
            return [gcg(m or rnd.choice([1, 2, 2, 3, 4]), rnd.choice([0, 0, 1]), a)]
        tv = rnd.randrange(dim)
        target = one_var_grid(tv, rnd.choice([1, 1, 2]))
        if rnd.random() < 0.25: target += one_var_grid((tv + 1) % dim)
        k = rnd.choice([2, 2, 3])
        cover = []
        for j in range(k):
            u = rnd.random()
            if u < 0.45: cover.append(one_var_grid(rnd.choice([x for x in range(dim) if x != tv])))          # another variable: no finite partition
            elif u < 0.8: cover.append(one_var_grid(tv, rnd.choice([1, 2, 2, 3, 4])))                          # same variable, finer / coarser / shifted
            elif u < 0.9: cover.append(list(target))
            else:
                a = [rnd.choice([0, 1, -1]) for _ in range(dim)]
                if not any(a): a[tv] = 1
                cover.append([gcg(rnd.choice([2, 3]), rnd.choice([0, 1]), a)])
        L = ["case G%d G" % (start + i)]
        perms = list(itertools.permutations(range(k)))
        L.append("new 1 %d empty" % dim)
        L.append("op 1 add_disjunct %s" % grid(target))
        for oid, perm in enumerate(perms, 2):
            L.append("new %d %d empty" % (oid, dim))
            for j in perm: L.append("op %d add_disjunct %s" % (oid, grid(cover[j])))
        for oid in range(2, len(perms) + 2):
            L.append("qry %d geometrically_covers 1" % oid)
            L.append("qry %d check_containment %s" % (oid, grid(target)))
            if rnd.random() < 0.5: L.append("qry %d geometrically_equals 1" % oid)
            if rnd.random() < 0.3: L.append("qry 1 geometrically_covers %d" % oid)
        x = rnd.randrange(2, len(perms) + 2)
        L.append("copy 99 1")
        L.append("op 99 difference_assign %d" % x)
        if rnd.random() < 0.5: L.append("op %d omega_reduce" % x)
        L.append("end")
        out += L
    return out


def make_cases(seed, n, start=0, **kw):
    rnd = random.Random(seed)
    out = []
    cow_p = kw.pop("cow_p", 0.3)
    for i in range(n):
        g = Gen(rnd, "g%d" % (start + i), **kw)
        out += g.run(cow=rnd.random() < cow_p)
    return out


if __name__ == "__main__":
    import sys
    print("\n".join(make_cases(int(sys.argv[1]) if len(sys.argv) > 1 else 1, int(sys.argv[2]) if len(sys.argv) > 2 else 3)))
