"""C20: generate, from the prototypes of the regenerated ppl_c.h, a C++ driver for one interfaced domain.

For every entry point whose signature matches one of the patterns below the driver calls the C function on
a handle and the wrapped C++ operation on an independent twin copy (harness/cif_support.hh), for a valid
argument tuple and for variants where ONE argument is replaced by an ill-formed value (other dimension,
zero denominator, strict relation, max_space_dimension, ...).  What the C++ operation does with those
(returns / throws class X) is observed, not assumed; the Coq model says what the C function must return.
Entry points matching no pattern are listed as `undriven` (reported in the evidence).
"""
import os, re, sys

SELFDIM = 2      # space dimension of recipes 1..4; 5 has dimension 3; 6 has dimension 0


def cpp_type(cpp):
    m = re.match(r"Constraints_Product<(.*),(.*)>$", cpp)
    if m:
        return "Domain_Product<%s,%s >::Constraints_Product" % (m.group(1), m.group(2))
    return cpp


class Gen:
    def __init__(self, dom, cpp, protos, all_doms, seed, thorough, dangling=(), topo_unchecked=()):
        self.dangling = set(dangling)
        self.topo_unchecked = set(topo_unchecked)    # entries casting their 2nd operand by the topology of the 1st (facts)
        self.D, self.cpp, self.all = dom, cpp_type(cpp), all_doms      # all_doms: {interface name: c++ name}
        self.protos = protos
        self.out = []
        self.driven, self.undriven = [], []
        self.seed, self.thorough = seed, thorough
        self.is_poly = dom == "Polyhedron"
        # r % 8: shape (4 empty, 5 dim 3, 6 dim 0), (r / 8) % 2: NNC (Polyhedron), r / 16: 1 redundant description, 2 minimized + pending row
        self.recipes = [1, 2, 3, 17, 34] if not thorough else [1, 2, 3, 4, 0, 7, 17, 18, 19, 33, 34, 35]

    def w(self, s):
        self.out.append(s)

    # ---- argument kinds --------------------------------------------------------------------------------
    # each returns a list of variants: (tag, decl code, C argument text, mirror argument text, watch line)
    def arg_variants(self, ptype, pname, fname, idx):
        a = "a%d" % idx
        D = self.D
        V = []
        def v(tag, decl, c, m, watch=""):
            V.append((tag, decl, c, m, watch))
        if ptype == "ppl_dimension_type":
            as_var = pname == "var" or (pname == "d" and ("expand_space_dimension" in fname or "fold_space_dimensions" in fname))
            mk = (lambda x: "Variable(%s)" % x) if as_var else (lambda x: x)
            v("ok", "ppl_dimension_type %s = 1;" % a, a, mk(a))
            v("dim7", "ppl_dimension_type %s = 7;" % a, a, mk(a))
            # only where the library checks the overflow BEFORE allocating (Octagonal_Shape::add_space_dimensions_and_embed
            # has no such check on the unchanged tree: asking for max_space_dimension() more dimensions exhausts memory)
            if ("add_space_dimensions" in fname or "expand_space" in fname) and not self.D.startswith("Octagonal_Shape"):
                v("maxdim", "ppl_dimension_type %s = Dom::T::max_space_dimension();" % a, a, mk(a))
        elif ptype == "ppl_const_Linear_Expression_t":
            v("ok", "cif::CLE %s(%d, DIM);" % (a, 3 + idx), a + ".h", "cif::cxx(%s.h)" % a, "W.add(ppl_Linear_Expression_ascii_dump, (ppl_const_Linear_Expression_t) %s.h);" % a)
            v("le1", "cif::CLE %s(%d, DIM);" % (a, 4 + idx), a + ".h", "cif::cxx(%s.h)" % a)
            v("ledim6", "cif::CLE %s(%d, 6);" % (a, 5 + idx), a + ".h", "cif::cxx(%s.h)" % a)
        elif ptype == "ppl_const_Coefficient_t":
            v("ok", "cif::CCoef %s(2);" % a, a + ".h", "cif::cxx(%s.h)" % a)
            v("zero", "cif::CCoef %s(0);" % a, a + ".h", "cif::cxx(%s.h)" % a)
            v("neg", "cif::CCoef %s(-3);" % a, a + ".h", "cif::cxx(%s.h)" % a)
        elif ptype == "enum ppl_enum_Constraint_Type":
            for t in ("GREATER_OR_EQUAL", "LESS_THAN", "EQUAL", "GREATER_THAN", "LESS_OR_EQUAL"):
                v("ok" if t == "GREATER_OR_EQUAL" else t.lower(), "enum ppl_enum_Constraint_Type %s = PPL_CONSTRAINT_TYPE_%s;" % (a, t), a, "cif::relsym_cxx(%s)" % a)
        elif ptype == "ppl_const_Constraint_t":
            wl = "W.add(ppl_Constraint_ascii_dump, (ppl_const_Constraint_t) %s.h);" % a
            v("ok", "cif::CCon %s(%d, DIM, 0);" % (a, 3 + idx), a + ".h", "cif::cxx(%s.h)" % a, wl)
            v("eq", "cif::CCon %s(%d, DIM, 1);" % (a, 4 + idx), a + ".h", "cif::cxx(%s.h)" % a)
            v("strict", "cif::CCon %s(%d, DIM, 2);" % (a, 3 + idx), a + ".h", "cif::cxx(%s.h)" % a)
            v("general", "cif::CCon %s(%d, DIM, 3);" % (a, 5 + idx), a + ".h", "cif::cxx(%s.h)" % a)
            v("dim6", "cif::CCon %s(%d, 6, 0);" % (a, 3 + idx), a + ".h", "cif::cxx(%s.h)" % a)
        elif ptype in ("ppl_const_Constraint_System_t", "ppl_Constraint_System_t"):
            rec = ptype == "ppl_Constraint_System_t"
            m = ("cp_%s" % a) if rec else "cif::cxx(%s.h)" % a
            cp = (" Constraint_System cp_%s(cif::cxx((ppl_const_Constraint_System_t) %s.h));" % (a, a)) if rec else ""
            wl = "" if rec else "W.add(ppl_Constraint_System_ascii_dump, (ppl_const_Constraint_System_t) %s.h);" % a
            v("ok", "cif::CCS %s(%d, DIM, 2, 0);%s" % (a, 3 + idx, cp), a + ".h", m, wl)
            v("strict", "cif::CCS %s(%d, DIM, 2, 2);%s" % (a, 3 + idx, cp), a + ".h", m)
            v("general", "cif::CCS %s(%d, DIM, 2, 3);%s" % (a, 5 + idx, cp), a + ".h", m)
            v("dim6", "cif::CCS %s(%d, 6, 2, 0);%s" % (a, 3 + idx, cp), a + ".h", m)
        elif ptype == "ppl_const_Congruence_t":
            v("ok", "cif::CCg %s(%d, DIM, 2);" % (a, 3 + idx), a + ".h", "cif::cxx(%s.h)" % a, "W.add(ppl_Congruence_ascii_dump, (ppl_const_Congruence_t) %s.h);" % a)
            v("mod0", "cif::CCg %s(%d, DIM, 0);" % (a, 3 + idx), a + ".h", "cif::cxx(%s.h)" % a)
            v("dim6", "cif::CCg %s(%d, 6, 3);" % (a, 3 + idx), a + ".h", "cif::cxx(%s.h)" % a)
        elif ptype in ("ppl_const_Congruence_System_t", "ppl_Congruence_System_t"):
            rec = ptype == "ppl_Congruence_System_t"
            m = ("cp_%s" % a) if rec else "cif::cxx(%s.h)" % a
            cp = (" Congruence_System cp_%s(cif::cxx((ppl_const_Congruence_System_t) %s.h));" % (a, a)) if rec else ""
            v("ok", "cif::CCgS %s(%d, DIM, 2, 0);%s" % (a, 3 + idx, cp), a + ".h", m)
            v("mod2", "cif::CCgS %s(%d, DIM, 2, 2);%s" % (a, 3 + idx, cp), a + ".h", m)
            v("dim6", "cif::CCgS %s(%d, 6, 1, 0);%s" % (a, 3 + idx, cp), a + ".h", m)
        elif ptype == "ppl_const_Generator_t":
            v("ok", "cif::CGen %s(%d, DIM, 0);" % (a, 3 + idx), a + ".h", "cif::cxx(%s.h)" % a, "W.add(ppl_Generator_ascii_dump, (ppl_const_Generator_t) %s.h);" % a)
            v("ray", "cif::CGen %s(%d, DIM, 1);" % (a, 3 + idx), a + ".h", "cif::cxx(%s.h)" % a)
            v("closure", "cif::CGen %s(%d, DIM, 3);" % (a, 3 + idx), a + ".h", "cif::cxx(%s.h)" % a)
            v("dim6", "cif::CGen %s(%d, 6, 0);" % (a, 3 + idx), a + ".h", "cif::cxx(%s.h)" % a)
        elif ptype in ("ppl_const_Generator_System_t", "ppl_Generator_System_t"):
            rec = ptype == "ppl_Generator_System_t"
            m = ("cp_%s" % a) if rec else "cif::cxx(%s.h)" % a
            cp = (" Generator_System cp_%s(cif::cxx((ppl_const_Generator_System_t) %s.h));" % (a, a)) if rec else ""
            v("ok", "cif::CGS %s(%d, DIM, 3);%s" % (a, 3 + idx, cp), a + ".h", m)
            v("dim6", "cif::CGS %s(%d, 6, 2);%s" % (a, 3 + idx, cp), a + ".h", m)
        elif ptype == "ppl_const_Grid_Generator_t":
            v("ok", "cif::CGG %s(%d, DIM, 0);" % (a, 3 + idx), a + ".h", "cif::cxx(%s.h)" % a)
            v("param", "cif::CGG %s(%d, DIM, 1);" % (a, 3 + idx), a + ".h", "cif::cxx(%s.h)" % a)
            v("dim6", "cif::CGG %s(%d, 6, 0);" % (a, 3 + idx), a + ".h", "cif::cxx(%s.h)" % a)
        elif ptype in ("ppl_const_Grid_Generator_System_t", "ppl_Grid_Generator_System_t"):
            rec = ptype == "ppl_Grid_Generator_System_t"
            m = ("cp_%s" % a) if rec else "cif::cxx(%s.h)" % a
            cp = (" Grid_Generator_System cp_%s(cif::cxx((ppl_const_Grid_Generator_System_t) %s.h));" % (a, a)) if rec else ""
            v("ok", "cif::CGGS %s(%d, DIM, 3);%s" % (a, 3 + idx, cp), a + ".h", m)
            v("dim6", "cif::CGGS %s(%d, 6, 2);%s" % (a, 3 + idx, cp), a + ".h", m)
        elif ptype == "int" and pname == "complexity":
            for c in (2, 0, 1):
                v("ok" if c == 2 else "cc%d" % c, "int %s = %d;" % (a, c), a, "cif::cc_cxx(%s)" % a)
        elif ptype == "unsigned" and pname == "disjuncts":
            v("ok", "unsigned %s = 2;" % a, a, a)
        elif ptype == "ppl_const_%s_t" % D:
            wl = "W.add_sem<Dom::T>(&%s.t(), Dom::clone(%s.t()));" % (a, a)
            v("ok", "cif::Obj<Dom> %s(RECIPE_Y);" % a, a + ".ch()", a + ".t()", wl)
            v("ydim3", "cif::Obj<Dom> %s(5);" % a, a + ".ch()", a + ".t()")
            if self.is_poly:
                v("ytopol", "cif::Obj<Dom> %s(RECIPE_Y ^ 8);" % a, a + ".ch()", a + ".t()")
        else:
            return None
        return V

    # ---- emit ------------------------------------------------------------------------------------------
    def parse_params(self, params):
        out = []
        if params.strip() in ("", "void"):
            return out
        depth, cur = 0, ""
        for ch in params:
            if ch == "(":
                depth += 1
            elif ch == ")":
                depth -= 1
            if ch == "," and depth == 0:
                out.append(cur); cur = ""
            else:
                cur += ch
        out.append(cur)
        res = []
        for p in out:
            p = p.strip()
            arr = p.endswith("[]")
            if arr:
                p = p[:-2]
            m = re.match(r"(.*?)(\w+)$", p)
            ty, nm = m.group(1).strip(), m.group(2)
            ty = ty.replace(" *", "*").replace("* ", "*")
            if arr:
                ty += "[]"
            res.append((ty, nm))
        return res

    def method_of(self, suffix):
        D = self.D
        s = suffix
        for pre in ("contains_", "strictly_contains_", "is_disjoint_from_", "geometrically_covers_", "geometrically_equals_"):
            if s == pre + D:
                return pre[:-1]
        if s.startswith("relation_with_"):
            return "relation_with"
        if s in ("unconstrain_space_dimension", "unconstrain_space_dimensions"):
            return "unconstrain"
        if s == "drop_some_non_integer_points_2":
            return "drop_some_non_integer_points"
        s = re.sub(r"_lhs_rhs", "", s)
        if s.startswith("generalized_affine"):
            s = re.sub(r"_with_congruence$", "", s)
        s = re.sub(r"_with_tokens$", "", s)
        return s

    def emit_generic(self, name, params):
        """ppl_<D>_<suffix>(self, inputs...) where every further parameter is an input of a known kind."""
        D = self.D
        suffix = name[len("ppl_%s_" % D):]
        (sty, snm) = params[0]
        if sty not in ("ppl_%s_t" % D, "ppl_const_%s_t" % D):
            return False
        mutates = sty == "ppl_%s_t" % D
        if suffix.startswith("BHZ03_") or suffix.startswith("BGP99_"):
            return False          # certificate-parameterised powerset widenings: no one-to-one C++ method name
        rest = params[1:]
        tokens = False
        kinds = []
        i = 0
        while i < len(rest):
            ty, nm = rest[i]
            if ty == "ppl_dimension_type[]" and i + 1 < len(rest) and rest[i + 1][0] == "size_t":
                if "map_space_dimensions" in suffix:
                    kinds.append(("MAPARR", nm)); i += 2; continue
                kinds.append(("DIMARR", nm)); i += 2; continue
            if ty == "unsigned*" and nm == "tp":
                kinds.append(("TOKENS", nm)); tokens = True; i += 1; continue
            kinds.append((ty, nm)); i += 1
        variants_per_arg = []
        for k, (ty, nm) in enumerate(kinds):
            a = "a%d" % k
            if ty == "DIMARR":
                V = [("ok", "cif::DimArr %s({0});" % a, "%s.p(), %s.n()" % (a, a), "%s.vs()" % a, ""),
                     ("two", "cif::DimArr %s({0, 1});" % a, "%s.p(), %s.n()" % (a, a), "%s.vs()" % a, ""),
                     ("dim7", "cif::DimArr %s({0, 7});" % a, "%s.p(), %s.n()" % (a, a), "%s.vs()" % a, "")]
            elif ty == "MAPARR":
                def mv(tag, items):
                    nd = "ppl_dimension_type nd_%s; ppl_not_a_dimension(&nd_%s); " % (a, a)
                    return (tag, nd + "cif::DimArr %s({%s});" % (a, ", ".join(("nd_%s" % a) if x is None else str(x) for x in items)),
                            "%s.p(), %s.n()" % (a, a), "cif::PFunc(%s.v)" % a, "")
                # defined positions: all, last only, FIRST only, none, not injective; on the 3-dimensional recipe (tags d3-):
                # middle only, first only, last only, a rotation, two of three, longer than the space dimension
                V = [mv("ok", [1, 0]), mv("drop", [None, 0]), mv("first-only", [0, None]), mv("none", [None, None]), mv("notinj", [0, 0]),
                     mv("swap-first-only-1", [1, None]),
                     mv("d3-middle-only", [None, 0, None]), mv("d3-first-only", [0, None, None]), mv("d3-last-only", [None, None, 0]),
                     mv("d3-rotate", [2, 0, 1]), mv("d3-two", [1, None, 0]), mv("d3-too-long", [0, 1, 2, 3])]
            elif ty == "TOKENS":
                V = [("ok", "unsigned tk_c = 2, tk_m = 2;", "&tk_c", "&tk_m", ""),
                     ("tok0", "unsigned tk_c = 0, tk_m = 0;", "&tk_c", "&tk_m", "")]
            else:
                V = self.arg_variants(ty, nm, suffix, k)
                if V is None:
                    return False
            variants_per_arg.append(V)
        meth = self.method_of(suffix)
        widening = any(x in suffix for x in ("widening", "extrapolation"))
        narrowing = "narrowing" in suffix
        equals = suffix == "equals_" + D
        # tuples: all-valid, then one-at-a-time
        tuples = [tuple(0 for _ in variants_per_arg)]
        for k, V in enumerate(variants_per_arg):
            for j in range(1, len(V)):
                t = [0] * len(variants_per_arg); t[k] = j
                tuples.append(tuple(t))
        # entries with a complexity switch AND a set of variables: every complexity x every subset
        ki = [k for k, (ty, nm) in enumerate(kinds) if ty == "DIMARR"]
        kc = [k for k, (ty, nm) in enumerate(kinds) if ty == "int" and nm == "complexity"]
        if ki and kc:
            if "non_integer" in suffix:
                variants_per_arg[ki[0]] += [("second", "cif::DimArr a%d({1});" % ki[0], "a%d.p(), a%d.n()" % (ki[0], ki[0]), "a%d.vs()" % ki[0], ""),
                                            ("nonevars", "cif::DimArr a%d({});" % ki[0], "a%d.p(), a%d.n()" % (ki[0], ki[0]), "a%d.vs()" % ki[0], "")]
            for vi in range(len(variants_per_arg[ki[0]])):
                for vj in range(len(variants_per_arg[kc[0]])):
                    t = [0] * len(variants_per_arg); t[ki[0]] = vi; t[kc[0]] = vj
                    if tuple(t) not in tuples:
                        tuples.append(tuple(t))
        recipes = list(self.recipes)
        if "non_integer" in suffix:
            recipes = [49] + recipes          # 49: bounds at half-integers in every variable, so that the points dropped depend on the variables given
        for ti, tup in enumerate(tuples):
            tag0 = "+".join(variants_per_arg[k][j][0] for k, j in enumerate(tup))
            for r in (recipes if ti == 0 else ([5] if "d3-" in tag0 else recipes[:1])):
                tag = "+".join(variants_per_arg[k][j][0] for k, j in enumerate(tup)) or "noargs"
                decls = [variants_per_arg[k][j][1] for k, j in enumerate(tup)]
                cargs = [variants_per_arg[k][j][2] for k, j in enumerate(tup)]
                margs = [variants_per_arg[k][j][3] for k, j in enumerate(tup)]
                watches = [variants_per_arg[k][j][4] for k, j in enumerate(tup) if variants_per_arg[k][j][4]]
                if "ytopol" in tag and name in self.topo_unchecked:
                    # undefined behaviour inside the entry (operands of different topologies are cast alike): probe in a child
                    self.w("  { Dom::T* proto = Dom::make(%d); cif::Obj<Dom> s(*proto); cif::Obj<Dom> a0(%d);" % (r, self.y_recipe(r) ^ 8))
                    self.w("    cif::forked_call(\"%s\", \"%s/r%d\", [&] { return %s(s.h, a0.ch()); }); delete proto; }" % (name, tag, r, name))
                    continue
                self.w("  { // %s" % name)
                self.w("    const unsigned DIM = cif::recipe_dim(%d); (void) DIM; const int RECIPE_Y = %d; (void) RECIPE_Y;" % (r, self.y_recipe(r)))
                self.w("    cif::Watch W;")
                for d in decls:
                    self.w("    " + d)
                for wl in watches:
                    self.w("    " + wl)
                self.w("    Dom::T* proto = Dom::make(%d);" % r)
                if widening and kinds and kinds[0][0] == "ppl_const_%s_t" % D and tup[0] == 0:
                    self.w("    proto->upper_bound_assign(a0.t());       // precondition of widenings: x contains y")
                if narrowing and tup and tup[0] == 0:
                    self.w("    proto->intersection_assign(a0.t());      // precondition of narrowings: y contains x")
                if equals:
                    mexpr = "RET((t == %s))" % margs[0]
                elif self.is_poly and (meth.endswith("_if_exact") or meth == "positive_time_elapse_assign"):
                    # C_Polyhedron / NNC_Polyhedron methods: the C++ API is type-safe; the C entry must reject mixed topologies
                    y0 = margs[0]
                    mexpr = ("RET((t.topology() != (%s).topology() ? throw std::invalid_argument(\"topology-incompatible operands\")"
                             " : t.topology() == NECESSARILY_CLOSED ? static_cast<C_Polyhedron&>(t).%s(static_cast<const C_Polyhedron&>(%s))"
                             " : static_cast<NNC_Polyhedron&>(t).%s(static_cast<const NNC_Polyhedron&>(%s))))" % (y0, meth, y0, meth, y0))
                else:
                    mexpr = "RET(t.%s(%s))" % (meth, ", ".join(margs))
                extra = "nullptr"
                if tokens:
                    extra = "[&]() -> bool { return tk_c == tk_m; }"
                self.w("    cif::run_self<Dom>(\"%s\", \"%s/r%d\", *proto, %s," % (name, tag, r, "true" if mutates else "false"))
                self.w("      [&](Dom::H h) { return %s(%s); }," % (name, ", ".join(["h"] + cargs)))
                self.w("      [&](Dom::T& t) { return %s; }, &W, %s);" % (mexpr, extra))
                self.w("    delete proto;")
                self.w("  }")
        return True

    def y_recipe(self, r):
        base = {1: 2, 2: 3, 3: 1, 4: 1, 0: 2, 7: 1}.get(r % 8, 1)
        return base + (r // 8) * 8

    def emit_new(self, name, params):
        """ppl_new_<TOP><D>_from_<X>[...] / recycle"""
        D = self.D
        m = re.match(r"ppl_new_(C_|NNC_)?%s_(from|recycle)_(.*)$" % re.escape(D), name)
        if not m or params[0][0] != "ppl_%s_t*" % D:
            return False
        top, how, what = m.group(1) or "", m.group(2), m.group(3)
        T = (top + "Polyhedron") if self.is_poly else "Dom::T"
        rest = params[1:]
        if what == "space_dimension":
            for d, e in ((2, 0), (3, 1), (0, 0), (2, 1)):
                dd = "maxd" if d == "MAX" else str(d)
                self.w("  { ppl_dimension_type maxd = 0; ppl_max_space_dimension(&maxd); ++maxd;")
                self.w("    cif::run_new<Dom>(\"%s\", \"d%s-e%d\", [&](Dom::H* ph) { return %s(ph, %s, %d); }," % (name, d, e, name, dd, e))
                self.w("      [&]() -> Dom::T* { return new %s(%s, %s); }); }" % (T, dd, "EMPTY" if e else "UNIVERSE"))
            return True
        wc = what.endswith("_with_complexity")
        if wc:
            what = what[:-len("_with_complexity")]
        sysmap = {"Constraint_System": "CCS", "Congruence_System": "CCgS", "Generator_System": "CGS", "Grid_Generator_System": "CGGS"}
        if what in sysmap:
            V = self.arg_variants(rest[0][0], rest[0][1], name, 0)
            if V is None:
                return False
            for (tag, decl, c, mm, wl) in V:
                self.w("  { const unsigned DIM = 2; (void) DIM; cif::Watch W; %s %s" % (decl, wl))
                self.w("    cif::run_new<Dom>(\"%s\", \"%s\", [&](Dom::H* ph) { return %s(ph, %s); }," % (name, tag, name, c))
                recyc = ", Recycle_Input()" if (how == "recycle" and self.D in ("Polyhedron", "Grid")) else ""
                self.w("      [&]() -> Dom::T* { return new %s(%s%s); }, &W); }" % (T, mm, recyc))
            return True
        # from a friend domain (possibly the same): the friend object is built in C++
        friend = what
        ftop = ""
        if friend in ("C_Polyhedron", "NNC_Polyhedron"):
            fcpp, fint = friend, "Polyhedron"
        elif friend in self.all:
            fcpp, fint = cpp_type(self.all[friend]), friend
        else:
            return False
        if rest[0][0] != "ppl_const_%s_t" % fint:
            return False
        cx = ["2", "0", "1"] if wc else [None]
        for r in (1, 2, 4):
            for c in cx:
                self.w("  { typedef %s F; F* f = new F(2, %s); %s" % (fcpp, "EMPTY" if r == 4 else "UNIVERSE",
                       "cif::refine_recipe(*f, %d, 2, 2);" % r if r != 4 else ""))
                carg = "reinterpret_cast<ppl_const_%s_t>(f)" % fint
                if wc:
                    self.w("    cif::run_new<Dom>(\"%s\", \"r%d-cc%s\", [&](Dom::H* ph) { return %s(ph, %s, %s); }," % (name, r, c, name, carg, c))
                    self.w("      [&]() -> Dom::T* { return new %s(*f, cif::cc_cxx(%s)); });" % (T, c))
                else:
                    self.w("    cif::run_new<Dom>(\"%s\", \"r%d\", [&](Dom::H* ph) { return %s(ph, %s); }," % (name, r, name, carg))
                    self.w("      [&]() -> Dom::T* { return new %s(*f); });" % T)
                self.w("    delete f; }")
        return True

    def emit_special(self, name, params):
        D = self.D
        pre = "ppl_%s_" % D
        suffix = name[len(pre):] if name.startswith(pre) else None
        ptypes = [p[0] for p in params]
        R = self.recipes
        if suffix in ("space_dimension", "affine_dimension") and ptypes == ["ppl_const_%s_t" % D, "ppl_dimension_type*"]:
            for r in R + [5, 6, 4]:
                self.w("  { Dom::T* proto = Dom::make(%d); ppl_dimension_type out = 99;" % r)
                self.w("    cif::run_self<Dom>(\"%s\", \"r%d\", *proto, false, [&](Dom::H h) { return %s(h, &out); }," % (name, r, name))
                self.w("      [&](Dom::T& t) { (void) t.%s(); return 0; }, nullptr, [&]() -> bool { return out == proto->%s(); }); delete proto; }" % (suffix, suffix))
            return True
        if suffix in ("external_memory_in_bytes", "total_memory_in_bytes", "size") and ptypes == ["ppl_const_%s_t" % D, "size_t*"]:
            for r in R:
                self.w("  { Dom::T* proto = Dom::make(%d); size_t out = 0;" % r)
                chk = "out == proto->size()" if suffix == "size" else "out > 0 || true"
                self.w("    cif::run_self<Dom>(\"%s\", \"r%d\", *proto, false, [&](Dom::H h) { return %s(h, &out); }," % (name, r, name))
                self.w("      [&](Dom::T& t) { (void) t.%s(); return 0; }, nullptr, [&]() -> bool { return %s; }); delete proto; }" % (suffix, chk))
            return True
        m = re.match(r"get_(minimized_)?(constraints|congruences|generators|grid_generators)$", suffix or "")
        if m and len(params) == 2:
            sysn = {"constraints": "Constraint_System", "congruences": "Congruence_System", "generators": "Generator_System",
                    "grid_generators": "Grid_Generator_System"}[m.group(2)]
            meth = (m.group(1) or "") + m.group(2)
            for r in R + [4]:
                self.w("  { Dom::T* proto = Dom::make(%d); ppl_const_%s_t out = 0; std::string want;" % (r, sysn))
                if name in self.dangling:
                    # the compiler reports that the address of a temporary is stored in *pcs: never dereference it
                    self.w("    cif::run_self<Dom>(\"%s\", \"r%d-dangling-not-dereferenced\", *proto, false, [&](Dom::H h) { return %s(h, &out); }," % (name, r, name))
                    self.w("      [&](Dom::T& t) { (void) t.%s(); return 0; }); delete proto; }" % meth)
                    continue
                self.w("    cif::run_self<Dom>(\"%s\", \"r%d\", *proto, false, [&](Dom::H h) { return %s(h, &out); }," % (name, r, name))
                self.w("      [&](Dom::T& t) { want = cif::xdump(t.%s()); return 0; }, nullptr," % meth)
                self.w("      [&]() -> bool { return out != 0 && cif::cdump<ppl_const_%s_t>(ppl_%s_ascii_dump, out) == want; }); delete proto; }" % (sysn, sysn))
            return True
        m = re.match(r"(maximize|minimize)(_with_point)?$", suffix or "")
        if m:
            wp = bool(m.group(2))
            for r in R + [4]:
                for le in ((3, "DIM"), (4, "DIM"), (5, "6")):
                    self.w("  { const unsigned DIM = cif::recipe_dim(%d); (void) DIM; Dom::T* proto = Dom::make(%d); cif::CLE le(%d, %s);" % (r, r, le[0], le[1]))
                    self.w("    cif::CCoef n(77), d(78); int opt = 5; Coefficient mn(77), md(78); bool mopt = false; int mres = 0; cif::CGen g(1, 1, 0); Generator mg = point();")
                    self.w("    cif::run_self<Dom>(\"%s\", \"r%d-le%d%s\", *proto, false," % (name, r, le[0], le[1]))
                    self.w("      [&](Dom::H h) { return %s(h, le.h, n.h, d.h, &opt%s); }," % (name, ", g.h" if wp else ""))
                    self.w("      [&](Dom::T& t) { mres = RET(t.%s(cif::cxx((ppl_const_Linear_Expression_t) le.h), mn, md, mopt%s)); return mres; }, nullptr," % (m.group(1), ", mg" if wp else ""))
                    self.w("      [&]() -> bool { return mres == 0 || cif::cxx((ppl_const_Coefficient_t) n.h) == mn && cif::cxx((ppl_const_Coefficient_t) d.h) == md && (opt != 0) == mopt%s; });" %
                           (" && cif::xdump(cif::cxx((ppl_const_Generator_t) g.h)) == cif::xdump(mg)" if wp else ""))
                    self.w("    delete proto; }")
            return True
        if suffix == "frequency" and len(params) == 6:
            for r in R:
                for le in ((3, "DIM"), (5, "6")):
                    self.w("  { const unsigned DIM = cif::recipe_dim(%d); (void) DIM; Dom::T* proto = Dom::make(%d); cif::CLE le(%d, %s);" % (r, r, le[0], le[1]))
                    self.w("    cif::CCoef c1(71), c2(72), c3(73), c4(74); Coefficient m1(71), m2(72), m3(73), m4(74); int mres = 0;")
                    self.w("    cif::run_self<Dom>(\"%s\", \"r%d-le%d%s\", *proto, false," % (name, r, le[0], le[1]))
                    self.w("      [&](Dom::H h) { return %s(h, le.h, c1.h, c2.h, c3.h, c4.h); }," % name)
                    self.w("      [&](Dom::T& t) { mres = RET(t.frequency(cif::cxx((ppl_const_Linear_Expression_t) le.h), m1, m2, m3, m4)); return mres; }, nullptr,")
                    self.w("      [&]() -> bool { return mres == 0 || cif::cxx((ppl_const_Coefficient_t) c1.h) == m1 && cif::cxx((ppl_const_Coefficient_t) c2.h) == m2 && cif::cxx((ppl_const_Coefficient_t) c3.h) == m3 && cif::cxx((ppl_const_Coefficient_t) c4.h) == m4; });")
                    self.w("    delete proto; }")
            return True
        m = re.match(r"ppl_assign_(C_|NNC_)?%s_from_(C_|NNC_)?%s$" % (re.escape(D), re.escape(D)), name)
        if m:
            top = m.group(1) or ""
            off = 8 if top == "NNC_" else 0
            T = (top + "Polyhedron") if self.is_poly else "Dom::T"
            for r, ry in ((1, 2), (2, 5), (3, 4)):
                self.w("  { Dom::T* proto = Dom::make(%d); cif::Obj<Dom> y(%d); cif::Watch W; W.add_sem<Dom::T>(&y.t(), Dom::clone(y.t()));" % (r + off, ry + off))
                self.w("    cif::run_self<Dom>(\"%s\", \"r%d-y%d\", *proto, true, [&](Dom::H h) { return %s(h, y.ch()); }," % (name, r, ry, name))
                self.w("      [&](Dom::T& t) { static_cast<%s&>(t) = static_cast<const %s&>(y.t()); return 0; }, &W); delete proto; }" % (T, T))
            return True
        if name == "ppl_delete_" + D:
            for r in R:
                self.w("  { long before = cif::live; Dom::T* p = Dom::make(%d); cif::seen.clear(); int r = %s(Dom::hnd(p));" % (r, name))
                self.w("    cif::emit(\"T\", \"%s\", \"r%d\", \"ret\", 0, r, -1, 1, 1, 1, cif::live - before, \"\"); }" % (name, r))
            return True
        m = re.match(r"ppl_io_(print|fprint|asprint)_%s$" % re.escape(D), name)
        if m:
            kind = m.group(1)
            for r in R + [4]:
                self.w("  { Dom::T* proto = Dom::make(%d); std::string got, want; char* sp = 0;" % r)
                self.w("    cif::run_self<Dom>(\"%s\", \"r%d\", *proto, false, [&](Dom::H h) {" % (name, r))
                if kind == "asprint":
                    self.w("        sp = 0; int r = %s(&sp, h); cif::disarm(); if (sp) { got = sp; free(sp); } return r; }," % name)
                elif kind == "fprint":
                    self.w("        char* b = 0; size_t l = 0; FILE* f = open_memstream(&b, &l); int r = %s(f, h); cif::disarm(); fclose(f); got = std::string(b, l); free(b); return r; }," % name)
                else:
                    self.w("        fflush(stdout); FILE* keep = stdout; char* b = 0; size_t l = 0; stdout = open_memstream(&b, &l); int r = %s(h); cif::disarm(); fclose(stdout); stdout = keep; got = std::string(b, l); free(b); return r; }," % name)
                self.w("      [&](Dom::T& t) { using namespace IO_Operators; std::ostringstream s; s << t; want = s.str(); return 0; }, nullptr,")
                self.w("      [&]() -> bool { return got == want; }); delete proto; }")
            return True
        if suffix == "ascii_dump":
            for r in R:
                self.w("  { Dom::T* proto = Dom::make(%d); std::string got, want;" % r)
                self.w("    cif::run_self<Dom>(\"%s\", \"r%d\", *proto, false, [&](Dom::H h) { char* b = 0; size_t l = 0; FILE* f = open_memstream(&b, &l); int r = %s(h, f); cif::disarm(); fclose(f); got = std::string(b, l); free(b); return r; }," % (name, r, name))
                self.w("      [&](Dom::T& t) { want = cif::xdump(t); return 0; }, nullptr, [&]() -> bool { return got == want; }); delete proto; }")
            return True
        if suffix == "ascii_load":
            for r, ry in ((1, 2), (2, 5), (1, -1)):
                self.w("  { Dom::T* proto = Dom::make(%d); std::string src = %s;" % (r, ("cif::xdump(*std::unique_ptr<Dom::T>(Dom::make(%d)))" % ry) if ry >= 0 else "std::string(\"garbage 1 2 3\")"))
                self.w("    cif::run_self<Dom>(\"%s\", \"r%d-y%d\", *proto, true, [&](Dom::H h) { FILE* f = fmemopen((void*) src.data(), src.size(), \"r\"); int r = %s(h, f); fclose(f); return r; }," % (name, r, ry, name))
                self.w("      [&](Dom::T& t) { std::istringstream s(src); return t.ascii_load(s) ? 0 : (int) PPL_STDIO_ERROR; }, nullptr, nullptr, false); delete proto; }")
            return True
        return False

    # ---- patterns added for coverage: termination / ranking functions, wrap_assign, linear_partition, box bounds,
    #      powerset iterators / disjuncts / certificate widenings (valid calls + a few ill-formed ones)
    def emit_more(self, name, params):
        D = self.D
        ptypes = [p[0] for p in params]
        R = self.recipes
        m = re.match(r"ppl_(termination_test|one_affine_ranking_function|all_affine_ranking_functions)_(MS|PR)_(C_|NNC_)?%s(_2)?$" % re.escape(D), name)
        if m:
            kind, meth, top, two = m.group(1), m.group(2), m.group(3) or "", bool(m.group(4))
            off = 8 if top == "NNC_" else 0
            TT = (top + "Polyhedron") if self.is_poly else "Dom::T"
            fn = "%s_%s%s" % (kind, meth, "_2" if two else "")
            # (recipe of pset / before, extra dims of pset / after, tag): valid shapes first, then a dimension mismatch
            shapes = [(1, 2, "ok"), (2, 2, "ok2"), (1, 1, "baddim")] if two else [(1, 2, "ok"), (3, 2, "ok3"), (5, 0, "odd")]
            for r, add, tag in shapes:
                self.w("  { Dom::T* proto = Dom::make(%d);" % (r + off))
                if two:
                    self.w("    Dom::T* pa = Dom::make(%d); pa->add_space_dimensions_and_embed(%d); cif::Obj<Dom> after(*pa); delete pa;" % (r + off, add))
                    cargs, margs = "h, after.ch()", "static_cast<const %s&>(t), static_cast<const %s&>(after.t())" % (TT, TT)
                else:
                    self.w("    proto->add_space_dimensions_and_embed(%d);" % add)
                    cargs, margs = "h", "static_cast<const %s&>(t)" % TT
                if kind == "termination_test":
                    self.w("    cif::run_self<Dom>(\"%s\", \"%s\", *proto, false, [&](Dom::H h) { return %s(%s); }," % (name, tag, name, cargs))
                    self.w("      [&](Dom::T& t) { return RET(Parma_Polyhedra_Library::%s(%s)); }); delete proto; }" % (fn, margs))
                elif kind == "one_affine_ranking_function":
                    self.w("    cif::CGen g(1, 1, 0); Generator mg = point(); int mres = 0;")
                    self.w("    cif::run_self<Dom>(\"%s\", \"%s\", *proto, false, [&](Dom::H h) { return %s(%s, g.h); }," % (name, tag, name, cargs))
                    self.w("      [&](Dom::T& t) { mres = RET(Parma_Polyhedra_Library::%s(%s, mg)); return mres; }, nullptr," % (fn, margs))
                    self.w("      [&]() -> bool { return mres == 0 || cif::xdump(cif::cxx((ppl_const_Generator_t) g.h)) == cif::xdump(mg); }); delete proto; }")
                else:
                    OT = "C_Polyhedron" if meth == "MS" else "NNC_Polyhedron"
                    self.w("    %s* out = new %s(0); %s mout(0);" % (OT, OT, OT))
                    self.w("    cif::run_self<Dom>(\"%s\", \"%s\", *proto, false, [&](Dom::H h) { return %s(%s, reinterpret_cast<ppl_Polyhedron_t>(static_cast<Polyhedron*>(out))); }," % (name, tag, name, cargs))
                    self.w("      [&](Dom::T& t) { Parma_Polyhedra_Library::%s(%s, mout); return 0; }, nullptr," % (fn, margs))
                    self.w("      [&]() -> bool { return *out == mout; }); delete out; delete proto; }")
            return True
        if name == "ppl_%s_wrap_assign" % D and len(params) == 9:
            # (ds, width, representation, overflow, with cs?, individually, tag)
            V = [("{0}", "PPL_BITS_8", "PPL_UNSIGNED", "PPL_OVERFLOW_WRAPS", 0, 1, "ok"),
                 ("{0, 1}", "PPL_BITS_16", "PPL_SIGNED_2_COMPLEMENT", "PPL_OVERFLOW_WRAPS", 1, 0, "cs-collective"),
                 ("{1}", "PPL_BITS_8", "PPL_SIGNED_2_COMPLEMENT", "PPL_OVERFLOW_UNDEFINED", 0, 1, "undefined"),
                 ("{0}", "PPL_BITS_32", "PPL_UNSIGNED", "PPL_OVERFLOW_IMPOSSIBLE", 1, 1, "impossible-cs"),
                 ("{0, 7}", "PPL_BITS_8", "PPL_UNSIGNED", "PPL_OVERFLOW_WRAPS", 0, 1, "dim7"),
                 ("{0}", "PPL_BITS_8", "PPL_UNSIGNED", "PPL_OVERFLOW_WRAPS", 2, 1, "cs-dim6")]
            W = {"PPL_BITS_8": "BITS_8", "PPL_BITS_16": "BITS_16", "PPL_BITS_32": "BITS_32"}
            Rp = {"PPL_UNSIGNED": "UNSIGNED", "PPL_SIGNED_2_COMPLEMENT": "SIGNED_2_COMPLEMENT"}
            O = {"PPL_OVERFLOW_WRAPS": "OVERFLOW_WRAPS", "PPL_OVERFLOW_UNDEFINED": "OVERFLOW_UNDEFINED", "PPL_OVERFLOW_IMPOSSIBLE": "OVERFLOW_IMPOSSIBLE"}
            for ds, w_, r_, o_, cs, ind, tag in V:
                for r in (R if tag == "ok" else R[:1]):
                    self.w("  { Dom::T* proto = Dom::make(%d); cif::DimArr a(%s); cif::CCS cs(3, %s, 2, 0);" % (r, ds, "6" if cs == 2 else "2"))
                    self.w("    ppl_const_Constraint_System_t hcs = %s; const Constraint_System* mcs = %s;" %
                           ("cs.h" if cs else "0", "&cif::cxx((ppl_const_Constraint_System_t) cs.h)" if cs else "0"))
                    self.w("    cif::run_self<Dom>(\"%s\", \"%s/r%d\", *proto, true," % (name, tag, r))
                    self.w("      [&](Dom::H h) { return %s(h, a.p(), a.n(), %s, %s, %s, &hcs, 16, %d); }," % (name, w_, r_, o_, ind))
                    self.w("      [&](Dom::T& t) { t.wrap_assign(a.vs(), %s, %s, %s, mcs, 16, %s); return 0; }); delete proto; }" %
                           (W[w_], Rp[r_], O[o_], "true" if ind else "false"))
            return True
        if name == "ppl_%s_linear_partition" % D and len(params) == 4:
            dang = name in self.dangling
            pnnc = "Pointset_Powerset_NNC_Polyhedron"
            # the rest is deleted through the C API when that domain is interfaced (its object is then linked in)
            delrest = ("ppl_delete_%s(pr)" % pnnc) if pnnc in self.all else "delete reinterpret_cast<Pointset_Powerset<NNC_Polyhedron>*>(pr)"
            cases = [(1, 2, "ok"), (2, 3, "ok2"), (1, 5, "ydim3")]
            if self.is_poly:
                cases += [(9, 10, "nnc"), (10, 11, "nnc2")]
            if self.is_poly:
                self.w("  { Dom::T* proto = Dom::make(1); cif::Obj<Dom> s(*proto); cif::Obj<Dom> y(10); Dom::H pi = 0; ppl_Pointset_Powerset_NNC_Polyhedron_t pr = 0;")
                if name in self.topo_unchecked:
                    self.w("    cif::forked_call(\"%s\", \"ytopol/r1\", [&] { return %s(s.h, y.ch(), &pi, &pr); }); delete proto; }" % (name, name))
                else:
                    self.w("    cif::run_self<Dom>(\"%s\", \"ytopol/r1\", *proto, false, [&](Dom::H h) { int r = %s(h, y.ch(), &pi, &pr); cif::disarm(); if (pi) Dom::cdel(pi); if (pr) %s; pi = 0; pr = 0; return r; }," % (name, name, delrest))
                    self.w("      [&](Dom::T& t) -> int { if (t.topology() != y.t().topology()) throw std::invalid_argument(\"topology-incompatible operands\"); return 0; }); delete proto; }")
            for r, ry, tag in cases:
                self.w("  { Dom::T* proto = Dom::make(%d); cif::Obj<Dom> y(%d); Dom::H pi = 0; ppl_Pointset_Powerset_NNC_Polyhedron_t pr = 0;" % (r, ry))
                self.w("    Dom::T* mi = 0; Pointset_Powerset<NNC_Polyhedron>* mr = 0;")
                TT = "Dom::T"
                call = "linear_partition(t, y.t())"
                if self.is_poly:
                    TT = "NNC_Polyhedron" if r >= 8 else "C_Polyhedron"
                    call = "linear_partition(static_cast<const %s&>(t), static_cast<const %s&>(y.t()))" % (TT, TT)
                mir = ("[&](Dom::T& t) { std::pair<%s, Pointset_Powerset<NNC_Polyhedron> > r = %s; delete mi; delete mr; mi = 0; mr = 0; "
                       "mi = Dom::clone(r.first); mr = new Pointset_Powerset<NNC_Polyhedron>(r.second); return 0; }" % (TT, call))
                if dang:
                    self.w("    cif::run_self<Dom>(\"%s\", \"%s-dangling-not-dereferenced\", *proto, false, [&](Dom::H h) { return %s(h, y.ch(), &pi, &pr); }," % (name, tag, name))
                    self.w("      %s, nullptr," % mir)
                    self.w("      nullptr, false);     // the outputs are addresses of a destroyed local: never dereferenced")
                    self.w("    delete mi; delete mr; delete proto; }")
                    continue
                # outputs are OWNED by the caller: used, compared with the C++ result, deleted; ledger balanced
                self.w("    auto drop = [&] { if (pi) { Dom::cdel(pi); pi = 0; } if (pr) { %s; pr = 0; } };" % delrest)
                self.w("    cif::run_self<Dom>(\"%s\", \"%s\", *proto, false," % (name, tag))
                self.w("      [&](Dom::H h) { pi = 0; pr = 0; int r = %s(h, y.ch(), &pi, &pr); cif::disarm(); if (r != 0 && (pi || pr)) { std::printf(\"X|%s|outputs written although the call failed\\n\"); pi = 0; pr = 0; } if (cif::in_oom) drop(); return r; }," % (name, name))
                self.w("      %s, nullptr," % mir)
                self.w("      [&]() -> bool { bool ok = pi != 0 && pr != 0 && Dom::cok(pi) > 0 && Dom::cxx((Dom::CH) pi) == *mi && cif::xdump(Dom::cxx((Dom::CH) pi)) == cif::xdump(*mi)")
                self.w("                        && *reinterpret_cast<Pointset_Powerset<NNC_Polyhedron>*>(pr) == *mr; drop(); return ok; });")
                # bad_alloc at EVERY allocation point of the entry (also between the two output allocations)
                if tag in ("ok", "nnc"):
                    self.w("    for (int pass = 0; pass < 2; ++pass) for (long k = 1; k < 400; ++k) { long base = cif::live; bool f; int r; { cif::Obj<Dom> s(*proto); cif::seen.clear(); cif::arm(k);")
                    self.w("        pi = 0; pr = 0; r = %s(s.h, y.ch(), &pi, &pr); cif::disarm(); f = cif::fired;" % name)
                    self.w("        if (pass == 1) { int okw = (r == 0) ? (pi != 0 && pr != 0) : (pi == 0 && pr == 0); cif::quiet = false; cif::emit(\"O\", \"%s\", \"%s\", f ? \"BadAlloc\" : \"noalloc\", 0, r, -1, 1, okw, 1, 0, \"\"); }" % (name, tag))
                    self.w("        drop(); }")
                    self.w("      if (pass == 1 && cif::live != base) std::printf(\"L|%s|%s|bad_alloc at allocation %%ld leaked %%ld blocks\\n\", k, cif::live - base);" % (name, tag))
                    self.w("      if (!f) break; }")
                self.w("    drop(); delete mi; delete mr; delete proto; }")
            return True
        m = re.match(r"ppl_%s_has_(upper|lower)_bound$" % re.escape(D), name)
        if m and len(params) == 5:
            for r in R + [4]:
                for var in (0, 1):     # Box::has_*_bound does not check its Variable: an out-of-range one is UB in the C++ operation itself
                    self.w("  { Dom::T* proto = Dom::make(%d); cif::CCoef n(77), d(78); Coefficient mn(77), md(78); int cl = 5; bool mcl = false; int mres = 0;" % r)
                    self.w("    cif::run_self<Dom>(\"%s\", \"r%d-var%d\", *proto, false, [&](Dom::H h) { return %s(h, %d, n.h, d.h, &cl); }," % (name, r, var, name, var))
                    self.w("      [&](Dom::T& t) { mres = RET(t.has_%s_bound(Variable(%d), mn, md, mcl)); return mres; }, nullptr," % (m.group(1), var))
                    self.w("      [&]() -> bool { return mres == 0 || (cif::cxx((ppl_const_Coefficient_t) n.h) == mn && cif::cxx((ppl_const_Coefficient_t) d.h) == md && (cl != 0) == mcl); }); delete proto; }")
            return True
        if not D.startswith("Pointset_Powerset_"):
            return False
        ELEM = "Dom::T::element_type"
        if name == "ppl_%s_add_disjunct" % D and len(params) == 2:
            dh = params[1][0]
            for r, dim, tag in ((1, 2, "ok"), (2, 2, "ok2"), (1, 3, "dim3")):
                self.w("  { Dom::T* proto = Dom::make(%d); %s e(%d); cif::refine_recipe(e, 3, %d, 2);" % (r, ELEM, dim, dim))
                self.w("    cif::run_self<Dom>(\"%s\", \"%s\", *proto, true, [&](Dom::H h) { return %s(h, reinterpret_cast<%s>(&e)); }," % (name, tag, name, dh))
                self.w("      [&](Dom::T& t) { t.add_disjunct(e); return 0; }); delete proto; }")
            return True
        m = re.match(r"ppl_%s_BHZ03_(\w+?)_(\w+?)_widening_assign$" % re.escape(D), name)
        m2 = re.match(r"ppl_%s_BGP99_(\w+?)_extrapolation_assign$" % re.escape(D), name)
        if m or m2:
            for r in R[:3]:
                ry = self.y_recipe(r)
                self.w("  { Dom::T* proto = Dom::make(%d); cif::Obj<Dom> y(%d); proto->upper_bound_assign(y.t());" % (r, ry))
                if m:
                    call, mir = "%s(h, y.ch())" % name, "t.BHZ03_widening_assign<%s_Certificate>(y.t(), widen_fun_ref(&%s::%s_widening_assign))" % (m.group(1), ELEM, m.group(2))
                else:
                    call, mir = "%s(h, y.ch(), 2)" % name, "t.BGP99_extrapolation_assign(y.t(), widen_fun_ref(&%s::%s_widening_assign), 2)" % (ELEM, m2.group(1))
                self.w("    cif::run_self<Dom>(\"%s\", \"ok/r%d\", *proto, true, [&](Dom::H h) { return %s; }," % (name, r, call))
                self.w("      [&](Dom::T& t) { %s; return 0; }); delete proto; }" % mir)
            return True
        if name == "ppl_new_%s_iterator" % D:
            # one composite walk drives every iterator / const_iterator entry and drop_disjunct(s)
            pm = {p["name"]: p for p in self.protos}
            need = ["ppl_new_%s_%s" % (D, k) for k in ("iterator", "const_iterator", "iterator_from_iterator", "const_iterator_from_const_iterator")] + \
                   ["ppl_%s_%s_%s" % (D, k, op) for k in ("iterator", "const_iterator") for op in ("begin", "end", "equal_test", "increment", "decrement", "dereference")] + \
                   ["ppl_delete_%s_iterator" % D, "ppl_delete_%s_const_iterator" % D, "ppl_%s_drop_disjunct" % D, "ppl_%s_drop_disjuncts" % D]
            if any(n not in pm for n in need):
                return False
            dh = self.parse_params(pm["ppl_%s_iterator_dereference" % D]["params"])[1][0].rstrip("*")
            w = self.w
            w("  for (int pass = 0; pass < 2; ++pass) { cif::quiet = (pass == 0); long base = cif::live; {")
            w("    Dom::T* proto = Dom::make(1); for (int k = 2; k <= 3; ++k) { std::unique_ptr<Dom::T> o(Dom::make(k)); for (Dom::T::const_iterator i = o->begin(); i != o->end(); ++i) proto->add_disjunct(i->pointset()); }")
            w("    cif::Obj<Dom> s(*proto); Dom::T* twin = Dom::clone(*proto); delete proto; int r; %s d = 0;" % dh)
            w("#define CIF_STEP(NAME, CALL, MV, OK) cif::seen.clear(); r = (CALL); cif::emit(\"T\", NAME, \"composite\", \"ret\", (MV), r, -1, 1, 1, (OK) ? 1 : 0, 0, \"\");")
            for kind in ("iterator", "const_iterator"):
                K = "%s_%s" % (D, kind)
                HT, CHT = "ppl_%s_t" % K, "ppl_const_%s_t" % K
                TI = "Dom::T::%s" % kind
                sh = "s.h" if kind == "iterator" else "s.ch()"
                tw = "twin" if kind == "iterator" else "static_cast<const Dom::T*>(twin)"
                w("    { %s it = 0, en = 0, cp = 0; %s ti = %s->begin(); size_t n = 0;" % (HT, TI, tw))
                w("      CIF_STEP(\"ppl_new_%s\", ppl_new_%s(&it), 0, it != 0) CIF_STEP(\"ppl_new_%s\", ppl_new_%s(&en), 0, en != 0)" % (K, K, K, K))
                w("      CIF_STEP(\"ppl_%s_begin\", ppl_%s_begin(%s, it), 0, true) CIF_STEP(\"ppl_%s_end\", ppl_%s_end(%s, en), 0, true)" % (K, K, sh, K, K, sh))
                w("      for (;;) { int at_end = (ti == %s->end()) ? 1 : 0; CIF_STEP(\"ppl_%s_equal_test\", ppl_%s_equal_test(it, en), at_end, true) if (r != 0 || at_end) break;" % (tw, K, K))
                w("        d = 0; CIF_STEP(\"ppl_%s_dereference\", ppl_%s_dereference(it, &d), 0, d != 0 && cif::xdump(*reinterpret_cast<const %s*>(d)) == cif::xdump(ti->pointset()))" % (K, K, ELEM))
                w("        CIF_STEP(\"ppl_%s_increment\", ppl_%s_increment(it), 0, true) ++ti; ++n; }" % (K, K))
                w("      CIF_STEP(\"ppl_%s_decrement\", ppl_%s_decrement(it), 0, n == twin->size()) --ti;" % (K, K))
                w("      d = 0; CIF_STEP(\"ppl_%s_dereference\", ppl_%s_dereference(it, &d), 0, d != 0 && cif::xdump(*reinterpret_cast<const %s*>(d)) == cif::xdump(ti->pointset()))" % (K, K, ELEM))
                w("      CIF_STEP(\"ppl_new_%s_from_%s\", ppl_new_%s_from_%s(&cp, it), 0, cp != 0) CIF_STEP(\"ppl_%s_equal_test\", ppl_%s_equal_test(cp, it), 1, true)" % (K, kind, K, kind, K, K))
                if kind == "iterator":
                    w("      CIF_STEP(\"ppl_%s_drop_disjunct\", ppl_%s_drop_disjunct(s.h, it, cp), 0, true) ti = twin->drop_disjunct(ti);" % (D, D))
                    w("      CIF_STEP(\"ppl_%s_equal_test\", ppl_%s_equal_test(cp, en), (ti == twin->end()) ? 1 : 0, s.dump() == cif::xdump(*twin))" % (K, K))
                    w("      ppl_%s_begin(s.h, it); ppl_%s_end(s.h, en); ppl_%s_decrement(en); Dom::T::iterator te = twin->end(); --te;" % (K, K, K))
                    w("      CIF_STEP(\"ppl_%s_drop_disjuncts\", ppl_%s_drop_disjuncts(s.h, it, en), 0, true) twin->drop_disjuncts(twin->begin(), te);" % (D, D))
                    w("      cif::seen.clear(); cif::emit(\"T\", \"ppl_%s_drop_disjuncts\", \"composite-result\", \"ret\", 0, 0, (s.dump() == cif::xdump(*twin)) ? 1 : 0, 1, (ppl_%s_OK(s.ch()) > 0) ? 1 : 0, 1, 0, \"\");" % (D, D))
                w("      CIF_STEP(\"ppl_delete_%s\", ppl_delete_%s(it), 0, true) CIF_STEP(\"ppl_delete_%s\", ppl_delete_%s(en), 0, true) CIF_STEP(\"ppl_delete_%s\", ppl_delete_%s(cp), 0, true) }" % (K, K, K, K, K, K))
            w("#undef CIF_STEP")
            w("    delete twin; }")
            w("    if (!cif::quiet && cif::live != base) std::printf(\"L|ppl_new_%s_iterator|composite|iterator walk leaked %%ld blocks\\n\", cif::live - base); }" % D)
            self.composite = [n for n in need if n != name]
            return True
        return False

    def generate(self):
        D = self.D
        w = self.w
        w("// GENERATED by tools/gen_cif.py for the interfaced domain %s -- do not edit" % D)
        w("#include \"cif_support.hh\"")
        w("#include <memory>")
        w("typedef %s T_%s;" % (self.cpp, D))
        w("namespace cif { CIF_CXX(%s, T_%s) }" % (D, D))
        w("struct Dom {")
        w("  typedef T_%s T; typedef ppl_%s_t H; typedef ppl_const_%s_t CH;" % (D, D, D))
        w("  static const char* name() { return \"%s\"; }" % D)
        w("  static T& cxx(H h) { return cif::cxx(h); }")
        w("  static const T& cxx(CH h) { return cif::cxx(h); }")
        w("  static H hnd(T* p) { return cif::hnd(p); }")
        if self.is_poly:
            w("  static T* clone(const T& x) { return x.topology() == NECESSARILY_CLOSED ? (T*) new C_Polyhedron(static_cast<const C_Polyhedron&>(x)) : (T*) new NNC_Polyhedron(static_cast<const NNC_Polyhedron&>(x)); }")
            w("  static T* make(int r) { unsigned dim = cif::recipe_dim(r); Degenerate_Element k = (r % 8 == 4) ? EMPTY : UNIVERSE;")
            w("    T* t = ((r / 8) % 2 == 1) ? (T*) new NNC_Polyhedron(dim, k) : (T*) new C_Polyhedron(dim, k);")
        else:
            w("  static T* clone(const T& x) { return new T(x); }")
            w("  static T* make(int r) { unsigned dim = cif::recipe_dim(r); Degenerate_Element k = (r % 8 == 4) ? EMPTY : UNIVERSE;")
            w("    T* t = new T(dim, k);")
        w("    if (r %% 8 != 0 && r %% 8 != 4 && r %% 8 != 6) { cif::refine_recipe(*t, r %% 8 + %d, dim, 1 + (r %% 8) %% 3); cif::apply_modifier(*t, r, r %% 8 + %d, dim, 1 + (r %% 8) %% 3); }" % (self.seed % 5, self.seed % 5))
        w("    return t; }")
        w("  static int cdump(CH h, FILE* f) { return ppl_%s_ascii_dump(h, f); }" % D)
        w("  static int cok(CH h) { return ppl_%s_OK(h); }" % D)
        w("  static int cdel(CH h) { return ppl_delete_%s(h); }" % D)
        w("};")
        self.preamble_end = len(self.out)
        fns = []
        self.fn_ranges = []
        for p in self.protos:
            name = p["name"]
            params = self.parse_params(p["params"])
            n0 = len(self.out)
            w("static void t_%s() {" % name)
            ok = False
            try:
                ok = self.emit_special(name, params) or self.emit_more(name, params) or self.emit_new(name, params) or \
                     (name.startswith("ppl_%s_" % D) and self.emit_generic(name, params))
            except Exception as e:      # a pattern that does not fit: leave the entry undriven
                ok = False
            if not ok:
                del self.out[n0:]
                self.undriven.append(name)
            else:
                self.driven.append(name)
                w("}")
                fns.append("t_" + name)
                self.fn_ranges.append(("t_" + name, n0, len(self.out)))
        # entries driven inside a composite case are not "undriven"
        comp = set(getattr(self, "composite", []))
        self.driven += [n for n in self.undriven if n in comp]
        self.undriven = [n for n in self.undriven if n not in comp]
        w("int main() {")
        w("  setvbuf(stdout, 0, _IOLBF, 1 << 16);")
        w("  if (ppl_initialize() != 0) { std::printf(\"X|ppl_initialize|failed\\n\"); return 2; }")
        w("  ppl_set_error_handler(cif::handler);")
        w("  cif::seed(%d);" % self.seed)
        for f in fns:
            w("  %s();" % f)
        w("  std::printf(\"S|created=%ld|deleted=%ld|cases=%ld|live=%ld\\n\", cif::created, cif::deleted, cif::cases, cif::live);")
        w("  ppl_finalize();")
        w("  return 0;")
        w("}")
        return "\n".join(self.out) + "\n"

    def generate_chunks(self, n):
        """The same driver split into n translation units (compiled in parallel): chunk 0 holds main()."""
        self.generate()
        pre = self.out[:self.preamble_end]
        # cif_support.hh defines operator new and non-inline functions: only one TU may define them
        main_start = self.fn_ranges[-1][2] if self.fn_ranges else self.preamble_end
        srcs = []
        per = (len(self.fn_ranges) + n - 1) // max(n, 1)
        for k in range(n):
            part = self.fn_ranges[k * per:(k + 1) * per]
            body = []
            for (f, a, b) in part:
                body += [l.replace("static void t_", "void t_", 1) if i == 0 else l for i, l in enumerate(self.out[a:b])]
            head = list(pre)
            if k != 0:
                head[1] = "#define CIF_SECONDARY_TU\n" + head[1]
            if k == 0:
                decls = ["void %s();" % f for (f, a, b) in self.fn_ranges]
                srcs.append("\n".join(head + decls + body + self.out[main_start:]) + "\n")
            else:
                srcs.append("\n".join(head + body) + "\n")
        return srcs
