"""C07: generation of PIP_Problem histories, their rendering for harness/run_pip.cc, and the
bookkeeping of what problem the library object denotes after each operation (so that the judge can
be given, at every solve step, the problem the tree has to be right for).

A history is a list of ops (lists):  ["new",d] ["newcs",d,[params],[cons]] ["par",[i..]] ["dims",mv,mp]
["con",(kind,k0,[a..])] ["cons",[con..]] ["ctl",v] ["big",i] ["copy"] ["assign"] ["solve",mode].
A constraint is (kind, k0, coeffs) with kind in "EGS":  sum a_i x_i + k0  (= | >= | >)  0."""
import random

KINDS = "EGS"


def render(cid, ops):
    out = ["case %s" % cid]
    def con_line(c):
        return "con %s %d %d %s" % (c[0], c[1], len(c[2]), " ".join(str(a) for a in c[2]))
    for op in ops:
        k = op[0]
        if k == "new":
            out.append("new %d" % op[1])
        elif k == "newcs":
            out.append("newcs %d %d %s %d" % (op[1], len(op[2]), " ".join(map(str, op[2])), len(op[3])))
            out += [con_line(c) for c in op[3]]
        elif k == "par":
            out.append("par %d %s" % (len(op[1]), " ".join(map(str, op[1]))))
        elif k == "dims":
            out.append("dims %d %d" % (op[1], op[2]))
        elif k == "con":
            out.append(con_line(op[1]))
        elif k == "cons":
            out.append("cons %d" % len(op[1]))
            out += [con_line(c) for c in op[1]]
        elif k == "ctl":
            out.append("ctl %d" % op[1])
        elif k == "big":
            out.append("big %d" % op[1])
        elif k in ("copy", "assign"):
            out.append(k)
        elif k == "solve":
            out.append("solve %s" % op[1])
        else:
            raise ValueError(op)
    out.append("end")
    return "\n".join(out) + "\n"


class State:
    """The problem denoted by the object: dimension, parameter set, constraints, big parameter."""
    def __init__(self):
        self.dim = 0; self.params = set(); self.cons = []; self.big = -1; self.ctl = [0, 3]
        self.solved_dim = 0        # internal_space_dim of the library (dims known at the last solve)

    def apply(self, op):
        k = op[0]
        if k == "new":
            self.__init__(); self.dim = op[1]
        elif k == "newcs":
            self.__init__(); self.dim = op[1]; self.params = set(op[2]); self.cons = [c for c in op[3]]
        elif k == "par":
            self.params |= set(op[1])
        elif k == "dims":
            self.dim += op[1]
            for _ in range(op[2]):
                self.params.add(self.dim); self.dim += 1
        elif k == "con":
            self.cons.append(op[1])
        elif k == "cons":
            self.cons += list(op[1])
        elif k == "ctl":
            if op[1] < 3: self.ctl[0] = op[1]
            else: self.ctl[1] = op[1]
        elif k == "big":
            self.big = op[1]
        elif k == "solve":
            self.solved_dim = self.dim

    def snapshot(self):
        return {"dim": self.dim, "flags": [1 if i in self.params else 0 for i in range(self.dim)],
                "cons": [[c[0], c[1], list(c[2]) + [0] * (self.dim - len(c[2]))] for c in self.cons],
                "big": self.big, "ctl": list(self.ctl)}


def snapshots(ops):
    """The problem at every solve step, in order."""
    st = State(); out = []
    for op in ops:
        st.apply(op)
        if op[0] == "solve":
            out.append(st.snapshot())
    return out


def judge_line(rid, snap, status, tree_tokens, bound, bigvals, fuel):
    t = [rid, str(bound), str(len(bigvals))] + [str(b) for b in bigvals] + [str(fuel), str(snap["dim"])]
    t += [str(f) for f in snap["flags"]] + [str(snap["big"]), str(len(snap["cons"]))]
    for c in snap["cons"]:
        t += [c[0], str(c[1]), str(len(c[2]))] + [str(a) for a in c[2]]
    t += [status] + tree_tokens
    return " ".join(t)


# ------------------------------------------------------------------------------------------------
# generators

def rand_con(rng, dim, cmax=4, kmax=6, must=None, p_eq=0.12, p_strict=0.12):
    """A random constraint over `dim` dimensions; `must`: indices of which at least one gets a
    non-zero coefficient (so that constraints added after new dimensions mention them)."""
    while True:
        # sparse-ish rows hit more of the sign analysis than dense ones
        dens = rng.choice([0.5, 0.7, 1.0])
        a = [rng.randint(-cmax, cmax) if rng.random() < dens else 0 for _ in range(dim)]
        if must and not any(a[i] for i in must):
            a[rng.choice(list(must))] = rng.choice([-2, -1, 1, 2])
        if any(a):
            break
    r = rng.random()
    kind = "E" if r < p_eq else ("S" if r < p_eq + p_strict else "G")
    k0 = rng.choice([0, 0, 0]) if rng.random() < 0.3 else rng.randint(-kmax, kmax)
    return (kind, k0, a)


MAX_VARS, MAX_PARAMS, MAX_CONS = 3, 3, 7


def gen_history(rng, shapes=None):
    """One history; returns (ops, tags).  `shapes`: restrict the history shapes."""
    while True:
        ops, tags = _gen_history(rng, shapes)
        snaps = snapshots(ops)
        last = snaps[-1]
        nv = last["flags"].count(0); npar = last["flags"].count(1)
        if nv <= MAX_VARS and npar <= MAX_PARAMS and len(last["cons"]) <= MAX_CONS and nv >= 1:
            return ops, tags


def _gen_embed_eq(rng):
    """Equalities added after embedding at least two new variables into a solved problem that already has
    non-tight inequalities and an equality (the bookkeeping of the special equality row and of the slack
    numbering in the incremental update_tableau): bounded variables, so that the first tree is a plain
    solution node, then new bounded variables tied to the old ones by a new equality."""
    U = rng.choice([12, 20, 30])
    np_ = rng.choice([1, 1, 2])
    dim0 = 1 + np_                       # x, then the parameters
    n = 1                                # index of the first parameter
    cons0 = []
    order = rng.random() < 0.7           # inequality first, then the equality (the seeded shape), or the converse
    ineq = ("G", U, [-1] + [0] * np_)    # x <= U  (not tight)
    cx = 1 if rng.random() < 0.75 else rng.choice([2, 3])
    eq = ("E", rng.randint(0, 3), [-cx, rng.choice([1, 1, 2])] + ([rng.choice([0, 1])] if np_ == 2 else []))   # cx*x == a*n (+ m) + c
    cons0 = [ineq, eq] if order else [eq, ineq]
    if rng.random() < 0.4:
        cons0.insert(rng.randint(0, len(cons0)), ("G", rng.randint(0, 4), [1] + [rng.choice([0, 1])] * np_))   # another slack row
    cut = rng.randint(0, 2); piv = rng.randint(3, 4)
    ops = [["newcs", dim0, list(range(1, dim0)), cons0], ["ctl", cut], ["ctl", piv], ["solve", rng.choice(["solve", "sat", "sol", "opt"])]]
    k = 2
    if rng.random() < 0.5:
        ops.append(["dims", k, 0])
    else:
        ops += [["dims", 1, 0], ["dims", 1, 0]]
    dim = dim0 + k
    y, z = dim0, dim0 + 1
    def vec(d):
        v = [0] * dim
        for i, a in d.items(): v[i] = a
        return v
    later = [("G", U, vec({y: -1})), ("G", U, vec({z: -1}))]
    a, b = rng.choice([1, 1, 2]), rng.choice([1, 2, 2, 3])
    later.append(("E", rng.choice([0, 0, 1]), vec({y: a, z: b, 0: -1})))          # a*y + b*z (+c) == x
    if rng.random() < 0.3:
        later.append(("E", 0, vec({y: 1, z: -1, n: rng.choice([0, 0, -1])})) if rng.random() < 0.5 else ("G", 0, vec({y: 1, z: -1})))
    if rng.random() < 0.5:
        ops.append(["cons", later])
    else:
        ops += [["con", c] for c in later]
    ops.append(["solve", rng.choice(["solve", "sat", "sol", "opt"])])
    return ops, {"shape": "embedeq", "cut": cut, "piv": piv}


def _gen_history(rng, shapes=None):
    nv = rng.choice([1, 1, 2, 2, 2, 3])
    np_ = rng.choice([0, 1, 1, 1, 2, 2])
    dim = nv + np_
    params = sorted(rng.sample(range(dim), np_)) if rng.random() < 0.35 else list(range(nv, dim))
    nc = rng.randint(1, 5)
    cons = [rand_con(rng, dim) for _ in range(nc)]
    cut = rng.randint(0, 2); piv = rng.randint(3, 4)
    shape = rng.choices(["fresh", "addcon", "adddims", "addpar", "mixed", "embedeq"], weights=[38, 20, 13, 11, 10, 8])[0]
    if shapes:
        shape = rng.choice(shapes)
    use_big = bool(params) and rng.random() < 0.22
    if shape == "embedeq":
        return _gen_embed_eq(rng)
    ops = []; tags = {"shape": shape, "cut": cut, "piv": piv}
    # construction route
    if rng.random() < 0.5:
        ops.append(["newcs", dim, params, cons])
        first_cons = []
    else:
        ops.append(["new", dim])
        if params:
            ops.append(["par", params])
        first_cons = cons
    ops.append(["ctl", cut]); ops.append(["ctl", piv])
    if use_big:
        ops.append(["big", rng.choice(params)]); tags["big"] = 1
    mode = lambda: rng.choice(["solve", "solve", "sat", "sol", "opt"])
    if shape == "fresh":
        if first_cons:
            ops.append(["cons", first_cons] if rng.random() < 0.5 else None)
            if ops[-1] is None:
                ops.pop(); ops += [["con", c] for c in first_cons]
        ops.append(["solve", mode()])
        return ops, tags
    # histories: part of the constraints before the first solve, the rest after
    cut_at = rng.randint(0, len(first_cons)) if first_cons else 0
    ops += [["con", c] for c in first_cons[:cut_at]]
    ops.append(["solve", mode()])
    later = first_cons[cut_at:]
    cur_dim = dim
    steps = 1 if shape != "mixed" else rng.randint(2, 3)
    for _ in range(steps):
        kind = shape if shape != "mixed" else rng.choice(["addcon", "adddims", "addpar"])
        r = rng.random()
        if r < 0.12:
            ops.append(["copy"])
        elif r < 0.16:
            ops.append(["assign"])
        if kind == "addcon":
            extra = later + [rand_con(rng, cur_dim) for _ in range(rng.randint(0 if later else 1, 2))]
            later = []
            if rng.random() < 0.5:
                ops.append(["cons", extra])
            else:
                ops += [["con", c] for c in extra]
        elif kind == "adddims":
            mv = rng.randint(0, 1); mp = rng.randint(0, 1)
            if mv + mp == 0: mv = 1
            if cur_dim + mv + mp > 6:
                mv, mp = 1, 0
            ops.append(["dims", mv, mp])
            new = list(range(cur_dim, cur_dim + mv + mp)); cur_dim += mv + mp
            extra = later + [rand_con(rng, cur_dim, must=new) for _ in range(rng.randint(1, 2))]
            later = []
            ops += [["con", c] for c in extra]
        elif kind == "addpar":
            ops.append(["dims", 1, 0]); new = [cur_dim]; cur_dim += 1
            ops.append(["par", new])
            if not use_big and rng.random() < 0.2:
                ops.append(["big", new[0]]); use_big = True; tags["big"] = 1
            extra = later + [rand_con(rng, cur_dim, must=new) for _ in range(rng.randint(1, 2))]
            later = []
            ops += [["con", c] for c in extra]
        if rng.random() < 0.2:
            ops.append(["ctl", rng.randint(0, 4)])
        ops.append(["solve", mode()])
    return ops, tags


def canon(ops):
    return repr(ops)
