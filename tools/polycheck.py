"""Shared driver for the properties judged through the polyhedron case language (C01, C02, ...)."""
import os, json, hashlib, shutil
import common, polyrun, gen_poly

BASE_COQ = ["Base/FM.v", "Base/Sys.v", "Base/Gens.v", "Poly/PolyOps.v", "Base/Sup.v", "Poly/PolyQuery.v", "Poly/PolyCg.v", "Poly/GensLeast.v", "Poly/PolyGenOps.v", "Poly/PolyOpsLhs.v", "Poly/PolyRepIndep.v", "Poly/PosTimeElapse.v", "Poly/PolyDiff.v", "Poly/Simplify.v"]

TRUSTED = [
    "Coq 8.16.1 kernel (coqc); vm_compute only in the non-vacuity Examples; no native_compute",
    "axioms: none (every property theorem prints 'Closed under the global context')",
    "extraction: Require Extraction + ExtrOcamlBasic only (bool/option/list/prod/unit/sumbool -> OCaml); Z, positive, nat, Q stay the extracted inductive types; no Extract Constant/Inductive of ours; OCaml 4.13.1 ocamlopt",
    "hand-written, unverified glue: harness/run_poly.cc + vh_common.hh (case interpreter, printers), ocaml/judge_poly.ml + zutil.ml (parsing, dispatch, bookkeeping), tools/gen_poly.py, tools/polyrun.py; g++ 12.2, GMP",
    "modelled rather than verified: the C++ of PPL is not translated; each result it prints is compared, by functions proved exact for all inputs, with the reference model's result",
]


def build(chk):
    common.coq_extract("ExtractBase.v", ["base.ml", "base.mli"], deps=BASE_COQ + ["Extract/ExtractBase.v"])
    judge = common.ocaml_build("judge_poly", ["gen/base.mli", "gen/base.ml", "zutil.ml", "judge_poly.ml"])
    exe = common.compile_harness("run_poly.cc")
    return exe, judge


def op_of_line(line):
    t = line.split(" ")
    if t[0] == "op": return t[2]
    if t[0] == "qry": return t[2]
    if t[0] == "new": return "new:" + t[4]
    return t[0]


def run_cases(chk, cases_lines, tag, owner):
    """owner(kind) -> True when a failure of that kind belongs to the property being checked."""
    exe, judge = build(chk)
    work = os.path.join(common.BUILD, "work-%s-%d" % (chk.pid, os.getpid()))
    shutil.rmtree(work, ignore_errors=True)
    cases = polyrun.split_cases(cases_lines)
    # the judge is single-threaded: run disjoint slices of the case list side by side and merge the verdicts
    nworkers = max(1, min(int(os.environ.get("VERIF_JOBS", "8")), len(cases) // 40))
    slices = [cases[i::nworkers] for i in range(nworkers)]
    def one(k):
        kept, obs, crashes = polyrun.run_harness(exe, slices[k], work, "%s%d" % (tag, k))
        res, stat, cov = polyrun.run_judge(judge, kept, obs, work, "%s%d" % (tag, k))
        return res, stat, cov, crashes
    from concurrent.futures import ThreadPoolExecutor
    with ThreadPoolExecutor(max_workers=nworkers) as ex:
        parts = list(ex.map(one, range(nworkers)))
    res, stat, cov, crashes = [], {}, {}, []
    for r, st, cv, cr in parts:
        res += r; crashes += cr
        for k, v in st.items(): stat[k] = stat.get(k, 0) + v
        for k, v in cv.items(): cov[k] = cov.get(k, 0) + v
    byid = polyrun.case_by_id(cases)
    out = {"stat": stat, "cov": cov, "fails": [], "undecided": 0, "crashes": crashes}
    for f in res:
        if f.verdict == "UNDECIDED":
            out["undecided"] += 1
            continue
        if not owner(f.kind, f.line):
            continue
        out["fails"].append(f)
    shutil.rmtree(work, ignore_errors=True)
    return out, byid
