"""Case generator for C10 (Partially_Reduced_Product). Deterministic for a given seed.

Families, each over every (pair, policy) (plus `period`, see period_case: grids with non-integral periods):
  shrink  -- a grid with one or two proper congruences against a component bounded in the direction of the
             congruence; the width of the range relative to the modulus is drawn from the case splits of
             shrink_to_congruence_no_check (no hyperplane / exactly one / two / the `== 2*mod` boundary, with
             closed and open ends, rational bounds so that max_denom, min_denom != 1, negative values for the
             truncated `%`), then both directions of the shrink call, reduce(), predicates;
  reduce  -- arbitrary component values (including inconsistent pairs: non-empty components, empty meet; empty
             components), explicit reduce() and reducing predicates, reduce() again (flag);
  ops     -- histories of transformers and predicates over two objects, implicit reductions interleaved.
"""
import random

PAIRS = ["CG", "GC", "NG", "CN", "NN", "BG", "BC", "SC", "GG", "CS", "BO", "NB"]
POLICIES = ["D", "S", "K", "G", "P"]
KINDS = {  # component kinds: P polyhedron (C/N), B box, S bd-shape, O octagon, G grid
    "CS": ("C", "S"), "BO": ("B", "O"), "NB": ("N", "B"),
    "CG": ("C", "G"), "GC": ("G", "C"), "NG": ("N", "G"), "CN": ("C", "N"), "NN": ("N", "N"),
    "BG": ("B", "G"), "BC": ("B", "C"), "SC": ("S", "C"), "GG": ("G", "G")}


def con(kind, b, a):
    return "%s %d %s" % (kind, b, " ".join(str(x) for x in a))


def cg(m, b, a):
    return "%d %d %s" % (m, b, " ".join(str(x) for x in a))


def cons_list(cs):
    return "cons %d %s" % (len(cs), " ".join(cs)) if cs else "cons 0"


def cgs_list(gs):
    return "cgs %d %s" % (len(gs), " ".join(gs)) if gs else "cgs 0"


def rvec(r, dim, lo=-3, hi=3, nz=True):
    while True:
        a = [r.choice([0, 0, 1, -1, 1, 2, -2, 3, -3]) if r.random() < 0.8 else r.randint(lo, hi) for _ in range(dim)]
        if not nz or any(a):
            return a


def rand_con(r, dim, kind_of_comp, allow_strict=True):
    if kind_of_comp in ("B",) or (kind_of_comp == "S" and r.random() < 0.3):
        a = [0] * dim; a[r.randrange(dim)] = r.choice([1, -1, 2, -2, 3])
    elif kind_of_comp == "O":
        a = [0] * dim
        i = r.randrange(dim); a[i] = r.choice([1, -1])
        if dim > 1 and r.random() < 0.7:
            j = r.choice([k for k in range(dim) if k != i]); a[j] = r.choice([1, -1])
    elif kind_of_comp == "S":
        a = [0] * dim
        i = r.randrange(dim); a[i] = 1
        if dim > 1:
            j = r.choice([k for k in range(dim) if k != i]); a[j] = -1
        if r.random() < 0.5: a = [-x for x in a]
    else:
        a = rvec(r, dim)
    k = r.choice(["=", ">=", ">=", ">=", ">"]) if allow_strict else r.choice(["=", ">=", ">=", ">="])
    return con(k, r.randint(-6, 6), a)


def rand_cg(r, dim):
    m = r.choice([0, 1, 2, 2, 3, 3, 4, 5, 6])
    return cg(m, r.randint(-4, 4), rvec(r, dim))


def rand_comp(r, dim, k):
    """the `cons .. cgs ..` text of a component of kind k"""
    u = r.random()
    if u < 0.06:
        return cons_list([con(">=", -1, [0] * dim)]) + " " + cgs_list([])        # inconsistent: empty component
    if k == "G":
        gs = [rand_cg(r, dim) for _ in range(r.choice([0, 1, 1, 2, 2, 3]))]
        cs = [con("=", r.randint(-3, 3), rvec(r, dim))] if r.random() < 0.15 else []
        return cons_list(cs) + " " + cgs_list(gs)
    cs = [rand_con(r, dim, k) for _ in range(r.choice([0, 1, 2, 2, 3, 4]))]
    gs = [cg(0, r.randint(-3, 3), rvec(r, dim))] if r.random() < 0.1 else []
    return cons_list(cs) + " " + cgs_list(gs)


def feas_con(r, dim, k, p0, allow_strict=True):
    """a constraint of the shape the component kind represents, satisfied by the integer point p0"""
    c = rand_con(r, dim, k, allow_strict).split(" ")
    kind, a = c[0], [int(x) for x in c[2:]]
    v = sum(x * y for x, y in zip(a, p0))
    if kind == "=": b = -v
    elif kind == ">": b = -v + r.choice([1, 1, 2, 3])
    else: b = -v + r.choice([0, 0, 1, 2, 4])
    return con(kind, b, a)


def feas_cg(r, dim, p0):
    m = r.choice([0, 1, 2, 2, 3, 3, 4, 5, 6]); a = rvec(r, dim)
    v = sum(x * y for x, y in zip(a, p0))
    return cg(m, -v + (m * r.randint(-2, 2) if m else 0), a)


def feas_comp(r, dim, k, p0):
    if k == "G":
        gs = [feas_cg(r, dim, p0) for _ in range(r.choice([0, 1, 1, 2, 2, 3]))]
        return cons_list([]) + " " + cgs_list(gs)
    cs = [feas_con(r, dim, k, p0) for _ in range(r.choice([0, 1, 2, 2, 3, 4]))]
    return cons_list(cs) + " " + cgs_list([])


def some_comp(r, dim, k, p0, pfeas=0.7):
    return feas_comp(r, dim, k, p0) if r.random() < pfeas else rand_comp(r, dim, k)


def rand_expr(r, dim):
    return "%d %s" % (r.randint(-3, 3), " ".join(str(x) for x in rvec(r, dim)))


QUERIES = ["is_empty", "is_empty", "is_universe", "is_bounded", "contains", "strictly_contains", "is_disjoint_from",
           "relation_with_con", "relation_with_con", "relation_with_cg", "relation_with_gen", "maximize", "minimize", "bounds_from_above", "bounds_from_below",
           "constraints", "congruences", "is_discrete", "constrains", "equals", "affine_dimension", "domains",
           "is_topologically_closed", "minimized_constraints"]


def rand_query(r, x, y, dim, kinds):
    q = r.choice(QUERIES)
    if q in ("contains", "strictly_contains", "is_disjoint_from", "equals"):
        return "qry %d %s %d" % (x, q, y)
    if q == "relation_with_con":
        return "qry %d %s %s" % (x, q, rand_con(r, dim, "N", allow_strict=("N" in kinds and "G" not in kinds and "B" not in kinds and "S" not in kinds and "C" not in kinds)))
    if q == "relation_with_cg":
        return "qry %d %s %s" % (x, q, rand_cg(r, dim))
    if q == "relation_with_gen":
        return "qry %d %s p %d %s" % (x, q, r.choice([1, 2, 2, 3]), " ".join(str(r.randint(-4, 4)) for _ in range(dim)))
    if q in ("maximize", "minimize", "bounds_from_above", "bounds_from_below"):
        return "qry %d %s %s" % (x, q, rand_expr(r, dim))
    if q == "constrains":
        return "qry %d %s %d" % (x, q, r.randrange(dim))
    return "qry %d %s" % (x, q)


UNARY_OPS = ["refine_with_constraint", "refine_with_constraint", "refine_with_constraints", "refine_with_congruence",
             "refine_with_congruence", "refine_with_congruences", "add_constraint", "add_congruence", "affine_image",
             "affine_image", "affine_preimage", "unconstrain", "topological_closure_assign",
             "add_space_dimensions_and_embed", "add_space_dimensions_and_project", "remove_higher_space_dimensions",
             "generalized_affine_image"]
BINARY_OPS = ["intersection_assign", "intersection_assign", "upper_bound_assign", "upper_bound_assign", "difference_assign",
              "difference_assign", "time_elapse_assign", "assign", "upper_bound_assign_if_exact", "concatenate_assign"]


def rand_op(r, x, y, dim, kinds, dims):
    """returns (line, new_dim_of_x)"""
    only_poly = all(k in ("C", "N") for k in kinds)
    if r.random() < 0.4 and dims[x] == dims[y]:
        op = r.choice(BINARY_OPS)
        if op == "concatenate_assign":
            if dims[x] + dims[y] > 4: op = "intersection_assign"
            else: return "op %d %s %d" % (x, op, y), dims[x] + dims[y]
        return "op %d %s %d" % (x, op, y), dim
    op = r.choice(UNARY_OPS)
    if op == "add_constraint":
        # add_constraint throws on grids / boxes / shapes for constraints they cannot represent: equalities only there
        k = rand_con(r, dim, "N", allow_strict=False) if only_poly else con("=", r.randint(-3, 3), rvec(r, dim))
        if "S" in kinds or "B" in kinds or "O" in kinds:
            a = [0] * dim; a[r.randrange(dim)] = 1
            k = con("=", r.randint(-3, 3), a)
        return "op %d %s %s" % (x, op, k), dim
    if op == "add_congruence":
        g = cg(0, r.randint(-3, 3), rvec(r, dim)) if "G" not in kinds or r.random() < 0.3 else rand_cg(r, dim)
        if "S" in kinds or "B" in kinds or "O" in kinds:
            a = [0] * dim; a[r.randrange(dim)] = 1
            g = cg(0, r.randint(-3, 3), a)
        if kinds != ("G", "G") and g.split(" ")[0] != "0":
            op = "refine_with_congruence"      # a proper congruence cannot be added to a polyhedron
        return "op %d %s %s" % (x, op, g), dim
    if op == "refine_with_constraint":
        return "op %d %s %s" % (x, op, rand_con(r, dim, "N")), dim
    if op == "refine_with_constraints":
        cs = [rand_con(r, dim, "N") for _ in range(r.randint(1, 3))]
        return "op %d %s %d %s" % (x, op, len(cs), " ".join(cs)), dim
    if op == "refine_with_congruence":
        return "op %d %s %s" % (x, op, rand_cg(r, dim)), dim
    if op == "refine_with_congruences":
        gs = [rand_cg(r, dim) for _ in range(r.randint(1, 2))]
        return "op %d %s %d %s" % (x, op, len(gs), " ".join(gs)), dim
    if op in ("affine_image", "affine_preimage"):
        v = r.randrange(dim)
        e = [r.randint(-2, 2) for _ in range(dim)]
        if op == "affine_image" and r.random() < 0.7 and e[v] == 0: e[v] = r.choice([1, -1, 2])
        return "op %d %s %d %d %d %s" % (x, op, v, r.choice([1, 1, 1, 2, -1, 3]), r.randint(-3, 3), " ".join(map(str, e))), dim
    if op == "generalized_affine_image":
        v = r.randrange(dim)
        rel = r.choice(["<=", ">=", "=="]) if not only_poly else r.choice(["<=", ">=", "==", "<", ">"])
        if "C" in kinds and rel in ("<", ">"): rel = "<="
        return "op %d %s %d %s %d %d %s" % (x, op, v, rel, r.choice([1, 1, 2, -1]), r.randint(-3, 3), " ".join(str(r.randint(-2, 2)) for _ in range(dim))), dim
    if op == "unconstrain":
        return "op %d %s %d" % (x, op, r.randrange(dim)), dim
    if op in ("add_space_dimensions_and_embed", "add_space_dimensions_and_project"):
        if dim >= 3: return "op %d topological_closure_assign" % x, dim
        return "op %d %s 1" % (x, op), dim + 1
    if op == "remove_higher_space_dimensions":
        if dim <= 1: return "op %d topological_closure_assign" % x, dim
        return "op %d %s %d" % (x, op, dim - 1), dim - 1
    return "op %d %s" % (x, op), dim


def shrink_case(r, cid, pair, pol):
    kinds = KINDS[pair]
    gi = 1 if kinds[0] == "G" else 2        # which component is the grid (first grid if both)
    oi = 3 - gi
    ok = kinds[oi - 1]
    dim = r.choice([1, 1, 2, 2, 2, 3])
    # the congruence  a.x + b = 0 (mod m)
    m = r.choice([1, 2, 2, 3, 4, 5])
    if ok in ("B",):
        a = [0] * dim; a[r.randrange(dim)] = r.choice([1, 1, 2, -1, 3])
    elif ok == "S":
        a = [0] * dim; i = r.randrange(dim); a[i] = r.choice([1, -1])
        if dim > 1 and r.random() < 0.5:
            j = r.choice([k for k in range(dim) if k != i]); a[j] = -a[i]
    else:
        a = rvec(r, dim)
    b = r.randint(-3, 3)
    gs = [cg(m, b, a)]
    if r.random() < 0.35: gs.append(rand_cg(r, dim))
    # bounds  lo <= a.x + b <= hi  as  dl*(a.x+b) >= nl,  du*(a.x+b) <= nu   (rational lo = nl/dl, hi = nu/du)
    dl = r.choice([1, 1, 2, 3]); du = r.choice([1, 1, 2, 3, 4])
    if ok == "S": dl = du = r.choice([1, 1, 2])
    base = r.randint(-4, 3) * m + r.choice([0, 0, 1, -1])               # lo near a multiple of m, negative half the time
    width_class = r.choice(["lt_m", "eq_m", "lt_2m", "eq_2m", "gt_2m", "zero", "tiny"])
    width = {"lt_m": m - 1, "eq_m": m, "lt_2m": 2 * m - 1, "eq_2m": 2 * m, "gt_2m": 2 * m + r.randint(1, 3), "zero": 0, "tiny": 0}[width_class]
    nl = base * dl + (r.choice([0, 1]) if dl > 1 else 0)
    hi_num = (base + width) * du + (r.choice([0, 1, -1]) if du > 1 and width_class != "zero" else 0)
    if width_class == "eq_2m":  # make the `== mod2` comparison exact: same denominators, integer bounds
        nl = base * dl; hi_num = (base + width) * du
    strict_ok = ok == "N" or ok == "B"
    kl = r.choice([">=", ">"]) if strict_ok and r.random() < 0.6 else ">="
    ku = r.choice([">=", ">"]) if strict_ok and r.random() < 0.6 else ">="
    lo_con = con(kl, dl * b - nl, [dl * x for x in a])                   # dl*(a.x+b) - nl >= 0
    up_con = con(ku, hi_num - du * b, [-du * x for x in a])              # nu - du*(a.x+b) >= 0
    cs = [lo_con, up_con]
    if r.random() < 0.12: cs = [lo_con]                                  # unbounded above: maximize fails
    if r.random() < 0.3 and dim > 1: cs.append(rand_con(r, dim, ok))
    lines = ["case %s %s %s" % (cid, pair, pol), "new 0 %d universe" % dim]
    if kinds == ("G", "G"):
        # second grid bounded only through equalities: a.x + b = value
        val = base + r.choice([0, 1])
        other = cons_list([]) + " " + cgs_list([cg(0, b - val, a)] if r.random() < 0.7 else [rand_cg(r, dim)])
    else:
        other = cons_list(cs) + " " + cgs_list([])
    lines.append("set 0 %d %s %s" % (gi, cons_list([]), cgs_list(gs)))
    lines.append("set 0 %d %s" % (oi, other))
    d12 = "12" if gi == 1 else "21"
    lines.append("shrink 0 %s 0" % d12)
    lines.append("shrink 0 %s 1" % d12)
    lines.append("shrink 0 %s 0" % ("21" if d12 == "12" else "12"))
    lines.append("copy 1 0")
    lines.append("red 0")
    lines.append(r.choice(["qry 0 is_empty", "qry 0 domains", "qry 0 constraints", "qry 0 is_bounded"]))
    lines.append("red 0")
    lines.append("qry 1 %s" % r.choice(["is_empty", "contains 0", "is_disjoint_from 0", "maximize " + rand_expr(r, dim), "congruences"]))
    lines.append("end")
    return lines


def period_case(r, cid, pair, pol):
    """Congruences / Shape_Preserving reductions against grids with NON-INTEGRAL periods: congruences k*x_i = r0 (mod m)
    with non-unit k (k does not divide m: grid points (r0 + m*j)/k have divisors 2, 3, 5, ...), optionally a mixed congruence
    with non-unit coefficients; the other component bounds each such variable by rational bounds placed relative to the
    grid hyperplanes v_j = (r0 + m*j)/k: strictly between two of them, around exactly one, exactly on them (open / closed
    ends for NNC and boxes), over several periods, or one-sided; located below zero, across zero or above; plus
    octagonal / general constraints in 2-3 dimensions."""
    from fractions import Fraction as F
    kinds = KINDS[pair]
    gi = 1 if kinds[0] == "G" else 2
    oi = 3 - gi
    ok = kinds[oi - 1]
    dim = r.choice([1, 1, 1, 2, 2, 3])
    strict_ok = ok in ("N", "B")
    gs, cs = [], []
    feas = []                          # one grid value per variable (to aim the extra constraints at)
    some = False
    for i in range(dim):
        if dim > 1 and some and r.random() < 0.25:
            feas.append(F(r.randint(-3, 3))); continue
        some = True
        k = r.choice([2, 3, 3, 5, 4, 6, -3, -2, 7, 3, 5])
        m = r.choice([1, 2, 2, 3, 4, 5, 7, 1, 2])
        r0 = r.randint(-6, 6)
        a = [0] * dim; a[i] = k
        gs.append(cg(m, -r0, a))       # k*x_i - r0 = 0 (mod m)
        per = F(m, abs(k))
        j0 = r.randint(-8, 6)
        v = lambda j: F(r0 + m * j, k) if k > 0 else F(r0 - m * j, k)   # increasing in j for both signs
        v0 = F(r0, k) + j0 * per
        feas.append(v0)
        wc = r.choice(["between", "between", "one", "one", "on", "on", "multi", "multi", "lower", "upper", "point"])
        t = lambda: r.choice([F(1, 4), F(1, 2), F(3, 4), F(1, 3), F(2, 3), F(1, 5)])
        if wc == "between": lo, hi = v0 + t() * per * F(1, 2), v0 + per - t() * per * F(1, 2)
        elif wc == "one": lo, hi = v0 - t() * per, v0 + t() * per
        elif wc == "on": lo, hi = v0, v0 + r.choice([1, 1, 2]) * per
        elif wc == "multi": lo, hi = v0 - t() * per, v0 + (r.randint(1, 4) + t()) * per
        elif wc == "lower": lo, hi = v0 - t() * per, None
        elif wc == "upper": lo, hi = None, v0 + t() * per
        else: lo = hi = v0 + r.choice([0, 0, t()]) * per
        if lo is not None:
            kl = ">" if strict_ok and r.random() < 0.4 and lo != hi else ">="
            u = unit_scaled = [0] * dim; u[i] = lo.denominator
            cs.append(con(kl, -lo.numerator, u))               # den*x_i - num >= 0
        if hi is not None:
            ku = ">" if strict_ok and r.random() < 0.4 and lo != hi else ">="
            u = [0] * dim; u[i] = -hi.denominator
            cs.append(con(ku, hi.numerator, u))                # num - den*x_i >= 0
    if dim > 1 and r.random() < 0.35:
        a = [r.choice([2, 3, -2, -3, 5, 1, -1, 0]) for _ in range(dim)]
        if any(a): gs.append(cg(r.choice([2, 3, 4, 5]), r.randint(-3, 3), a))
    if dim > 1 and ok != "B" and r.random() < 0.6:
        # octagonal or general constraint, loosely around the chosen grid values
        i, j = r.sample(range(dim), 2)
        a = [0] * dim
        if ok == "S" or r.random() < 0.5: a[i], a[j] = r.choice([1, -1]), r.choice([1, -1])
        else: a = rvec(r, dim)
        val = sum(F(x) * y for x, y in zip(a, feas))
        dn = val.denominator
        b = -val.numerator + r.choice([0, 0, 1, 2, -1]) * 1
        cs.append(con(">" if strict_ok and ok == "N" and r.random() < 0.3 else ">=", b, [dn * x for x in a]))
    lines = ["case %s %s %s" % (cid, pair, pol), "new 0 %d universe" % dim]
    lines.append("set 0 %d %s %s" % (gi, cons_list([]), cgs_list(gs)))
    lines.append("set 0 %d %s %s" % (oi, cons_list(cs), cgs_list([])))
    lines.append("copy 1 0")
    lines.append("red 0")
    lines.append(r.choice(["qry 0 is_empty", "qry 0 is_empty", "qry 0 domains", "qry 0 constraints", "qry 0 minimize " + rand_expr(r, dim)]))
    lines.append("red 0")
    lines.append("qry 1 %s" % r.choice(["is_empty", "is_empty", "contains 0", "is_disjoint_from 0", "maximize " + rand_expr(r, dim)]))
    lines.append("end")
    return lines


TRANSFORMERS = ["affine_image", "affine_preimage", "generalized_affine_image", "generalized_affine_preimage",
                "generalized_affine_image_lhs", "generalized_affine_preimage_lhs", "bounded_affine_image", "bounded_affine_preimage",
                "bounded_affine_image", "bounded_affine_preimage", "unconstrain", "unconstrain_set", "time_elapse_assign",
                "add_space_dimensions_and_embed", "add_space_dimensions_and_project", "remove_higher_space_dimensions",
                "remove_space_dimensions", "map_space_dimensions", "expand_space_dimension", "fold_space_dimensions",
                "intersection_assign", "upper_bound_assign", "difference_assign", "widening_assign", "concatenate_assign",
                "topological_closure_assign"]


def transformer_case(r, cid, pair, pol):
    """EVERY transformer of the product on layouts whose first and/or second component is not a grid: a bounded, non-empty
    product (box-like bounds around an integer point in both components, each component also carrying information the other
    lacks; a grid component gets a congruence through that point), then one transformer whose relation makes image and
    preimage differ (the expression involves another variable and a non-zero constant, denominators 1, 2, -1, 3), then
    predicates.  Judged by `the result's intersection contains the exact image of the old intersection'."""
    kinds = KINDS[pair]
    dim = r.choice([2, 2, 2, 3])
    p0 = [r.randint(-3, 3) for _ in range(dim)]
    def comp(k, which):
        if k == "G":
            gs = []
            for i in range(dim):
                if r.random() < 0.6:
                    m = r.choice([2, 2, 3, 4]); a = [0] * dim; a[i] = 1
                    gs.append(cg(m, -p0[i], a))
            if r.random() < 0.3: gs.append(feas_cg(r, dim, p0))
            return cons_list([]) + " " + cgs_list(gs)
        cs = []
        for i in range(dim):
            if r.random() < 0.85:
                lo = p0[i] - r.randint(0, 3); hi = p0[i] + r.randint(0, 4)
                u = [0] * dim; u[i] = 1
                if which == 1 or r.random() < 0.7: cs.append(con(">=", -lo, u))
                if which == 2 or r.random() < 0.7: cs.append(con(">=", hi, [-x for x in u]))
        if r.random() < 0.5: cs.append(feas_con(r, dim, k, p0, allow_strict=False))
        return cons_list(cs) + " " + cgs_list([])
    lines = ["case %s %s %s" % (cid, pair, pol)]
    for x in (0, 1):
        lines.append("new %d %d universe" % (x, dim))
        lines.append("set %d 1 %s" % (x, comp(kinds[0], 1)))
        lines.append("set %d 2 %s" % (x, comp(kinds[1], 2)))
        if x == 0 and r.random() < 0.5: p0 = [v + r.choice([0, 1, -1]) for v in p0]
    if r.random() < 0.3: lines.append("red 0")
    only_n = all(k == "N" for k in kinds)
    rels = ["<=", ">=", "==", "<", ">"] if only_n else ["<=", ">=", "=="]
    def expr(v=None, other=True):
        e = [r.choice([0, 1, -1, 2]) for _ in range(dim)]
        if v is not None and other:
            j = r.choice([k for k in range(dim) if k != v]); e[j] = e[j] or r.choice([1, -1, 2])
            if r.random() < 0.5: e[v] = 0
        b = r.choice([1, 2, 3, -1, -2, 5, 10, -7])
        return "%d %s" % (b, " ".join(map(str, e)))
    op = r.choice(TRANSFORMERS)
    v = r.randrange(dim)
    den = r.choice([1, 1, 2, -1, 3])
    d = dim
    if op in ("affine_image", "affine_preimage"): l = "op 0 %s %d %d %s" % (op, v, den, expr(v))
    elif op in ("generalized_affine_image", "generalized_affine_preimage"): l = "op 0 %s %d %s %d %s" % (op, v, r.choice(rels), den, expr(v))
    elif op in ("generalized_affine_image_lhs", "generalized_affine_preimage_lhs"):
        lhs = [0] * dim; lhs[v] = r.choice([1, 1, 2, -1])
        if r.random() < 0.3: lhs[(v + 1) % dim] = r.choice([1, -1])
        l = "op 0 %s %d %s %s %s" % (op, r.choice([0, 0, 1, -2]), " ".join(map(str, lhs)), r.choice(rels), expr(v))
    elif op in ("bounded_affine_image", "bounded_affine_preimage"):
        e = [r.choice([0, 1, -1, 2]) for _ in range(dim)]; e[v] = 0 if r.random() < 0.7 else e[v]
        j = r.choice([k for k in range(dim) if k != v]); e[j] = e[j] or 1
        b = r.choice([0, 1, 10, -3, 5]); w = r.choice([0, 1, 1, 2, 3])
        ub = list(e)
        if r.random() < 0.25: ub[j] += r.choice([1, -1])                  # bounds with different slopes
        l = "op 0 %s %d %d %d %s %d %s" % (op, v, den, b, " ".join(map(str, e)), b + w * (1 if den > 0 else -1), " ".join(map(str, ub)))
    elif op == "unconstrain": l = "op 0 unconstrain %d" % v
    elif op == "unconstrain_set":
        vs = sorted(r.sample(range(dim), r.randint(1, dim))); l = "op 0 unconstrain_set %d %s" % (len(vs), " ".join(map(str, vs)))
    elif op in ("add_space_dimensions_and_embed", "add_space_dimensions_and_project"): l = "op 0 %s 1" % op; d = dim + 1
    elif op == "remove_higher_space_dimensions": l = "op 0 %s %d" % (op, dim - 1); d = dim - 1
    elif op == "remove_space_dimensions": l = "op 0 %s 1 %d" % (op, v); d = dim - 1
    elif op == "map_space_dimensions":
        perm = list(range(dim)); r.shuffle(perm)
        if r.random() < 0.4:
            k = r.randrange(dim); drop = perm[k]; perm = [(-1 if i == k else (x - 1 if x > drop else x)) for i, x in enumerate(perm)]
        l = "op 0 %s %d %s" % (op, dim, " ".join(map(str, perm))); d = len([x for x in perm if x >= 0])
    elif op == "expand_space_dimension": l = "op 0 %s %d 1" % (op, v); d = dim + 1
    elif op == "fold_space_dimensions":
        u = r.choice([k for k in range(dim) if k != v]); l = "op 0 %s 1 %d %d" % (op, u, v); d = dim - 1
    elif op == "widening_assign":
        # the argument must be contained in the receiver, component by component: the argument is the receiver refined
        lines.append("op 1 assign 0")
        lines.append("op 1 refine_with_constraint %s" % feas_con(r, dim, "N", p0, allow_strict=False))
        lines.append("red 0"); lines.append("red 1")
        l = "op 0 widening_assign 1"
    elif op == "concatenate_assign":
        if dim > 2: op = "intersection_assign"
        l = "op 0 %s 1" % op; d = dim * 2 if op == "concatenate_assign" else dim
    elif op == "topological_closure_assign": l = "op 0 %s" % op
    else: l = "op 0 %s 1" % op
    lines.append(l)
    lines.append("qry 0 %s" % r.choice(["is_empty", "domains", "constraints", "is_bounded", "is_universe"]))
    if r.random() < 0.5: lines.append("red 0")
    lines.append("end")
    return lines


def predicate_case(r, cid, pair, pol):
    """Definite answers of the product's predicates (relation_with a Constraint / Congruence / Generator, contains, is_disjoint_from,
    maximize / minimize, bounds_from_*) on every layout.  The non-grid components are thin slabs with RATIONAL bounds (halves,
    thirds) placed relative to the hyperplanes of a congruence a.x + b = 0 (mod m) with negative coefficients / negative residues:
    strictly beyond the hyperplane nearest to zero and touching, crossing or stopping short of the next one; the grid components
    carry congruences through an integer point.  Arguments: points with NON-UNIT divisors (whose numerators alone satisfy the
    grid's congruences, or which are real points of the intersection), rays and lines; that congruence and shifted / scaled
    variants; constraints touching and crossing the components."""
    from fractions import Fraction as F
    kinds = KINDS[pair]
    dim = r.choice([1, 2, 2, 2, 3])
    p0 = [r.randint(-3, 3) for _ in range(dim)]
    v = r.randrange(dim)
    a = r.choice([-2, -1, 1, 2, -3, 3, -2, -1]); m = r.choice([2, 2, 3, 4]); b = r.randint(-3, 3)
    ea = [0] * dim; ea[v] = a
    if dim > 1 and r.random() < 0.3: ea[(v + 1) % dim] = r.choice([1, -1])
    simple = sum(1 for x in ea if x) == 1
    j = r.randint(-4, 2)                                  # e ranges beyond hyperplane m*j towards m*(j+1) (or the mirror image)
    t1 = r.choice([F(1, 4), F(1, 2), F(1, 3), F(2, 3)])
    reach = r.choice(["touch", "cross", "short", "cross", "touch"])
    t2 = {"touch": F(0), "cross": r.choice([F(1, 4), F(1, 2), F(1, 3)]), "short": -r.choice([F(1, 4), F(1, 5)])}[reach]
    lo_e, hi_e = m * j + m * t1, m * (j + 1) + m * t2
    if r.random() < 0.5: lo_e, hi_e = -hi_e, -lo_e        # mirrored: the nearer hyperplane is the upper one
    def slab(k):
        cs = []
        if simple and k != "S" and k != "O" or (simple and k in ("S", "O")):
            # bounds on x_v from lo_e <= a*x_v + b <= hi_e
            x1, x2 = (lo_e - b) / a, (hi_e - b) / a
            lo, hi = min(x1, x2), max(x1, x2)
            strict = k in ("N", "B") and r.random() < 0.3
            u = [0] * dim; u[v] = lo.denominator; cs.append(con(">" if strict and lo != hi else ">=", -lo.numerator, u))
            u = [0] * dim; u[v] = -hi.denominator; cs.append(con(">=", hi.numerator, u))
        elif k in ("C", "N"):
            dn = lo_e.denominator * hi_e.denominator
            cs.append(con(">=", int((b - lo_e) * dn), [x * dn for x in ea]))
            cs.append(con(">=", int((hi_e - b) * dn), [-x * dn for x in ea]))
        for i in range(dim):
            if i != v and r.random() < 0.8:
                lo = F(p0[i]) - r.choice([0, F(1, 2), 1, F(3, 2)]); hi = F(p0[i]) + r.choice([0, F(1, 2), 1, 2])
                if r.random() < 0.35: lo = hi = F(p0[i])                     # a segment: x_i fixed
                u = [0] * dim; u[i] = lo.denominator; cs.append(con(">=", -lo.numerator, u))
                u = [0] * dim; u[i] = -hi.denominator; cs.append(con(">=", hi.numerator, u))
        return cs
    def gridc():
        gs = []
        for i in range(dim):
            if r.random() < 0.7:
                mm = r.choice([1, 1, 2, 2, 3]); u = [0] * dim; u[i] = 1
                gs.append(cg(mm, -p0[i], u))
        if dim > 1 and r.random() < 0.4:
            u = [r.choice([1, -1, 1, 0]) for _ in range(dim)]
            if any(u): gs.append(cg(2, -sum(x * y for x, y in zip(u, p0)), u))
        return gs
    lines = ["case %s %s %s" % (cid, pair, pol)]
    for x in (0, 1):
        lines.append("new %d %d universe" % (x, dim))
        for w in (1, 2):
            k = kinds[w - 1]
            if k == "G": lines.append("set %d %d %s %s" % (x, w, cons_list([]), cgs_list(gridc())))
            elif x == 0 and (w == 1 or kinds[0] == "G" or r.random() < 0.5): lines.append("set %d %d %s %s" % (x, w, cons_list(slab(k)), cgs_list([])))
            else: lines.append("set %d %d %s" % (x, w, some_comp(r, dim, k, p0, 0.8)))
    if r.random() < 0.3: lines.append("red 0")
    def gen_arg():
        u = r.random()
        if u < 0.15:
            d = [r.choice([0, 0, 1, -1, 2]) for _ in range(dim)]
            if not any(d): d[0] = 1
            return "%s 1 %s" % (r.choice(["r", "l"]), " ".join(map(str, d)))
        dv = r.choice([2, 2, 3, 3, 1, 4])
        if u < 0.55:    # numerators form an integer point near p0 (satisfying the grid's congruences), the point itself is p/dv
            num = [p0[i] + r.choice([0, 0, 2, -2, 1]) for i in range(dim)]
        else:           # a rational point in or near the slab
            xv = ((lo_e + hi_e) / 2 - b) / a if simple else F(p0[v])
            num = [int(F(p0[i]) * dv) for i in range(dim)]
            num[v] = int(xv * dv) + r.choice([0, 0, 1, -1])
        return "p %d %s" % (dv, " ".join(map(str, num)))
    def cg_arg():
        u = r.random()
        if u < 0.6: return cg(m, b, ea)
        if u < 0.75: return cg(m, b + r.choice([1, -1, m]), ea)
        if u < 0.9: return cg(m * 2, b, [2 * x for x in ea]) if r.random() < 0.5 else cg(m, -b, [-x for x in ea])
        return rand_cg(r, dim)
    def con_arg():
        hp = r.choice([m * j, m * (j + 1), -m * j, -m * (j + 1), int(lo_e), int(hi_e)])
        sgn = r.choice([1, -1])
        return con(r.choice([">=", ">=", "=", ">"]) if "N" in kinds and all(k in ("N",) for k in kinds) else r.choice([">=", ">=", "="]),
                   sgn * (b - hp), [sgn * x for x in ea])
    for _ in range(r.randint(3, 5)):
        q = r.choice(["relation_with_gen", "relation_with_gen", "relation_with_cg", "relation_with_cg", "relation_with_con",
                      "contains", "is_disjoint_from", "maximize", "minimize", "bounds_from_above", "is_empty"])
        if q == "relation_with_gen": lines.append("qry 0 %s %s" % (q, gen_arg()))
        elif q == "relation_with_cg": lines.append("qry 0 %s %s" % (q, cg_arg()))
        elif q == "relation_with_con": lines.append("qry 0 %s %s" % (q, con_arg()))
        elif q in ("contains", "is_disjoint_from"): lines.append("qry %d %s %d" % (r.choice([0, 1]), q, 1 if lines[-1].startswith("qry 1") else r.choice([0, 1]) ^ 1 if False else 1))
        elif q in ("maximize", "minimize", "bounds_from_above"): lines.append("qry 0 %s %d %s" % (q, r.randint(-2, 2), " ".join(map(str, ea if r.random() < 0.6 else rvec(r, dim)))))
        else: lines.append("qry 0 is_empty")
    lines.append("end")
    return lines


def reduce_case(r, cid, pair, pol):
    kinds = KINDS[pair]
    dim = r.choice([1, 2, 2, 2, 3])
    lines = ["case %s %s %s" % (cid, pair, pol), "new 0 %d %s" % (dim, r.choice(["universe", "universe", "universe", "empty"]))]
    if r.random() < 0.1:
        lines.append("setempty 0 %d" % r.choice([1, 2]))
    p0 = [r.randint(-2, 2) for _ in range(dim)]
    if r.random() < 0.93:
        lines.append("set 0 1 %s" % some_comp(r, dim, kinds[0], p0, 0.6))
    if r.random() < 0.93:
        lines.append("set 0 2 %s" % some_comp(r, dim, kinds[1], p0, 0.6))
    lines.append("copy 1 0")
    lines.append("red 0")
    lines.append("red 0")
    for _ in range(r.randint(1, 3)):
        lines.append(rand_query(r, r.choice([0, 1]), r.choice([0, 1]), dim, kinds))
    lines.append("end")
    return lines


def ops_case(r, cid, pair, pol, steps):
    kinds = KINDS[pair]
    dim = r.choice([1, 2, 2, 2, 3])
    lines = ["case %s %s %s" % (cid, pair, pol)]
    dims = {}
    p0 = [r.randint(-2, 2) for _ in range(dim)]
    for x in (0, 1):
        lines.append("new %d %d universe" % (x, dim)); dims[x] = dim
        if r.random() < 0.85: lines.append("set %d 1 %s" % (x, some_comp(r, dim, kinds[0], p0, 0.8)))
        if r.random() < 0.85: lines.append("set %d 2 %s" % (x, some_comp(r, dim, kinds[1], p0, 0.8)))
        if x == 0 and r.random() < 0.5: p0 = [r.randint(-2, 2) for _ in range(dim)]
    for _ in range(steps):
        x = r.choice([0, 0, 1]); y = 1 - x
        u = r.random()
        if u < 0.55:
            l, nd = rand_op(r, x, y, dims[x], kinds, dims); dims[x] = nd
            if l.split(" ")[2] == "assign": dims[x] = dims[y]
            lines.append(l)
        elif u < 0.9:
            if dims[x] == dims[y]: lines.append(rand_query(r, x, y, dims[x], kinds))
            else: lines.append("qry %d is_empty" % x)
        else:
            lines.append("red %d" % x)
    lines.append("end")
    return lines


def exchange_case(r, cid, pair, pol):
    """constraint-only pairs under the Constraints / Shape_Preserving policies: each component carries information the
    other lacks, the intersection is non-empty (or empty only through the combination)"""
    kinds = KINDS[pair]
    dim = r.choice([1, 2, 2, 3])
    p0 = [r.randint(-2, 2) for _ in range(dim)]
    lines = ["case %s %s %s" % (cid, pair, pol), "new 0 %d universe" % dim]
    inconsistent = r.random() < 0.2
    lines.append("set 0 1 %s" % feas_comp(r, dim, kinds[0], p0))
    p1 = [x + r.choice([0, 4, -5]) for x in p0] if inconsistent else p0
    lines.append("set 0 2 %s" % feas_comp(r, dim, kinds[1], p1))
    lines.append("copy 1 0")
    lines.append("red 0")
    lines.append(rand_query(r, 0, 1, dim, kinds))
    lines.append("red 0")
    lines.append(rand_query(r, 1, 0, dim, kinds))
    lines.append("end")
    return lines


def binarg_case(r, cid, pair, pol):
    """binary operators with an ARGUMENT in a special, not yet reduced state: one component inconsistent by itself
    (the other non-empty and overlapping the receiver), or both fine but jointly empty; the receiver is feasible.
    The argument denotes the empty set, so difference / upper bound must keep every point of the receiver."""
    kinds = KINDS[pair]
    dim = r.choice([1, 2, 2, 3])
    p0 = [r.randint(-2, 2) for _ in range(dim)]
    lines = ["case %s %s %s" % (cid, pair, pol), "new 0 %d universe" % dim]
    lines.append("set 0 1 %s" % feas_comp(r, dim, kinds[0], p0))
    lines.append("set 0 2 %s" % feas_comp(r, dim, kinds[1], p0))
    lines.append("new 1 %d universe" % dim)
    which = r.choice([1, 2]); other = 3 - which

    def inconsistent(k):
        if k == "G" and r.random() < 0.7:
            a = [0] * dim; a[r.randrange(dim)] = 1
            return cons_list([]) + " " + cgs_list([cg(2, 0, a), cg(2, 1, a)])
        return cons_list([con(">=", -1, [0] * dim)]) + " " + cgs_list([])
    if r.random() < 0.75:
        lines.append("set 1 %d %s" % (which, inconsistent(kinds[which - 1])))
        lines.append("set 1 %d %s" % (other, feas_comp(r, dim, kinds[other - 1], p0)))
    else:
        p1 = [x + r.choice([4, -5, 7]) for x in p0]
        lines.append("set 1 1 %s" % feas_comp(r, dim, kinds[0], p0))
        lines.append("set 1 2 %s" % feas_comp(r, dim, kinds[1], p1))
    if r.random() < 0.15:
        lines.append("red 1")
    op = r.choice(["difference_assign"] * 4 + ["upper_bound_assign", "intersection_assign", "time_elapse_assign", "assign"])
    lines.append("op 0 %s 1" % op)
    lines.append("qry 0 is_empty")
    lines.append(rand_query(r, 0, 1, dim, kinds))
    lines.append("end")
    return lines


def make_cases(seed, n_shrink, n_reduce, n_ops, steps=5, start=0, n_period=None):
    r = random.Random(seed)
    out = []
    cid = start
    grid_pairs = [p for p in PAIRS if "G" in KINDS[p]]
    for i in range(n_shrink):
        pair = grid_pairs[i % len(grid_pairs)]
        pol = r.choice(["G", "G", "P", "P", "K", "S", "D"])
        out += shrink_case(r, "s%d" % cid, pair, pol); cid += 1
    k = 0
    for i in range(n_reduce):
        pair = PAIRS[k % len(PAIRS)]; pol = POLICIES[(k // len(PAIRS)) % len(POLICIES)]; k += 1
        out += reduce_case(r, "r%d" % cid, pair, pol); cid += 1
    for i in range(n_ops):
        pair = PAIRS[k % len(PAIRS)]; pol = POLICIES[(k // len(PAIRS) + i) % len(POLICIES)]; k += 1
        out += ops_case(r, "o%d" % cid, pair, pol, steps); cid += 1
    # non-integral periods: its own random stream, so that the other families stay as they were
    rp = random.Random(seed * 7 + 3)
    per_pairs = ["CG", "NG", "GC", "CG", "NG", "BG", "GC"]
    for i in range(n_shrink if n_period is None else n_period):
        out += period_case(rp, "p%d" % cid, per_pairs[i % len(per_pairs)], rp.choice(["P", "P", "P", "G", "G", "K", "S"])); cid += 1
    # every transformer, on layouts with a non-grid second and / or first component: own random stream
    rt = random.Random(seed * 11 + 5)
    tr_pairs = ["GC", "CN", "NN", "BC", "SC", "CS", "BO", "NB", "GC", "CG", "NG", "BG"]
    for i in range((n_shrink * 2) if n_period is None else n_period * 2):
        out += transformer_case(rt, "t%d" % cid, tr_pairs[i % len(tr_pairs)], rt.choice(POLICIES)); cid += 1
    # definite answers of the predicates, all layouts: own random stream
    rq = random.Random(seed * 13 + 7)
    for i in range((n_shrink * 2) if n_period is None else n_period * 2):
        out += predicate_case(rq, "q%d" % cid, PAIRS[i % len(PAIRS)], rq.choice(POLICIES)); cid += 1
    cons_pairs = ["CN", "NN", "BC", "SC", "CN", "NN"]
    for i in range(n_reduce // 2):
        out += exchange_case(r, "x%d" % cid, cons_pairs[i % len(cons_pairs)], r.choice(["K", "K", "P"])); cid += 1
    # binary operators with an argument in a special unreduced state: own random stream
    rb = random.Random(seed * 17 + 9)
    for i in range(n_reduce):
        out += binarg_case(rb, "b%d" % cid, PAIRS[i % len(PAIRS)], POLICIES[(i // len(PAIRS) + i) % len(POLICIES)]); cid += 1
    return out


if __name__ == "__main__":
    import sys
    seed = int(sys.argv[1]) if len(sys.argv) > 1 else 1
    print("\n".join(make_cases(seed, 20, 20, 20)))
