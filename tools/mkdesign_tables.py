#!/usr/bin/env python3
"""Regenerate the generated tables of DESIGN.md (between <!-- GEN:xxx --> markers) from
known_findings.json, known_findings.d/*.json and seeded/*/meta.json."""
import json, glob, os, re
V = os.path.dirname(os.path.dirname(os.path.abspath(__file__)))
def fixed_table():
    k = json.load(open(os.path.join(V, "known_findings.json")))
    rows = ["| property | commit | defect |", "|---|---|---|"]
    for l in k.get("fixed", []):
        m = re.match(r"fixed: property=(\S+) (\S+) (.*)", l)
        if m: rows.append("| %s | %s | %s |" % (m.group(1), m.group(2), m.group(3).replace("|", "\\|")[:400]))
    return "\n".join(rows)
def open_table():
    rows = ["| property | id | what fails (site: condition) |", "|---|---|---|"]
    for f in sorted(glob.glob(os.path.join(V, "known_findings.d", "*.json"))) + [os.path.join(V, "known_findings.json")]:
        xs = [x for x in json.load(open(f)).get("findings", []) if x.get("status", "open") == "open"]
        if f.endswith(".census.json"):
            # the fault-enumeration census: one entry per (mode, kind, innermost library functions, scenario family);
            # summarised here by (mode, kind, family), listed in full in the file itself
            agg = {}
            for x in xs:
                m = x.get("match", {}); k = (x["property"], m.get("mode"), m.get("kind"), m.get("family"))
                agg.setdefault(k, []).append(m.get("site", "?"))
            for (pid, mode, kind, fam), sites in sorted(agg.items(), key=lambda kv: tuple(str(t) for t in kv[0])):
                rows.append("| %s | %s (%d entries) | %s / %s in %s scenarios; fault sites: %s |" % (pid, os.path.basename(f), len(sites), mode, kind, fam,
                            ", ".join(sorted(set(sites)))[:420].replace("|", "\\|")))
            continue
        for x in xs:
            rows.append("| %s | %s | %s |" % (x["property"], x["id"], x["what"].replace("|", "\\|")[:500]))
    return "\n".join(rows)
def props_table():
    rows = ["| property | theorems audited (closed) | last run: tier, evaluations, distinct non-trivial, violations | open findings | fixed in /repo | seeded changes caught |", "|---|---|---|---|---|---|"]
    k = json.load(open(os.path.join(V, "known_findings.json")))
    for i in range(1, 21):
        pid = "C%02d" % i
        try: e = json.load(open(os.path.join(V, "evidence", pid + ".json")))
        except Exception: e = {}
        c = e.get("coverage", {})
        nopen = 0
        for f in glob.glob(os.path.join(V, "known_findings.d", pid + "*.json")):
            nopen += len([x for x in json.load(open(f)).get("findings", []) if x.get("status", "open") == "open"])
        nfixed = len([l for l in k.get("fixed", []) if l.startswith("fixed: property=%s " % pid)])
        seeds = sorted(glob.glob(os.path.join(V, "seeded", pid + "-*", "meta.json")))
        caught = 0
        for f in seeds:
            det = json.load(open(f)).get("detection", {})
            if any(r.get("exit") == 1 and r.get("n_violation_lines", 0) > 0 for r in det.values()): caught += 1
        rows.append("| %s | %s/%s | %s, %s, %s, %s | %d | %d | %d/%d |" % (pid, c.get("discharged", "?"), c.get("obligations", "?"), e.get("tier", "?"),
                    c.get("evaluations", "?"), c.get("distinct_nontrivial", "?"), e.get("violations", "?"), nopen, nfixed, caught, len(seeds)))
    return "\n".join(rows)
def seeded_table():
    rows = ["| seeded change | property | what it needs to manifest | detected by (check: exit, #VIOLATION lines) | first replay |", "|---|---|---|---|---|"]
    for f in sorted(glob.glob(os.path.join(V, "seeded", "*", "meta.json"))):
        m = json.load(open(f)); name = os.path.basename(os.path.dirname(f))
        det = m.get("detection", {})
        ds = "; ".join("%s: exit %s, %s" % (c, r.get("exit"), r.get("n_violation_lines")) for c, r in det.items()) or "not run yet"
        fr = ""
        for c, r in det.items():
            x = r.get("first_replay")
            if isinstance(x, dict):
                fr = str(x.get("info") or x.get("no_longer_checks") or "")[:160]
                break
        rows.append("| %s | %s | %s | %s | %s |" % (name, m.get("property"), str(m.get("needs", "")).replace("|", "\\|").replace("\n", " ")[:260], ds, fr.replace("|", "\\|")))
    return "\n".join(rows)
def propnotes():
    out = []
    for i in range(1, 21):
        pid = "C%02d" % i
        try: m = json.load(open(os.path.join(V, "manifest.d", pid + ".json")))
        except Exception: continue
        lc = m.get("level_claimed", {})
        out.append("**%s** — *technique:* %s\n\n*What the theorems carry and what ties them to the code:* %s\n\n*Trusted base / notes:* %s\n" % (
            pid, m.get("technique", ""), lc.get("text", ""), m.get("level_note", "")))
    return "\n".join(out)
gens = {"fixed": fixed_table, "open": open_table, "seeded": seeded_table, "props": props_table, "propnotes": propnotes}
p = os.path.join(V, "DESIGN.md")
s = open(p).read()
for k, fn in gens.items():
    a, b = "<!-- GEN:%s -->" % k, "<!-- /GEN:%s -->" % k
    if a in s and b in s:
        s = s[:s.index(a) + len(a)] + "\n" + fn() + "\n" + s[s.index(b):]
open(p, "w").write(s)
print("tables regenerated")
