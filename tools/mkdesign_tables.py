#!/usr/bin/env python3
"""Regenerate the generated tables of DESIGN.md (between <!-- GEN:xxx --> markers) from
known_findings.json, known_findings.d/*.json and seeded/*/meta.json."""
import json, glob, os, re
V = os.path.dirname(os.path.dirname(os.path.abspath(__file__)))
def fixed_table():
    k = json.load(open(os.path.join(V, "known_findings.json")))
    rows = ["| property | commit | defect |", "|---|---|---|"]
    for l in k.get("fixed", []):
        m = re.match(r"fixed: property=(\S+) (\S+) (.*)", l)
        if m: rows.append("| %s | %s | %s |" % (m.group(1), m.group(2), m.group(3).replace("|", "\\|")[:400]))
    return "\n".join(rows)
def open_table():
    rows = ["| property | id | what fails (site: condition) |", "|---|---|---|"]
    for f in sorted(glob.glob(os.path.join(V, "known_findings.d", "*.json"))) + [os.path.join(V, "known_findings.json")]:
        for x in json.load(open(f)).get("findings", []):
            if x.get("status", "open") == "open":
                rows.append("| %s | %s | %s |" % (x["property"], x["id"], x["what"].replace("|", "\\|")[:500]))
    return "\n".join(rows)
def seeded_table():
    rows = ["| seeded change | property | what it needs to manifest | detected by (check: exit, #VIOLATION lines) | first replay |", "|---|---|---|---|---|"]
    for f in sorted(glob.glob(os.path.join(V, "seeded", "*", "meta.json"))):
        m = json.load(open(f)); name = os.path.basename(os.path.dirname(f))
        det = m.get("detection", {})
        ds = "; ".join("%s: exit %s, %s" % (c, r.get("exit"), r.get("n_violation_lines")) for c, r in det.items()) or "not run yet"
        fr = ""
        for c, r in det.items():
            x = r.get("first_replay")
            if isinstance(x, dict):
                fr = str(x.get("info") or x.get("no_longer_checks") or "")[:160]
                break
        rows.append("| %s | %s | %s | %s | %s |" % (name, m.get("property"), str(m.get("needs", "")).replace("|", "\\|").replace("\n", " ")[:260], ds, fr.replace("|", "\\|")))
    return "\n".join(rows)
gens = {"fixed": fixed_table, "open": open_table, "seeded": seeded_table}
p = os.path.join(V, "DESIGN.md")
s = open(p).read()
for k, fn in gens.items():
    a, b = "<!-- GEN:%s -->" % k, "<!-- /GEN:%s -->" % k
    if a in s and b in s:
        s = s[:s.index(a) + len(a)] + "\n" + fn() + "\n" + s[s.index(b):]
open(p, "w").write(s)
print("tables regenerated")
