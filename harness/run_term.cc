// C18 harness: termination analysis of the real library on one case per line.
// usage: run_term <casefile>      (observations on stdout)
//
// case <id> <dom> one <n> cons K <con>..                      one 2n-dimensional pointset
// case <id> <dom> two <n> cons K <con>.. cons K <con>..       before (n dims) / after (2n dims)
//   dom: C NNC BDS OCT BOX ;  "empty" in place of "cons K .." builds the EMPTY element
//
// The static builders of termination.cc are reached by including the .cc (the object is left out of
// the link), so that the systems the C++ really builds can be compared with the transcription.
#include "vh_common.hh"
#include "Rational_Box.hh"
#include "termination.cc"
using namespace Parma_Polyhedra_Library;
using namespace vh;
namespace T = Parma_Polyhedra_Library::Implementation::Termination;

static void out_cons(const char* tag, const Constraint_System& cs) {
  unsigned d = cs.space_dimension();
  std::cout << tag << " " << d << " "; print_cons(std::cout, cs, d); std::cout << "\n";
}
static void out_le(const char* tag, const Linear_Expression& le) {
  unsigned d = le.space_dimension();
  std::cout << tag << " " << d << " " << le.inhomogeneous_term();
  for (unsigned i = 0; i < d; ++i) std::cout << " " << le.coefficient(Variable(i));
  std::cout << "\n";
}
static void out_gen(const char* tag, bool r, const Generator& g) {
  std::cout << tag << " " << (r ? 1 : 0);
  if (r) { unsigned d = g.space_dimension(); std::cout << " " << d << " "; print_gen(std::cout, g, d); }
  std::cout << "\n";
}
template <typename PH> static void out_space(const char* tag, const PH& ph) {
  unsigned d = ph.space_dimension();
  std::cout << tag << " " << d << " " << (ph.is_empty() ? 1 : 0) << " ";
  print_gens(std::cout, ph.generators(), d); std::cout << " "; print_cons(std::cout, ph.constraints(), d); std::cout << "\n";
}
#define GUARD(tag, stmt) do { try { stmt; } catch (const std::exception& e) { std::cout << "exn " << tag << " " << exn_class(e) << "\n"; } } while (0)

template <typename PSET> static PSET build(Toks& tk, unsigned dim) {
  std::string how = tk.next();
  if (how == "empty") return PSET(dim, EMPTY);
  if (how != "cons") throw std::runtime_error("case: expected cons/empty");
  Constraint_System cs = read_cons(tk, dim);
  PSET p(dim, UNIVERSE);
  p.refine_with_constraints(cs);
  return p;
}
template <> C_Polyhedron build<C_Polyhedron>(Toks& tk, unsigned dim) {
  std::string how = tk.next();
  if (how == "empty") return C_Polyhedron(dim, EMPTY);
  Constraint_System cs = read_cons(tk, dim); C_Polyhedron p(dim, UNIVERSE); p.add_constraints(cs); return p;
}
template <> NNC_Polyhedron build<NNC_Polyhedron>(Toks& tk, unsigned dim) {
  std::string how = tk.next();
  if (how == "empty") return NNC_Polyhedron(dim, EMPTY);
  Constraint_System cs = read_cons(tk, dim); NNC_Polyhedron p(dim, UNIVERSE); p.add_constraints(cs); return p;
}

// the low-level functions on the constraint systems (all three methods, whatever the entry point)
static void low_level(const Constraint_System& cs, const Constraint_System& csb, const Constraint_System& csa) {
  {
    Constraint_System o1, o2, oj;
    GUARD("fill_MS", { T::fill_constraint_systems_MS(cs, o1, o2); out_cons("ms1", o1); out_cons("ms2", o2); });
    GUARD("fill_MSj", { T::fill_constraint_systems_MS(cs, oj, oj); out_cons("msj", oj); });
  }
  {
    Constraint_System o; Linear_Expression le;
    GUARD("fill_PRO", { T::fill_constraint_system_PR_original(cs, o, le); out_cons("pro", o); out_le("prole", le); });
  }
  {
    Constraint_System o; Linear_Expression le;
    GUARD("fill_PR", { T::fill_constraint_system_PR(csb, csa, o, le); out_cons("pr", o); out_le("prle", le); });
  }
  GUARD("tc_MS", { bool b = T::termination_test_MS(cs); std::cout << "tc_MS " << b << "\n"; });
  GUARD("tc_PRO", { bool b = T::termination_test_PR_original(cs); std::cout << "tc_PRO " << b << "\n"; });
  GUARD("tc_PR", { bool b = T::termination_test_PR(csb, csa); std::cout << "tc_PR " << b << "\n"; });
  { Generator g = point(); GUARD("oc_MS", { bool b = T::one_affine_ranking_function_MS(cs, g); out_gen("oc_MS", b, g); }); }
  { Generator g = point(); GUARD("oc_PRO", { bool b = T::one_affine_ranking_function_PR_original(cs, g); out_gen("oc_PRO", b, g); }); }
  { Generator g = point(); GUARD("oc_PR", { bool b = T::one_affine_ranking_function_PR(csb, csa, g); out_gen("oc_PR", b, g); }); }
  { C_Polyhedron s; GUARD("ac_MS", { T::all_affine_ranking_functions_MS(cs, s); out_space("ac_MS", s); }); }
  { NNC_Polyhedron s; GUARD("ac_PRO", { T::all_affine_ranking_functions_PR_original(cs, s); out_space("ac_PRO", s); }); }
  { NNC_Polyhedron s; GUARD("ac_PR", { T::all_affine_ranking_functions_PR(csb, csa, s); out_space("ac_PR", s); }); }
  { C_Polyhedron d, b; GUARD("qc_MS", { T::all_affine_quasi_ranking_functions_MS(cs, d, b); out_space("qc_MS_d", d); out_space("qc_MS_b", b); }); }
}

template <typename PSET> static void run_one(Toks& tk, unsigned n) {
  PSET p = build<PSET>(tk, 2 * n);
  std::cout << "isempty " << (p.is_empty() ? 1 : 0) << "\n";
  out_cons("rel", p.constraints());
  out_cons("mc", p.minimized_constraints());
  Constraint_System cs;
  T::assign_all_inequalities_approximation(p, cs);
  out_cons("ap", cs);
  // public entry points
  GUARD("t_MS", { bool b = termination_test_MS(p); std::cout << "t_MS " << b << "\n"; });
  GUARD("t_PR", { bool b = termination_test_PR(p); std::cout << "t_PR " << b << "\n"; });
  { Generator g = point(); GUARD("o_MS", { bool b = one_affine_ranking_function_MS(p, g); out_gen("o_MS", b, g); }); }
  { Generator g = point(); GUARD("o_PR", { bool b = one_affine_ranking_function_PR(p, g); out_gen("o_PR", b, g); }); }
  { C_Polyhedron s; GUARD("a_MS", { all_affine_ranking_functions_MS(p, s); out_space("a_MS", s); }); }
  { NNC_Polyhedron s; GUARD("a_PR", { all_affine_ranking_functions_PR(p, s); out_space("a_PR", s); }); }
  { C_Polyhedron d, b; GUARD("q_MS", { all_affine_quasi_ranking_functions_MS(p, d, b); out_space("q_MS_d", d); out_space("q_MS_b", b); }); }
  // low level: the PR two-system form needs a "before" system: the projection of the (closed) approximated
  // relation onto the unprimed variables, so that (csb, cs) describes the same relation (the judge verifies that)
  Constraint_System csb; csb.set_space_dimension(n);
  if (cs.space_dimension() == 2 * n && n > 0) {
    C_Polyhedron proj(cs);
    Variables_Set vs; for (unsigned i = 0; i < n; ++i) vs.insert(Variable(i));
    proj.remove_space_dimensions(vs);
    Constraint_System tmp; T::assign_all_inequalities_approximation(proj, tmp);
    if (tmp.space_dimension() == n) csb = tmp;
  }
  out_cons("apb", csb); out_cons("apa", cs);
  low_level(cs, csb, cs);
}

template <typename PSET> static void run_two(Toks& tk, unsigned n) {
  PSET pb = build<PSET>(tk, n);
  PSET pa = build<PSET>(tk, 2 * n);
  std::cout << "isempty " << (pb.is_empty() ? 1 : 0) << " " << (pa.is_empty() ? 1 : 0) << "\n";
  out_cons("relb", pb.constraints()); out_cons("rela", pa.constraints());
  out_cons("mcb", pb.minimized_constraints()); out_cons("mca", pa.minimized_constraints());
  Constraint_System csb, csa, cs;
  T::assign_all_inequalities_approximation(pb, csb);
  T::assign_all_inequalities_approximation(pa, csa);
  Termination_Helpers::assign_all_inequalities_approximation(pb, pa, cs);
  // the "before" system the PR_2 entry points use: pset_before intersected with the projection of pset_after
  // onto the unprimed variables (the judge verifies relg against relb / rela by exact elimination)
  PSET pg(pa);
  if (n > 0) { Variables_Set vs; for (unsigned i = 0; i < n; ++i) vs.insert(Variable(i)); pg.remove_space_dimensions(vs); }
  pg.intersection_assign(pb);
  out_cons("relg", pg.constraints()); out_cons("mcg", pg.minimized_constraints());
  Constraint_System csg;
  T::assign_all_inequalities_approximation(pg, csg);
  out_cons("apb0", csb); out_cons("apb", csg); out_cons("apa", csa); out_cons("ap", cs);
  GUARD("t_MS", { bool b = termination_test_MS_2(pb, pa); std::cout << "t_MS " << b << "\n"; });
  GUARD("t_PR", { bool b = termination_test_PR_2(pb, pa); std::cout << "t_PR " << b << "\n"; });
  { Generator g = point(); GUARD("o_MS", { bool b = one_affine_ranking_function_MS_2(pb, pa, g); out_gen("o_MS", b, g); }); }
  { Generator g = point(); GUARD("o_PR", { bool b = one_affine_ranking_function_PR_2(pb, pa, g); out_gen("o_PR", b, g); }); }
  { C_Polyhedron s; GUARD("a_MS", { all_affine_ranking_functions_MS_2(pb, pa, s); out_space("a_MS", s); }); }
  { NNC_Polyhedron s; GUARD("a_PR", { all_affine_ranking_functions_PR_2(pb, pa, s); out_space("a_PR", s); }); }
  { C_Polyhedron d, b; GUARD("q_MS", { all_affine_quasi_ranking_functions_MS_2(pb, pa, d, b); out_space("q_MS_d", d); out_space("q_MS_b", b); }); }
  low_level(cs, csg, csa);
}

template <typename PSET> static void run_dom(const std::string& mode, Toks& tk, unsigned n) {
  if (mode == "one") run_one<PSET>(tk, n); else if (mode == "two") run_two<PSET>(tk, n);
  else throw std::runtime_error("case: bad mode " + mode);
}

int main(int argc, char** argv) {
  if (argc < 2) { std::cerr << "usage: run_term casefile\n"; return 2; }
  std::ifstream in(argv[1]); std::string line;
  while (std::getline(in, line)) {
    Toks tk(line); if (!tk.more()) continue;
    std::string cmd = tk.next();
    if (cmd[0] == '#') continue;
    try {
      if (cmd != "case") throw std::runtime_error("case: unknown command " + cmd);
      std::string id = tk.next(), dom = tk.next(), mode = tk.next(); unsigned n = tk.nextl();
      std::cout << "case " << id << "\n"; std::cout.flush();
      if (dom == "C") run_dom<C_Polyhedron>(mode, tk, n);
      else if (dom == "NNC") run_dom<NNC_Polyhedron>(mode, tk, n);
      else if (dom == "BDS") run_dom<BD_Shape<mpq_class> >(mode, tk, n);
      else if (dom == "OCT") run_dom<Octagonal_Shape<mpq_class> >(mode, tk, n);
      else if (dom == "BOX") run_dom<Rational_Box>(mode, tk, n);
      else throw std::runtime_error("case: bad domain " + dom);
      std::cout << "end\n";
    } catch (const std::exception& e) {
      std::cout << "HARNESS-ERROR " << e.what() << " in: " << line << std::endl;
      return 3;
    }
    std::cout.flush();
  }
  return 0;
}
