// C14 scenarios, part 2: weakly relational domains, boxes, grids, powersets, MIP / PIP problems; GMP probe; overflow mode.
typedef BD_Shape<mpq_class> BDS; typedef Octagonal_Shape<mpq_class> OCT; typedef Box<Rational_Interval> RBOX;

static Congruence_System cgs_a() {
  Congruence_System c(3); c.insert((Variable(0) + 2 * Variable(1) %= 1) / 3); c.insert((Variable(2) - Variable(0) %= 0) / 2); c.insert((Variable(1) %= 0) / 5); return c;
}
static Congruence_System cgs_b() {
  Congruence_System c(3); c.insert((Variable(0) %= 1) / 2); c.insert((Variable(1) + Variable(2) %= 0) / 4); c.insert((Variable(0) - Variable(1) %= 0) / 0); return c;
}
static Grid* mk_grid(int which, int state) {
  Grid* g = new Grid(which == 0 ? cgs_a() : cgs_b());
  if (state == 1) (void) g->minimized_congruences();
  if (state == 2) (void) g->grid_generators();
  return g;
}
static void grid_scenarios() {
  static const char* stn[] = { "fresh", "min", "gen" };
  std::function<Grid*()> none;
  for (int st = 0; st < 3; ++st) {
    std::string sfx = std::string("_") + stn[st]; std::string dn = "Grid";
    std::function<Grid*()> X = [st]() { return mk_grid(0, st); };
    std::function<Grid*()> Y = [st]() { return mk_grid(1, (st + 1) % 3); };
    dscn<Grid>(dn + ".copy" + sfx, X, none, [](Grid& x, const Grid&) { Grid z(x); x.m_swap(z); });
    dscn<Grid>(dn + ".assign" + sfx, X, Y, [](Grid& x, const Grid& y) { x = y; });
    dscn<Grid>(dn + ".add_congruence" + sfx, X, none, [](Grid& x, const Grid&) { x.add_congruence((Variable(0) + Variable(2) %= 1) / 7); });
    dscn<Grid>(dn + ".add_congruences" + sfx, X, none, [](Grid& x, const Grid&) { x.add_congruences(cgs_b()); });
    dscn<Grid>(dn + ".add_constraint" + sfx, X, none, [](Grid& x, const Grid&) { x.add_constraint(Variable(0) - Variable(1) == 2); });
    dscn<Grid>(dn + ".refine_with_constraint" + sfx, X, none, [](Grid& x, const Grid&) { x.refine_with_constraint(Variable(0) - Variable(1) >= 2); });
    dscn<Grid>(dn + ".add_grid_generator" + sfx, X, none, [](Grid& x, const Grid&) { x.add_grid_generator(grid_point(Variable(0) + Variable(2), Coefficient(2))); x.add_grid_generator(parameter(Variable(1), Coefficient(3))); });
    dscn<Grid>(dn + ".intersection_assign" + sfx, X, Y, [](Grid& x, const Grid& y) { x.intersection_assign(y); });
    dscn<Grid>(dn + ".upper_bound_assign" + sfx, X, Y, [](Grid& x, const Grid& y) { x.upper_bound_assign(y); });
    dscn<Grid>(dn + ".difference_assign" + sfx, X, Y, [](Grid& x, const Grid& y) { x.difference_assign(y); });
    dscn<Grid>(dn + ".time_elapse_assign" + sfx, X, Y, [](Grid& x, const Grid& y) { x.time_elapse_assign(y); });
    dscn<Grid>(dn + ".concatenate_assign" + sfx, X, Y, [](Grid& x, const Grid& y) { x.concatenate_assign(y); });
    dscn<Grid>(dn + ".affine_image" + sfx, X, none, [](Grid& x, const Grid&) { x.affine_image(Variable(1), lin(1, 1, 2, 0), Coefficient(2)); });
    dscn<Grid>(dn + ".affine_preimage" + sfx, X, none, [](Grid& x, const Grid&) { x.affine_preimage(Variable(0), lin(-1, 0, 1, 1), Coefficient(1)); });
    dscn<Grid>(dn + ".generalized_affine_image" + sfx, X, none, [](Grid& x, const Grid&) { x.generalized_affine_image(Variable(2), EQUAL, lin(2, 1, 0, 1), Coefficient(1), Coefficient(3)); });
    dscn<Grid>(dn + ".unconstrain" + sfx, X, none, [](Grid& x, const Grid&) { x.unconstrain(Variable(1)); });
    dscn<Grid>(dn + ".add_space_dimensions_and_embed" + sfx, X, none, [](Grid& x, const Grid&) { x.add_space_dimensions_and_embed(2); });
    dscn<Grid>(dn + ".add_space_dimensions_and_project" + sfx, X, none, [](Grid& x, const Grid&) { x.add_space_dimensions_and_project(2); });
    dscn<Grid>(dn + ".remove_space_dimensions" + sfx, X, none, [](Grid& x, const Grid&) { Variables_Set vs; vs.insert(Variable(1)); x.remove_space_dimensions(vs); });
    dscn<Grid>(dn + ".remove_higher_space_dimensions" + sfx, X, none, [](Grid& x, const Grid&) { x.remove_higher_space_dimensions(1); });
    dscn<Grid>(dn + ".expand_space_dimension" + sfx, X, none, [](Grid& x, const Grid&) { x.expand_space_dimension(Variable(0), 2); });
    dscn<Grid>(dn + ".fold_space_dimensions" + sfx, X, none, [](Grid& x, const Grid&) { Variables_Set vs; vs.insert(Variable(0)); x.fold_space_dimensions(vs, Variable(2)); });
    dscn<Grid>(dn + ".map_space_dimensions" + sfx, X, none, [](Grid& x, const Grid&) { PF14 f; f.m.push_back(1); f.m.push_back(-1); f.m.push_back(0); x.map_space_dimensions(f); });
    dscn<Grid>(dn + ".queries" + sfx, X, Y, [](Grid& x, const Grid& y) {
      (void) x.is_empty(); (void) x.is_universe(); (void) x.is_bounded(); (void) x.is_discrete(); (void) x.contains(y); (void) x.is_disjoint_from(y); (void) x.constrains(Variable(1));
      (void) x.relation_with((Variable(0) - Variable(1) %= 0) / 2); (void) x.relation_with(grid_point(Variable(0) + Variable(1)));
      Coefficient n, d; bool m; Generator g = point(); (void) x.maximize(lin(0, 1, 1, 1), n, d, m, g); (void) x.bounds_from_below(lin(0, 1, -1));
      Coefficient a, b, c, e; (void) x.frequency(lin(0, 1, 1), a, b, c, e);
      (void) x.affine_dimension(); (void) x.minimized_congruences(); (void) x.minimized_grid_generators(); (void) x.minimized_constraints(); });
    dscn<Grid>(dn + ".widening" + sfx, [st]() { Grid* p = mk_grid(0, st); Grid* q = mk_grid(1, 0); p->upper_bound_assign(*q); delete q; return p; },
               [st]() { return mk_grid(0, (st + 2) % 3); }, [](Grid& x, const Grid& y) { x.widening_assign(y); });
    dscn<Grid>(dn + ".generator_widening" + sfx, [st]() { Grid* p = mk_grid(0, st); Grid* q = mk_grid(1, 0); p->upper_bound_assign(*q); delete q; return p; },
               [st]() { return mk_grid(0, (st + 2) % 3); }, [](Grid& x, const Grid& y) { x.generator_widening_assign(y); });
    dscn<Grid>(dn + ".wrap_assign" + sfx, X, none, [](Grid& x, const Grid&) { Variables_Set vs; vs.insert(Variable(0)); x.wrap_assign(vs, BITS_8, UNSIGNED, OVERFLOW_WRAPS); });
    dscn<Grid>(dn + ".simplify_using_context" + sfx, X, Y, [](Grid& x, const Grid& y) { (void) x.simplify_using_context_assign(y); });
  }
}

typedef Pointset_Powerset<C_Polyhedron> PSET;
static PSET* mk_pset(int which) {
  PSET* p = new PSET(3, EMPTY);
  p->add_disjunct(C_Polyhedron(which == 0 ? cs_a(3) : cs_b(3)));
  Constraint_System cs; cs.insert(Variable(0) >= 6 + which); cs.insert(Variable(0) <= 9); cs.insert(Variable(1) - Variable(2) <= 1); cs.insert(Variable(1) >= 0); cs.insert(Variable(2) >= 0); cs.insert(Variable(2) <= 4);
  p->add_disjunct(C_Polyhedron(cs));
  return p;
}
static void powerset_scenarios() {
  std::string dn = "Powerset";
  std::function<PSET*()> X = []() { return mk_pset(0); }, Y = []() { return mk_pset(1); }, none;
  dscn<PSET>(dn + ".copy", X, none, [](PSET& x, const PSET&) { PSET z(x); x.m_swap(z); });
  dscn<PSET>(dn + ".assign", X, Y, [](PSET& x, const PSET& y) { x = y; });
  dscn<PSET>(dn + ".add_disjunct", X, none, [](PSET& x, const PSET&) { x.add_disjunct(C_Polyhedron(cs_b(3))); });
  dscn<PSET>(dn + ".add_constraint", X, none, [](PSET& x, const PSET&) { x.add_constraint(Variable(2) - Variable(0) <= 1); });
  dscn<PSET>(dn + ".intersection_assign", X, Y, [](PSET& x, const PSET& y) { x.intersection_assign(y); });
  dscn<PSET>(dn + ".upper_bound_assign", X, Y, [](PSET& x, const PSET& y) { x.upper_bound_assign(y); });
  dscn<PSET>(dn + ".difference_assign", X, Y, [](PSET& x, const PSET& y) { x.difference_assign(y); });
  dscn<PSET>(dn + ".pairwise_reduce", X, none, [](PSET& x, const PSET&) { x.add_disjunct(C_Polyhedron(cs_b(3))); x.pairwise_reduce(); });
  dscn<PSET>(dn + ".omega_reduce", X, none, [](PSET& x, const PSET&) { x.add_disjunct(C_Polyhedron(cs_a(3))); x.omega_reduce(); });
  dscn<PSET>(dn + ".affine_image", X, none, [](PSET& x, const PSET&) { x.affine_image(Variable(1), lin(1, 1, 2, 0), Coefficient(2)); });
  dscn<PSET>(dn + ".queries", X, Y, [](PSET& x, const PSET& y) { (void) x.is_empty(); (void) x.geometrically_covers(y); (void) x.contains(y); (void) x.is_disjoint_from(y); (void) x.is_bounded();
    Coefficient n, d; bool m; (void) x.maximize(lin(0, 1, 1, 1), n, d, m); (void) x.relation_with(Variable(0) >= 3); });
  dscn<PSET>(dn + ".BHZ03_widening", []() { PSET* p = mk_pset(0); PSET* q = mk_pset(1); p->upper_bound_assign(*q); delete q; return p; }, X,
             [](PSET& x, const PSET& y) { x.BHZ03_widening_assign<BHRZ03_Certificate>(y, widen_fun_ref(&Polyhedron::H79_widening_assign)); });
  dscn<PSET>(dn + ".add_space_dimensions_and_embed", X, none, [](PSET& x, const PSET&) { x.add_space_dimensions_and_embed(2); });
  dscn<PSET>(dn + ".remove_space_dimensions", X, none, [](PSET& x, const PSET&) { Variables_Set vs; vs.insert(Variable(1)); x.remove_space_dimensions(vs); });
  dscn<PSET>(dn + ".concatenate_assign", X, Y, [](PSET& x, const PSET& y) { x.concatenate_assign(y); });
}

// ---- MIP / PIP ---------------------------------------------------------------------------------------
struct MipScn : Scn {
  std::function<MIP_Problem*()> mk; std::function<void(MIP_Problem&)> op; MIP_Problem* p;
  void build() { p = mk(); } void call() { op(*p); } void destroy() { delete p; p = 0; }
  bool valid() { return p->OK(); }
  bool usable() {
    MIP_Problem z(*p); if (!z.OK()) return false;
    p->add_constraint(Variable(0) <= 50); (void) p->is_satisfiable(); if (!p->OK()) return false;
    if (p->solve() == OPTIMIZED_MIP_PROBLEM) { (void) p->optimizing_point(); Coefficient n, d; p->optimal_value(n, d); }
    *p = z; if (!p->OK()) return false;
    p->clear(); return p->OK();
  }
  std::string result() { MIP_Problem z(*p); std::ostringstream os; MIP_Problem_Status s = z.solve(); os << s; if (s == OPTIMIZED_MIP_PROBLEM) { Coefficient n, d; z.optimal_value(n, d); os << " " << n << "/" << d; } return os.str(); }
};
static MIP_Problem* mk_mip(int variant) {
  Constraint_System cs; cs.insert(Variable(0) >= 0); cs.insert(Variable(1) >= 0); cs.insert(Variable(2) >= 0);
  cs.insert(2 * Variable(0) + Variable(1) + Variable(2) <= 14); cs.insert(Variable(0) - Variable(1) >= -3); cs.insert(3 * Variable(1) + 2 * Variable(2) <= 17); cs.insert(Variable(0) + Variable(2) >= 1);
  MIP_Problem* p = new MIP_Problem(3, cs, lin(0, 3, 2, 1), MAXIMIZATION);
  if (variant & 1) { Variables_Set vs; vs.insert(Variable(0)); vs.insert(Variable(2)); p->add_to_integer_space_dimensions(vs); }
  if (variant & 2) (void) p->solve();
  return p;
}
static void mip_scn(const std::string& n, int variant, std::function<void(MIP_Problem&)> op) {
  MipScn* s = new MipScn; s->name = n; s->mk = [variant]() { return mk_mip(variant); }; s->op = op; s->p = 0; scns.push_back(s);
}
static void mip_scenarios() {
  for (int v = 0; v < 4; ++v) {
    std::string sfx = "_v" + itos(v);
    mip_scn("MIP.solve" + sfx, v, [](MIP_Problem& p) { (void) p.solve(); });
    mip_scn("MIP.is_satisfiable" + sfx, v, [](MIP_Problem& p) { (void) p.is_satisfiable(); });
    mip_scn("MIP.add_constraint" + sfx, v, [](MIP_Problem& p) { p.add_constraint(Variable(0) + Variable(1) <= 6); p.add_constraint(Variable(2) == 2); });
    mip_scn("MIP.add_constraints_solve" + sfx, v, [](MIP_Problem& p) { Constraint_System cs; cs.insert(Variable(0) + Variable(1) <= 6); cs.insert(Variable(1) - Variable(2) >= -1); p.add_constraints(cs); (void) p.solve(); });
    mip_scn("MIP.add_space_dimensions" + sfx, v, [](MIP_Problem& p) { p.add_space_dimensions_and_embed(2); p.add_constraint(Variable(3) + Variable(4) <= 3); p.set_objective_function(lin(0, 1, 1) + Variable(4)); (void) p.solve(); });
    mip_scn("MIP.set_objective_solve" + sfx, v, [](MIP_Problem& p) { p.set_objective_function(lin(0, -1, 1, -2)); p.set_optimization_mode(MINIMIZATION); (void) p.solve(); (void) p.optimizing_point(); });
    mip_scn("MIP.copy" + sfx, v, [](MIP_Problem& p) { MIP_Problem z(p); p.m_swap(z); });
    // the source is built once, outside the faulted region (building it inside would make the HARNESS leak when mk_mip itself is interrupted)
    mip_scn("MIP.assign" + sfx, v, [](MIP_Problem& p) { static MIP_Problem* src = 0; if (!src) { bool a = c14::armed; c14::armed = false; src = mk_mip(1); c14::armed = a; } p = *src; });
    mip_scn("MIP.steepest_edge" + sfx, v, [](MIP_Problem& p) { p.set_control_parameter(MIP_Problem::PRICING_STEEPEST_EDGE_EXACT); (void) p.solve(); });
  }
}
static PIP_Problem* mk_pip(int variant);
struct PipScn : Scn {
  std::function<PIP_Problem*()> mk; std::function<void(PIP_Problem&)> op; PIP_Problem* p;
  void build() { p = mk(); } void call() { op(*p); } void destroy() { delete p; p = 0; }
  bool valid() { return p->OK(); }
  bool usable() {
    PIP_Problem z(*p); if (!z.OK()) { if (getenv("C14_DEBUG")) std::cerr << "pip: copy not OK\n"; return false; }
    p->add_constraint(Variable(0) <= 50); (void) p->is_satisfiable(); if (!p->OK()) { if (getenv("C14_DEBUG")) std::cerr << "pip: after add+sat not OK\n"; return false; }
    if (p->solve() == OPTIMIZED_PIP_PROBLEM) { const PIP_Tree_Node* t = p->solution(); if (t && !t->OK()) { if (getenv("C14_DEBUG")) std::cerr << "pip: tree not OK\n"; return false; } }
    // NOTE: assigning a SOLVED PIP_Problem (operator= is copy + m_swap) gives OK() == false even without any fault (the tree nodes keep
    // the other problem as owner); this is outside C14, so assign-to is exercised with an unsolved source only
    { PIP_Problem* f = mk_pip(0); *p = *f; delete f; } if (!p->OK()) { if (getenv("C14_DEBUG")) std::cerr << "pip: after assign not OK\n"; return false; }
    p->clear(); if (!p->OK()) { if (getenv("C14_DEBUG")) std::cerr << "pip: after clear not OK\n"; return false; }
    return true;
  }
  std::string result() { PIP_Problem z(*p); std::ostringstream os; os << z.solve(); if (z.solution()) { z.print_solution(os); } return os.str(); }
};
static PIP_Problem* mk_pip(int variant) {
  // variables 0,1 ; parameters 2,3
  Constraint_System cs; cs.insert(2 * Variable(1) - Variable(0) >= 0 - 0 * Variable(2)); cs.insert(Variable(1) <= Variable(2)); cs.insert(Variable(0) <= Variable(3));
  cs.insert(2 * Variable(0) + 3 * Variable(1) >= Variable(2) + 1); cs.insert(Variable(0) >= 0); cs.insert(Variable(1) >= 0); cs.insert(Variable(3) >= 0); cs.insert(Variable(2) <= 12);
  Variables_Set params; params.insert(Variable(2)); params.insert(Variable(3));
  PIP_Problem* p = new PIP_Problem(4, cs.begin(), cs.end(), params);
  if (variant & 1) p->set_control_parameter(PIP_Problem::CUTTING_STRATEGY_ALL);
  if (variant & 2) (void) p->solve();
  return p;
}
static void pip_scn(const std::string& n, int variant, std::function<void(PIP_Problem&)> op) {
  PipScn* s = new PipScn; s->name = n; s->mk = [variant]() { return mk_pip(variant); }; s->op = op; s->p = 0; scns.push_back(s);
}
static void pip_scenarios() {
  for (int v = 0; v < 4; ++v) {
    std::string sfx = "_v" + itos(v);
    pip_scn("PIP.solve" + sfx, v, [](PIP_Problem& p) { (void) p.solve(); });
    pip_scn("PIP.add_constraint_solve" + sfx, v, [](PIP_Problem& p) { p.add_constraint(Variable(0) + Variable(1) <= Variable(3) + 4); (void) p.solve(); });
    pip_scn("PIP.add_space_dimensions" + sfx, v, [](PIP_Problem& p) { p.add_space_dimensions_and_embed(1, 1); p.add_constraint(Variable(4) + Variable(0) >= Variable(5)); (void) p.solve(); });
    pip_scn("PIP.copy" + sfx, v, [](PIP_Problem& p) { PIP_Problem z(p); (void) z.solve(); });
    pip_scn("PIP.assign" + sfx, v, [](PIP_Problem& p) { static PIP_Problem* src = 0; if (!src) { bool a = c14::armed; c14::armed = false; src = mk_pip(1); c14::armed = a; } p = *src; });
    if (v < 2) pip_scn("PIP.big_parameter" + sfx, v, [](PIP_Problem& p) { p.add_space_dimensions_and_embed(0, 1); p.add_constraint(Variable(4) >= Variable(0)); p.set_big_parameter_dimension(4); (void) p.solve(); });
  }
}


// MIP_Problem::add_constraint at every fill level of input_cs (trace mode: compared with the Coq program add_constraint_helper at every k)
static void mip_add_trace_scenarios() {
#ifdef PPL_GMP_INTEGERS
  struct MSt { MIP_Problem* p; Constraint* c; MSt() : p(0), c(0) {} };
  for (int fill = 0; fill <= 13; ++fill) {
    MSt* st = new MSt;
    auto mkp = [fill]() { MIP_Problem* p = new MIP_Problem(3); for (int i = 0; i < fill; ++i) p->add_constraint(Variable(i % 3) + (i + 1) * Variable((i + 1) % 3) <= 10 + i); return p; };
    LScn* s = lscn("mip_add_" + itos(fill), [st, mkp]() { st->p = mkp(); st->c = new Constraint(Variable(0) - 2 * Variable(2) >= -7); }, [st]() { st->p->add_constraint(*st->c); }, [st]() { delete st->p; delete st->c; st->p = 0; st->c = 0; },
                   [st]() { return st->p->OK(); }, [st]() { MIP_Problem z(*st->p); (void) z.solve(); st->p->add_constraint(Variable(1) <= 40); (void) st->p->is_satisfiable(); return st->p->OK() && z.OK(); });
    s->container = true;
    { MIP_Problem* p = mkp(); std::ostringstream o;
      o << "mip_add size=" << p->input_cs.size() << " cap=" << p->input_cs.capacity() << " newcap=" << compute_capacity(p->input_cs.size() + 1, p->input_cs.max_size()) << " csize=" << sizeof(Constraint);
      s->params = o.str(); delete p; }
  }
#endif
}

static void more_scenarios() {
  mip_add_trace_scenarios();
#ifdef PPL_GMP_INTEGERS
  common_domain_scenarios<BDS>("BD_Shape", false);
  common_domain_scenarios<OCT>("Octagonal_Shape", false);
  common_domain_scenarios<RBOX>("Box", false);
  grid_scenarios();
  powerset_scenarios();
  mip_scenarios();
  pip_scenarios();
#endif
}

// ---- experiment: does the installed GMP tolerate a throwing allocation function? -------------------------------------
static int gmpprobe() {
#ifdef PPL_GMP_INTEGERS
  // (1) unwinding through GMP frames; (2) consistency of the operands afterwards, for requests issued by the whitelisted entry points only
  long caught = 0, leaks = 0, bad = 0, positions = 0;
  for (int round = 0; round < 2; ++round) {
    for (long k = 1; k < 400; ++k) {
      long base = c14::live_blocks;
      bool done = false;
      {
        mpz_class a("123456789012345678901234567890123456789"), b(7), c, d(1);
        c14::inject_new = true; c14::inject_gmp = true;
        c14::arm(k);
        try {
          mpz_class e(a); e += a; b = a; c = a * 3; d = a; d *= d; mpz_class f = d / a; mpz_class g; mpz_gcd(g.get_mpz_t(), d.get_mpz_t(), f.get_mpz_t());
          mpz_class h(b); h <<= 200; mpz_class i = h % a; mpz_lcm(g.get_mpz_t(), a.get_mpz_t(), i.get_mpz_t()); mpz_addmul(c.get_mpz_t(), a.get_mpz_t(), h.get_mpz_t());
          mpq_class q(a, b); q.canonicalize(); mpq_class r = q * q + q; (void) r;
          done = !c14::fired;
        } catch (const std::bad_alloc&) { ++caught; }
        c14::disarm();
        // operands still consistent: usable and destructible
        a += 1; b *= 2; c -= d; d = c + a;
        if (mpz_sizeinbase(d.get_mpz_t(), 2) == 0) ++bad;
      }
      if (c14::live_blocks != base) { ++leaks; std::cout << "probe-leak k=" << k << " blocks=" << (c14::live_blocks - base) << " failing_caller=" << c14::fired_caller << " size=" << c14::fired_size << "\n"; }
      if (done) break;
      ++positions;
    }
  }
  std::cout << "gmpprobe version=" << gmp_version << " unwinding=ok positions=" << positions << " caught=" << caught << " leaks=" << leaks << " inconsistent=" << bad << "\n";
  std::cout << "gmpcallers";
  for (int i = 0; i < c14::nccnt; ++i) std::cout << " " << c14::ccnt[i].name << ":" << c14::ccnt[i].n << ":" << (c14::ccnt[i].ok ? "inj" : "skip");
  std::cout << "\n";
#else
  std::cout << "gmpprobe not-applicable\n";
#endif
  return 0;
}

// ---- overflow mode (checked-int builds) --------------------------------------------------------------------------
static unsigned long long ov_rng;
static unsigned ov_rnd() { ov_rng = ov_rng * 6364136223846793005ULL + 1442695040888963407ULL; return (unsigned) (ov_rng >> 33); }
static int ov_int(int lo, int hi) { return lo + (int) (ov_rnd() % (unsigned) (hi - lo + 1)); }
static Linear_Expression ov_expr(int dim, int maxc) { Linear_Expression e; for (int i = 0; i < dim; ++i) { int a = ov_int(-maxc, maxc); if (a) e += Coefficient(a) * Variable(i); } e += Coefficient(ov_int(-maxc, maxc)); return e; }
static C_Polyhedron* ov_poly(int dim, int maxc) {
  Constraint_System cs; int n = ov_int(2, 5);
  for (int i = 0; i < n; ++i) { Linear_Expression e = ov_expr(dim, maxc); if (ov_int(0, 5) == 0) cs.insert(e == 0); else cs.insert(e >= 0); }
  for (int i = 0; i < dim; ++i) { cs.insert(Variable(i) >= -maxc * 3); cs.insert(Variable(i) <= maxc * 3); }
  return new C_Polyhedron(cs);
}
static const char* opn_of(int op) {
  static const char* opn[] = { "minimize", "intersection", "hull", "affine_image", "difference", "widening", "gen_affine_image", "time_elapse", "add_constraints", "maximize" };
  return opn[op];
}
static int overflow_mode(long seed, long ncases) {
  long overflows = 0, completed = 0, leaks = 0, invalid = 0, unusable = 0, argchg = 0, other = 0, ok_overflowed = 0;
  std::map<std::string, long> byop;
  for (int i = 0; i < 10; ++i) byop[opn_of(i)] = 0;      // nodes allocated here, not inside a measured case
  // warm-up
  { ov_rng = 12345; C_Polyhedron* p = ov_poly(2, 2); try { (void) p->minimized_generators(); } catch (...) {} delete p; purge_caches(); }
  for (long id = 0; id < ncases; ++id) {
    ov_rng = (unsigned long long) seed * 1000003ULL + (unsigned long long) id * 7919ULL + 99ULL; for (int w = 0; w < 4; ++w) ov_rnd();
    int dim = ov_int(2, 3), maxc = ov_int(3, 12), op = ov_int(0, 9);
    purge_caches();
    long base = c14::live_blocks;
    C_Polyhedron *x = 0, *y = 0, *ys = 0; std::string out = "ok"; bool built = true;
    static const char* opn[] = { "minimize", "intersection", "hull", "affine_image", "difference", "widening", "gen_affine_image", "time_elapse", "add_constraints", "maximize" };
    try { x = ov_poly(dim, maxc); y = ov_poly(dim, maxc); ys = new C_Polyhedron(*y); } catch (const std::overflow_error&) { built = false; }
    if (built) {
      try {
        switch (op) {
          case 0: (void) x->minimized_generators(); (void) x->minimized_constraints(); break;
          case 1: x->intersection_assign(*y); (void) x->minimized_generators(); break;
          case 2: x->upper_bound_assign(*y); (void) x->minimized_constraints(); break;
          case 3: x->affine_image(Variable(0), ov_expr(dim, maxc), Coefficient(ov_int(1, 5))); (void) x->minimized_constraints(); break;
          case 4: x->difference_assign(*y); break;
          case 5: x->upper_bound_assign(*y); x->H79_widening_assign(*y); break;
          case 6: x->generalized_affine_image(Variable(1), LESS_OR_EQUAL, ov_expr(dim, maxc), Coefficient(ov_int(1, 7))); (void) x->minimized_generators(); break;
          case 7: x->time_elapse_assign(*y); break;
          case 8: { Constraint_System cs; cs.insert(ov_expr(dim, maxc * 2) >= 0); cs.insert(ov_expr(dim, maxc * 2) >= 0); x->add_constraints(cs); (void) x->is_empty(); break; }
          default: { Coefficient n, d; bool m; (void) x->maximize(ov_expr(dim, maxc), n, d, m); (void) x->contains(*y); break; }
        }
      }
      catch (const std::overflow_error&) { out = "overflow_error"; }
      catch (const std::exception& e) { out = exn_name(e); }
      bool valid = false, use = false, arg = false;
      // OK() itself computes with the bounded coefficients and may overflow: then nothing is concluded about validity
      try { valid = x->OK() && y->OK(); } catch (const std::overflow_error&) { valid = true; ++ok_overflowed; }
      try {
        // the argument's value must be unchanged; comparing may itself overflow (then nothing is concluded)
        try { arg = (*y == *ys); } catch (const std::overflow_error&) { arg = true; }
        C_Polyhedron z(*x); use = z.OK();
        *x = C_Polyhedron(dim, UNIVERSE); x->add_constraint(Variable(0) >= 1); use = use && x->OK() && !x->is_empty();
        *x = *ys; use = use && x->OK();
      } catch (const std::overflow_error&) { /* a follow-up that overflows again is legitimate */ use = true; }
      catch (const std::exception& e) { use = false; }
      if (out == "overflow_error") { ++overflows; byop[opn[op]]++; } else if (out == "ok") ++completed; else ++other;
      if (!valid) ++invalid; if (!use) ++unusable; if (!arg) ++argchg;
      if (out != "ok" || !valid || !use || !arg)
        std::cout << "case id=" << id << " op=" << opn[op] << " dim=" << dim << " maxc=" << maxc << " out=" << out << " valid=" << valid << " use=" << use << " arg=" << arg << "\n";
    }
    delete x; delete y; delete ys; purge_caches();
    long leak = c14::live_blocks - base;
    if (leak != 0) { ++leaks; std::cout << "case id=" << id << " op=" << (built ? opn_of(op) : "build") << " leak=" << leak << " out=" << out << "\n"; }
  }
  std::cout << "done overflow cases=" << ncases << " overflows=" << overflows << " completed=" << completed << " other=" << other << " leaks=" << leaks << " invalid=" << invalid
            << " unusable=" << unusable << " argchg=" << argchg << " OK_itself_overflowed=" << ok_overflowed;
  for (std::map<std::string, long>::iterator i = byop.begin(); i != byop.end(); ++i) std::cout << " ov_" << i->first << "=" << i->second;
  std::cout << "\n";
  return 0;
}
