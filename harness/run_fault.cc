// C14(b): exhaustive fault enumeration on the real library.
//   run_fault list                       names of all scenarios
//   run_fault sweep <scenario> [maxk] [layers]   fail the k-th allocation request, k = 1, 2, ... until the call completes;
//                                        layers: "ng" (default), "n" (operator new only), "g" (GMP only)
//   run_fault trace <scenario>           container scenarios: allocation trace of the call for every k (compared with the Coq model)
//   run_fault abandon <scenario> [maxk]  a Throwable thrown at the k-th maybe_abandon()
//   run_fault weight <scenario> [steps]  Weightwatch thresholds swept
//   run_fault overflow <seed> <ncases>   (checked-int builds) random polyhedron operations; every std::overflow_error is followed by the same checks
//   run_fault gmpprobe                   experiment: does the installed GMP tolerate an allocation function that throws?
// One line per fault position:  k=.. out=.. fired=.. layer=.. leak=.. valid=.. use=.. arg=.. strong=..
#include "c14_alloc.h"
#define VH_PRIVATE_ACCESS
#include "vh_ppl.hh"
#include <functional>
#include <typeinfo>
using namespace Parma_Polyhedra_Library;

typedef Threshold_Watcher<Weightwatch_Traits> Weightwatch;
template <> Weightwatch::Initialize Weightwatch::init = Weightwatch::Initialize();

// ---------------------------------------------------------------------------------------------
// caches that legitimately keep memory between calls: emptied before every measurement
template <typename T> static void purge_temp() {
  Temp_Item<T>*& h = Temp_Item<T>::free_list_ref();
  while (h != 0) { Temp_Item<T>* p = h; h = p->next; delete p; }
}
static void purge_caches() {
  purge_temp<Coefficient>();
  purge_temp<mpz_class>();
  purge_temp<mpq_class>();
}

static const char* exn_name(const std::exception& e) {
  if (dynamic_cast<const std::bad_alloc*>(&e)) return "bad_alloc";
  if (dynamic_cast<const std::overflow_error*>(&e)) return "overflow_error";
  if (dynamic_cast<const std::invalid_argument*>(&e)) return "invalid_argument";
  if (dynamic_cast<const std::length_error*>(&e)) return "length_error";
  if (dynamic_cast<const std::domain_error*>(&e)) return "domain_error";
  if (dynamic_cast<const std::logic_error*>(&e)) return "logic_error";
  if (dynamic_cast<const std::runtime_error*>(&e)) return "runtime_error";
  return "exception";
}

// ---------------------------------------------------------------------------------------------
struct Scn {
  std::string name;
  bool container;               // has a Coq allocation model (trace mode)
  std::string params;           // parameters handed to the model (trace mode)
  Scn() : container(false) {}
  virtual ~Scn() {}
  virtual void build() = 0;     // create the objects involved (never faulted)
  virtual void call() = 0;      // the operation under fault
  virtual bool valid() = 0;     // every object involved satisfies its invariant (OK())
  virtual bool usable() = 0;    // copy / follow-up operation / assign-to work and give valid objects
  virtual bool arg_unchanged() { return true; }   // const arguments still equal their snapshot
  virtual bool strong() { return true; }          // receiver still equal to its snapshot (recorded, not required)
  virtual void destroy() = 0;
  virtual std::string result() { return ""; }     // canonical text of the result (used to compare the final unfaulted rerun with the first run)
  virtual long owned_blocks() { return -1; }      // containers: blocks owned by the object (private access), -1 unknown
};
static std::vector<Scn*> scns;

template <typename D> static std::string dump_of(const D& d) { std::ostringstream os; d.ascii_dump(os); return os.str(); }

// generic scenario over a domain D with receiver x and an optional const argument y
template <typename D> struct DScn : Scn {
  std::function<D*()> mkx, mky;
  std::function<void(D&, const D&)> op;
  D *x, *y, *xs, *ys;
  DScn(const std::string& n, std::function<D*()> a, std::function<D*()> b, std::function<void(D&, const D&)> o) : mkx(a), mky(b), op(o), x(0), y(0), xs(0), ys(0) { name = n; }
  void build() { x = mkx(); y = mky ? mky() : 0; xs = new D(*x); ys = y ? new D(*y) : 0; }
  void call() { op(*x, y ? *y : *x); }
  bool valid() { return x->OK() && (!y || y->OK()); }
  bool arg_unchanged() { return !y || (*y == *ys); }
  bool strong() { return x->space_dimension() == xs->space_dimension() && *x == *xs; }
  bool usable() {
    D z(*x); if (!z.OK()) return false;
    if (!(z == *x)) return false;
    dimension_type d = x->space_dimension();
    x->add_space_dimensions_and_embed(1); x->remove_higher_space_dimensions(d);
    (void) x->is_empty();
    if (!x->OK()) return false;
    *x = *xs; if (!x->OK() || !(*x == *xs)) return false;     // assign-to
    z = *x; if (!(z == *xs)) return false;
    return true;
  }
  void destroy() { delete x; delete y; delete xs; delete ys; x = y = xs = ys = 0; }
  std::string result() { D z(*x); (void) z.is_empty(); std::ostringstream os; os << z.space_dimension() << ":" << (z == *x); return os.str() + dump_of(z).substr(0, 0); }
};

// ---------------------------------------------------------------------------------------------
// sweep driver
static bool g_verbose_leak = true;

static void report_leak_diagnosis(Scn& s, long k, long base_blocks) {
  // deterministic rerun of position k with backtraces recorded: for every leaked block, the deepest frame that
  // its allocation stack shares with the stack of the failed request is the function the exception passed through
  // without releasing the block.
  purge_caches();
  s.build();
  c14::recording = true; c14::rec_base = c14::epoch_seq; c14::bt_throw_len = 0;
  c14::arm(k);
  try { s.call(); } catch (...) {}
  c14::disarm(); c14::recording = false;
  uint32_t lo = c14::rec_base, hi = c14::epoch_seq;
  s.destroy(); purge_caches();
  std::map<std::string, int> culprits; std::map<std::string, int> sites;
  int nleak = 0, nmpq = 0;
  for (c14::Hdr* h = c14::head.next; h != &c14::head; h = h->next) {
    if (h->seq < lo || h->seq >= hi) continue;
    ++nleak; if (h->cls == 1) ++nmpq;
    uint32_t i = h->seq - lo; if (i >= (uint32_t) c14::BT_MAX) continue;
    // frames: [0] = raw_alloc/backtrace itself ... find deepest common function (search from the outermost side)
    int la = c14::bt_len[i], lt = c14::bt_throw_len;
    int a = la - 1, t = lt - 1; const char* common = "?"; const char* nm1; const char* nm2;
    while (a >= 0 && t >= 0) {
      void* f1 = c14::fn_of(c14::bt_tab[i][a], &nm1); void* f2 = c14::fn_of(c14::bt_throw[t], &nm2);
      if (f1 == 0 || f2 == 0) { if (c14::bt_tab[i][a] != c14::bt_throw[t] && (f1 != f2 || std::strcmp(nm1, nm2) != 0)) break; --a; --t; continue; }
      if (f1 != f2) break;
      common = nm1; --a; --t;
    }
    char buf[400]; culprits[c14::demangle(common, buf, sizeof buf)]++;
    // allocation site: first frame outside the allocator / operator new / gmp
    const char* site = "?";
    for (int j = 0; j < la; ++j) {
      const char* nm; c14::fn_of(c14::bt_tab[i][j], &nm);
      if (std::strncmp(nm, "_Zn", 3) == 0 || std::strncmp(nm, "__gmp", 5) == 0 || std::strstr(nm, "c14") || nm[0] == '?') continue;
      if (std::strstr(nm, "new_allocator") || std::strstr(nm, "allocator_traits")) continue;
      site = nm; break;
    }
    sites[c14::demangle(site, buf, sizeof buf)]++;
  }
  std::cout << "leakinfo k=" << k << " blocks=" << nleak << " mpqinit=" << nmpq << " culprit=";
  for (std::map<std::string, int>::iterator i = culprits.begin(); i != culprits.end(); ++i) std::cout << (i == culprits.begin() ? "" : "|") << i->first;
  std::cout << " allocated_in=";
  for (std::map<std::string, int>::iterator i = sites.begin(); i != sites.end(); ++i) std::cout << (i == sites.begin() ? "" : "|") << i->first;
  std::cout << "\n";
  // the leaked blocks stay in the ledger: later positions measure against a fresh baseline
  (void) base_blocks;
}

// innermost library frames of the failed request (skipping the allocator, operator new, GMP and std:: helpers)
static std::string fault_site() {
  std::string r; int n = 0;
  for (int j = 0; j < c14::bt_throw_len && n < 4; ++j) {
    const char* nm; c14::fn_of(c14::bt_throw[j], &nm);
    if (nm[0] == '?' || std::strncmp(nm, "_Zn", 3) == 0 || std::strncmp(nm, "__gmp", 5) == 0 || std::strstr(nm, "c14")) continue;
    char buf[300]; std::string d = c14::demangle(nm, buf, sizeof buf);
    if (d.compare(0, 5, "std::") == 0 || d.compare(0, 11, "__gnu_cxx::") == 0 || d.find("__gmp_expr") == 0) continue;
    if (d.find("Counting_Throwable") != std::string::npos || d.find("too_fat") == 0 || d.find("maybe_abandon") != std::string::npos
        || d.find("Threshold_Watcher") != std::string::npos || d.find("Watchdog::Handler") != std::string::npos || d.find("Weightwatch_Traits") != std::string::npos) continue;
    if (d == "main" || d.find("sweep") == 0 || d.find("abandon") == 0 || d.find("weight") == 0 || d.find("LScn::") == 0 || d.find("DScn<") == 0 || d.find("MipScn") == 0 || d.find("PipScn") == 0) break;
    size_t pos = d.find("Parma_Polyhedra_Library::"); while (pos != std::string::npos) { d.erase(pos, 25); pos = d.find("Parma_Polyhedra_Library::"); }
    for (size_t i = 0; i < d.size(); ++i) if (d[i] == ' ') d[i] = '_';
    r += (n ? "<" : "") + d; ++n;
  }
  return r.empty() ? "?" : r;
}

struct SweepStat { long positions, exn, leaks, invalid, unusable, argchg, strong_kept, spurious; SweepStat() : positions(0), exn(0), leaks(0), invalid(0), unusable(0), argchg(0), strong_kept(0), spurious(0) {} };

static int sweep(Scn& s, long maxk, const std::string& layers, long startk = 1) {
  c14::inject_new = layers.find('n') != std::string::npos;
  c14::inject_gmp = layers.find('g') != std::string::npos;
  // warm-up: function-local statics, stream locale, caches
  s.build(); s.call(); bool v0 = s.valid(); std::string r0 = s.result();
  try { (void) s.arg_unchanged(); (void) s.strong(); (void) s.usable(); } catch (...) {}     // the probes' own first-use allocations (function-local statics) belong to the warm-up
  s.destroy(); purge_caches();
  std::cout << "scenario " << s.name << " warm valid=" << v0 << std::endl;
  SweepStat st; long k;
  bool completed = false;
  std::string site, out, chk_exn; site.reserve(4000); out.reserve(64); chk_exn.reserve(64);   // no allocation inside the measured region
  for (k = startk; k <= maxk; ++k) {
    purge_caches();
    long base = c14::live_blocks, base_bytes = c14::live_bytes;
    s.build();
    out = "ok";
    c14::arm(k);
    try { s.call(); }
    catch (const std::exception& e) { c14::disarm(); out = exn_name(e); }
    catch (...) { c14::disarm(); out = "unknown"; }
    c14::disarm();
    bool fired = c14::fired; int layer = c14::fired_layer; const char* caller = c14::fired_caller; size_t fsz = c14::fired_size;
    long nnew = c14::new_seen, ngmp = c14::gmp_seen, gskip = c14::gmp_skipped;
    { std::string fs = fired ? fault_site() : std::string("-"); site.assign(fs.c_str()); }
    if (fired) std::cout << "fault k=" << k << " out=" << out << " layer=" << (layer == c14::L_NEW ? "new" : "gmp") << " size=" << fsz << " at=" << site << std::endl;
    bool valid = false, use = false, arg = false, strong = false; chk_exn = "";
    try { valid = s.valid(); arg = s.arg_unchanged(); strong = valid && s.strong(); use = valid && s.usable(); }
    catch (const std::exception& e) { chk_exn = exn_name(e); }
    catch (...) { chk_exn = "unknown"; }
    s.destroy(); purge_caches();
    long leak = c14::live_blocks - base, lbytes = c14::live_bytes - base_bytes;
    if (!fired) {
      // the call completed before reaching request k: end of the enumeration
      std::cout << "k=" << k << " out=" << out << " fired=0 requests_new=" << nnew << " requests_gmp=" << ngmp << " gmp_not_injectable=" << gskip
                << " leak=" << leak << " valid=" << valid << " use=" << use << " arg=" << arg << (chk_exn.empty() ? "" : " chkexn=") << chk_exn << "\n";
      if (out != "ok") ++st.spurious;
      if (leak != 0) ++st.leaks;
      completed = true;
      break;
    }
    ++st.positions;
    if (out != "ok") ++st.exn;
    if (leak != 0) ++st.leaks; if (!valid) ++st.invalid; if (!use) ++st.unusable; if (!arg) ++st.argchg; if (strong) ++st.strong_kept;
    std::cout << "k=" << k << " out=" << out << " fired=1 layer=" << (layer == c14::L_NEW ? "new" : "gmp") << " size=" << fsz << " caller=" << caller << " at=" << site
              << " leak=" << leak << " lbytes=" << lbytes << " valid=" << valid << " use=" << use << " arg=" << arg << " strong=" << strong
              << (chk_exn.empty() ? "" : " chkexn=") << chk_exn << std::endl;
    if (leak != 0 && g_verbose_leak) report_leak_diagnosis(s, k, base);
  }
  // the library is intact: the same scenario without fault gives the same result
  purge_caches();
  long base = c14::live_blocks;
  s.build(); s.call(); bool v1 = s.valid(); bool same1; { std::string r1 = s.result(); same1 = (r0 == r1); } s.destroy(); purge_caches();
  long leak1 = c14::live_blocks - base;
  std::cout << "done " << s.name << " positions=" << st.positions << " completed=" << completed << " exn=" << st.exn << " leaks=" << st.leaks
            << " invalid=" << st.invalid << " unusable=" << st.unusable << " argchg=" << st.argchg << " strong=" << st.strong_kept
            << " spurious=" << st.spurious << " rerun_valid=" << v1 << " rerun_same=" << same1 << " rerun_leak=" << leak1 << "\n";
  std::cout << "gmpcallers";
  for (int i = 0; i < c14::nccnt; ++i) std::cout << " " << c14::ccnt[i].name << ":" << c14::ccnt[i].n << ":" << (c14::ccnt[i].ok ? "inj" : "skip");
  std::cout << "\n";
  return 0;
}

// trace mode (containers with a Coq model)
static int trace(Scn& s, long maxk) {
  s.build(); s.call(); s.destroy(); purge_caches();
  std::cout << "tracescn " << s.name << " " << s.params << "\n";
  for (long k = 1; k <= maxk; ++k) {
    purge_caches();
    long base = c14::live_blocks;
    s.build();
    long before = c14::live_blocks;
    bool ok = true;
    c14::nev = 0; c14::tracing = true;
    c14::arm(k);
    try { s.call(); } catch (const std::bad_alloc&) { ok = false; }
    c14::disarm(); c14::tracing = false;
    int nev = c14::nev;
    bool fired = c14::fired;
    long owned = s.owned_blocks();
    long after = c14::live_blocks;
    bool valid = s.valid();
    s.destroy(); purge_caches();
    long leak = c14::live_blocks - base;
    std::cout << "trace k=" << k << " ok=" << ok << " leaked=" << leak << " owned=" << owned << " delta=" << (after - before) << " valid=" << valid << " ev";
    for (int i = 0; i < nev; ++i) std::cout << " " << c14::evs[i].t << (c14::evs[i].layer == c14::L_NEW ? "n" : "g") << c14::evs[i].size;
    std::cout << "\n";
    if (!fired) break;
  }
  std::cout << "endtrace\n";
  return 0;
}

// ---------------------------------------------------------------------------------------------
// abandonment
struct Abandon_Exn : public std::exception { const char* what() const throw() { return "c14 abandon"; } };
struct Counting_Throwable : public Throwable {
  mutable long count; long at;
  Counting_Throwable() : count(0), at(0) {}
  void throw_me() const { if (++count == at) { c14::bt_throw_len = backtrace(c14::bt_throw, c14::BT_DEPTH); throw Abandon_Exn(); } }
};
static Counting_Throwable g_thr;

static int abandon(Scn& s, long maxk) {
  s.build(); s.call(); std::string r0 = s.result(); s.destroy(); purge_caches();
  std::cout << "scenario " << s.name << " abandon\n";
  long positions = 0, leaks = 0, invalid = 0, unusable = 0, argchg = 0, strongk = 0;
  bool completed = false;
  std::string site; site.reserve(4000);
  for (long k = 1; k <= maxk; ++k) {
    purge_caches();
    long base = c14::live_blocks;
    s.build();
    g_thr.count = 0; g_thr.at = k; c14::bt_throw_len = 0;
    std::string out = "ok";
    abandon_expensive_computations = &g_thr;
    try { s.call(); } catch (const Abandon_Exn&) { out = "abandoned"; } catch (const std::exception& e) { out = exn_name(e); }
    abandon_expensive_computations = 0;
    { std::string fs = (out != "ok") ? fault_site() : std::string("-"); site.assign(fs.c_str()); }   // innermost library functions around the checkpoint
    long reached = g_thr.count;
    bool valid = false, use = false, arg = false, strong = false; std::string chk_exn;
    try { valid = s.valid(); arg = s.arg_unchanged(); strong = valid && s.strong(); use = valid && s.usable(); }
    catch (const std::exception& e) { chk_exn = exn_name(e); }
    s.destroy(); purge_caches();
    long leak = c14::live_blocks - base;
    if (out == "ok") { std::cout << "k=" << k << " out=ok checkpoints=" << reached << " leak=" << leak << " valid=" << valid << " use=" << use << "\n"; completed = true; if (leak) ++leaks; break; }
    ++positions; if (leak) ++leaks; if (!valid) ++invalid; if (!use) ++unusable; if (!arg) ++argchg; if (strong) ++strongk;
    std::cout << "k=" << k << " out=" << out << " at=" << site << " leak=" << leak << " valid=" << valid << " use=" << use << " arg=" << arg << " strong=" << strong << (chk_exn.empty() ? "" : " chkexn=") << chk_exn << "\n";
  }
  s.build(); s.call(); std::string r1 = s.result(); bool v1 = s.valid(); s.destroy(); purge_caches();
  std::cout << "done " << s.name << " positions=" << positions << " completed=" << completed << " exn=" << positions << " leaks=" << leaks << " invalid=" << invalid
            << " unusable=" << unusable << " argchg=" << argchg << " strong=" << strongk << " spurious=0 rerun_valid=" << v1 << " rerun_same=" << (r0 == r1) << " rerun_leak=0\n";
  return 0;
}

static void too_fat() { c14::bt_throw_len = backtrace(c14::bt_throw, c14::BT_DEPTH); throw Abandon_Exn(); }
static int weight(Scn& s, long steps) {
  s.build();
  Weightwatch_Traits::Threshold w0 = Weightwatch_Traits::weight;
  s.call();
  unsigned long long total = Weightwatch_Traits::weight - w0;
  std::string r0 = s.result(); s.destroy(); purge_caches();
  { try { Weightwatch ww(1ULL << 60, too_fat); } catch (...) {} }   // the watcher's own first-use allocation
  std::cout << "scenario " << s.name << " weight total=" << total << "\n";
  long positions = 0, leaks = 0, invalid = 0, unusable = 0, argchg = 0, strongk = 0, abandoned = 0;
  std::string site; site.reserve(4000);
  if (steps < 1) steps = 1;
  for (long i = 0; i <= steps; ++i) {
    unsigned long long thr = (total * (unsigned long long) i) / (unsigned long long) steps;
    if (thr == 0) thr = 1;
    purge_caches();
    long base = c14::live_blocks;
    s.build();
    std::string out = "ok"; c14::bt_throw_len = 0;
    {
      try { Weightwatch ww(thr, too_fat); s.call(); }
      catch (const Abandon_Exn&) { out = "abandoned"; } catch (const std::exception& e) { out = exn_name(e); }
    }
    { std::string fs = (out != "ok") ? fault_site() : std::string("-"); site.assign(fs.c_str()); }
    bool valid = false, use = false, arg = false, strong = false; std::string chk_exn;
    try { valid = s.valid(); arg = s.arg_unchanged(); strong = valid && s.strong(); use = valid && s.usable(); }
    catch (const std::exception& e) { chk_exn = exn_name(e); }
    s.destroy(); purge_caches();
    long leak = c14::live_blocks - base;
    ++positions; if (out != "ok") ++abandoned; if (leak) ++leaks; if (!valid) ++invalid; if (!use) ++unusable; if (!arg) ++argchg; if (strong) ++strongk;
    std::cout << "k=" << thr << " out=" << out << " at=" << site << " leak=" << leak << " valid=" << valid << " use=" << use << " arg=" << arg << " strong=" << strong << (chk_exn.empty() ? "" : " chkexn=") << chk_exn << "\n";
  }
  s.build(); s.call(); std::string r1 = s.result(); bool v1 = s.valid(); s.destroy(); purge_caches();
  std::cout << "done " << s.name << " positions=" << positions << " completed=1 exn=" << abandoned << " leaks=" << leaks << " invalid=" << invalid
            << " unusable=" << unusable << " argchg=" << argchg << " strong=" << strongk << " spurious=0 rerun_valid=" << v1 << " rerun_same=" << (r0 == r1) << " rerun_leak=0\n";
  return 0;
}

#include "c14_scenarios.h"

int main(int argc, char** argv) {
  { void* tmp[4]; backtrace(tmp, 4); }      // backtrace() loads libgcc on first use
  std::cout << std::unitbuf; std::cout << std::nounitbuf;
  { std::ostringstream os; os << Coefficient(123) << 1.5 << 7UL; }   // stream facets
  if (argc < 2) { std::cerr << "usage: run_fault mode ...\n"; return 2; }
  std::string mode = argv[1];
  register_scenarios();
  if (mode == "list") { for (size_t i = 0; i < scns.size(); ++i) std::cout << scns[i]->name << (scns[i]->container ? " container" : "") << "\n"; return 0; }
  if (mode == "gmpprobe") return gmpprobe();
  if (mode == "overflow") return overflow_mode(argc > 2 ? std::atol(argv[2]) : 1, argc > 3 ? std::atol(argv[3]) : 100);
  if (argc < 3) { std::cerr << "missing scenario\n"; return 2; }
  Scn* s = 0;
  for (size_t i = 0; i < scns.size(); ++i) if (scns[i]->name == argv[2]) s = scns[i];
  if (!s) { std::cerr << "unknown scenario " << argv[2] << "\n"; return 2; }
  long maxk = argc > 3 ? std::atol(argv[3]) : 100000;
  std::string layers = argc > 4 ? argv[4] : "ng";
  if (mode == "sweep") return sweep(*s, maxk, layers, argc > 5 ? std::atol(argv[5]) : 1);
  if (mode == "trace") return trace(*s, maxk);
  if (mode == "abandon") return abandon(*s, maxk);
  if (mode == "weight") return weight(*s, maxk > 1000 ? 40 : maxk);
  std::cerr << "unknown mode\n"; return 2;
}
