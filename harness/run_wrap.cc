// C17 harness: runs wrap_assign / contains_integer_point / drop_some_non_integer_points of the real library
// on the cases of a file (one case per line) and prints, per case, the ARGUMENT as the built element
// describes itself (constraints() / congruences()) and the RESULT (constraints() / congruences(), or the
// disjuncts of a powerset).  All membership decisions are taken by the judge on these printed descriptions.
//
//   wrap <id> <dom> <dim> cons K .. [cgs K ..] [alt cons K ..] vars k v.. w <8|16|32|64> sg <0|1> ov <0|1|2>
//        guard <0 | 1 cons K ..> thr <t> ind <0|1>
//   cip  <id> <dom> <dim> cons K .. [cgs K ..]
//   drop <id> <dom> <dim> cons K .. [cgs K ..] vars <-1 | k v..> cx <0|1|2>
//   dom: C NNC BDS OCT BOX GRID PC      (ov: 0 wraps, 1 undefined, 2 impossible)
//   every line may end with `st <k>' (C / NNC only): the lazy representation state the polyhedron is put in before the
//   operation: 0 constraints only, 1 generators computed too, 2 both minimized, 3 rebuilt from its generators only,
//   4 rebuilt from its minimized generators, 5 both up to date + a pending (redundant) constraint, 6 both + a pending generator.
//   The ARGUMENT is described from a COPY, so that printing does not disturb the state.
// output:
//   res <id> arg <descr> out <descr>         descr ::= disj N { cons K .. cgs K .. }
//   ans <id> arg <descr> val <0|1>
//   exc <id> <class>
#include "vh_common.hh"
using namespace Parma_Polyhedra_Library;
using namespace vh;

typedef BD_Shape<mpq_class> BDS;
typedef Octagonal_Shape<mpq_class> OCT;
typedef Pointset_Powerset<C_Polyhedron> PC;

template <typename D> void descr1(std::ostream& o, const D& x, unsigned dim) {
  o << "disj 1 "; print_cons(o, x.constraints(), dim); o << " "; print_cgs(o, Congruence_System(dim), dim);
}
void descr1(std::ostream& o, const Grid& x, unsigned dim) {
  o << "disj 1 cons 0 "; print_cgs(o, x.congruences(), dim);
}
void descr1(std::ostream& o, const PC& x, unsigned dim) {
  unsigned k = 0; for (PC::const_iterator i = x.begin(); i != x.end(); ++i) ++k;
  o << "disj " << k;
  for (PC::const_iterator i = x.begin(); i != x.end(); ++i) {
    o << " "; print_cons(o, i->pointset().constraints(), dim); o << " "; print_cgs(o, Congruence_System(dim), dim);
  }
}

struct Input { unsigned dim; Constraint_System cs; Congruence_System cgs; bool has_alt; Constraint_System alt; Input() : dim(0), cgs(0), has_alt(false) {} };

template <typename D> struct Build { static D make(const Input& in) { C_Polyhedron p(in.dim); p.add_constraints(in.cs); return D(p); } };
template <> struct Build<C_Polyhedron> { static C_Polyhedron make(const Input& in) { C_Polyhedron p(in.dim); p.add_constraints(in.cs); return p; } };
template <> struct Build<NNC_Polyhedron> { static NNC_Polyhedron make(const Input& in) { NNC_Polyhedron p(in.dim); p.add_constraints(in.cs); return p; } };
// a box keeps strict (open) bounds when it is built from interval constraints directly; other systems go through the closed polyhedron
static bool all_interval(const Constraint_System& cs, unsigned dim) {
  for (Constraint_System::const_iterator i = cs.begin(); i != cs.end(); ++i) {
    unsigned nz = 0; for (unsigned j = 0; j < dim; ++j) if (j < i->space_dimension() && i->coefficient(Variable(j)) != 0) ++nz;
    if (nz > 1) return false;
  }
  return true;
}
template <> struct Build<Rational_Box> { static Rational_Box make(const Input& in) {
  if (all_interval(in.cs, in.dim)) { Rational_Box b(in.dim); b.add_constraints(in.cs); return b; }
  C_Polyhedron p(in.dim); p.add_constraints(in.cs); return Rational_Box(p); } };
template <> struct Build<Grid> { static Grid make(const Input& in) { Grid g(in.dim); g.add_congruences(in.cgs); g.add_constraints(in.cs); return g; } };
template <> struct Build<PC> { static PC make(const Input& in) {
  PC x(in.dim, EMPTY); C_Polyhedron p(in.dim); p.add_constraints(in.cs); x.add_disjunct(p);
  if (in.has_alt) { C_Polyhedron q(in.dim); q.add_constraints(in.alt); x.add_disjunct(q); }
  return x; } };

// ---- lazy representation states (polyhedra only) ----
template <typename PH> void prep_poly(PH& x, const Input& in, long st) {
  switch (st) {
  case 1: (void) x.generators(); break;
  case 2: (void) x.minimized_constraints(); (void) x.minimized_generators(); break;
  case 3: case 4:
    if (x.is_empty()) { PH y(in.dim, EMPTY); x.m_swap(y); }
    else { Generator_System gs(st == 3 ? x.generators() : x.minimized_generators()); PH y(gs); x.m_swap(y); }
    break;
  case 5:
    (void) x.generators(); (void) x.constraints();
    if (in.cs.begin() != in.cs.end()) x.add_constraint(*in.cs.begin());
    break;
  case 6: {
    (void) x.constraints(); Generator_System gs(x.generators());
    for (Generator_System::const_iterator i = gs.begin(); i != gs.end(); ++i)
      if (i->is_point()) { x.add_generator(*i); break; }
    break; }
  default: break;
  }
}
template <typename D> void prep(D&, const Input&, long) {}
void prep(C_Polyhedron& x, const Input& in, long st) { prep_poly(x, in, st); }
void prep(NNC_Polyhedron& x, const Input& in, long st) { prep_poly(x, in, st); }
static long read_state(Toks& tk) { if (tk.more() && tk.t[tk.i] == "st") { tk.next(); return tk.nextl(); } return 0; }
template <typename D> std::string descr_of_copy(const D& x, unsigned dim) { D y(x); std::ostringstream a; descr1(a, y, dim); return a.str(); }

static void expect(Toks& tk, const char* w) { std::string s = tk.next(); if (s != w) throw std::runtime_error(std::string("case: expected ") + w + " got " + s); }

static Input read_input(Toks& tk, unsigned dim) {
  Input in; in.dim = dim; in.cgs = Congruence_System(dim);
  expect(tk, "cons"); in.cs = read_cons(tk, dim);
  while (tk.more() && (tk.t[tk.i] == "cgs" || tk.t[tk.i] == "alt")) {
    std::string k = tk.next();
    if (k == "cgs") in.cgs = read_cgs(tk, dim);
    else { expect(tk, "cons"); in.alt = read_cons(tk, dim); in.has_alt = true; }
  }
  return in;
}

// the guard must not have a space dimension above vars.space_dimension(): build it from the non-zero terms only
static Constraint_System read_guard(Toks& tk, unsigned dim) {
  long k = tk.nextl(); Constraint_System cs;
  for (long i = 0; i < k; ++i) {
    std::string kd = tk.next(); mpz_class b = tk.nextz(); Linear_Expression e;
    for (unsigned j = 0; j < dim; ++j) { mpz_class a = tk.nextz(); if (a != 0) e += a * Variable(j); }
    e += b;
    if (kd == "=") cs.insert(e == 0); else if (kd == ">=") cs.insert(e >= 0); else if (kd == ">") cs.insert(e > 0);
    else throw std::runtime_error("case: bad guard kind " + kd);
  }
  return cs;
}

template <typename D> void aux_info(const std::string&, const D&, const Variables_Set&) {}
// for grids: frequency and value closest to zero of every wrapped variable in the ARGUMENT (used only to classify failures)
void aux_info(const std::string& id, const Grid& x, const Variables_Set& vs) {
  std::cout << "aux " << id << " freq";
  for (Variables_Set::const_iterator i = vs.begin(); i != vs.end(); ++i) {
    Coefficient fn, fd, vn, vd;
    if (x.frequency(Linear_Expression(Variable(*i)), fn, fd, vn, vd)) std::cout << " " << *i << " " << fn << " " << fd << " " << vn << " " << vd;
    else std::cout << " " << *i << " none none none none";
  }
  std::cout << "\n";
}

template <typename D> void do_wrap(const std::string& id, Toks& tk, unsigned dim) {
  Input in = read_input(tk, dim);
  expect(tk, "vars"); long k = tk.nextl(); Variables_Set vs; for (long i = 0; i < k; ++i) vs.insert(Variable(tk.nextl()));
  expect(tk, "w"); long w = tk.nextl();
  expect(tk, "sg"); long sg = tk.nextl();
  expect(tk, "ov"); long ov = tk.nextl();
  expect(tk, "guard"); long hg = tk.nextl(); Constraint_System g;
  if (hg) { expect(tk, "cons"); g = read_guard(tk, dim); }
  expect(tk, "thr"); unsigned thr = (unsigned) tk.nextl();
  expect(tk, "ind"); bool ind = tk.nextl() != 0;
  long st = read_state(tk);
  D x = Build<D>::make(in);
  prep(x, in, st);
  std::ostringstream a; a << descr_of_copy(x, dim);
  { D y(x); aux_info(id, y, vs); }
  Bounded_Integer_Type_Width bw = w == 8 ? BITS_8 : w == 16 ? BITS_16 : w == 32 ? BITS_32 : w == 64 ? BITS_64 : BITS_128;
  Bounded_Integer_Type_Representation br = sg ? SIGNED_2_COMPLEMENT : UNSIGNED;
  Bounded_Integer_Type_Overflow bo = ov == 0 ? OVERFLOW_WRAPS : ov == 1 ? OVERFLOW_UNDEFINED : OVERFLOW_IMPOSSIBLE;
  x.wrap_assign(vs, bw, br, bo, hg ? &g : 0, thr, ind);
  std::cout << "res " << id << " arg " << a.str() << " out "; descr1(std::cout, x, dim); std::cout << "\n";
}

template <typename D> void do_cip(const std::string& id, Toks& tk, unsigned dim) {
  Input in = read_input(tk, dim);
  long st = read_state(tk);
  D x = Build<D>::make(in);
  prep(x, in, st);
  std::ostringstream a; a << descr_of_copy(x, dim);
  bool r = x.contains_integer_point();
  std::cout << "ans " << id << " arg " << a.str() << " val " << (r ? 1 : 0) << "\n";
}

template <typename D> void do_drop(const std::string& id, Toks& tk, unsigned dim) {
  Input in = read_input(tk, dim);
  expect(tk, "vars"); long k = tk.nextl(); Variables_Set vs; for (long i = 0; i < k; ++i) vs.insert(Variable(tk.nextl()));
  expect(tk, "cx"); long cx = tk.nextl();
  Complexity_Class cc = cx == 0 ? POLYNOMIAL_COMPLEXITY : cx == 1 ? SIMPLEX_COMPLEXITY : ANY_COMPLEXITY;
  long st = read_state(tk);
  D x = Build<D>::make(in);
  prep(x, in, st);
  std::ostringstream a; a << descr_of_copy(x, dim);
  if (k < 0) x.drop_some_non_integer_points(cc); else x.drop_some_non_integer_points(vs, cc);
  std::cout << "res " << id << " arg " << a.str() << " out "; descr1(std::cout, x, dim); std::cout << "\n";
}

template <typename D> void dispatch(const std::string& cmd, const std::string& id, Toks& tk, unsigned dim) {
  if (cmd == "wrap") do_wrap<D>(id, tk, dim);
  else if (cmd == "cip") do_cip<D>(id, tk, dim);
  else if (cmd == "drop") do_drop<D>(id, tk, dim);
  else throw std::runtime_error("case: bad command " + cmd);
}

int main(int argc, char** argv) {
  if (argc < 2) { std::cerr << "usage: run_wrap <casefile>\n"; return 2; }
  std::ifstream in(argv[1]); std::string line;
  while (std::getline(in, line)) {
    if (line.empty() || line[0] == '#') continue;
    Toks tk(line);
    std::string cmd = tk.next(), id = tk.next(), dom = tk.next(); unsigned dim = (unsigned) tk.nextl();
    std::cout << "beg " << id << std::endl;
    try {
      if (dom == "C") dispatch<C_Polyhedron>(cmd, id, tk, dim);
      else if (dom == "NNC") dispatch<NNC_Polyhedron>(cmd, id, tk, dim);
      else if (dom == "BDS") dispatch<BDS>(cmd, id, tk, dim);
      else if (dom == "OCT") dispatch<OCT>(cmd, id, tk, dim);
      else if (dom == "BOX") dispatch<Rational_Box>(cmd, id, tk, dim);
      else if (dom == "GRID") dispatch<Grid>(cmd, id, tk, dim);
      else if (dom == "PC") dispatch<PC>(cmd, id, tk, dim);
      else throw std::runtime_error("case: bad domain " + dom);
    } catch (const std::exception& e) {
      if (std::string(e.what()).substr(0, 5) == "case:") { std::cout << "harness-error " << e.what() << std::endl; return 3; }
      std::cout << "exc " << id << " " << exn_class(e) << "\n";
    }
    std::cout.flush();
  }
  return 0;
}
