// C11, bounded-coefficient clause: the same generated polyhedron / grid / MIP cases are run on the library built
// with unbounded (mpz) coefficients and on builds with checked int8 / int16 ... coefficients.  Each case prints
// a line of canonical (representation independent) observations, or "OVERFLOW" when std::overflow_error was
// raised.  tools/props/C11.py requires: bounded line == mpz line, or bounded line == OVERFLOW.
//   run_bounded <seed> <ncases> <maxcoef>
#include "vh_ppl.hh"
using namespace Parma_Polyhedra_Library;

static unsigned long long rng_state;
static unsigned rnd() { rng_state = rng_state * 6364136223846793005ULL + 1442695040888963407ULL; return (unsigned)(rng_state >> 33); }
static int rint_in(int lo, int hi) { return lo + (int)(rnd() % (unsigned)(hi - lo + 1)); }

static std::string show(const Coefficient& c) { std::ostringstream o; o << c; return o.str(); }

struct Lin { std::vector<int> a; int b; int kind; };   // sum a_i x_i + b  (kind: 0 '==', 1 '>=')

static Linear_Expression expr_of(const Lin& l) {
  Linear_Expression e;
  for (size_t i = 0; i < l.a.size(); ++i) if (l.a[i] != 0) e += Coefficient(l.a[i]) * Variable(i);
  e += Coefficient(l.b);
  return e;
}

static void observe_poly(const C_Polyhedron& ph, const std::vector<Lin>& probes, std::ostream& o) {
  o << " empty=" << ph.is_empty() << " dim=" << ph.affine_dimension() << " bounded=" << ph.is_bounded()
    << " univ=" << ph.is_universe();
  const Generator_System& gs = ph.minimized_generators();
  int np = 0, nr = 0, nl = 0;
  for (Generator_System::const_iterator i = gs.begin(); i != gs.end(); ++i) {
    if (i->is_point()) ++np; else if (i->is_ray()) ++nr; else if (i->is_line()) ++nl;
  }
  o << " g=" << np << "/" << nr << "/" << nl;
  int neq = 0, nin = 0;
  const Constraint_System& cs = ph.minimized_constraints();
  for (Constraint_System::const_iterator i = cs.begin(); i != cs.end(); ++i) { if (i->is_equality()) ++neq; else ++nin; }
  o << " c=" << neq << "/" << nin;
  for (size_t k = 0; k < probes.size(); ++k) {
    Linear_Expression e = expr_of(probes[k]);
    Coefficient n, d; bool mx;
    if (ph.maximize(e, n, d, mx)) o << " max" << k << "=" << show(n) << "/" << show(d); else o << " max" << k << "=-";
    if (ph.minimize(e, n, d, mx)) o << " min" << k << "=" << show(n) << "/" << show(d); else o << " min" << k << "=-";
    Poly_Con_Relation r = ph.relation_with(probes[k].kind ? Constraint(e >= 0) : Constraint(e == 0));
    o << " rel" << k << "=" << r.implies(Poly_Con_Relation::is_disjoint()) << r.implies(Poly_Con_Relation::strictly_intersects())
      << r.implies(Poly_Con_Relation::is_included()) << r.implies(Poly_Con_Relation::saturates());
  }
}

int main(int argc, char** argv) {
  unsigned long long seed = argc > 1 ? strtoull(argv[1], 0, 10) : 1;
  int ncases = argc > 2 ? atoi(argv[2]) : 100;
  int maxc = argc > 3 ? atoi(argv[3]) : 3;
  for (int id = 0; id < ncases; ++id) {
    rng_state = seed * 1000003ULL + (unsigned long long)id * 7919ULL + 12345ULL;
    for (int w = 0; w < 4; ++w) rnd();
    int kind = id % 4;             // 0,1: polyhedron ops ; 2: grid ; 3: MIP
    int dim = rint_in(1, 3);
    int nc = rint_in(1, 4);
    std::vector<Lin> cons, cons2, probes;
    for (int pass = 0; pass < 3; ++pass) {
      int n = pass == 2 ? 2 : nc;
      for (int k = 0; k < n; ++k) {
        Lin l; l.a.resize(dim);
        for (int i = 0; i < dim; ++i) l.a[i] = rint_in(-maxc, maxc);
        l.b = rint_in(-2 * maxc - 2, 2 * maxc + 2);
        l.kind = (rint_in(0, 5) == 0) ? 0 : 1;
        (pass == 0 ? cons : pass == 1 ? cons2 : probes).push_back(l);
      }
    }
    int var = rint_in(0, dim - 1);
    Lin img; img.a.resize(dim); for (int i = 0; i < dim; ++i) img.a[i] = rint_in(-maxc, maxc); img.b = rint_in(-maxc, maxc); img.kind = 1;
    int den = rint_in(1, 2);
    std::ostringstream o;
    o << id << " k" << kind << " d" << dim << ":";
    try {
      if (kind <= 1) {
        Constraint_System cs, cs2;
        for (size_t k = 0; k < cons.size(); ++k) { Linear_Expression e = expr_of(cons[k]); cs.insert(cons[k].kind ? Constraint(e >= 0) : Constraint(e == 0)); }
        for (size_t k = 0; k < cons2.size(); ++k) { Linear_Expression e = expr_of(cons2[k]); cs2.insert(cons2[k].kind ? Constraint(e >= 0) : Constraint(e == 0)); }
        C_Polyhedron p(dim), q(dim);
        p.add_constraints(cs); q.add_constraints(cs2);
        observe_poly(p, probes, o);
        C_Polyhedron h(p); h.upper_bound_assign(q); o << " |hull"; observe_poly(h, probes, o);
        C_Polyhedron m(p); m.intersection_assign(q); o << " |meet"; observe_poly(m, probes, o);
        if (kind == 1) {
          C_Polyhedron a(p); a.affine_image(Variable(var), expr_of(img), Coefficient(den)); o << " |img"; observe_poly(a, probes, o);
          C_Polyhedron b(p); b.affine_preimage(Variable(var), expr_of(img), Coefficient(den)); o << " |pre"; observe_poly(b, probes, o);
          C_Polyhedron w(h); w.H79_widening_assign(p); o << " |wid"; observe_poly(w, probes, o);
        }
        o << " |cont=" << h.contains(p) << q.contains(p) << p.is_disjoint_from(q);
      }
      else if (kind == 2) {
        Grid g(dim);
        for (size_t k = 0; k < cons.size(); ++k) {
          Linear_Expression e = expr_of(cons[k]);
          int modulus = cons[k].kind ? rint_in(2, 5) : 0;
          g.add_congruence((e %= 0) / Coefficient(modulus));
        }
        Grid g2(dim);
        for (size_t k = 0; k < cons2.size(); ++k) {
          Linear_Expression e = expr_of(cons2[k]);
          g2.add_congruence((e %= 0) / Coefficient(cons2[k].kind ? 3 : 0));
        }
        o << " empty=" << g.is_empty() << " dim=" << g.affine_dimension() << " discrete=" << g.is_discrete() << " univ=" << g.is_universe();
        Grid j(g); j.upper_bound_assign(g2); o << " |join empty=" << j.is_empty() << " dim=" << j.affine_dimension() << " discrete=" << j.is_discrete();
        Grid m(g); m.intersection_assign(g2); o << " |meet empty=" << m.is_empty() << " dim=" << m.affine_dimension();
        Grid a(g); a.affine_image(Variable(var), expr_of(img), Coefficient(den)); o << " |img empty=" << a.is_empty() << " dim=" << a.affine_dimension() << " discrete=" << a.is_discrete();
        o << " |cont=" << j.contains(g) << g2.contains(g) << g.is_disjoint_from(g2);
        for (size_t k = 0; k < probes.size(); ++k) {
          Linear_Expression e = expr_of(probes[k]);
          Poly_Con_Relation r = g.relation_with((e %= 0) / Coefficient(2));
          o << " rel" << k << "=" << r.implies(Poly_Con_Relation::is_disjoint()) << r.implies(Poly_Con_Relation::strictly_intersects())
            << r.implies(Poly_Con_Relation::is_included());
          Coefficient n, d; bool mx;
          if (g.maximize(e, n, d, mx)) o << " max" << k << "=" << show(n) << "/" << show(d); else o << " max" << k << "=-";
        }
      }
      else {
        Constraint_System cs;
        for (size_t k = 0; k < cons.size(); ++k) { Linear_Expression e = expr_of(cons[k]); cs.insert(cons[k].kind ? Constraint(e >= 0) : Constraint(e == 0)); }
        for (int i = 0; i < dim; ++i) { cs.insert(Variable(i) >= -4); cs.insert(Variable(i) <= 4); }
        MIP_Problem mip(dim, cs, expr_of(probes[0]), (id & 4) ? MAXIMIZATION : MINIMIZATION);
        if (id & 8) { Variables_Set vs; for (int i = 0; i < dim; ++i) vs.insert(Variable(i)); mip.add_to_integer_space_dimensions(vs); }
        MIP_Problem_Status st = mip.solve();
        o << " status=" << (int)st;
        if (st == OPTIMIZED_MIP_PROBLEM) { Coefficient n, d; mip.optimal_value(n, d); o << " opt=" << show(n) << "/" << show(d); }
      }
      std::cout << o.str() << "\n";
    }
    catch (const std::overflow_error&) {
      std::cout << id << " k" << kind << " d" << dim << ": OVERFLOW\n";
    }
    catch (const std::exception& ex) {
      std::cout << id << " k" << kind << " d" << dim << ": EXCEPTION " << ex.what() << "\n";
    }
  }
  return 0;
}
