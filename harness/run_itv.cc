// C12 harness: runs the real Interval<Boundary, Info> operations of /repo on an exhaustive palette of
// intervals and prints, for every case, the raw state of the result (bounds, SPECIAL/OPEN bits) and
// the public observers.  The judge (ocaml/judge_itv.ml) recomputes every case with the extracted model.
//
//   run_itv <type> <palette> <mode>
//        type: Q (Rational_Interval)  Z (Interval<mpz_class, Z_Box policy>)  D (Interval<double, Floating_Point_Box policy>)
//        palette: quick | thorough | random:<seed>:<n>
//        mode: all | arith | replay   (replay: cases "op i j" read from stdin)
// Output:  "I <idx> <raw>"   one line per palette interval
//          "C <op> <i> <j> <raw-of-result> <obs>"    raw = lsp lval lop usp uval uop ; obs = empty singleton lopen uopen linf uinf
#include <iostream>
#include <sstream>
#include <string>
#include <vector>
#include <cmath>
#include <cstdlib>
#include <cstdio>
#include <utility>
#include <gmpxx.h>
#include "ppl-config.h"
#include "Init_defs.hh"
#include "Rational_Interval.hh"
#include "Checked_Number_defs.hh"
#include "checked_defs.hh"
#include "Init_inlines.hh"

using namespace Parma_Polyhedra_Library;
static Init init_obj;

// the policies of interfaces/interfaced_boxes.hh (Z_Box, Double_Box), restated here because that header
// also pulls the whole Box machinery; the check compares these constants with the header on every run.
struct Z_Policy {
  const_bool_nodef(store_special, true);
  const_bool_nodef(store_open, false);
  const_bool_nodef(cache_empty, true);
  const_bool_nodef(cache_singleton, true);
  const_bool_nodef(cache_normalized, false);
  const_int_nodef(next_bit, 0);
  const_bool_nodef(may_be_empty, true);
  const_bool_nodef(may_contain_infinity, false);
  const_bool_nodef(check_empty_result, false);
  const_bool_nodef(check_inexact, false);
};
struct D_Policy {
  const_bool_nodef(store_special, false);
  const_bool_nodef(store_open, true);
  const_bool_nodef(cache_empty, true);
  const_bool_nodef(cache_singleton, true);
  const_bool_nodef(cache_normalized, false);
  const_int_nodef(next_bit, 0);
  const_bool_nodef(may_be_empty, true);
  const_bool_nodef(may_contain_infinity, false);
  const_bool_nodef(check_empty_result, false);
  const_bool_nodef(check_inexact, false);
};
typedef Interval<mpz_class, Interval_Info_Bitset<unsigned int, Z_Policy> > Z_Interval;
typedef Interval<double, Interval_Info_Bitset<unsigned int, D_Policy> > D_Interval;

// value conversions: palette values are num / den (den a power of two for the double type, 1 for mpz)
static void set_val(mpq_class& v, long n, long d) { v = mpq_class(n, d); v.canonicalize(); }
static void set_val(mpz_class& v, long n, long d) { v = n / d; }
static void set_val(double& v, long n, long d) { v = double(n) / double(d); }
static void set_inf(mpq_class& v, bool) { v = 0; }
static void set_inf(mpz_class& v, bool) { v = 0; }
static void set_inf(double& v, bool upper) { v = upper ? HUGE_VAL : -HUGE_VAL; }
static bool val_is_inf(const mpq_class&) { return false; }
static bool val_is_inf(const mpz_class&) { return false; }
static bool val_is_inf(const double& v) { return std::isinf(v); }
static std::string val_str(const mpq_class& v) { mpq_class c(v); c.canonicalize(); return c.get_str(); }
static std::string val_str(const mpz_class& v) { return v.get_str(); }
static std::string val_str(const double& v) {
  // an infinity on the wrong side (lower = +inf, upper = -inf) is printed as a huge finite value
  if (std::isnan(v)) return "0";
  if (std::isinf(v)) return v > 0 ? "1048576" : "-1048576";
  mpq_class q(v); return q.get_str();
}

struct Desc { bool lsp; long ln, ld; bool lop; bool usp; long un, ud; bool uop; };

template <typename ITV>
static ITV build(const Desc& d) {
  ITV x;
  x.info().clear();
  typedef typename ITV::info_type Info;
  if (d.lsp) {
    set_inf(x.lower(), false);
    if (Info::store_special) x.info().set_boundary_property(LOWER, SPECIAL);
    x.info().set_boundary_property(LOWER, OPEN);
  } else {
    set_val(x.lower(), d.ln, d.ld);
    if (d.lop) x.info().set_boundary_property(LOWER, OPEN);
  }
  if (d.usp) {
    set_inf(x.upper(), true);
    if (Info::store_special) x.info().set_boundary_property(UPPER, SPECIAL);
    x.info().set_boundary_property(UPPER, OPEN);
  } else {
    set_val(x.upper(), d.un, d.ud);
    if (d.uop) x.info().set_boundary_property(UPPER, OPEN);
  }
  return x;
}

template <typename ITV>
static std::string raw(const ITV& x) {
  typedef typename ITV::info_type Info;
  std::ostringstream s;
  bool lsp = Info::store_special ? x.info().get_boundary_property(LOWER, SPECIAL)
                                 : (val_is_inf(x.lower()) && x.lower() < 0);
  bool usp = Info::store_special ? x.info().get_boundary_property(UPPER, SPECIAL)
                                 : (val_is_inf(x.upper()) && x.upper() > 0);
  s << (lsp ? 1 : 0) << ' ' << (lsp ? std::string("0") : val_str(x.lower())) << ' '
    << (x.info().get_boundary_property(LOWER, OPEN) ? 1 : 0) << ' '
    << (usp ? 1 : 0) << ' ' << (usp ? std::string("0") : val_str(x.upper())) << ' '
    << (x.info().get_boundary_property(UPPER, OPEN) ? 1 : 0);
  return s.str();
}

template <typename ITV>
static std::string obs(const ITV& x) {
  std::ostringstream s;
  bool e = x.is_empty();
  s << (e ? 1 : 0) << ' ' << (x.is_singleton() ? 1 : 0) << ' '
    << (x.lower_is_open() ? 1 : 0) << ' ' << (x.upper_is_open() ? 1 : 0) << ' '
    << (x.lower_is_boundary_infinity() ? 1 : 0) << ' ' << (x.upper_is_boundary_infinity() ? 1 : 0);
  return s.str();
}

static const char* OPS[] = {
  "neg", "add", "sub", "mul", "div",
  "join1", "join2", "int1", "int2", "dif1", "dif2",
  "rexLT", "rexLE", "rexGT", "rexGE", "rexEQ", "rexNE",
  "runLT", "runLE", "runGT", "runGE", "runEQ", "runNE", 0 };

static Relation_Symbol rel_of(const std::string& s) {
  if (s == "LT") return LESS_THAN;
  if (s == "LE") return LESS_OR_EQUAL;
  if (s == "GT") return GREATER_THAN;
  if (s == "GE") return GREATER_OR_EQUAL;
  if (s == "EQ") return EQUAL;
  return NOT_EQUAL;
}

template <typename ITV>
static ITV apply(const std::string& op, const ITV& x, const ITV& y) {
  ITV z;                       // default constructed: bounds 0 (mpq/mpz) and info cleared
  z.info().clear();
  z.lower() = 0; z.upper() = 0;
  if (op == "neg") { z.neg_assign(x); return z; }
  if (op == "add") { z.add_assign(x, y); return z; }
  if (op == "sub") { z.sub_assign(x, y); return z; }
  if (op == "mul") { z.mul_assign(x, y); return z; }
  if (op == "div") { z.div_assign(x, y); return z; }
  if (op == "join2") { z.join_assign(x, y); return z; }
  if (op == "int2") { z.intersect_assign(x, y); return z; }
  if (op == "dif2") { z.difference_assign(x, y); return z; }
  ITV w(x);
  // the copy constructor is the compiler's: identical raw state
  if (op == "join1") { w.join_assign(y); return w; }
  if (op == "int1") { w.intersect_assign(y); return w; }
  if (op == "dif1") { w.difference_assign(y); return w; }
  if (op.compare(0, 3, "rex") == 0) { w.refine_existential(rel_of(op.substr(3)), y); return w; }
  if (op.compare(0, 3, "run") == 0) { w.refine_universal(rel_of(op.substr(3)), y); return w; }
  std::cerr << "unknown op " << op << "\n";
  std::exit(2);
}

// kind: 0 = any rational, 1 = dyadic only (double), 2 = integers, closed only (mpz)
static std::vector<Desc> palette(const std::string& spec, int kind) {
  std::vector<std::pair<long, long> > vals;
  std::vector<Desc> out;
  Desc d; d.lsp = true; d.ln = 0; d.ld = 1; d.lop = true; d.usp = true; d.un = 0; d.ud = 1; d.uop = true;
  if (spec.compare(0, 7, "random:") == 0) {
    // random:<seed>:<n>  -- n intervals with bounds p/q, |p| <= 30, q in {1,2,3,4,6,8} (LCG, deterministic)
    unsigned long seed = 1, n = 40;
    std::sscanf(spec.c_str() + 7, "%lu:%lu", &seed, &n);
    unsigned long st = seed * 6364136223846793005UL + 1442695040888963407UL;
    static const long dens[] = { 1, 2, 3, 4, 6, 8 };
    static const long ddens[] = { 1, 2, 4, 8, 16, 32 };
    for (unsigned long k = 0; k < n; ++k) {
      Desc x = d;
      long v[6];
      for (int t = 0; t < 6; ++t) { st = st * 6364136223846793005UL + 1442695040888963407UL; v[t] = long((st >> 33) % 1000); }
      long a_n = v[0] % 61 - 30, b_n = v[1] % 61 - 30;
      long a_d = kind == 2 ? 1 : (kind == 1 ? ddens[v[2] % 6] : dens[v[2] % 6]);
      long b_d = kind == 2 ? 1 : (kind == 1 ? ddens[v[3] % 6] : dens[v[3] % 6]);
      // order the two values most of the time, so that the interval is usually non-empty
      if (a_n * b_d > b_n * a_d && v[4] % 8 != 0) { std::swap(a_n, b_n); std::swap(a_d, b_d); }
      int shape = int(v[5] % 16);
      x.lsp = (shape == 0 || shape == 1); x.usp = (shape == 0 || shape == 2);
      x.ln = a_n; x.ld = a_d; x.un = b_n; x.ud = b_d;
      x.lop = x.lsp || (kind != 2 && ((v[4] >> 3) % 2 == 1));
      x.uop = x.usp || (kind != 2 && ((v[4] >> 4) % 2 == 1));
      if (x.lsp) { x.ln = 0; x.ld = 1; }
      if (x.usp) { x.un = 0; x.ud = 1; }
      out.push_back(x);
    }
    return out;
  }
  // bounds from {-inf, -3, -1, -1/2, 0, 1/2, 1, 3, +inf} x open/closed x lower/upper (quick);
  // thorough adds -2, 2, -1/3, 1/3, -1/4, 1/4
  static const long q_n[] = { -3, -1, -1, 0, 1, 1, 3 }, q_d[] = { 1, 1, 2, 1, 2, 1, 1 };
  static const long t_n[] = { -3, -2, -1, -1, -1, -1, 0, 1, 1, 1, 1, 2, 3 }, t_d[] = { 1, 1, 1, 2, 3, 4, 1, 4, 3, 2, 1, 1, 1 };
  if (spec == "thorough") { for (int k = 0; k < 13; ++k) vals.push_back(std::make_pair(t_n[k], t_d[k])); }
  else { for (int k = 0; k < 7; ++k) vals.push_back(std::make_pair(q_n[k], q_d[k])); }
  std::vector<Desc> lows, ups;
  lows.push_back(d); ups.push_back(d);
  for (unsigned k = 0; k < vals.size(); ++k) {
    long n = vals[k].first, dn = vals[k].second;
    if (kind == 2 && dn != 1) continue;
    if (kind == 1 && dn == 3) continue;
    for (int o = 0; o < (kind == 2 ? 1 : 2); ++o) {
      Desc a = d; a.lsp = false; a.ln = n; a.ld = dn; a.lop = (o == 1); lows.push_back(a);
      Desc b = d; b.usp = false; b.un = n; b.ud = dn; b.uop = (o == 1); ups.push_back(b);
    }
  }
  for (unsigned i = 0; i < lows.size(); ++i)
    for (unsigned j = 0; j < ups.size(); ++j) {
      Desc x = lows[i];
      x.usp = ups[j].usp; x.un = ups[j].un; x.ud = ups[j].ud; x.uop = ups[j].uop;
      out.push_back(x);
    }
  return out;
}

template <typename ITV>
static int run(const std::string& pal_spec, const std::string& mode, int kind) {
  std::vector<Desc> pal = palette(pal_spec, kind);
  std::vector<ITV> itvs;
  for (unsigned i = 0; i < pal.size(); ++i) {
    itvs.push_back(build<ITV>(pal[i]));
    std::cout << "I " << i << ' ' << raw(itvs[i]) << ' ' << obs(itvs[i]) << '\n';
  }
  if (mode == "replay") {
    std::string op; unsigned i, j;
    while (std::cin >> op >> i >> j) {
      if (i >= itvs.size() || j >= itvs.size()) continue;
      ITV z = apply(op, itvs[i], itvs[j]);
      std::cout << "C " << op << ' ' << i << ' ' << j << ' ' << raw(z) << ' ' << obs(z) << '\n';
    }
    return 0;
  }
  for (unsigned k = 0; OPS[k] != 0; ++k) {
    std::string op(OPS[k]);
    if (mode == "arith" && k > 4) break;
    for (unsigned i = 0; i < itvs.size(); ++i)
      for (unsigned j = 0; j < itvs.size(); ++j) {
        if (op == "neg" && j != 0) break;
        ITV z = apply(op, itvs[i], itvs[j]);
        std::cout << "C " << op << ' ' << i << ' ' << j << ' ' << raw(z) << ' ' << obs(z) << '\n';
      }
  }
  return 0;
}

int main(int argc, char** argv) {
  std::ios::sync_with_stdio(false);
  std::string type = argc > 1 ? argv[1] : "Q";
  std::string pal = argc > 2 ? argv[2] : "quick";
  std::string mode = argc > 3 ? argv[3] : "all";
  if (type == "Q") return run<Rational_Interval>(pal, mode, 0);
  if (type == "Z") return run<Z_Interval>(pal, mode, 2);
  if (type == "D") return run<D_Interval>(pal, mode, 1);
  std::cerr << "unknown type\n";
  return 2;
}
