// C14(a): ill-formed calls on polyhedra. Extends the polyhedron case language of run_poly.cc with commands whose
// arguments carry their own space dimension (so that dimension-incompatible arguments can be expressed):
//   xop <id> <op> <args>      mutators / queries / constructors ("ctor_*": <id> is the object that would be created)
// prints   xres ok | xres exn <class>   followed by the state of EVERY object of the pool (st ... lines, endst).
#define main run_poly_main
#include "run_poly.cc"
#undef main

static dimension_type big_dim(Toks& tk) {   // decimal, or MAX+j / MAX-j relative to Polyhedron max_space_dimension()
  std::string s = tk.next();
  if (s.compare(0, 3, "MAX") == 0) {
    dimension_type m = C_Polyhedron::max_space_dimension();
    if (s.size() == 3) return m;
    long j = std::atol(s.c_str() + 4);
    return s[3] == '+' ? m + j : m - j;
  }
  return (dimension_type) std::strtoull(s.c_str(), 0, 10);
}
static Constraint xcon(Toks& tk) { unsigned n = tk.nextl(); return read_con(tk, n); }
static Constraint_System xcons(Toks& tk) { unsigned n = tk.nextl(); return read_cons(tk, n); }
static Generator xgen(Toks& tk) { unsigned n = tk.nextl(); return read_gen(tk, n); }
static Generator_System xgens(Toks& tk) { unsigned n = tk.nextl(); return read_gens(tk, n); }
static Congruence xcg(Toks& tk) { unsigned n = tk.nextl(); return read_cg(tk, n); }
static Congruence_System xcgs(Toks& tk) { unsigned n = tk.nextl(); return read_cgs(tk, n); }
static Linear_Expression xexpr(Toks& tk) { mpz_class b; return read_expr_n(tk, b); }
static Variables_Set xvs(Toks& tk) { long k = tk.nextl(); Variables_Set vs; for (long i = 0; i < k; ++i) vs.insert(Variable(tk.nextl())); return vs; }

static void do_xop(Toks& tk) {
  int id = tk.nextl(); std::string op = tk.next();
  if (op == "ctor_dim") { std::string t = tk.next(); dimension_type m = big_dim(tk); Polyhedron* p = (t == "C") ? (Polyhedron*) new C_Polyhedron(m, EMPTY) : new NNC_Polyhedron(m, EMPTY); put(id, p); return; }
  if (op == "ctor_cons") { std::string t = tk.next(); Constraint_System cs = xcons(tk); Polyhedron* p = (t == "C") ? (Polyhedron*) new C_Polyhedron(cs) : new NNC_Polyhedron(cs); put(id, p); return; }
  if (op == "ctor_gens") { std::string t = tk.next(); Generator_System gs = xgens(tk); Polyhedron* p = (t == "C") ? (Polyhedron*) new C_Polyhedron(gs) : new NNC_Polyhedron(gs); put(id, p); return; }
  Polyhedron& x = *get(id);
  if (op == "add_constraint") x.add_constraint(xcon(tk));
  else if (op == "refine_with_constraint") x.refine_with_constraint(xcon(tk));
  else if (op == "add_constraints") x.add_constraints(xcons(tk));
  else if (op == "add_recycled_constraints") { Constraint_System cs = xcons(tk); x.add_recycled_constraints(cs); }
  else if (op == "refine_with_constraints") x.refine_with_constraints(xcons(tk));
  else if (op == "add_generator") x.add_generator(xgen(tk));
  else if (op == "add_generators") x.add_generators(xgens(tk));
  else if (op == "add_recycled_generators") { Generator_System gs = xgens(tk); x.add_recycled_generators(gs); }
  else if (op == "add_congruence") x.add_congruence(xcg(tk));
  else if (op == "refine_with_congruence") x.refine_with_congruence(xcg(tk));
  else if (op == "add_congruences") x.add_congruences(xcgs(tk));
  else if (op == "refine_with_congruences") x.refine_with_congruences(xcgs(tk));
  else if (op == "intersection_assign") x.intersection_assign(*get(tk.nextl()));
  else if (op == "poly_hull_assign") x.poly_hull_assign(*get(tk.nextl()));
  else if (op == "upper_bound_assign") x.upper_bound_assign(*get(tk.nextl()));
  else if (op == "poly_difference_assign") x.poly_difference_assign(*get(tk.nextl()));
  else if (op == "difference_assign") x.difference_assign(*get(tk.nextl()));
  else if (op == "time_elapse_assign") x.time_elapse_assign(*get(tk.nextl()));
  else if (op == "H79_widening_assign") x.H79_widening_assign(*get(tk.nextl()));
  else if (op == "BHRZ03_widening_assign") x.BHRZ03_widening_assign(*get(tk.nextl()));
  else if (op == "simplify_using_context_assign") (void) x.simplify_using_context_assign(*get(tk.nextl()));
  else if (op == "swap") x.m_swap(*get(tk.nextl()));
  else if (op == "contains") (void) x.contains(*get(tk.nextl()));
  else if (op == "strictly_contains") (void) x.strictly_contains(*get(tk.nextl()));
  else if (op == "is_disjoint_from") (void) x.is_disjoint_from(*get(tk.nextl()));
  else if (op == "concatenate_assign") x.concatenate_assign(*get(tk.nextl()));
  else if (op == "affine_image" || op == "affine_preimage") {
    unsigned v = tk.nextl(); mpz_class den = tk.nextz(); Linear_Expression e = xexpr(tk);
    if (op == "affine_image") x.affine_image(Variable(v), e, den); else x.affine_preimage(Variable(v), e, den); }
  else if (op == "bounded_affine_image" || op == "bounded_affine_preimage") {
    unsigned v = tk.nextl(); mpz_class den = tk.nextz(); Linear_Expression lb = xexpr(tk); Linear_Expression ub = xexpr(tk);
    if (op == "bounded_affine_image") x.bounded_affine_image(Variable(v), lb, ub, den); else x.bounded_affine_preimage(Variable(v), lb, ub, den); }
  else if (op == "generalized_affine_image" || op == "generalized_affine_preimage") {
    unsigned v = tk.nextl(); Relation_Symbol r = read_rel(tk); mpz_class den = tk.nextz(); Linear_Expression e = xexpr(tk);
    if (op == "generalized_affine_image") x.generalized_affine_image(Variable(v), r, e, den); else x.generalized_affine_preimage(Variable(v), r, e, den); }
  else if (op == "generalized_affine_image_lhs" || op == "generalized_affine_preimage_lhs") {
    Linear_Expression l = xexpr(tk); Relation_Symbol r = read_rel(tk); Linear_Expression e = xexpr(tk);
    if (op == "generalized_affine_image_lhs") x.generalized_affine_image(l, r, e); else x.generalized_affine_preimage(l, r, e); }
  else if (op == "unconstrain") x.unconstrain(Variable(tk.nextl()));
  else if (op == "unconstrain_set") x.unconstrain(xvs(tk));
  else if (op == "add_space_dimensions_and_embed") x.add_space_dimensions_and_embed(big_dim(tk));
  else if (op == "add_space_dimensions_and_project") x.add_space_dimensions_and_project(big_dim(tk));
  else if (op == "remove_space_dimensions") x.remove_space_dimensions(xvs(tk));
  else if (op == "remove_higher_space_dimensions") x.remove_higher_space_dimensions(big_dim(tk));
  else if (op == "expand_space_dimension") { unsigned v = tk.nextl(); x.expand_space_dimension(Variable(v), big_dim(tk)); }
  else if (op == "fold_space_dimensions") { Variables_Set vs = xvs(tk); unsigned v = tk.nextl(); x.fold_space_dimensions(vs, Variable(v)); }
  else if (op == "map_space_dimensions") { PFunc f; long k = tk.nextl(); for (long i = 0; i < k; ++i) { long j = tk.nextl(); f.m.push_back(j); if (j >= 0 && (unsigned) j > f.maxc) f.maxc = j; } x.map_space_dimensions(f); }
  else if (op == "limited_H79_extrapolation_assign") { const Polyhedron& y = *get(tk.nextl()); x.limited_H79_extrapolation_assign(y, xcons(tk)); }
  else if (op == "limited_BHRZ03_extrapolation_assign") { const Polyhedron& y = *get(tk.nextl()); x.limited_BHRZ03_extrapolation_assign(y, xcons(tk)); }
  else if (op == "bounded_H79_extrapolation_assign") { const Polyhedron& y = *get(tk.nextl()); x.bounded_H79_extrapolation_assign(y, xcons(tk)); }
  else if (op == "bounded_BHRZ03_extrapolation_assign") { const Polyhedron& y = *get(tk.nextl()); x.bounded_BHRZ03_extrapolation_assign(y, xcons(tk)); }
  else if (op == "relation_with_con") (void) x.relation_with(xcon(tk));
  else if (op == "relation_with_gen") (void) x.relation_with(xgen(tk));
  else if (op == "relation_with_cg") (void) x.relation_with(xcg(tk));
  else if (op == "constrains") (void) x.constrains(Variable(tk.nextl()));
  else if (op == "bounds_from_above") (void) x.bounds_from_above(xexpr(tk));
  else if (op == "bounds_from_below") (void) x.bounds_from_below(xexpr(tk));
  else if (op == "maximize" || op == "minimize") { Linear_Expression e = xexpr(tk); Coefficient n, d; bool m; Generator g = point();
    if (op == "maximize") (void) x.maximize(e, n, d, m, g); else (void) x.minimize(e, n, d, m); }
  else if (op == "frequency") { Linear_Expression e = xexpr(tk); Coefficient a, b, c, d; (void) x.frequency(e, a, b, c, d); }
  else throw std::runtime_error("case: unknown xop " + op);
}

int main(int argc, char** argv) {
  if (argc < 2) { std::cerr << "usage: run_reject casefile | maxdim\n"; return 2; }
  if (std::string(argv[1]) == "maxdim") { std::cout << C_Polyhedron::max_space_dimension() << " " << NNC_Polyhedron::max_space_dimension() << "\n"; return 0; }
  std::ifstream in(argv[1]); std::string line;
  while (std::getline(in, line)) {
    Toks tk(line); if (!tk.more()) continue;
    std::string cmd = tk.next();
    if (cmd[0] == '#') continue;
    try {
      if (cmd == "case") { for (Pool::iterator i = pool.begin(); i != pool.end(); ++i) delete i->second; pool.clear(); std::cout << "case " << tk.next() << "\n"; }
      else if (cmd == "end") std::cout << "end\n";
      else if (cmd == "new") { int id = std::atoi(tk.t[1].c_str()); try { do_new(tk); std::cout << "res ok\n"; print_state(id); } catch (const std::exception& e) { if (std::string(e.what()).substr(0,5) == "case:") throw; std::cout << "res exn " << exn_class(e) << "\n"; } }
      else if (cmd == "copy") { int id = tk.nextl(); put(id, clone(*get(tk.nextl()))); std::cout << "res ok\n"; print_state(id); }
      else if (cmd == "op") { int id = std::atoi(tk.t[1].c_str());
        try { do_op(tk); std::cout << "res ok\n"; } catch (const std::exception& e) { if (std::string(e.what()).substr(0,5) == "case:") throw; std::cout << "res exn " << exn_class(e) << "\n"; }
        print_state(id); }
      else if (cmd == "xop") {
        try { do_xop(tk); std::cout << "xres ok\n"; }
        catch (const std::exception& e) { if (std::string(e.what()).substr(0,5) == "case:") throw; std::cout << "xres exn " << exn_class(e) << "\n"; }
        for (Pool::iterator i = pool.begin(); i != pool.end(); ++i) print_state(i->first);
        std::cout << "endst\n"; }
      else if (cmd == "stall") { for (Pool::iterator i = pool.begin(); i != pool.end(); ++i) print_state(i->first); std::cout << "endst\n"; }
      else if (cmd == "qry") { try { do_qry(tk); } catch (const std::exception& e) { if (std::string(e.what()).substr(0,5) == "case:") throw; std::cout << "ans exn " << exn_class(e) << "\n"; } }
      else if (cmd == "obs") { try { do_obs(tk); } catch (const std::exception& e) { if (std::string(e.what()).substr(0,5) == "case:") throw; std::cout << "obs exn " << exn_class(e) << "\n"; } }
      else throw std::runtime_error("case: unknown command " + cmd);
    } catch (const std::exception& e) {
      std::cout << "HARNESS-ERROR " << e.what() << " in: " << line << std::endl;
      return 3;
    }
    std::cout.flush();
  }
  return 0;
}
