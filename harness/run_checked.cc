// C11 harness: drives the checked-number kernel of the PPL working tree and prints (stored, result word)
// for every case, so that the extracted Coq model can be compared bit for bit (ocaml/judge_checked.ml), and
// checks every case against an INDEPENDENT oracle (exact mpz/mpq arithmetic + the documented meaning of the
// result word) -- the oracle does not use the model.
//
//   run_checked sweep8 [shard] <group>    exhaustive 8-bit sweep (all x,y in int8_t / uint8_t); shard 0..8 or all
//   run_checked vec <bits> <file> <group> operand tuples "x y z e" from <file>, types of that width
// group: arith | other | all
//
// output:  "B <type> <bits> <signed> <policy> <10 policy flags> <Larger: neg add sub mul> <api> <op> <dir>"
//          followed by the entries of the block ("s,r" | "!" (skipped: would trap) | "T" (exception)), 256 per line
//          in sweep mode, one per line prefixed by the tuple in vec mode;
//          "O <block#> <op> <signed> <class> <x> <y> <z> <e> <stored> <r> <why>"  oracle failure
//          "E <n>" end marker with the number of evaluations.
#include <iostream>
#include <fstream>
#include <sstream>
#include <string>
#include <vector>
#include <cstdio>
#include <cstdlib>
#include <csetjmp>
#include <csignal>
#include <stdint.h>
#include <gmpxx.h>
#include "ppl-config.h"
#include "Checked_Number_defs.hh"
#include "checked_numeric_limits.hh"
#include "WRD_coefficient_types_defs.hh"
#include "Coefficient_defs.hh"
#include "Init_defs.hh"

using namespace Parma_Polyhedra_Library;
static Init vh_init;

// ---- policies under test: those the library instantiates.  The harness is compiled against the checked-int8
// configuration of the library, the one in which Bounded_Integer_Coefficient_Policy (and its handle_result) exists.
typedef Bounded_Integer_Coefficient_Policy Bounded_Policy_Flags;

static sigjmp_buf trap_env;
static void on_fpe(int) { siglongjmp(trap_env, 1); }

static long long n_eval = 0;
static long long n_block = 0;
static bool vec_mode = false;

template <typename T> struct TI;
#define DEF_TI(T, NAME, BITS, SGN) template <> struct TI<T> { static const char* name() { return NAME; } \
  static const int bits = BITS; static const bool sgn = SGN; }
DEF_TI(int8_t, "int8", 8, true);   DEF_TI(uint8_t, "uint8", 8, false);
DEF_TI(int16_t, "int16", 16, true); DEF_TI(uint16_t, "uint16", 16, false);
DEF_TI(int32_t, "int32", 32, true); DEF_TI(uint32_t, "uint32", 32, false);
DEF_TI(int64_t, "int64", 64, true); DEF_TI(uint64_t, "uint64", 64, false);

template <typename T> static mpz_class to_z(T v) {
  mpz_class z;
  if (TI<T>::sgn) { long long s = (long long)v; z = (long)s; }   // long is 64 bit here
  else { unsigned long long u = (unsigned long long)v; z = (unsigned long)u; }
  return z;
}
template <typename T> static T from_z(const mpz_class& z) {   // wraps; inputs are in range
  if (TI<T>::sgn) return (T)z.get_si(); else return (T)z.get_ui();
}

// ---- independent description of a type/policy pair (NOT taken from Extended_Int) ----
struct Env {
  int bits; bool sgn; bool has_nan, has_inf;
  mpz_class cmin, cmax, emin, emax, pinf, minf, nan;
};
template <typename T, typename P> static Env make_env() {
  Env e; e.bits = TI<T>::bits; e.sgn = TI<T>::sgn; e.has_nan = P::has_nan; e.has_inf = P::has_infinity;
  mpz_class one = 1;
  if (e.sgn) { e.cmin = -(one << (e.bits - 1)); e.cmax = (one << (e.bits - 1)) - 1; }
  else { e.cmin = 0; e.cmax = (one << e.bits) - 1; }
  // documented encoding: +inf = largest value, -inf = smallest (signed) / largest-1 (unsigned), NaN next to them
  e.pinf = e.cmax;
  int i = e.has_inf ? 1 : 0, n = e.has_nan ? 1 : 0;
  if (e.sgn) { e.minf = e.cmin; e.nan = e.cmin + i; e.emin = e.cmin + i + n; e.emax = e.cmax - i; }
  else { e.minf = e.cmax - 1; e.nan = e.cmax - 2 * i; e.emin = e.cmin; e.emax = e.cmax - 2 * i - n; }
  return e;
}

// extended exact value: kind 0 = rational q, 1 = +inf, -1 = -inf, 2 = undefined, 3 = sqrt(q.num) (q integer >= 0)
struct Ex { int kind; mpq_class q; Ex() : kind(2) {} Ex(int k) : kind(k) {} Ex(const mpq_class& v) : kind(0), q(v) {} };
static int cmp_ex_z(const Ex& e, const mpz_class& z) {   // sign of e - z ; e.kind in {0,3}
  if (e.kind == 0) return cmp(e.q, mpq_class(z));
  mpz_class x = e.q.get_num();
  if (z < 0) return 1;
  mpz_class zz = z * z;
  return cmp(x, zz);
}
struct SV { int kind; mpz_class v; };   // decoded stored value: 0 finite, 1 +inf, -1 -inf, 2 nan
static SV decode(const Env& en, const mpz_class& s) {
  SV r; r.kind = 0; r.v = s;
  if (en.has_nan && s == en.nan) r.kind = 2;
  else if (en.has_inf && s == en.pinf) r.kind = 1;
  else if (en.has_inf && s == en.minf) r.kind = -1;
  return r;
}

// The meaning of a result word, written from the documentation in Result_defs.hh (independent of the Coq model).
// Returns 0 if the claim and the directed-rounding requirement hold, otherwise a reason string.
static const char* oracle(const Env& en, unsigned r, unsigned dir, const Ex& e, const mpz_class& s) {
  unsigned rel = r & 7u, cls = r & 48u; bool ovf = (r & 64u) != 0, unrep = (r & 128u) != 0;
  unsigned reason = r >> 8;
  bool up = (dir & 7u) == 1u, down = (dir & 7u) == 0u;
  SV sv = decode(en, s);
  if (cls == 48u) {              // NaN class
    if (en.has_nan && (unrep || sv.kind != 2)) return "nan-not-stored";
    if (reason == 10u || reason == 11u) return 0;       // unknown due to intermediate overflow: no claim
    if (e.kind != 2) return "nan-but-defined";
    return 0;
  }
  if (e.kind == 2) return "defined-but-undefined-exact";
  if (cls == 0u) {
    if (unrep) return "normal-unrepresentable";
    if (sv.kind != 0 || s < en.emin || s > en.emax) return "stored-not-finite";
    if (e.kind == 1 || e.kind == -1) {
      // an infinite exact result stored as a finite bound
      if (e.kind == 1 && !(rel == 4u && s == en.emax)) return "pinf-as-finite";
      if (e.kind == -1 && !(rel == 2u && s == en.emin)) return "minf-as-finite";
      if (up && e.kind == 1) return "round-up-violated";
      if (down && e.kind == -1) return "round-down-violated";
      return 0;
    }
    int c = cmp_ex_z(e, s);   // sign(exact - stored)
    bool okr = (c == 0 && (rel & 1u)) || (c < 0 && (rel & 2u)) || (c > 0 && (rel & 4u));
    if (!okr) return "relation-false";
    if (ovf && !((rel == 2u && s == en.emin) || (rel == 4u && s == en.emax))) return "overflow-bit-misused";
    if (up && c > 0) return "round-up-violated";
    if (down && c < 0) return "round-down-violated";
    return 0;
  }
  if (cls == 32u) {              // +inf class
    if (unrep ? en.has_inf : (!en.has_inf || sv.kind != 1)) return "pinf-storage";
    if (rel == 1u) { if (e.kind != 1) return "eq-pinf-false"; }
    else if (rel == 2u) { if (e.kind == 1 || e.kind == -1 || cmp_ex_z(e, en.emax) <= 0) return "lt-pinf-false(not an overflow)"; }
    else return "pinf-relation";
    if (!unrep && down && e.kind != 1) return "round-down-violated";
    return 0;
  }
  // -inf class
  if (unrep ? en.has_inf : (!en.has_inf || sv.kind != -1)) return "minf-storage";
  if (rel == 1u) { if (e.kind != -1) return "eq-minf-false"; }
  else if (rel == 4u) { if (e.kind == 1 || e.kind == -1 || cmp_ex_z(e, en.emin) >= 0) return "gt-minf-false(not an overflow)"; }
  else return "minf-relation";
  if (!unrep && up && e.kind != -1) return "round-up-violated";
  return 0;
}

enum Op { O_ASSIGN, O_NEG, O_ABS, O_ADD, O_SUB, O_MUL, O_DIV, O_IDIV, O_REM, O_ADD_MUL, O_SUB_MUL,
          O_ADD_2EXP, O_SUB_2EXP, O_MUL_2EXP, O_DIV_2EXP, O_SMOD_2EXP, O_UMOD_2EXP, O_SQRT, O_GCD, O_LCM, O_CMP,
          O_CLASSIFY, O_COUNT };
static const char* op_name[] = { "assign", "neg", "abs", "add", "sub", "mul", "div", "idiv", "rem", "add_mul", "sub_mul",
  "add_2exp", "sub_2exp", "mul_2exp", "div_2exp", "smod_2exp", "umod_2exp", "sqrt", "gcd", "lcm", "cmp", "classify" };
static int op_arity(Op o) {   // 1: x ; 2: x y ; 3: x y z(to) ; 4: x e
  switch (o) { case O_ASSIGN: case O_NEG: case O_ABS: case O_SQRT: case O_CLASSIFY: return 1;
    case O_ADD_MUL: case O_SUB_MUL: return 3;
    case O_ADD_2EXP: case O_SUB_2EXP: case O_MUL_2EXP: case O_DIV_2EXP: case O_SMOD_2EXP: case O_UMOD_2EXP: return 4;
    default: return 2; }
}
static bool op_arith(Op o) { return o <= O_SUB_MUL; }

static const unsigned SENT = 0x55;   // previous content of the destination

// ---- the exact result (extended reals) and the contract of the operation ----
// returns false when the case is outside the contract of the policy (a disabled check whose condition holds,
// undefined shifts, special values fed to an operation that does not handle them): no oracle verdict then.
static bool exact_of(const Env& en, Op op, bool ext_api, const mpz_class& x, const mpz_class& y, const mpz_class& z,
                     unsigned e, Ex& out, bool plain_factors = false) {
  SV sx = decode(en, x), sy = decode(en, y), sz = decode(en, z);
  if (plain_factors) { sx.kind = 0; sy.kind = 0; }     // operands of a native type: every bit pattern is a number
  int ar = op_arity(op);
  bool spec = sx.kind != 0 || (ar == 2 || ar == 3 ? sy.kind != 0 : false) || (ar == 3 ? sz.kind != 0 : false);
  if (spec && !ext_api) return false;            // the native primitives are never handed special values
  if (spec) {
    if (sx.kind == 2 || ((ar == 2 || ar == 3) && sy.kind == 2) || (ar == 3 && sz.kind == 2)) { out = Ex(2); return true; }
    int kx = sx.kind, ky = sy.kind;
    int sgx = kx ? kx : sgn(x), sgy = ky ? ky : sgn(y);
    switch (op) {
    case O_ASSIGN: out = Ex(kx); return true;
    case O_NEG: out = Ex(-kx); return true;
    case O_ABS: out = Ex(1); return true;
    case O_ADD: if (kx && ky && kx != ky) return false; out = Ex(kx ? kx : ky); return true;
    case O_SUB: if (kx && ky && kx == ky) return false; out = Ex(kx ? kx : -ky); return true;
    case O_MUL: if (sgx == 0 || sgy == 0) return false; out = Ex(sgx * sgy); return true;
    case O_DIV: case O_IDIV:
      if (kx && ky) return false;
      if (kx) { if (sgy == 0) return false; out = Ex(kx * sgy); return true; }
      out = Ex(mpq_class(0)); return true;
    case O_ADD_MUL: case O_SUB_MUL:
      // a special accumulator with finite factors: the accumulator's infinity survives
      if (kx || ky) return false;
      out = Ex(sz.kind); return true;
    default: return false;        // other operations on special values: compared with the model only
    }
  }
  mpz_class two_e; mpz_ui_pow_ui(two_e.get_mpz_t(), 2, e);
  switch (op) {
  case O_ASSIGN: out = Ex(mpq_class(x)); return true;
  case O_NEG: out = Ex(mpq_class(-x)); return true;
  case O_ABS: out = Ex(mpq_class(abs(x))); return true;
  case O_ADD: out = Ex(mpq_class(x + y)); return true;
  case O_SUB: out = Ex(mpq_class(x - y)); return true;
  case O_MUL: out = Ex(mpq_class(x * y)); return true;
  case O_DIV: if (y == 0) return false; { mpq_class q(x, y); q.canonicalize(); out = Ex(q); } return true;
  case O_IDIV: if (y == 0) return false; { mpz_class q; mpz_tdiv_q(q.get_mpz_t(), x.get_mpz_t(), y.get_mpz_t()); out = Ex(mpq_class(q)); } return true;
  case O_REM: if (y == 0) return false; { mpz_class q; mpz_tdiv_r(q.get_mpz_t(), x.get_mpz_t(), y.get_mpz_t()); out = Ex(mpq_class(q)); } return true;
  case O_ADD_MUL: out = Ex(mpq_class(z + x * y)); return true;
  case O_SUB_MUL: out = Ex(mpq_class(z - x * y)); return true;
  case O_ADD_2EXP: out = Ex(mpq_class(x + two_e)); return true;
  case O_SUB_2EXP: out = Ex(mpq_class(x - two_e)); return true;
  case O_MUL_2EXP: out = Ex(mpq_class(x * two_e)); return true;
  case O_DIV_2EXP: { mpq_class q(x, two_e); q.canonicalize(); out = Ex(q); } return true;
  case O_SMOD_2EXP: {
    if (e == 0) return false;                     // (Type(1) << (exp - 1)) is undefined
    if (en.sgn && e == (unsigned)en.bits) { out = Ex(mpq_class(x)); return true; }
    mpz_class m; mpz_fdiv_r(m.get_mpz_t(), x.get_mpz_t(), two_e.get_mpz_t());
    if (m >= two_e / 2) m -= two_e;
    out = Ex(mpq_class(m)); return true; }
  case O_UMOD_2EXP: {
    if (en.sgn && e == (unsigned)en.bits - 1) return false;   // (Type(1) << exp) - 1 overflows the signed type
    mpz_class m; mpz_fdiv_r(m.get_mpz_t(), x.get_mpz_t(), two_e.get_mpz_t()); out = Ex(mpq_class(m)); return true; }
  case O_SQRT: if (x < 0) return false; out = Ex(mpq_class(x)); out.kind = 3; return true;
  case O_GCD: { mpz_class g; mpz_gcd(g.get_mpz_t(), x.get_mpz_t(), y.get_mpz_t()); out = Ex(mpq_class(g)); } return true;
  case O_LCM: { mpz_class g; mpz_lcm(g.get_mpz_t(), x.get_mpz_t(), y.get_mpz_t()); out = Ex(mpq_class(g)); } return true;
  default: return false;
  }
}

// classification of an oracle failure (used to match known findings): where in the input space it lies
static const char* fail_class(const Env& en, Op op, const mpz_class& x, const mpz_class& y, const mpz_class& z) {
  if (op == O_DIV && en.sgn && decode(en, x).kind == 0 && decode(en, y).kind == 0 && y < -1) {
    mpz_class r; mpz_tdiv_r(r.get_mpz_t(), x.get_mpz_t(), y.get_mpz_t());
    if (r != 0) return "negative-divisor-inexact";
  }
  if (op == O_SUB_MUL && en.sgn && !en.has_nan && z == 0 && x * y == en.emax + 1) return "to0-product-max+1";
  if (op == O_SQRT && en.sgn && decode(en, x).kind == 0 && x >= (mpz_class(1) << (en.bits - 2))) return "signed-operand-ge-2^(bits-2)";
  if (op == O_LCM && en.sgn && !en.has_nan && (x == en.cmin || y == en.cmin) && x != 0 && y != 0) return "abs-of-min-in-temporary";
  return "other";
}

template <typename T, typename P, int API> struct Call;   // API: 0 direct, 1 ext (Checked_Number), 2 native operands

// direct: the Checked:: function templates on raw values
template <typename T, typename P> struct Call<T, P, 0> {
  static Result run(Op op, T& to, T x, T y, unsigned e, Rounding_Dir d) {
    switch (op) {
    case O_ASSIGN: return Checked::assign<P, P>(to, x, d);
    case O_NEG: return Checked::neg<P, P>(to, x, d);
    case O_ABS: return Checked::abs<P, P>(to, x, d);
    case O_ADD: return Checked::add<P, P, P>(to, x, y, d);
    case O_SUB: return Checked::sub<P, P, P>(to, x, y, d);
    case O_MUL: return Checked::mul<P, P, P>(to, x, y, d);
    case O_DIV: return Checked::div<P, P, P>(to, x, y, d);
    case O_IDIV: return Checked::idiv<P, P, P>(to, x, y, d);
    case O_REM: return Checked::rem<P, P, P>(to, x, y, d);
    case O_ADD_MUL: return Checked::add_mul<P, P, P>(to, x, y, d);
    case O_SUB_MUL: return Checked::sub_mul<P, P, P>(to, x, y, d);
    case O_ADD_2EXP: return Checked::add_2exp<P, P>(to, x, e, d);
    case O_SUB_2EXP: return Checked::sub_2exp<P, P>(to, x, e, d);
    case O_MUL_2EXP: return Checked::mul_2exp<P, P>(to, x, e, d);
    case O_DIV_2EXP: return Checked::div_2exp<P, P>(to, x, e, d);
    case O_SMOD_2EXP: return Checked::smod_2exp<P, P>(to, x, e, d);
    case O_UMOD_2EXP: return Checked::umod_2exp<P, P>(to, x, e, d);
    case O_SQRT: return Checked::sqrt<P, P>(to, x, d);
    case O_GCD: return Checked::gcd<P, P, P>(to, x, y, d);
    case O_LCM: return Checked::lcm<P, P, P>(to, x, y, d);
    case O_CMP: return static_cast<Result>(Checked::cmp<P, P>(x, y));
    case O_CLASSIFY: return Checked::classify<P>(x, (e & 1) != 0, (e & 2) != 0, (e & 4) != 0);
    default: return V_NAN;
    }
  }
};
// ext: the public *_assign_r interface on Checked_Number<T, P>
template <typename T, typename P> struct Call<T, P, 1> {
  typedef Checked_Number<T, P> N;
  static Result run(Op op, T& to_raw, T x_raw, T y_raw, unsigned e, Rounding_Dir d) {
    N to, x, y; to.raw_value() = to_raw; x.raw_value() = x_raw; y.raw_value() = y_raw;
    Result r;
    switch (op) {
    case O_ASSIGN: r = assign_r(to, x, d); break;
    case O_NEG: r = neg_assign_r(to, x, d); break;
    case O_ABS: r = abs_assign_r(to, x, d); break;
    case O_ADD: r = add_assign_r(to, x, y, d); break;
    case O_SUB: r = sub_assign_r(to, x, y, d); break;
    case O_MUL: r = mul_assign_r(to, x, y, d); break;
    case O_DIV: r = div_assign_r(to, x, y, d); break;
    case O_IDIV: r = idiv_assign_r(to, x, y, d); break;
    case O_REM: r = rem_assign_r(to, x, y, d); break;
    case O_ADD_MUL: r = add_mul_assign_r(to, x, y, d); break;
    case O_SUB_MUL: r = sub_mul_assign_r(to, x, y, d); break;
    case O_ADD_2EXP: r = add_2exp_assign_r(to, x, e, d); break;
    case O_SUB_2EXP: r = sub_2exp_assign_r(to, x, e, d); break;
    case O_MUL_2EXP: r = mul_2exp_assign_r(to, x, e, d); break;
    case O_DIV_2EXP: r = div_2exp_assign_r(to, x, e, d); break;
    case O_SMOD_2EXP: r = smod_2exp_assign_r(to, x, e, d); break;
    case O_UMOD_2EXP: r = umod_2exp_assign_r(to, x, e, d); break;
    case O_SQRT: r = sqrt_assign_r(to, x, d); break;
    case O_GCD: r = gcd_assign_r(to, x, y, d); break;
    case O_LCM: r = lcm_assign_r(to, x, y, d); break;
    case O_CMP: r = static_cast<Result>(Checked::cmp_ext<P, P>(x_raw, y_raw)); break;
    case O_CLASSIFY: r = Checked::classify<P>(x_raw, (e & 1) != 0, (e & 2) != 0, (e & 4) != 0); break;
    default: r = V_NAN;
    }
    to_raw = to.raw_value();
    return r;
  }
};

// native: the public *_assign_r interface on plain C++ integers (destination policy Check_Overflow_Policy<T>,
// operand policy Checked_Number_Transparent_Policy<T>)
template <typename T, typename P> struct Call<T, P, 2> {
  static Result run(Op op, T& to, T x, T y, unsigned e, Rounding_Dir d) {
    switch (op) {
    case O_ASSIGN: return assign_r(to, x, d);
    case O_NEG: return neg_assign_r(to, x, d);
    case O_ABS: return abs_assign_r(to, x, d);
    case O_ADD: return add_assign_r(to, x, y, d);
    case O_SUB: return sub_assign_r(to, x, y, d);
    case O_MUL: return mul_assign_r(to, x, y, d);
    case O_DIV: return div_assign_r(to, x, y, d);
    case O_IDIV: return idiv_assign_r(to, x, y, d);
    case O_REM: return rem_assign_r(to, x, y, d);
    case O_ADD_MUL: return add_mul_assign_r(to, x, y, d);
    case O_SUB_MUL: return sub_mul_assign_r(to, x, y, d);
    case O_ADD_2EXP: return add_2exp_assign_r(to, x, e, d);
    case O_SUB_2EXP: return sub_2exp_assign_r(to, x, e, d);
    case O_MUL_2EXP: return mul_2exp_assign_r(to, x, e, d);
    case O_DIV_2EXP: return div_2exp_assign_r(to, x, e, d);
    case O_SMOD_2EXP: return smod_2exp_assign_r(to, x, e, d);
    case O_UMOD_2EXP: return umod_2exp_assign_r(to, x, e, d);
    case O_SQRT: return sqrt_assign_r(to, x, d);
    case O_GCD: return gcd_assign_r(to, x, y, d);
    case O_LCM: return lcm_assign_r(to, x, y, d);
    case O_CMP: return static_cast<Result>(Checked::cmp_ext<P, P>(x, y));
    case O_CLASSIFY: return Checked::classify<P>(x, (e & 1) != 0, (e & 2) != 0, (e & 4) != 0);
    default: return V_NAN;
    }
  }
};

// mixed: an extended (Checked_Number<T, P>) ACCUMULATOR with factors of the plain native type (their policy,
// Checked_Number_Transparent_Policy, has neither infinities nor NaN): add_mul_assign_r / sub_mul_assign_r only
template <typename T, typename P> struct Call<T, P, 3> {
  static Result run(Op op, T& to_raw, T x, T y, unsigned, Rounding_Dir d) {
    Checked_Number<T, P> to; to.raw_value() = to_raw;
    Result r = (op == O_ADD_MUL) ? add_mul_assign_r(to, x, y, d) : sub_mul_assign_r(to, x, y, d);
    to_raw = to.raw_value();
    return r;
  }
};

struct Tuple { mpz_class x, y, z; unsigned e; };
static std::vector<Tuple> vec_tuples;

static std::string lg(bool use, size_t sz, bool sg) {
  if (!use) return "-";
  std::ostringstream o; o << (sz * 8) << (sg ? "s" : "u"); return o.str();
}

template <typename T, typename P>
static void header(const char* pname, const char* api, Op op, unsigned dir, const std::string& zsel = "-") {
  typedef Checked::Larger<T> L;
  ++n_block;
  std::cout << "B " << TI<T>::name() << " " << TI<T>::bits << " " << (TI<T>::sgn ? 1 : 0) << " " << pname << " "
            << P::check_overflow << P::has_nan << P::has_infinity << P::check_div_zero << P::check_inf_add_inf
            << P::check_inf_sub_inf << P::check_inf_mul_zero << P::check_inf_div_inf << P::check_inf_mod
            << P::check_sqrt_neg << " "
            << lg(L::use_for_neg, sizeof(typename L::type_for_neg), C_Integer<typename L::type_for_neg>::is_signed) << " "
            << lg(L::use_for_add, sizeof(typename L::type_for_add), C_Integer<typename L::type_for_add>::is_signed) << " "
            << lg(L::use_for_sub, sizeof(typename L::type_for_sub), C_Integer<typename L::type_for_sub>::is_signed) << " "
            << lg(L::use_for_mul, sizeof(typename L::type_for_mul), C_Integer<typename L::type_for_mul>::is_signed) << " "
            << api << " " << op_name[op] << " " << dir << " " << zsel << "\n";
}

// one evaluation; prints the entry, runs the oracle
template <typename T, typename P, int EXT>
static void one(const Env& en, Op op, unsigned dir, const mpz_class& zx, const mpz_class& zy, const mpz_class& zz, unsigned e) {
  T x = from_z<T>(zx), y = from_z<T>(zy);
  int ar = op_arity(op);
  T to = (ar == 3) ? from_z<T>(zz) : (T)SENT;
  mpz_class z_in = (ar == 3) ? zz : to_z<T>((T)SENT);
  Result r = V_NAN;
  ++n_eval;
  if (sigsetjmp(trap_env, 1) == 0) {
    r = Call<T, P, EXT>::run(op, to, x, y, e, static_cast<Rounding_Dir>(dir));
  }
  else { std::cout << "!"; return; }
  mpz_class s = to_z<T>(to);
  if (op == O_CMP || op == O_CLASSIFY) { std::cout << "0," << (unsigned)r; return; }
  std::cout << s << "," << (unsigned)r;
  Ex ex;
  if (exact_of(en, op, EXT != 0, zx, zy, z_in, e, ex, EXT == 3)) {
    const char* why = oracle(en, (unsigned)r, dir, ex, s);
    if (why) {
      std::cerr << "O " << n_block << " " << op_name[op] << " " << (en.sgn ? 1 : 0) << " " << fail_class(en, op, zx, zy, z_in)
                << " " << zx << " " << zy << " " << z_in << " " << e << " " << s << " " << (unsigned)r << " " << dir << " "
                << en.bits << " " << why << "\n";
    }
  }
}

static const int Z8[] = { -128, -127, -126, -64, -2, -1, 0, 1, 2, 63, 64, 85, 125, 126, 127 };
static const int Z8U[] = { 0, 1, 2, 64, 85, 127, 128, 129, 200, 252, 253, 254, 255 };
static bool thorough = false;

static std::vector<int> z_values(bool sgn) {
  std::vector<int> v;
  if (thorough) {
    const int* zs = sgn ? Z8 : Z8U;
    int nz = sgn ? (int)(sizeof(Z8) / sizeof(int)) : (int)(sizeof(Z8U) / sizeof(int));
    for (int k = 0; k < nz; ++k) v.push_back(zs[k]);
  }
  else if (sgn) { v.push_back(-128); v.push_back(0); v.push_back(127); }
  else { v.push_back(0); v.push_back(128); v.push_back(255); }
  return v;
}
static std::string itos(int v) { std::ostringstream o; o << v; return o.str(); }

template <typename T, typename P, int EXT>
static void block(const char* pname, Op op, unsigned dir) {
  Env en = make_env<T, P>();
  int ar = op_arity(op);
  if (vec_mode) {
    header<T, P>(pname, (EXT == 3 ? "mixed" : EXT == 2 ? "native" : EXT ? "ext" : "direct"), op, dir);
    for (size_t i = 0; i < vec_tuples.size(); ++i) {
      const Tuple& t = vec_tuples[i];
      one<T, P, EXT>(en, op, dir, t.x, t.y, t.z, t.e);
      std::cout << "\n";
    }
    return;
  }
  const int lo = TI<T>::sgn ? -128 : 0, hi = TI<T>::sgn ? 127 : 255;
  if (ar == 1 || ar == 4) {
    header<T, P>(pname, (EXT == 3 ? "mixed" : EXT == 2 ? "native" : EXT ? "ext" : "direct"), op, dir);
    unsigned ne = (ar == 4) ? 11 : (op == O_CLASSIFY) ? 8 : 1;
    for (unsigned e = 0; e < ne; ++e) {
      for (int x = lo; x <= hi; ++x) { one<T, P, EXT>(en, op, dir, x, 0, 0, e); std::cout << " "; }
      std::cout << "\n";
    }
  }
  else if (ar == 2) {
    header<T, P>(pname, (EXT == 3 ? "mixed" : EXT == 2 ? "native" : EXT ? "ext" : "direct"), op, dir);
    for (int x = lo; x <= hi; ++x) {
      for (int y = lo; y <= hi; ++y) { one<T, P, EXT>(en, op, dir, x, y, 0, 0); std::cout << " "; }
      std::cout << "\n";
    }
  }
  else {
    std::vector<int> zs = z_values(TI<T>::sgn);
    if (EXT == 3 && !thorough) {        // the accumulator values that encode -inf, NaN, +inf (and two plain ones)
      zs.clear();
      if (TI<T>::sgn) { zs.push_back(-128); zs.push_back(-127); zs.push_back(0); zs.push_back(127); }
      else { zs.push_back(0); zs.push_back(253); zs.push_back(254); zs.push_back(255); }
    }
    for (size_t k = 0; k < zs.size(); ++k) {
      header<T, P>(pname, (EXT == 3 ? "mixed" : EXT == 2 ? "native" : EXT ? "ext" : "direct"), op, dir, itos(zs[k]));
      for (int x = lo; x <= hi; ++x) {
        for (int y = lo; y <= hi; ++y) { one<T, P, EXT>(en, op, dir, x, y, zs[k], 0); std::cout << " "; }
        std::cout << "\n";
      }
    }
  }
}

static int group = 0;   // 0 arith, 1 other, 2 all
static const unsigned DIRS[] = { 1u /*UP*/, 0u /*DOWN*/, 6u /*IGNORE*/, 7u /*NOT_NEEDED*/ };

// which (policy, api, op, direction) blocks a tier runs.  thorough: everything.  quick: the full exhaustive sweep for
// one policy of each flag set (the other two policies have identical flags) and a reduced one for the twins.
static bool want(int pidx, int api, Op op, unsigned dir) {
  bool ext = api != 0;
  if (api == 3) return (op == O_ADD_MUL || op == O_SUB_MUL) && (pidx == 1 || pidx == 2) && (thorough || vec_mode || pidx == 1 || dir == 1u);
  if (api == 2) return pidx == 0 && op != O_CMP && op != O_CLASSIFY && (thorough || vec_mode || dir == 1u || op == O_LCM);
  if (vec_mode) return op != O_CLASSIFY && op != O_CMP ? true : ext;
  if (thorough) return true;
  if (op_arith(op)) {
    switch (pidx) {
    case 0: return true;
    case 1: return ext || dir == 1u;
    case 2: return ext && dir == 1u;
    default: return ext && dir == 6u;
    }
  }
  if (pidx == 0) return ext || dir == 1u;
  if (pidx == 1) return ext;
  return false;
}

template <typename T, typename P>
static void policy_blocks(const char* pname, int pidx) {
  for (int o = 0; o < O_COUNT; ++o) {
    Op op = (Op)o;
    if (group == 0 && !op_arith(op)) continue;
    if (group == 1 && op_arith(op)) continue;
    int nd = (op == O_CMP || op == O_CLASSIFY) ? 1 : 3;
    for (int k = 0; k < nd; ++k) {
      if (want(pidx, 0, op, DIRS[k])) block<T, P, 0>(pname, op, DIRS[k]);
      if (want(pidx, 1, op, DIRS[k])) block<T, P, 1>(pname, op, DIRS[k]);
      if (want(pidx, 2, op, DIRS[k])) block<T, P, 2>(pname, op, DIRS[k]);
      if (want(pidx, 3, op, DIRS[k])) block<T, P, 3>(pname, op, DIRS[k]);
    }
  }
}

// the overloaded operators / *_assign functions of a Checked_Number with the bounded-coefficient policy:
// value or std::overflow_error  (entries "v,1" or "T")
template <typename T>
static void operator_blocks() {
  typedef Bounded_Policy_Flags P;
  typedef Checked_Number<T, P> N;
  Env en = make_env<T, P>();
  static const char* names[] = { "neg", "abs", "add", "sub", "mul", "add_mul", "sub_mul" };
  const int lo = TI<T>::sgn ? -128 : 0, hi = TI<T>::sgn ? 127 : 255;
  for (int o = 0; o < 7; ++o) {
    Op op = o == 0 ? O_NEG : o == 1 ? O_ABS : o == 2 ? O_ADD : o == 3 ? O_SUB : o == 4 ? O_MUL : o == 5 ? O_ADD_MUL : O_SUB_MUL;
    std::vector<int> zs; if (o >= 5) zs = z_values(TI<T>::sgn); else zs.push_back(0);
    for (size_t k = 0; k < zs.size(); ++k) {
      header<T, P>("Bounded_Integer_Coefficient_Policy", "oper", op, 6u, o >= 5 ? itos(zs[k]) : std::string("-"));
      for (int x = lo; x <= hi; ++x) {
        int ylo = (o < 2) ? 0 : lo, yhi = (o < 2) ? 0 : hi;
        for (int y = ylo; y <= yhi; ++y) {
          ++n_eval;
          N a, b, c; a.raw_value() = (T)x; b.raw_value() = (T)y; c.raw_value() = (T)zs[k];
          mpz_class exact;
          try {
            N r;
            switch (o) {
            case 0: r = -a; exact = -mpz_class(x); break;
            case 1: r = a; abs_assign(r); exact = abs(mpz_class(x)); break;
            case 2: r = a + b; exact = mpz_class(x) + y; break;
            case 3: r = a - b; exact = mpz_class(x) - y; break;
            case 4: r = a * b; exact = mpz_class(x) * y; break;
            case 5: r = c; add_mul_assign(r, a, b); exact = mpz_class(zs[k]) + mpz_class(x) * y; break;
            default: r = c; sub_mul_assign(r, a, b); exact = mpz_class(zs[k]) - mpz_class(x) * y; break;
            }
            mpz_class s = to_z<T>(r.raw_value());
            std::cout << s << ",1 ";
            if (s != exact)
              std::cerr << "O " << n_block << " oper_" << names[o] << " " << (en.sgn ? 1 : 0) << " wrong-value " << x << " " << y << " "
                        << zs[k] << " 0 " << s << " 1 6 " << en.bits << " bounded-operator-returned-a-different-value\n";
          }
          catch (const std::overflow_error&) { std::cout << "T "; }
          catch (const std::exception& ex) { std::cout << "T "; }
        }
        if (o >= 2) std::cout << "\n";
      }
      if (o < 2) std::cout << "\n";
    }
  }
}

// conversions between different native integer types: assign_r(To, From)
template <typename To, typename P, typename From>
static void assign_from_block(const char* pname, unsigned dir) {
  Env en = make_env<To, P>();
  ++n_block;
  std::cout << "A " << TI<To>::name() << " " << TI<To>::bits << " " << (TI<To>::sgn ? 1 : 0) << " " << pname << " "
            << P::check_overflow << P::has_nan << P::has_infinity << " " << TI<From>::name() << " " << TI<From>::bits << " "
            << (TI<From>::sgn ? 1 : 0) << " " << dir << "\n";
  long lo = TI<From>::sgn ? -(1L << (TI<From>::bits - 1)) : 0;
  long hi = TI<From>::sgn ? (1L << (TI<From>::bits - 1)) - 1 : (1L << TI<From>::bits) - 1;
  long cnt = 0;
  for (long v = lo; v <= hi; ++v) {
    ++n_eval;
    Checked_Number<To, P> to; to.raw_value() = (To)SENT;
    From f = (From)v;
    Result r = assign_r(to, f, static_cast<Rounding_Dir>(dir));
    mpz_class s = to_z<To>(to.raw_value());
    std::cout << s << "," << (unsigned)r << (((++cnt) % 256 == 0) ? "\n" : " ");
    const char* why = oracle(en, (unsigned)r, dir, Ex(mpq_class(mpz_class(v))), s);
    if (why)
      std::cerr << "O " << n_block << " assign_from_" << TI<From>::name() << " " << (en.sgn ? 1 : 0) << " other " << v << " 0 0 0 " << s << " "
                << (unsigned)r << " " << dir << " " << en.bits << " " << why << "\n";
  }
  if (cnt % 256) std::cout << "\n";
}

static int shard = -1;   // -1: everything; 0..3: policy index for the signed type, 4..7 unsigned, 8: operators+conversions
template <typename T>
static void type_blocks() {
  int base = TI<T>::sgn ? 0 : 4;
  if (shard < 0 || shard == base + 0) policy_blocks<T, Check_Overflow_Policy<T> >("Check_Overflow_Policy", 0);
  if (shard < 0 || shard == base + 1) policy_blocks<T, Extended_Number_Policy>("Extended_Number_Policy", 1);
  if (shard < 0 || shard == base + 2) policy_blocks<T, WRD_Extended_Number_Policy>("WRD_Extended_Number_Policy", 2);
  if (shard < 0 || shard == base + 3) policy_blocks<T, Bounded_Policy_Flags>("Bounded_Integer_Coefficient_Policy", 3);
}

template <typename To>
static void conv_blocks() {
  for (int k = 0; k < 3; ++k) {
    unsigned d = DIRS[k];
    assign_from_block<To, Check_Overflow_Policy<To>, int8_t>("Check_Overflow_Policy", d);
    assign_from_block<To, Check_Overflow_Policy<To>, uint8_t>("Check_Overflow_Policy", d);
    assign_from_block<To, Check_Overflow_Policy<To>, int16_t>("Check_Overflow_Policy", d);
    assign_from_block<To, Check_Overflow_Policy<To>, uint16_t>("Check_Overflow_Policy", d);
    assign_from_block<To, Extended_Number_Policy, int8_t>("Extended_Number_Policy", d);
    assign_from_block<To, Extended_Number_Policy, uint8_t>("Extended_Number_Policy", d);
    assign_from_block<To, Extended_Number_Policy, int16_t>("Extended_Number_Policy", d);
    assign_from_block<To, Extended_Number_Policy, uint16_t>("Extended_Number_Policy", d);
  }
}

int main(int argc, char** argv) {
  std::ios::sync_with_stdio(false);
  signal(SIGFPE, on_fpe);
  if (argc < 3) { std::cerr << "usage\n"; return 2; }
  std::string mode = argv[1];
  std::string g = argv[argc - 1];
  if (g.find("thorough") != std::string::npos) thorough = true;
  group = (g.find("arith") == 0) ? 0 : (g.find("other") == 0) ? 1 : 2;
  if (mode == "sweep8") {
    if (argc >= 4) shard = atoi(argv[2]);
    type_blocks<int8_t>();
    type_blocks<uint8_t>();
    if (group != 1 && (shard < 0 || shard == 8)) {
      operator_blocks<int8_t>();
      operator_blocks<uint8_t>();
      conv_blocks<int8_t>(); conv_blocks<uint8_t>(); conv_blocks<int16_t>(); conv_blocks<uint16_t>();
    }
  }
  else if (mode == "vec") {
    vec_mode = true;
    int bits = atoi(argv[2]);
    std::ifstream in(argv[3]);
    std::string line;
    while (std::getline(in, line)) {
      std::istringstream is(line);
      Tuple t; std::string a, b, c;
      if (!(is >> a >> b >> c >> t.e)) continue;
      t.x = mpz_class(a); t.y = mpz_class(b); t.z = mpz_class(c);
      vec_tuples.push_back(t);
    }
    // tuples are given as signed values; the unsigned twin reinterprets them modulo 2^bits (done by the generator:
    // the file for unsigned runs is separate), so here both files hold in-range values for the type asked for
    std::string which = argv[4];
    if (bits == 64) { if (which == "s") type_blocks<int64_t>(); else type_blocks<uint64_t>(); }
    else if (bits == 32) { if (which == "s") type_blocks<int32_t>(); else type_blocks<uint32_t>(); }
    else if (bits == 16) { if (which == "s") type_blocks<int16_t>(); else type_blocks<uint16_t>(); }
    else { if (which == "s") type_blocks<int8_t>(); else type_blocks<uint8_t>(); }
  }
  std::cout << "E " << n_eval << "\n";
  return 0;
}
