// C20 -- support code of the generated drivers (tools/gen_cif.py) for the regenerated C interface.
// Untrusted glue.  The driver calls an entry point of the C interface and, on an independent twin copy,
// the C++ operation it wraps; it prints one line per case, judged by tools/props/C20.py with the
// Coq model (run_entry / documented_code evaluated by vm_compute).
#ifndef CIF_SUPPORT_HH
#define CIF_SUPPORT_HH
#include <cstdio>
#include <cstdlib>
#include <cstring>
#include <unistd.h>
#include <sys/types.h>
#include <sys/wait.h>
#include <string>
#include <sstream>
#include <vector>
#include <new>
#include <stdexcept>
#include <typeinfo>
#include <ios>
#include <type_traits>
#include <functional>
#include <memory>
#include <gmpxx.h>
#define private public          // Polyhedron::topology() (needed to clone a handle's object); layout is unaffected
#define PPL_NO_AUTOMATIC_INITIALIZATION
#include "ppl.hh"          // the shim of build/cif-*/gen: reads the headers of the tree
#include "ppl_c.h"         // the regenerated C header
#include "interfaced_boxes.hh"
#undef private

using namespace Parma_Polyhedra_Library;

// ---- allocation ledger + bad_alloc injection (global operator new replaced) ----------------------
// the driver may be split over several translation units: globals live in the primary one
#ifdef CIF_SECONDARY_TU
#define CIF_VAR(decl, init) extern decl;
#else
#define CIF_VAR(decl, init) decl init;
#endif
namespace cif {
CIF_VAR(long live, = 0)            // live blocks obtained through operator new
CIF_VAR(long countdown, = -1)      // >0: the countdown-th allocation from now throws bad_alloc
CIF_VAR(bool fired, = false)
CIF_VAR(bool in_oom, = false)        // the bad_alloc pass of run_self is running (callers free owned outputs at once)
inline void arm(long n) { countdown = n; fired = false; }
inline void disarm() { countdown = -1; }
}
#ifndef CIF_SECONDARY_TU
void* operator new(std::size_t n) {
  if (cif::countdown > 0 && --cif::countdown == 0) { cif::countdown = -1; cif::fired = true; throw std::bad_alloc(); }
  void* p = std::malloc(n ? n : 1);
  if (!p) throw std::bad_alloc();
  ++cif::live;
  return p;
}
void* operator new[](std::size_t n) { return operator new(n); }
void operator delete(void* p) noexcept { if (p) { --cif::live; std::free(p); } }
void operator delete[](void* p) noexcept { operator delete(p); }
void operator delete(void* p, std::size_t) noexcept { operator delete(p); }
void operator delete[](void* p, std::size_t) noexcept { operator delete(p); }
#endif

namespace cif {

// ---- the registered error handler -----------------------------------------------------------------
CIF_VAR(std::vector<int> seen, )    // codes passed to the handler since the last clear
CIF_VAR(std::string kinds, )        // for time-outs, which handler ran: W = "PPL timeout expired", D = "PPL deterministic timeout expired"
#ifndef CIF_SECONDARY_TU
extern "C" void handler(enum ppl_enum_error_code c, const char* d) {
  seen.push_back((int) c);
  if (c == PPL_TIMEOUT_EXCEPTION && d != 0 && kinds.size() < 12)
    kinds.push_back(std::strstr(d, "deterministic") != 0 ? 'D' : std::strstr(d, "timeout expired") != 0 ? 'W' : '?');
}
#else
extern "C" void handler(enum ppl_enum_error_code c, const char*);
#endif
inline std::string seen_str() {
  std::ostringstream s; for (size_t i = 0; i < seen.size(); ++i) s << (i ? "," : "") << seen[i]; return s.str();
}

// ---- deterministic pseudo-random numbers -----------------------------------------------------------
CIF_VAR(unsigned long long rng_state, = 1)
inline void seed(unsigned long long s) { rng_state = s * 6364136223846793005ULL + 1442695040888963407ULL; }
inline unsigned rnd(unsigned n) {
  rng_state = rng_state * 6364136223846793005ULL + 1442695040888963407ULL;
  return (unsigned) ((rng_state >> 33) % n);
}
inline int rint(int lo, int hi) { return lo + (int) rnd((unsigned) (hi - lo + 1)); }

// ---- classification of what the mirrored C++ operation did ----------------------------------------
// names = constructors of the Coq type [cls] (CIface/Exn.v); "foreign" = no listed base
inline std::string mirror(std::function<int()> f, int& value) {
  try { value = f(); return "ret"; }
  catch (const std::bad_alloc&) { return "BadAlloc"; }
  catch (const std::invalid_argument&) { return "InvalidArgument"; }
  catch (const std::domain_error&) { return "DomainError"; }
  catch (const std::length_error&) { return "LengthError"; }
  catch (const std::out_of_range&) { return "OutOfRange"; }
  catch (const std::logic_error&) { return "LogicError"; }
  catch (const std::overflow_error&) { return "OverflowError"; }
  catch (const std::range_error&) { return "RangeError"; }
  catch (const std::underflow_error&) { return "UnderflowError"; }
  catch (const std::ios_base::failure&) { return "IosFailure"; }
  catch (const std::system_error&) { return "SystemError"; }
  catch (const std::runtime_error&) { return "RuntimeError"; }
  catch (const std::bad_cast&) { return "BadCast"; }
  catch (const std::bad_typeid&) { return "BadTypeid"; }
  catch (const std::bad_exception&) { return "BadException"; }
  catch (const std::exception&) { return "Exception"; }
  catch (const Throwable&) { return "Throwable"; }
  catch (...) { return "foreign"; }
}

inline int to_int(bool b) { return b ? 1 : 0; }
inline int to_int(int v) { return v; }
inline int to_int(unsigned v) { return (int) v; }
inline int to_int(const Poly_Con_Relation& r) { return (int) r.get_flags(); }
inline int to_int(const Poly_Gen_Relation& r) { return (int) r.get_flags(); }
template <class F> auto ret_(F f, int) -> typename std::enable_if<std::is_void<decltype(f())>::value, int>::type { f(); return 0; }
template <class F> auto ret_(F f, long) -> typename std::enable_if<!std::is_void<decltype(f())>::value, int>::type { return to_int(f()); }
#define RET(e) cif::ret_([&] { return e; }, 0)

// ---- ascii dumps through the C API (FILE*) and through C++ (ostream) -------------------------------
template <class CH> std::string cdump(int (*fn)(CH, FILE*), CH h) {
  char* buf = nullptr; size_t len = 0;
  FILE* f = open_memstream(&buf, &len);
  int r = fn(h, f);
  fclose(f);
  std::string s = (r == 0) ? std::string(buf, len) : std::string("<dump failed>");
  free(buf);
  return s;
}
template <class T> std::string xdump(const T& t) { std::ostringstream s; t.ascii_dump(s); return s.str(); }
inline std::string xdump(const Coefficient& t) { std::ostringstream s; s << t; return s.str(); }

inline std::string esc(const std::string& s) {
  std::string o; for (char c : s) o += (c == '\n' || c == '|') ? ' ' : c; return o.size() > 300 ? o.substr(0, 300) + "..." : o;
}

// ---- handle <-> object (the interface's own representation invariant: a handle IS the object address)
#define CIF_CXX(CN, T) \
  inline const T& cxx(ppl_const_##CN##_t h) { return *reinterpret_cast<const T*>(h); } \
  inline T& cxx(ppl_##CN##_t h) { return *reinterpret_cast<T*>(h); } \
  inline ppl_##CN##_t hnd(T* p) { return reinterpret_cast<ppl_##CN##_t>(p); } \
  inline ppl_const_##CN##_t chnd(const T* p) { return reinterpret_cast<ppl_const_##CN##_t>(p); }
CIF_CXX(Coefficient, Coefficient)
CIF_CXX(Linear_Expression, Linear_Expression)
CIF_CXX(Constraint, Constraint)
CIF_CXX(Constraint_System, Constraint_System)
CIF_CXX(Generator, Generator)
CIF_CXX(Generator_System, Generator_System)
CIF_CXX(Congruence, Congruence)
CIF_CXX(Congruence_System, Congruence_System)
CIF_CXX(Grid_Generator, Grid_Generator)
CIF_CXX(Grid_Generator_System, Grid_Generator_System)

inline Relation_Symbol relsym_cxx(enum ppl_enum_Constraint_Type t) {
  switch (t) {
  case PPL_CONSTRAINT_TYPE_LESS_THAN: return LESS_THAN;
  case PPL_CONSTRAINT_TYPE_LESS_OR_EQUAL: return LESS_OR_EQUAL;
  case PPL_CONSTRAINT_TYPE_EQUAL: return EQUAL;
  case PPL_CONSTRAINT_TYPE_GREATER_OR_EQUAL: return GREATER_OR_EQUAL;
  default: return GREATER_THAN;
  }
}
inline Complexity_Class cc_cxx(int c) { return c == 0 ? POLYNOMIAL_COMPLEXITY : c == 1 ? SIMPLEX_COMPLEXITY : ANY_COMPLEXITY; }

// ---- counters of objects created / deleted through the C API by the driver --------------------------
CIF_VAR(long created, = 0)
CIF_VAR(long deleted, = 0)
CIF_VAR(long cases, = 0)

// ---- argument objects built THROUGH THE C API (so the common entry points are exercised too) -------
inline void must(int r, const char* what) {
  if (r != 0) { std::printf("X|%s|setup call failed with %d\n", what, r); }
}
struct CCoef {
  ppl_Coefficient_t h;
  explicit CCoef(long v) {
    mpz_t z; mpz_init_set_si(z, v);
    must(ppl_new_Coefficient_from_mpz_t(&h, z), "ppl_new_Coefficient_from_mpz_t"); mpz_clear(z); ++created;
  }
  ~CCoef() { must(ppl_delete_Coefficient(h), "ppl_delete_Coefficient"); ++deleted; }
};
// linear expression number k in dimension dim: deterministic small coefficients
inline void le_coeffs(int k, unsigned dim, std::vector<long>& co, long& inhomo) {
  co.assign(dim, 0);
  unsigned long long s = 1469598103934665603ULL ^ (unsigned long long) (k * 7919 + (int) dim);
  for (unsigned i = 0; i < dim; ++i) { s = s * 1099511628211ULL + 12345; co[i] = (long) ((s >> 20) % 7) - 3; }
  s = s * 1099511628211ULL + 12345; inhomo = (long) ((s >> 20) % 9) - 4;
  if (dim > 0 && k % 3 == 0) { for (unsigned i = 0; i < dim; ++i) co[i] = 0; co[(unsigned) k % dim] = 1; }   // a single variable
  if (dim > 1 && k % 3 == 1) { for (unsigned i = 0; i < dim; ++i) co[i] = 0; co[(unsigned) k % dim] = 1; co[((unsigned) k + 1) % dim] = -1; } // a difference
}
struct CLE {
  ppl_Linear_Expression_t h;
  CLE(int k, unsigned dim) {
    must(ppl_new_Linear_Expression_with_dimension(&h, dim), "ppl_new_Linear_Expression_with_dimension"); ++created;
    std::vector<long> co; long in; le_coeffs(k, dim, co, in);
    for (unsigned i = 0; i < dim; ++i) if (co[i] != 0) { CCoef c(co[i]); must(ppl_Linear_Expression_add_to_coefficient(h, i, c.h), "ppl_Linear_Expression_add_to_coefficient"); }
    CCoef c(in); must(ppl_Linear_Expression_add_to_inhomogeneous(h, c.h), "ppl_Linear_Expression_add_to_inhomogeneous");
  }
  ~CLE() { must(ppl_delete_Linear_Expression(h), "ppl_delete_Linear_Expression"); ++deleted; }
};
struct CCon {     // constraint: rel 0: >=, 1: ==, 2: > (strict), 3: <=
  ppl_Constraint_t h;
  CCon(int k, unsigned dim, int rel) {
    CLE le(k, dim);
    enum ppl_enum_Constraint_Type t = rel == 0 ? PPL_CONSTRAINT_TYPE_GREATER_OR_EQUAL : rel == 1 ? PPL_CONSTRAINT_TYPE_EQUAL
                                    : rel == 2 ? PPL_CONSTRAINT_TYPE_GREATER_THAN : PPL_CONSTRAINT_TYPE_LESS_OR_EQUAL;
    must(ppl_new_Constraint(&h, le.h, t), "ppl_new_Constraint"); ++created;
  }
  ~CCon() { must(ppl_delete_Constraint(h), "ppl_delete_Constraint"); ++deleted; }
};
struct CCS {
  ppl_Constraint_System_t h;
  CCS(int k, unsigned dim, int n, int rel) {
    must(ppl_new_Constraint_System(&h), "ppl_new_Constraint_System"); ++created;
    for (int i = 0; i < n; ++i) { CCon c(k + i, dim, (rel == 2 && i > 0) ? 0 : rel); must(ppl_Constraint_System_insert_Constraint(h, c.h), "ppl_Constraint_System_insert_Constraint"); }
  }
  ~CCS() { must(ppl_delete_Constraint_System(h), "ppl_delete_Constraint_System"); ++deleted; }
};
struct CCg {
  ppl_Congruence_t h;
  CCg(int k, unsigned dim, long mod) {
    CLE le(k, dim); CCoef m(mod);
    must(ppl_new_Congruence(&h, le.h, m.h), "ppl_new_Congruence"); ++created;
  }
  ~CCg() { must(ppl_delete_Congruence(h), "ppl_delete_Congruence"); ++deleted; }
};
struct CCgS {
  ppl_Congruence_System_t h;
  CCgS(int k, unsigned dim, int n, long mod) {
    must(ppl_new_Congruence_System(&h), "ppl_new_Congruence_System"); ++created;
    for (int i = 0; i < n; ++i) { CCg c(k + i, dim, mod); must(ppl_Congruence_System_insert_Congruence(h, c.h), "ppl_Congruence_System_insert_Congruence"); }
  }
  ~CCgS() { must(ppl_delete_Congruence_System(h), "ppl_delete_Congruence_System"); ++deleted; }
};
struct CGen {     // kind 0: point (divisor 1+k%2), 1: ray, 2: line, 3: closure point
  ppl_Generator_t h;
  CGen(int k, unsigned dim, int kind) {
    CLE le(k * 3 + 2, dim); CCoef d(1 + (k % 2));
    // rays/lines need a non-zero homogeneous part: k*3+2 never gives the all-zero vector for dim >= 1
    enum ppl_enum_Generator_Type t = kind == 0 ? PPL_GENERATOR_TYPE_POINT : kind == 1 ? PPL_GENERATOR_TYPE_RAY
                                   : kind == 2 ? PPL_GENERATOR_TYPE_LINE : PPL_GENERATOR_TYPE_CLOSURE_POINT;
    int r = ppl_new_Generator(&h, le.h, t, d.h);
    if (r != 0) { must(ppl_new_Generator_zero_dim_point(&h), "ppl_new_Generator_zero_dim_point"); }
    ++created;
  }
  ~CGen() { must(ppl_delete_Generator(h), "ppl_delete_Generator"); ++deleted; }
};
struct CGS {
  ppl_Generator_System_t h;
  CGS(int k, unsigned dim, int n) {
    must(ppl_new_Generator_System(&h), "ppl_new_Generator_System"); ++created;
    for (int i = 0; i < n; ++i) { CGen g(k + i, dim, i == 0 ? 0 : (k + i) % 3); must(ppl_Generator_System_insert_Generator(h, g.h), "ppl_Generator_System_insert_Generator"); }
  }
  ~CGS() { must(ppl_delete_Generator_System(h), "ppl_delete_Generator_System"); ++deleted; }
};
struct CGG {      // grid generator: kind 0 point, 1 parameter, 2 line
  ppl_Grid_Generator_t h;
  CGG(int k, unsigned dim, int kind) {
    CLE le(k * 3 + 2, dim); CCoef d(1 + (k % 2));
    enum ppl_enum_Grid_Generator_Type t = kind == 0 ? PPL_GRID_GENERATOR_TYPE_POINT : kind == 1 ? PPL_GRID_GENERATOR_TYPE_PARAMETER : PPL_GRID_GENERATOR_TYPE_LINE;
    int r = ppl_new_Grid_Generator(&h, le.h, t, d.h);
    if (r != 0) { must(ppl_new_Grid_Generator_zero_dim_point(&h), "ppl_new_Grid_Generator_zero_dim_point"); }
    ++created;
  }
  ~CGG() { must(ppl_delete_Grid_Generator(h), "ppl_delete_Grid_Generator"); ++deleted; }
};
struct CGGS {
  ppl_Grid_Generator_System_t h;
  CGGS(int k, unsigned dim, int n) {
    must(ppl_new_Grid_Generator_System(&h), "ppl_new_Grid_Generator_System"); ++created;
    for (int i = 0; i < n; ++i) { CGG g(k + i, dim, i == 0 ? 0 : 1 + (k + i) % 2); must(ppl_Grid_Generator_System_insert_Grid_Generator(h, g.h), "ppl_Grid_Generator_System_insert_Grid_Generator"); }
  }
  ~CGGS() { must(ppl_delete_Grid_Generator_System(h), "ppl_delete_Grid_Generator_System"); ++deleted; }
};
struct DimArr {
  std::vector<ppl_dimension_type> v;
  DimArr(std::initializer_list<ppl_dimension_type> l) : v(l) {}
  ppl_dimension_type* p() { return v.data(); }
  size_t n() const { return v.size(); }
  Variables_Set vs() const { Variables_Set s; for (size_t i = v.size(); i-- > 0; ) s.insert(v[i]); return s; }
};
// partial function given by an array, as documented for map_space_dimensions (not_a_dimension = undefined)
struct PFunc {
  std::vector<dimension_type> v;
  explicit PFunc(const std::vector<ppl_dimension_type>& a) : v(a.begin(), a.end()) {}
  bool has_empty_codomain() const { for (size_t i = 0; i < v.size(); ++i) if (v[i] != not_a_dimension()) return false; return true; }
  dimension_type max_in_codomain() const {
    dimension_type m = 0; bool any = false;
    for (size_t i = 0; i < v.size(); ++i) if (v[i] != not_a_dimension() && (!any || v[i] > m)) { m = v[i]; any = true; }
    if (!any) throw std::runtime_error("empty codomain");
    return m;
  }
  bool maps(dimension_type i, dimension_type& j) const {
    if (i >= v.size() || v[i] == not_a_dimension()) return false;
    j = v[i]; return true;
  }
};

// ---- a domain object: built in C++ (recipe), owned through its C handle -----------------------------
// Dom is a tag struct emitted by gen_cif.py:
//   typedef T (C++ class of the methods), H / CH (handle types), static T* clone(const T&),
//   static T* make(int recipe), cdump/cok/cdel (the C entry points), name
template <class Dom> struct Obj {
  typename Dom::H h;
  bool owned;
  explicit Obj(int recipe) : h(Dom::hnd(Dom::make(recipe))), owned(true) { ++created; }
  explicit Obj(const typename Dom::T& proto) : h(Dom::hnd(Dom::clone(proto))), owned(true) { ++created; }
  const typename Dom::T& t() const { return Dom::cxx(h); }
  typename Dom::CH ch() const { return h; }
  std::string dump() const { return cdump<typename Dom::CH>(Dom::cdump, h); }
  ~Obj() {
    if (owned) {
      int r = Dom::cdel(h); ++deleted;
      if (r != 0) std::printf("X|%s|delete returned %d\n", Dom::name(), r);
    }
  }
};

// generic recipes: refine a universe of dimension dim by the constraint system number k
template <class T> void refine_recipe(T& t, int k, unsigned dim, int n) {
  for (int i = 0; i < n; ++i) {
    std::vector<long> co; long in; le_coeffs(k * 5 + i, dim, co, in);
    Linear_Expression e; e.set_space_dimension(dim);
    for (unsigned j = 0; j < dim; ++j) if (co[j] != 0) e += Coefficient(co[j]) * Variable(j);
    e += Coefficient(in + 6);
    t.refine_with_constraint(e >= 0);
  }
}
// grids ignore inequalities: their recipes are congruences (and one equality)
inline void refine_recipe(Grid& t, int k, unsigned dim, int n) {
  for (int i = 0; i < n; ++i) {
    std::vector<long> co; long in; le_coeffs(k * 5 + i, dim, co, in);
    Linear_Expression e; e.set_space_dimension(dim);
    for (unsigned j = 0; j < dim; ++j) if (co[j] != 0) e += Coefficient(co[j]) * Variable(j);
    e += Coefficient(in);
    if (i == 1 && k % 3 == 0) t.refine_with_constraint(e == 0);
    else t.refine_with_congruence((e %= 0) / Coefficient(2 + (k + i) % 3 * 2));
  }
}
// state modifiers of a recipe (r / 16): 1 = built from a REDUNDANT description (every constraint again, weakened and
// scaled: non-minimal, pending rows); 2 = brought to minimal form first, then one redundant constraint added (pending)
template <class T> void redundant_recipe(T& t, int k, unsigned dim, int n, bool only_one) {
  for (int i = 0; i < (only_one ? 1 : n); ++i) {
    std::vector<long> co; long in; le_coeffs(k * 5 + i, dim, co, in);
    Linear_Expression e; e.set_space_dimension(dim);
    for (unsigned j = 0; j < dim; ++j) if (co[j] != 0) e += Coefficient(co[j]) * Variable(j);
    e += Coefficient(in + 6);
    t.refine_with_constraint(e + 7 >= 0);
    if (!only_one) t.refine_with_constraint(2 * e + 3 >= 0);
  }
}
inline void redundant_recipe(Grid& t, int k, unsigned dim, int n, bool only_one) {
  for (int i = 0; i < (only_one ? 1 : n); ++i) {
    std::vector<long> co; long in; le_coeffs(k * 5 + i, dim, co, in);
    Linear_Expression e; e.set_space_dimension(dim);
    for (unsigned j = 0; j < dim; ++j) if (co[j] != 0) e += Coefficient(co[j]) * Variable(j);
    e += Coefficient(in);
    if (!(i == 1 && k % 3 == 0)) t.refine_with_congruence((e %= 0) / Coefficient(1 + (k + i) % 3));   // implied: modulus divides
    if (!only_one) t.refine_with_congruence((2 * e %= 0) / Coefficient(2));
  }
}
// modifier 3: bounds at half-integers in every variable (1/2 <= x_j <= (5 + 2j)/2)
template <class T> void fractional_recipe(T& t, unsigned dim) {
  for (unsigned j = 0; j < dim; ++j) {
    t.refine_with_constraint(2 * Variable(j) >= 1);
    t.refine_with_constraint(2 * Variable(j) <= Coefficient(5 + 2 * (int) j));
  }
}
template <class T> void apply_modifier(T& t, int r, int k, unsigned dim, int n) {
  int mod = r / 16;
  if (mod == 3) { fractional_recipe(t, dim); return; }
  if (mod == 1) redundant_recipe(t, k, dim, n, false);
  else if (mod == 2) { (void) t.is_empty(); (void) t.is_bounded(); redundant_recipe(t, k, dim, n, true); }
}
// recipe -> (dimension, emptiness, number of constraints)
inline unsigned recipe_dim(int r) { return (r % 8 == 5) ? 3u : (r % 8 == 6) ? 0u : 2u; }

// ---- one case ---------------------------------------------------------------------------------------
// line format:  T|entry|variant|mirror|mirror_value|c_ret|handler_codes|dump_eq|const_ok|usable|extra_ok|leak|note
struct Watch {      // const inputs whose dump must not change
  std::vector<std::function<std::string()> > f; std::vector<std::string> before;
  template <class CH> void add(int (*fn)(CH, FILE*), CH h) { f.push_back([=] { return cdump<CH>(fn, h); }); }
  // semantic variant for domain objects: "same" iff equal to a copy taken now
  template <class T> void add_sem(const T* obj, T* copy) {
    std::shared_ptr<T> c(copy);
    f.push_back([=] { return std::string(*obj == *c ? "same" : "changed"); });
  }
  void snap() { before.clear(); for (auto& g : f) before.push_back(g()); }
  bool same() { for (size_t i = 0; i < f.size(); ++i) if (f[i]() != before[i]) return false; return true; }
};

CIF_VAR(bool quiet, = false)     // warm-up pass: run, do not report
inline void emit(const char* kind, const char* entry, const std::string& variant, const std::string& m, int mv, int r,
                 int dump_eq, int const_ok, int usable, int extra_ok, long leak, const std::string& note) {
  if (quiet) return;
  std::printf("%s|%s|%s|%s|%d|%d|%s|%d|%d|%d|%d|%ld|%s\n", kind, entry, variant.c_str(), m.c_str(), mv, r, seen_str().c_str(),
              dump_eq, const_ok, usable, extra_ok, leak, esc(note).c_str());
  ++cases;
}

inline int forked_ok(std::function<int()> f) {
  std::fflush(stdout);
  pid_t pid = fork();
  if (pid == 0) { int r = 0; try { r = f(); } catch (...) { r = 0; } _exit(r > 0 ? 0 : 1); }
  if (pid < 0) return f();
  int st = 0; waitpid(pid, &st, 0);
  return (WIFEXITED(st) && WEXITSTATUS(st) == 0) ? 1 : 0;
}

// a call that is known (from the facts) to be undefined behaviour in-process is only PROBED, in a forked child:
// line  U|entry|variant|ret:<code>|<handler codes>   or   U|entry|variant|signal:<n>|
inline void forked_call(const char* entry, const std::string& variant, std::function<int()> f) {
  std::fflush(stdout);
  pid_t pid = fork();
  if (pid == 0) {
    seen.clear();
    int r = 0; const char* how = "ret";
    try { r = f(); } catch (...) { how = "escaped"; }
    std::printf("U|%s|%s|%s:%d|%s\n", entry, variant.c_str(), how, r, seen_str().c_str());
    std::fflush(stdout);
    _exit(0);
  }
  if (pid < 0) return;
  int st = 0; waitpid(pid, &st, 0);
  if (!(WIFEXITED(st) && WEXITSTATUS(st) == 0))
    std::printf("U|%s|%s|signal:%d|\n", entry, variant.c_str(), WIFSIGNALED(st) ? WTERMSIG(st) : -1);
  ++cases;
}

// self-object case: `ccall(h)` calls the entry point on the handle, `mir(twin)` the C++ operation.
// mutates: whether the handle type of self is non-const.  extra: additional output comparison (after both ran).
template <class Dom>
void run_self_once(const char* entry, const std::string& variant, const typename Dom::T& proto, bool mutates,
              std::function<int(typename Dom::H)> ccall, std::function<int(typename Dom::T&)> mir,
              Watch* w = nullptr, std::function<bool()> extra = nullptr, bool oom = true) {
  typedef typename Dom::T T;
  // (3) bad_alloc at the first allocation made inside the entry point, on a scratch copy
  if (oom) {
    long base = live;
    {
      Obj<Dom> s(proto);
      std::string before = s.dump();
      seen.clear();
      in_oom = true;
      arm(1);
      int r = ccall(s.h);
      disarm();
      in_oom = false;
      bool f = fired;
      // after an injected failure the C++ object may be inconsistent (exception safety of the wrapped operation is not
      // claimed by C20): its invariant check is run in a forked child, so that a crash inside OK() is just "not OK"
      int ok = f ? forked_ok([&] { return Dom::cok(s.h); }) : Dom::cok(s.h);
      int usable = 0, cst = 1;
      if (ok > 0) {
        std::string after = s.dump();
        usable = (after != "<dump failed>") ? 1 : 0;
        std::unique_ptr<T> ref(Dom::clone(proto));
        cst = !mutates ? (s.t() == *ref) : 1;
      }
      // model outcome: BadAlloc thrown iff an allocation was attempted
      emit("O", entry, variant, f ? "BadAlloc" : "noalloc", 0, r, -1, cst, usable, 1, 0, "");
    }
    if (live != base) if (!quiet) std::printf("L|%s|%s|oom pass leaked %ld blocks\n", entry, variant.c_str(), live - base);
  }
  long base = live;
  std::string note;
  int dump_eq, const_ok, usable, extra_ok = 1, r, mv = 0;
  std::string m;
  {
    Obj<Dom> s(proto);
    T* twin = Dom::clone(proto);
    // private reference copy: comparing against the caller's `proto` would minimize IT lazily, and its growth
    // (it outlives this block) would be counted by the block ledger
    std::unique_ptr<T> ref(Dom::clone(proto));
    if (w) w->snap();
    m = mirror([&] { return mir(*twin); }, mv);
    seen.clear();
    r = ccall(s.h);
    std::vector<int> keep = seen;
    // outputs are compared FIRST: the comparisons below (==, OK) may lazily re-minimize the object and with it a
    // constraint system the entry has just returned a handle to
    if (extra && m == "ret" && r >= 0) extra_ok = extra() ? 1 : 0;
    std::string after = s.dump();
    std::string tw = xdump(*twin);
    // EXACT contents (same rows, same order, same flags): handle and twin went through the same operation from equal
    // states; only empty objects may differ (unspecified bounds of an empty box)
    dump_eq = (after == tw || (s.t().is_empty() && twin->is_empty())) ? 1 : 0;
    if (!dump_eq) note = "handle: " + after.substr(0, 120) + " // twin: " + tw.substr(0, 120);
    // const handle: the VALUE must be unchanged (the representation may legitimately be minimized lazily)
    const_ok = ((mutates || s.t() == *ref) && (!w || w->same())) ? 1 : 0;
    int ok = Dom::cok(s.h);
    usable = (ok == (twin->OK() ? 1 : 0)) ? 1 : 0;
    seen = keep;
    delete twin;
    // s deleted through the C API here
    long c0 = created, d0 = deleted; (void) c0; (void) d0;
    emit("T", entry, variant, m, mv, r, dump_eq, const_ok, usable, extra_ok, 0, note);
    std::string().swap(note);      // declared outside the ledger block: must not count as a leaked block
  }
  if (live != base) if (!quiet) std::printf("L|%s|%s|case leaked %ld blocks\n", entry, variant.c_str(), live - base);
}

// constructor case: `ccall(&h)` creates a handle, `mk()` the twin; the new object is deleted through `del`
template <class Dom>
void run_new_once(const char* entry, const std::string& variant, std::function<int(typename Dom::H*)> ccall,
                  std::function<typename Dom::T*()> mk, Watch* w = nullptr, bool oom = true) {
  typedef typename Dom::T T;
  if (oom) {
    long base = live;
    typename Dom::H h = 0;
    seen.clear();
    arm(1);
    int r = ccall(&h);
    disarm();
    bool f = fired;
    if (r == 0 && h != 0) { Dom::cdel(h); }
    emit("O", entry, variant, f ? "BadAlloc" : "noalloc", 0, r, -1, 1, 1, 1, live - base, "");
  }
  long base = live;
  {
    if (w) w->snap();
    T* twin = nullptr; int mv = 0;
    std::string m = mirror([&] { twin = mk(); return 0; }, mv);
    typename Dom::H h = 0;
    seen.clear();
    int r = ccall(&h);
    std::vector<int> keep = seen;
    int dump_eq = 1, usable = 1; std::string note;
    if (r == 0 && h != 0 && twin) {
      std::string a = cdump<typename Dom::CH>(Dom::cdump, h), b = xdump(*twin);
      // empty boxes carry unspecified interval bounds in their dump: equal VALUE is what is required
      dump_eq = (a == b) || (Dom::cxx((typename Dom::CH) h) == *twin); if (!dump_eq) note = "handle: " + a.substr(0, 120) + " // twin: " + b.substr(0, 120);
      usable = Dom::cok(h) > 0;
      ++created; int d = Dom::cdel(h); ++deleted; if (d != 0) usable = 0;
    }
    else if (r == 0 && m == "ret") { dump_eq = 0; note = "no handle returned"; }
    delete twin;
    seen = keep;
    emit("T", entry, variant, m, mv, r, dump_eq, (!w || w->same()) ? 1 : 0, usable, 1, 0, note);
  }
  if (live != base) if (!quiet) std::printf("L|%s|%s|constructor case leaked %ld blocks\n", entry, variant.c_str(), live - base);
}

// plain case (no self object): the caller does everything and reports through this
inline void run_plain_once(const char* entry, const std::string& variant, std::function<int()> ccall, std::function<int()> mir,
                           std::function<bool()> extra = nullptr, bool oom = false) {
  long base = live;
  {
    if (oom) {
      seen.clear(); arm(1); int r = ccall(); disarm();
      emit("O", entry, variant, fired ? "BadAlloc" : "noalloc", 0, r, -1, 1, 1, 1, 0, "");
    }
    int mv = 0;
    std::string m = mirror(mir, mv);
    seen.clear();
    int r = ccall();
    std::vector<int> keep = seen;
    int extra_ok = 1;
    if (extra && m == "ret" && r >= 0) extra_ok = extra() ? 1 : 0;
    seen = keep;
    emit("T", entry, variant, m, mv, r, -1, 1, 1, extra_ok, 0, "");
  }
  if (live != base) if (!quiet) std::printf("L|%s|%s|case leaked %ld blocks\n", entry, variant.c_str(), live - base);
}

// every case is executed twice: the first (silent) pass warms the library's internal free lists
// (Temp_Item pools, static caches), so that the block ledger of the second pass is exact
template <class Dom>
void run_self(const char* entry, const std::string& variant, const typename Dom::T& proto, bool mutates,
              std::function<int(typename Dom::H)> ccall, std::function<int(typename Dom::T&)> mir,
              Watch* w = nullptr, std::function<bool()> extra = nullptr, bool oom = true) {
  quiet = true; run_self_once<Dom>(entry, variant, proto, mutates, ccall, mir, w, extra, oom);
  quiet = false; run_self_once<Dom>(entry, variant, proto, mutates, ccall, mir, w, extra, oom);
}
template <class Dom>
void run_new(const char* entry, const std::string& variant, std::function<int(typename Dom::H*)> ccall,
             std::function<typename Dom::T*()> mk, Watch* w = nullptr, bool oom = true) {
  quiet = true; run_new_once<Dom>(entry, variant, ccall, mk, w, oom);
  quiet = false; run_new_once<Dom>(entry, variant, ccall, mk, w, oom);
}
inline void run_plain(const char* entry, const std::string& variant, std::function<int()> ccall, std::function<int()> mir,
                      std::function<bool()> extra = nullptr, bool oom = false) {
  quiet = true; run_plain_once(entry, variant, ccall, mir, extra, oom);
  quiet = false; run_plain_once(entry, variant, ccall, mir, extra, oom);
}

} // namespace cif
#endif
