// C08 (second harness): grids, certificates in every reachable lazy state, and the certificate-based BHZ03 lifting
// to Pointset_Powerset<Grid> / Pointset_Powerset<C_Polyhedron>.
// usage: run_pswiden <scriptfile>
//
// Elements (D = G grid | P closed polyhedron):
//   new   <id> <D> <dim> cgs K c.. | ggens K g.. | cons K c.. | gens K g..
//   mk    <id> <route> <src> <seed>      same SET, another lazy state / construction route
//   join  <id> <a> <b>
//   widen <W> <id> <x> <y> <t>           grids: congruence | generator | default ; polyhedra: H79 | BHRZ03
//   lim   <W> <id> <x> <y> <t> cgs K c..   (grids only: limited_<W>_extrapolation_assign)
//   cert  <id>                           the library's certificate of a clone IN ITS LAZY STATE + minimized systems of a
//                                        FRESH object rebuilt from the clone's description (for the judge's recount)
//   cmp   <a> <b>                        Cert(a).compare(Cert(b)), Cert(a).compare(b), is_stabilizing
// Powersets:
//   psnew   <id> <D> <dim> <k> e1..ek    add_disjunct in this order, then omega_reduce()
//   psadd   <id> <ps> <e>                copy, add_disjunct(e), omega_reduce()
//   psmk    <id> <ps> <seed>             every disjunct rebuilt through a seeded route (same order)
//   pswiden <C> <W> <id> <x> <y>         id := x; id.BHZ03_widening_assign<C>(copy of y, widen_fun_ref(W))
// Every command answers `res <cmd> ok|exn <class>` first.
#define VH_PRIVATE_ACCESS
#include "vh_common.hh"
#include "Grid_defs.hh"
#include "Grid_Certificate_defs.hh"
#include "C_Polyhedron_defs.hh"
#include "Pointset_Powerset_defs.hh"
#include "Widening_Function_defs.hh"
#include <algorithm>
using namespace Parma_Polyhedra_Library;
using namespace vh;

struct Rng { unsigned long s; Rng(unsigned long x) : s(x * 2654435761UL + 12345) {}
  unsigned next() { s = s * 6364136223846793005UL + 1442695040888963407UL; return (unsigned) (s >> 33); }
  unsigned below(unsigned n) { return n ? next() % n : 0; } };

// ---- grid generators in the text format  p d a.. | q d a.. | l 1 a..
static Grid_Generator read_ggen(Toks& tk, unsigned dim) {
  std::string k = tk.next(); mpz_class d = tk.nextz();
  Linear_Expression e; if (dim > 0) e.set_space_dimension(dim);
  for (unsigned i = 0; i < dim; ++i) { mpz_class a = tk.nextz(); if (a != 0) e += a * Variable(i); }
  if (k == "p") return grid_point(e, d); if (k == "q") return parameter(e, d); if (k == "l") return grid_line(e);
  throw std::runtime_error("case: bad grid generator kind " + k);
}
static Grid_Generator_System read_ggens(Toks& tk, unsigned dim) {
  long k = tk.nextl(); Grid_Generator_System gs(dim);
  for (long i = 0; i < k; ++i) gs.insert(read_ggen(tk, dim));
  return gs;
}
static void print_ggens(std::ostream& o, const Grid_Generator_System& gs, unsigned dim) {
  unsigned k = 0; for (Grid_Generator_System::const_iterator i = gs.begin(); i != gs.end(); ++i) ++k;
  o << "ggens " << k;
  for (Grid_Generator_System::const_iterator i = gs.begin(); i != gs.end(); ++i) {
    const Grid_Generator& g = *i;
    o << " " << (g.is_line() ? "l" : g.is_parameter() ? "q" : "p") << " ";
    if (g.is_line()) o << 1; else o << g.divisor();
    for (unsigned j = 0; j < dim; ++j) o << " " << (j < g.space_dimension() ? g.coefficient(Variable(j)) : Coefficient(0));
  }
}

// ---- elements
struct Elem {
  Grid* g; C_Polyhedron* p;
  Elem() : g(0), p(0) {}
  explicit Elem(const Grid& x) : g(new Grid(x)), p(0) {}
  explicit Elem(const C_Polyhedron& x) : g(0), p(new C_Polyhedron(x)) {}
  Elem(const Elem& e) : g(e.g ? new Grid(*e.g) : 0), p(e.p ? new C_Polyhedron(*e.p) : 0) {}
  Elem& operator=(const Elem& e) { if (this != &e) { delete g; delete p; g = e.g ? new Grid(*e.g) : 0; p = e.p ? new C_Polyhedron(*e.p) : 0; } return *this; }
  ~Elem() { delete g; delete p; }
  unsigned dim() const { return g ? g->space_dimension() : p->space_dimension(); }
};
static std::map<int, Elem> pool;
static Elem& get(int id) { std::map<int, Elem>::iterator i = pool.find(id); if (i == pool.end()) throw std::runtime_error("case: unknown element"); return i->second; }

template <typename S> static std::string flags_of(const S& st) {
  std::ostringstream os; st.ascii_dump(os); std::string s = os.str();
  for (size_t i = 0; i < s.size(); ++i) if (s[i] == ' ' || s[i] == '\n') s[i] = '_';
  return s;
}
// state read from COPIES (the lazy state of the object is not moved)
static void print_grid(const char* tag, int id, const Grid& orig) {
  unsigned d = orig.space_dimension();
  std::cout << tag << " " << id << " G " << d << " " << flags_of(orig.status) << " ";
  { Grid c(orig); print_cgs(std::cout, c.congruences(), d); } std::cout << " ";
  { Grid c(orig); print_ggens(std::cout, c.grid_generators(), d); }
  std::cout << " ok " << (orig.OK() ? 1 : 0) << "\n";
}
static void print_poly(const char* tag, int id, const C_Polyhedron& orig) {
  unsigned d = orig.space_dimension();
  std::cout << tag << " " << id << " P " << d << " " << flags_of(orig.status) << " ";
  { C_Polyhedron c(orig); print_cons(std::cout, c.constraints(), d); } std::cout << " ";
  { C_Polyhedron c(orig); print_gens(std::cout, c.generators(), d); }
  std::cout << " ok " << (orig.OK() ? 1 : 0);
  C_Polyhedron c3(orig); unsigned nl = 0;
  if (!c3.is_empty()) { const Generator_System& mg = c3.minimized_generators(); for (Generator_System::const_iterator i = mg.begin(); i != mg.end(); ++i) if (i->is_line()) ++nl; }
  std::cout << " lin " << nl << "\n";
}
static void print_elem(const char* tag, int id, const Elem& e) { if (e.g) print_grid(tag, id, *e.g); else print_poly(tag, id, *e.p); }

// certificate of a clone in its lazy state, and the minimized description of a fresh object
static void print_cert(const char* tag, int id, const Elem& e) {
  unsigned d = e.dim();
  if (e.g) {
    { Grid t(*e.g); if (t.is_empty()) { std::cout << tag << " " << id << " empty\n"; return; } }
    Grid c(*e.g);                              // the copy constructor keeps the status flags
    std::string fl = flags_of(c.status);
    Grid_Certificate gc(c);
    std::cout << tag << " " << id << " g " << gc.num_equalities << " " << gc.num_proper_congruences << " flags " << fl << " min ";
    Grid t(*e.g); Congruence_System cs = t.congruences();
    Grid fresh(d); fresh.add_congruences(cs);
    print_cgs(std::cout, fresh.minimized_congruences(), d); std::cout << "\n";
  } else {
    { C_Polyhedron t(*e.p); if (t.is_empty()) { std::cout << tag << " " << id << " empty\n"; return; } }
    C_Polyhedron c1(*e.p), c2(*e.p);
    std::string fl = flags_of(c1.status);
    BHRZ03_Certificate b(c1); H79_Certificate h(c2);
    std::cout << tag << " " << id << " b " << b.affine_dim << " " << b.lin_space_dim << " " << b.num_constraints << " " << b.num_points << " " << b.num_rays_null_coord.size();
    for (size_t i = 0; i < b.num_rays_null_coord.size(); ++i) std::cout << " " << b.num_rays_null_coord[i];
    std::cout << " ok " << (b.OK() ? 1 : 0) << " h " << h.affine_dim << " " << h.num_constraints << " flags " << fl << " min ";
    C_Polyhedron t(*e.p); Constraint_System cs = t.constraints(); if (d > 0) cs.set_space_dimension(d);
    C_Polyhedron fresh(cs);
    print_cons(std::cout, fresh.minimized_constraints(), d); std::cout << " ";
    print_gens(std::cout, fresh.minimized_generators(), d); std::cout << "\n";
  }
}

// ---- routes: the same set in another lazy state
static const char* GRID_ROUTES[] = { "copy", "cgs", "mcgs", "ggens", "mggens", "both", "aff", "aff_mg", "aff_mc", "addc", "addg", "gq", "cq" };
static const char* POLY_ROUTES[] = { "copy", "cons", "mcons", "gens", "mgens", "both", "aff", "aff_mg", "aff_mc", "pendc", "pendg", "gq", "cq" };
static Grid route_grid(const std::string& r, const Grid& src, unsigned long seed) {
  Rng rng(seed); unsigned d = src.space_dimension();
  Grid s(src);
  if (r == "copy") return Grid(src);
  if (s.is_empty()) { if (r == "cgs" || r == "mcgs") { Grid t(d); t.add_congruences(s.congruences()); return t; } return Grid(d, EMPTY); }
  if (r == "cgs") { Grid t(d); t.add_congruences(s.congruences()); return t; }
  if (r == "mcgs") { Grid t(d); t.add_congruences(s.minimized_congruences()); return t; }
  if (r == "ggens") { Grid_Generator_System gs = s.grid_generators(); gs.set_space_dimension(d); return Grid(gs); }
  if (r == "mggens") { Grid_Generator_System gs = s.minimized_grid_generators(); gs.set_space_dimension(d); return Grid(gs); }
  Grid t(src);
  (void) t.minimized_congruences(); (void) t.minimized_grid_generators();          // both up to date and minimized
  if (r == "both") return t;
  if (r == "gq") { Grid u(src); (void) u.minimized_grid_generators(); return u; }  // whatever a generator query leaves
  if (r == "cq") { Grid u(src); (void) u.minimized_congruences(); return u; }
  if (r == "aff" || r == "aff_mg" || r == "aff_mc") {
    if (d == 0) return t;
    Variable v(rng.below(d));
    t.affine_image(v, Linear_Expression(v));                    // invertible: keeps both descriptions, un-minimizes them
    if (r == "aff_mg") (void) t.minimized_grid_generators();
    if (r == "aff_mc") (void) t.minimized_congruences();
    return t;
  }
  if (r == "addc") {     // a redundant congruence on top of the minimized form
    const Congruence_System& cs = t.minimized_congruences();
    std::vector<Congruence> v; for (Congruence_System::const_iterator i = cs.begin(); i != cs.end(); ++i) v.push_back(*i);
    if (!v.empty()) { Congruence c = v[rng.below(v.size())];
      if (c.is_proper_congruence()) { Linear_Expression e(c.expression()); Congruence w((e %= 0) / c.modulus()); t.add_congruence(w); }
      else { Linear_Expression e(c.expression()); t.add_congruence((e %= 0) / (2 + rng.below(3))); } }
    return t;
  }
  if (r == "addg") {     // a redundant point on top of the minimized form
    const Grid_Generator_System& gs = t.minimized_grid_generators();
    std::vector<Grid_Generator> pts, qs;
    for (Grid_Generator_System::const_iterator i = gs.begin(); i != gs.end(); ++i) { if (i->is_point()) pts.push_back(*i); else if (i->is_parameter()) qs.push_back(*i); }
    if (!pts.empty() && !qs.empty()) {
      const Grid_Generator& p = pts[0]; const Grid_Generator& q = qs[rng.below(qs.size())];
      // both rows of a minimized system share the divisor
      Linear_Expression e(p.expression()); Linear_Expression f(q.expression());
      t.add_grid_generator(grid_point(e + (1 + rng.below(3)) * f, p.divisor()));
    } else if (!pts.empty()) t.add_grid_generator(pts[0]);
    return t;
  }
  throw std::runtime_error("case: unknown grid route " + r);
}
static C_Polyhedron route_poly(const std::string& r, const C_Polyhedron& src, unsigned long seed) {
  Rng rng(seed); unsigned d = src.space_dimension();
  C_Polyhedron s(src);
  if (r == "copy") return C_Polyhedron(src);
  if (s.is_empty()) return C_Polyhedron(d, EMPTY);
  if (r == "cons") { Constraint_System cs = s.constraints(); if (d > 0) cs.set_space_dimension(d); return C_Polyhedron(cs); }
  if (r == "mcons") { Constraint_System cs = s.minimized_constraints(); if (d > 0) cs.set_space_dimension(d); return C_Polyhedron(cs); }
  if (r == "gens") { Generator_System gs = s.generators(); if (d > 0) gs.set_space_dimension(d); return C_Polyhedron(gs); }
  if (r == "mgens") { Generator_System gs = s.minimized_generators(); if (d > 0) gs.set_space_dimension(d); return C_Polyhedron(gs); }
  C_Polyhedron t(src);
  (void) t.minimized_constraints(); (void) t.minimized_generators();
  if (r == "both") return t;
  if (r == "gq") { C_Polyhedron u(src); (void) u.minimized_generators(); return u; }
  if (r == "cq") { C_Polyhedron u(src); (void) u.minimized_constraints(); return u; }
  if (r == "aff" || r == "aff_mg" || r == "aff_mc") {
    if (d == 0) return t;
    Variable v(rng.below(d));
    t.affine_image(v, Linear_Expression(v));
    if (r == "aff_mg") (void) t.minimized_generators();
    if (r == "aff_mc") (void) t.minimized_constraints();
    return t;
  }
  if (r == "pendc") {
    const Constraint_System& cs = t.minimized_constraints();
    std::vector<Constraint> v; for (Constraint_System::const_iterator i = cs.begin(); i != cs.end(); ++i) if (i->is_inequality()) v.push_back(*i);
    if (!v.empty()) { Linear_Expression e(v[rng.below(v.size())].expression()); e += (1 + rng.below(3)); t.add_constraint(e >= 0); }
    return t;
  }
  if (r == "pendg") {
    const Generator_System& gs = t.minimized_generators();
    for (Generator_System::const_iterator i = gs.begin(); i != gs.end(); ++i) if (i->is_point()) { t.add_generator(*i); break; }
    return t;
  }
  throw std::runtime_error("case: unknown polyhedron route " + r);
}
static Elem route_elem(const std::string& r, const Elem& e, unsigned long seed) {
  if (e.g) return Elem(route_grid(r, *e.g, seed));
  return Elem(route_poly(r, *e.p, seed));
}
static Elem random_route(const Elem& e, Rng& rng) {
  unsigned long seed = rng.next();
  if (e.g) return Elem(route_grid(GRID_ROUTES[rng.below(sizeof(GRID_ROUTES) / sizeof(char*))], *e.g, seed));
  return Elem(route_poly(POLY_ROUTES[rng.below(sizeof(POLY_ROUTES) / sizeof(char*))], *e.p, seed));
}


// ---- the EMPTY set in every emptiness state:  newe <id> <D> <dim> <state> <seed>
//   marked | addc (inconsistent rows through add_*, never queried) | refine | cons (constructor from the inconsistent
//   system) | meet (intersection of two disjoint non-empty objects) | queried (addc, then is_empty()) |
//   minq (addc, then minimized_*()) | pend (polyhedra: minimized non-empty object, inconsistent constraint pending)
static Grid empty_grid(unsigned dim, const std::string& st, unsigned long seed) {
  Rng rng(seed);
  if (st == "marked" || dim == 0) return Grid(dim, EMPTY);
  unsigned v = rng.below(dim);
  std::vector<Congruence> ord, bad;
  for (unsigned i = 0; i < dim; ++i) { if (i == v || rng.below(3) == 0) continue;
    long m = 2 + (long) rng.below(4), b = (long) rng.below(4);
    if (rng.below(3) == 0) ord.push_back(Congruence(Variable(i) == b)); else ord.push_back((Variable(i) - b %= 0) / m); }
  long a = (long) rng.below(5) - 1; unsigned k = rng.below(3);
  if (k == 0) { bad.push_back(Congruence(Variable(v) == a)); bad.push_back(Congruence(Variable(v) == a + 1)); }
  else if (k == 1) { bad.push_back((Variable(v) - a %= 0) / 2); bad.push_back((Variable(v) - a - 1 %= 0) / 2); }
  else { bad.push_back((Variable(v) %= 0) / 3); bad.push_back(Congruence(Variable(v) == 3 * a + 1)); }
  if (st == "cons") { Congruence_System cs(dim); for (size_t i = 0; i < ord.size(); ++i) cs.insert(ord[i]); for (size_t i = 0; i < bad.size(); ++i) cs.insert(bad[i]); return Grid(cs); }
  if (st == "meet") { Grid p(dim), q(dim); for (size_t i = 0; i < ord.size(); ++i) { p.add_congruence(ord[i]); q.add_congruence(ord[i]); }
    p.add_congruence(bad[0]); q.add_congruence(bad[1]); p.intersection_assign(q); return p; }
  Grid p(dim);
  if (st == "refine") { for (size_t i = 0; i < ord.size(); ++i) p.refine_with_congruence(ord[i]); for (size_t i = 0; i < bad.size(); ++i) p.refine_with_congruence(bad[i]); return p; }
  if (st == "pend") { for (size_t i = 0; i < ord.size(); ++i) p.add_congruence(ord[i]); p.add_congruence(bad[0]); (void) p.minimized_grid_generators(); p.add_congruence(bad[1]); return p; }
  for (size_t i = 0; i < ord.size(); ++i) p.add_congruence(ord[i]); for (size_t i = 0; i < bad.size(); ++i) p.add_congruence(bad[i]);
  if (st == "addc") return p;
  if (st == "queried") { (void) p.is_empty(); return p; }
  if (st == "minq") { (void) p.minimized_congruences(); return p; }
  throw std::runtime_error("case: unknown emptiness state " + st);
}
static C_Polyhedron empty_cpoly(unsigned dim, const std::string& st, unsigned long seed) {
  Rng rng(seed);
  if (st == "marked" || dim == 0) return C_Polyhedron(dim, EMPTY);
  unsigned v = rng.below(dim);
  std::vector<Constraint> ord, bad;
  for (unsigned i = 0; i < dim; ++i) { if (i == v || rng.below(3) == 0) continue;
    long lo = (long) rng.below(6) - 3, hi = lo + (long) rng.below(5); ord.push_back(Variable(i) >= lo); if (rng.below(4)) ord.push_back(Variable(i) <= hi); }
  long a = (long) rng.below(7) - 2;
  if (rng.below(3) == 0) { bad.push_back(Variable(v) == a); bad.push_back(Variable(v) == a + 1); }
  else { bad.push_back(Variable(v) >= a + 1 + (long) rng.below(3)); bad.push_back(Variable(v) <= a); }
  if (st == "cons") { Constraint_System cs; cs.set_space_dimension(dim); for (size_t i = 0; i < ord.size(); ++i) cs.insert(ord[i]); for (size_t i = 0; i < bad.size(); ++i) cs.insert(bad[i]); return C_Polyhedron(cs); }
  if (st == "meet") { C_Polyhedron p(dim), q(dim); for (size_t i = 0; i < ord.size(); ++i) { p.add_constraint(ord[i]); q.add_constraint(ord[i]); }
    p.add_constraint(bad[0]); q.add_constraint(bad[1]); p.intersection_assign(q); return p; }
  C_Polyhedron p(dim);
  if (st == "refine") { for (size_t i = 0; i < ord.size(); ++i) p.refine_with_constraint(ord[i]); for (size_t i = 0; i < bad.size(); ++i) p.refine_with_constraint(bad[i]); return p; }
  if (st == "pend") { for (size_t i = 0; i < ord.size(); ++i) p.add_constraint(ord[i]); p.add_constraint(bad[0]); (void) p.minimized_generators(); p.add_constraint(bad[1]); return p; }
  for (size_t i = 0; i < ord.size(); ++i) p.add_constraint(ord[i]); for (size_t i = 0; i < bad.size(); ++i) p.add_constraint(bad[i]);
  if (st == "addc") return p;
  if (st == "queried") { (void) p.is_empty(); return p; }
  if (st == "minq") { (void) p.minimized_constraints(); return p; }
  throw std::runtime_error("case: unknown emptiness state " + st);
}

// ---- powersets
typedef Pointset_Powerset<Grid> GPS;
typedef Pointset_Powerset<C_Polyhedron> PPS;
struct PS { GPS* g; PPS* p;
  PS() : g(0), p(0) {}
  PS(const PS& o) : g(o.g ? new GPS(*o.g) : 0), p(o.p ? new PPS(*o.p) : 0) {}
  PS& operator=(const PS& o) { if (this != &o) { delete g; delete p; g = o.g ? new GPS(*o.g) : 0; p = o.p ? new PPS(*o.p) : 0; } return *this; }
  ~PS() { delete g; delete p; } };
static std::map<int, PS> pspool;
static PS& psget(int id) { std::map<int, PS>::iterator i = pspool.find(id); if (i == pspool.end()) throw std::runtime_error("case: unknown powerset"); return i->second; }

template <typename PSET, typename E> static void print_ps_t(const char* tag, int id, const char* D, const PSET& ps) {
  unsigned k = 0; for (typename PSET::const_iterator i = ps.begin(); i != ps.end(); ++i) ++k;
  std::cout << tag << " " << id << " " << D << " " << ps.space_dimension() << " " << k << "\n";
  E hull(ps.space_dimension(), EMPTY);
  for (typename PSET::const_iterator i = ps.begin(); i != ps.end(); ++i) {
    Elem e(i->pointset());
    print_elem("dst", id, e);          // the disjunct, read from copies
    print_cert("dcert", id, e);        // the library's certificate in the disjunct's lazy state + fresh minimized systems
    E c(i->pointset()); hull.upper_bound_assign(c);
  }
  Elem h(hull);
  print_elem("hst", id, h); print_cert("hcert", id, h);
}
static void print_ps(const char* tag, int id, const PS& ps) {
  if (ps.g) print_ps_t<GPS, Grid>(tag, id, "G", *ps.g); else print_ps_t<PPS, C_Polyhedron>(tag, id, "P", *ps.p);
}

int main(int argc, char** argv) {
  if (argc < 2) { std::cerr << "usage: run_pswiden script\n"; return 2; }
  std::ifstream in(argv[1]); std::string line;
  while (std::getline(in, line)) {
    Toks tk(line); if (!tk.more()) continue;
    std::string cmd = tk.next();
    if (cmd[0] == '#') continue;
    try {
      if (cmd == "case") { pool.clear(); pspool.clear(); std::cout << "case " << tk.next() << "\n"; }
      else if (cmd == "end") std::cout << "end\n";
      else {
        try {
          if (cmd == "new") {
            int id = tk.nextl(); std::string D = tk.next(); unsigned dim = tk.nextl(); std::string how = tk.next();
            if (D == "G") {
              if (how == "cgs") { Congruence_System cs = read_cgs(tk, dim); Grid g(dim); g.add_congruences(cs); pool[id] = Elem(g); }
              else if (how == "ggens") { Grid_Generator_System gs = read_ggens(tk, dim); pool[id] = Elem(Grid(gs)); }
              else throw std::runtime_error("case: bad new");
            } else {
              if (how == "cons") { Constraint_System cs = read_cons(tk, dim); pool[id] = Elem(C_Polyhedron(cs)); }
              else if (how == "gens") { Generator_System gs = read_gens(tk, dim); pool[id] = Elem(C_Polyhedron(gs)); }
              else throw std::runtime_error("case: bad new");
            }
            std::cout << "res new ok\n"; print_elem("st", id, get(id));
          }
          else if (cmd == "newe") {
            int id = tk.nextl(); std::string D = tk.next(); unsigned dim = tk.nextl(); std::string st = tk.next(); unsigned long seed = tk.nextl();
            if (D == "G") pool[id] = Elem(empty_grid(dim, st, seed)); else pool[id] = Elem(empty_cpoly(dim, st, seed));
            std::cout << "res newe ok\n"; print_elem("st", id, get(id));
          }
          else if (cmd == "mk") {
            int id = tk.nextl(); std::string route = tk.next(); int src = tk.nextl(); unsigned long seed = tk.nextl();
            Elem e = route_elem(route, get(src), seed); pool[id] = e;
            std::cout << "res mk ok\n"; print_elem("st", id, get(id));
          }
          else if (cmd == "join") {
            int id = tk.nextl(); int a = tk.nextl(); int b = tk.nextl();
            Elem e(get(a)); if (e.g) e.g->upper_bound_assign(*get(b).g); else e.p->upper_bound_assign(*get(b).p);
            pool[id] = e; std::cout << "res join ok\n"; print_elem("st", id, get(id));
          }
          else if (cmd == "widen" || cmd == "lim") {
            std::string W = tk.next(); int id = tk.nextl(); int ix = tk.nextl(); int iy = tk.nextl(); long t = tk.nextl();
            Elem x(get(ix)), y(get(iy));
            unsigned tok = t < 0 ? 0 : (unsigned) t; unsigned* tp = t < 0 ? 0 : &tok;
            if (cmd == "widen") {
              if (x.g) { if (W == "congruence") x.g->congruence_widening_assign(*y.g, tp); else if (W == "generator") x.g->generator_widening_assign(*y.g, tp);
                         else if (W == "default") x.g->widening_assign(*y.g, tp); else throw std::runtime_error("case: unknown grid widening " + W); }
              else { if (W == "H79") x.p->H79_widening_assign(*y.p, tp); else if (W == "BHRZ03") x.p->BHRZ03_widening_assign(*y.p, tp); else throw std::runtime_error("case: unknown widening " + W); }
            } else {
              if (!x.g) throw std::runtime_error("case: lim is for grids here");
              if (tk.next() != "cgs") throw std::runtime_error("case: expected cgs");
              Congruence_System cs = read_cgs(tk, x.dim());
              if (W == "congruence") x.g->limited_congruence_extrapolation_assign(*y.g, cs, tp); else if (W == "generator") x.g->limited_generator_extrapolation_assign(*y.g, cs, tp);
              else if (W == "default") x.g->limited_extrapolation_assign(*y.g, cs, tp); else throw std::runtime_error("case: unknown grid widening " + W);
            }
            pool[id] = x;
            std::cout << "res " << cmd << " ok\n" << "tok " << (t < 0 ? -1L : (long) tok) << "\n";
            print_elem("st", id, get(id)); print_elem("sty", iy, y);
          }
          else if (cmd == "cert") { int id = tk.nextl(); get(id); std::cout << "res cert ok\n"; print_cert("cert", id, get(id)); }
          else if (cmd == "cmp") {
            int ia = tk.nextl(); int ib = tk.nextl(); Elem a(get(ia)), b(get(ib)), b2(get(ib)), b3(get(ib));
            std::cout << "res cmp ok\n";
            if (a.g) { Grid_Certificate ca(*a.g), cb(*b.g);
              std::cout << "cmp " << ia << " " << ib << " G " << ca.compare(cb) << " " << ca.compare(*b2.g) << " " << (ca.is_stabilizing(*b3.g) ? 1 : 0) << " " << (Grid_Certificate::Compare()(ca, cb) ? 1 : 0) << "\n"; }
            else { BHRZ03_Certificate ca(*a.p), cb(*b.p);
              std::cout << "cmp " << ia << " " << ib << " B " << ca.compare(cb) << " " << ca.compare(*b2.p) << " " << (ca.is_stabilizing(*b3.p) ? 1 : 0) << " " << (BHRZ03_Certificate::Compare()(ca, cb) ? 1 : 0) << "\n"; }
          }
          else if (cmd == "psnew") {
            int id = tk.nextl(); std::string D = tk.next(); unsigned dim = tk.nextl(); long k = tk.nextl();
            PS ps; if (D == "G") ps.g = new GPS(dim, EMPTY); else ps.p = new PPS(dim, EMPTY);
            for (long i = 0; i < k; ++i) { Elem& e = get(tk.nextl()); if (ps.g) ps.g->add_disjunct(*e.g); else ps.p->add_disjunct(*e.p); }
            if (ps.g) ps.g->omega_reduce(); else ps.p->omega_reduce();
            pspool[id] = ps; std::cout << "res psnew ok\n"; print_ps("pst", id, psget(id));
          }
          else if (cmd == "psadd") {
            int id = tk.nextl(); int src = tk.nextl(); int ie = tk.nextl();
            PS ps(psget(src)); Elem& e = get(ie);
            if (ps.g) { ps.g->add_disjunct(*e.g); ps.g->omega_reduce(); } else { ps.p->add_disjunct(*e.p); ps.p->omega_reduce(); }
            pspool[id] = ps; std::cout << "res psadd ok\n"; print_ps("pst", id, psget(id));
          }
          else if (cmd == "psmk") {
            int id = tk.nextl(); int src = tk.nextl(); unsigned long seed = tk.nextl();
            Rng rng(seed); const PS& s = psget(src); PS ps;
            if (s.g) { ps.g = new GPS(s.g->space_dimension(), EMPTY);
              for (GPS::const_iterator i = s.g->begin(); i != s.g->end(); ++i) { Elem e(i->pointset()); Elem f = random_route(e, rng); ps.g->add_disjunct(*f.g); }
              ps.g->omega_reduce(); }
            else { ps.p = new PPS(s.p->space_dimension(), EMPTY);
              for (PPS::const_iterator i = s.p->begin(); i != s.p->end(); ++i) { Elem e(i->pointset()); Elem f = random_route(e, rng); ps.p->add_disjunct(*f.p); }
              ps.p->omega_reduce(); }
            pspool[id] = ps; std::cout << "res psmk ok\n"; print_ps("pst", id, psget(id));
          }
          else if (cmd == "pswiden") {
            std::string C = tk.next(); std::string W = tk.next(); int id = tk.nextl(); int ix = tk.nextl(); int iy = tk.nextl();
            PS x(psget(ix)), y(psget(iy));
            // documented precondition of the certificate-based widening: both arguments omega-reduced
            if (x.g) { x.g->omega_reduce(); y.g->omega_reduce(); } else { x.p->omega_reduce(); y.p->omega_reduce(); }
            if (x.g) {
              if (C != "Grid") throw std::runtime_error("case: certificate for grids is Grid");
              if (W == "default") x.g->BHZ03_widening_assign<Grid_Certificate>(*y.g, widen_fun_ref(&Grid::widening_assign));
              else if (W == "congruence") x.g->BHZ03_widening_assign<Grid_Certificate>(*y.g, widen_fun_ref(&Grid::congruence_widening_assign));
              else if (W == "generator") x.g->BHZ03_widening_assign<Grid_Certificate>(*y.g, widen_fun_ref(&Grid::generator_widening_assign));
              else throw std::runtime_error("case: unknown grid widening " + W);
            } else {
              if (C == "BHRZ03" && W == "H79") x.p->BHZ03_widening_assign<BHRZ03_Certificate>(*y.p, widen_fun_ref(&Polyhedron::H79_widening_assign));
              else if (C == "BHRZ03" && W == "BHRZ03") x.p->BHZ03_widening_assign<BHRZ03_Certificate>(*y.p, widen_fun_ref(&Polyhedron::BHRZ03_widening_assign));
              else if (C == "H79" && W == "H79") x.p->BHZ03_widening_assign<H79_Certificate>(*y.p, widen_fun_ref(&Polyhedron::H79_widening_assign));
              else throw std::runtime_error("case: unknown certificate/widening " + C + " " + W);
            }
            // the certificate order is defined on omega-reduced powersets: the result is reduced before it is read
            if (x.g) x.g->omega_reduce(); else x.p->omega_reduce();
            pspool[id] = x; std::cout << "res pswiden ok\n"; print_ps("pst", id, psget(id)); print_ps("psty", iy, y);
          }
          else throw std::runtime_error("case: unknown command " + cmd);
        } catch (const std::exception& e) {
          if (std::string(e.what()).substr(0, 5) == "case:") throw;
          std::cout << "res " << cmd << " exn " << exn_class(e) << "\n";
        }
      }
    } catch (const std::exception& e) {
      std::cout << "HARNESS-ERROR " << e.what() << " in: " << line << std::endl;
      return 3;
    }
    std::cout.flush();
  }
  return 0;
}
