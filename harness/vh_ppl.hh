// Whole-library include built from the individual headers of /repo's working tree
// (NOT the generated, possibly stale, concatenation src/ppl.hh).
#ifndef VH_PPL_HH
#define VH_PPL_HH
#include <iostream>
#include <sstream>
#include <fstream>
#include <string>
#include <vector>
#include <map>
#include <set>
#include <stdexcept>
#include <cstdlib>
#include <cstring>
#include <gmpxx.h>
#ifdef VH_PRIVATE_ACCESS
#define private public
#define protected public
#endif
#include "ppl-config.h"
#include "version.hh"
#include "namespaces.hh"
#include "Interval_Info_types.hh"
#include "checked_numeric_limits.hh"
#include "stdiobuf_defs.hh"
#include "c_streambuf_defs.hh"
#include "Integer_Interval.hh"
#include "initializer.hh"
#include "make_threadable.hh"
#include "Linear_Expression_Impl_defs.hh"
#include "Linear_Form_templates.hh"
#include "linearize.hh"
#include "PIP_Tree_defs.hh"
#include "BHRZ03_Certificate_defs.hh"
#include "H79_Certificate_defs.hh"
#include "Grid_Certificate_defs.hh"
#include "Partial_Function_defs.hh"
#include "Widening_Function_defs.hh"
#include "max_space_dimension.hh"
#include "algorithms.hh"
#include "termination_defs.hh"
#include "wrap_string.hh"
#include "Cast_Floating_Point_Expression_defs.hh"
#include "Cast_Floating_Point_Expression_templates.hh"
#include "Constant_Floating_Point_Expression_defs.hh"
#include "Variable_Floating_Point_Expression_defs.hh"
#include "Sum_Floating_Point_Expression_defs.hh"
#include "Difference_Floating_Point_Expression_defs.hh"
#include "Multiplication_Floating_Point_Expression_defs.hh"
#include "Division_Floating_Point_Expression_defs.hh"
#include "Opposite_Floating_Point_Expression_defs.hh"
#include "Watchdog_defs.hh"
#include "Threshold_Watcher_defs.hh"
#ifdef VH_PRIVATE_ACCESS
#undef private
#undef protected
#endif
static Parma_Polyhedra_Library::Init vh_ppl_initializer;
#endif
