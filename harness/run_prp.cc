// C10: case-language interpreter for Partially_Reduced_Product<D1, D2, R> against the real library.
// usage: run_prp <casefile>
//
//   case ID PAIR RED            PAIR in {CG GC NG CN NN BG BC SC GG}, RED in {D S K G P}
//   new X DIM universe|empty    product object X built by the (dimension, kind) constructor
//   set X W cons K <con>* cgs K <cg>*    component W (1|2) := universe refined with the constraints / congruences
//                               (assigned through private access, flag cleared: the state ascii_load can produce)
//   setempty X W                component W := D(dim, EMPTY), flag cleared
//   copy X Y | op X NAME args | qry X NAME args | red X (explicit reduce())
//   shrink X DIR IDX            calls PPL::shrink_to_congruence_no_check on COPIES of the components with the
//                               IDX-th minimized congruence of the first one (DIR 12: (d1,d2), 21: (d2,d1))
// Every command is answered by one `res`/`ans` line followed by one `st` line per live object:
//   st X FLAG DIM | <comp1> | <comp2> | ok B B1 B2 I  comp = P|G  EMPTY(0|1)  cons K ... | cgs K ... div D
//   (B = OK(), B1/B2 = d1.OK()/d2.OK(), I = with the flag set, one more product_reduce leaves d1 and d2 equal)
// Components are read from COPIES of the private members d1/d2, never through domain1()/domain2(),
// so that printing does not trigger reduce().
#define VH_PRIVATE_ACCESS
#include "vh_common.hh"
#include "Partially_Reduced_Product_defs.hh"
#include "BD_Shape_defs.hh"
#include "Box_defs.hh"
#include "Rational_Box.hh"
#include "Grid_defs.hh"
#include "C_Polyhedron_defs.hh"
#include "NNC_Polyhedron_defs.hh"
using namespace Parma_Polyhedra_Library;
using namespace vh;

struct PFunc {  // partial function for map_space_dimensions
  std::vector<long> m; unsigned maxc;
  PFunc() : maxc(0) {}
  bool has_empty_codomain() const { for (size_t i = 0; i < m.size(); ++i) if (m[i] >= 0) return false; return true; }
  dimension_type max_in_codomain() const { return maxc; }
  bool maps(dimension_type i, dimension_type& j) const { if (i >= m.size() || m[i] < 0) return false; j = m[i]; return true; }
};

typedef BD_Shape<mpq_class> QBDS;
typedef Octagonal_Shape<mpq_class> QOCT;

// ---- component printing ----
static void print_comp(std::ostream& o, const Grid& g, unsigned dim) {
  Grid c(g);
  if (c.is_empty()) { o << "G 1"; return; }
  o << "G 0 "; print_cgs(o, c.congruences(), dim);
  // divisor of the point of the minimized generator system (what Grid::max_min reads as gen_sys[0])
  Grid c2(g); mpz_class dv = 1;
  const Grid_Generator_System& gs = c2.minimized_grid_generators();
  for (Grid_Generator_System::const_iterator i = gs.begin(); i != gs.end(); ++i) if (i->is_point()) { dv = i->divisor(); break; }
  o << " div " << dv;
}
template <class D> static void print_comp(std::ostream& o, const D& d, unsigned dim) {
  D c(d);
  if (c.is_empty()) { o << "P 1"; return; }
  o << "P 0 "; print_cons(o, c.constraints(), dim);
}
template <class D> static D make_comp(unsigned dim, const Constraint_System& cs, const Congruence_System& cgs) {
  D d(dim, UNIVERSE); d.refine_with_constraints(cs); d.refine_with_congruences(cgs); return d;
}
static void print_rel(const Poly_Con_Relation& r) {
  std::cout << "ans rel " << (r.implies(Poly_Con_Relation::is_disjoint()) ? 1 : 0) << " "
            << (r.implies(Poly_Con_Relation::is_included()) ? 1 : 0) << " "
            << (r.implies(Poly_Con_Relation::saturates()) ? 1 : 0) << " "
            << (r.implies(Poly_Con_Relation::strictly_intersects()) ? 1 : 0) << "\n";
}

struct IProd;
typedef std::map<int, IProd*> Pool;
static Pool pool;

struct IProd {
  virtual ~IProd() {}
  virtual IProd* clone() const = 0;
  virtual unsigned dim() const = 0;
  virtual void print_state(int id) const = 0;
  virtual void set_comp(int w, const Constraint_System& cs, const Congruence_System& cgs) = 0;
  virtual void set_empty(int w) = 0;
  virtual void reduce() = 0;
  virtual void op(const std::string& op, Toks& tk) = 0;
  virtual void qry(const std::string& q, Toks& tk) = 0;
  virtual void shrink(int dir, unsigned idx) = 0;
};
static IProd* get(int id) { Pool::iterator i = pool.find(id); if (i == pool.end()) throw std::runtime_error("case: unknown object"); return i->second; }
static void put(int id, IProd* p) { Pool::iterator i = pool.find(id); if (i != pool.end()) { delete i->second; i->second = p; } else pool[id] = p; }

// one call of shrink_to_congruence_no_check on copies; prints what the arithmetic saw and what came out
template <class A, class B>
static void do_shrink(const A& a0, const B& b0, unsigned idx, unsigned dim) {
  A a(a0); B b(b0);
  if (a.is_empty() || b.is_empty()) { std::cout << "ans shr none\n"; return; }
  const Congruence_System cgs = a.minimized_congruences();
  unsigned k = 0; const Congruence* cg = 0;
  for (Congruence_System::const_iterator i = cgs.begin(); i != cgs.end(); ++i, ++k) if (k == idx) { cg = &*i; break; }
  if (cg == 0 || cg->is_equality()) { std::cout << "ans shr none\n"; return; }
  Congruence c(*cg);
  Linear_Expression e(c.expression());
  Coefficient xn, xd, mn, md; bool xi = false, mi = false;
  bool rx = b.maximize(e, xn, xd, xi), rm = b.minimize(e, mn, md, mi);
  bool ret = Parma_Polyhedra_Library::shrink_to_congruence_no_check(a, b, c);
  std::cout << "ans shr " << (ret ? 1 : 0) << " cg "; print_cg(std::cout, c, dim);
  std::cout << " max " << (rx ? 1 : 0) << " " << xn << " " << xd << " " << (xi ? 1 : 0)
            << " min " << (rm ? 1 : 0) << " " << mn << " " << md << " " << (mi ? 1 : 0) << " | ";
  print_comp(std::cout, a, dim); std::cout << " | "; print_comp(std::cout, b, dim); std::cout << "\n";
}

template <class P, class D1, class D2>
struct ProdT : IProd {
  P p;
  ProdT(unsigned d, Degenerate_Element k) : p(d, k) {}
  ProdT(const P& q) : p(q) {}
  static const P& arg(int id) { return static_cast<ProdT*>(get(id))->p; }
  IProd* clone() const { return new ProdT(p); }
  unsigned dim() const { return p.space_dimension(); }
  void print_state(int id) const {
    unsigned d = p.d1.space_dimension();
    std::cout << "st " << id << " " << (p.reduced ? 1 : 0) << " " << d << " | ";
    print_comp(std::cout, p.d1, d); std::cout << " | "; print_comp(std::cout, p.d2, d);
    bool ok = false, ok1 = false, ok2 = false, idem = true;
    try { ok = p.OK(); ok1 = p.d1.OK(); ok2 = p.d2.OK(); } catch (...) { ok = false; }
    if (p.reduced) {   // what OK() tests for a product flagged as reduced: one more reduction changes nothing
      try { P q(p); q.clear_reduced_flag(); q.reduce(); idem = (q.d1 == p.d1 && q.d2 == p.d2); } catch (...) { idem = false; }
    }
    std::cout << " | ok " << (ok ? 1 : 0) << " " << (ok1 ? 1 : 0) << " " << (ok2 ? 1 : 0) << " " << (idem ? 1 : 0) << "\n";
  }
  void set_comp(int w, const Constraint_System& cs, const Congruence_System& cgs) {
    unsigned d = dim();
    if (w == 1) p.d1 = make_comp<D1>(d, cs, cgs); else p.d2 = make_comp<D2>(d, cs, cgs);
    p.clear_reduced_flag();
  }
  void set_empty(int w) {
    unsigned d = dim();
    if (w == 1) p.d1 = D1(d, EMPTY); else p.d2 = D2(d, EMPTY);
    p.clear_reduced_flag();
  }
  void reduce() { p.reduce(); }
  void shrink(int dir, unsigned idx) { if (dir == 12) do_shrink(p.d1, p.d2, idx, dim()); else do_shrink(p.d2, p.d1, idx, dim()); }
  void op(const std::string& op, Toks& tk) {
    unsigned d = dim(); mpz_class b;
    if (op == "add_constraint") p.add_constraint(read_con(tk, d));
    else if (op == "refine_with_constraint") p.refine_with_constraint(read_con(tk, d));
    else if (op == "add_constraints") p.add_constraints(read_cons(tk, d));
    else if (op == "refine_with_constraints") p.refine_with_constraints(read_cons(tk, d));
    else if (op == "add_congruence") p.add_congruence(read_cg(tk, d));
    else if (op == "refine_with_congruence") p.refine_with_congruence(read_cg(tk, d));
    else if (op == "refine_with_congruences") p.refine_with_congruences(read_cgs(tk, d));
    else if (op == "intersection_assign") p.intersection_assign(arg(tk.nextl()));
    else if (op == "upper_bound_assign") p.upper_bound_assign(arg(tk.nextl()));
    else if (op == "upper_bound_assign_if_exact") { bool r = p.upper_bound_assign_if_exact(arg(tk.nextl())); std::cout << "ret " << (r ? 1 : 0) << "\n"; }
    else if (op == "difference_assign") p.difference_assign(arg(tk.nextl()));
    else if (op == "time_elapse_assign") p.time_elapse_assign(arg(tk.nextl()));
    else if (op == "concatenate_assign") p.concatenate_assign(arg(tk.nextl()));
    else if (op == "assign") p = arg(tk.nextl());
    else if (op == "topological_closure_assign") p.topological_closure_assign();
    else if (op == "affine_image" || op == "affine_preimage") {
      unsigned v = tk.nextl(); mpz_class den = tk.nextz(); Linear_Expression e = read_expr(tk, d, b);
      if (op == "affine_image") p.affine_image(Variable(v), e, den); else p.affine_preimage(Variable(v), e, den);
    }
    else if (op == "generalized_affine_image" || op == "generalized_affine_preimage") {
      unsigned v = tk.nextl(); Relation_Symbol r = read_rel(tk); mpz_class den = tk.nextz(); Linear_Expression e = read_expr(tk, d, b);
      if (op == "generalized_affine_image") p.generalized_affine_image(Variable(v), r, e, den); else p.generalized_affine_preimage(Variable(v), r, e, den);
    }
    else if (op == "generalized_affine_image_lhs" || op == "generalized_affine_preimage_lhs") {
      mpz_class b2; Linear_Expression l = read_expr(tk, d, b); Relation_Symbol r = read_rel(tk); Linear_Expression e = read_expr(tk, d, b2);
      if (op == "generalized_affine_image_lhs") p.generalized_affine_image(l, r, e); else p.generalized_affine_preimage(l, r, e);
    }
    else if (op == "bounded_affine_image" || op == "bounded_affine_preimage") {
      unsigned v = tk.nextl(); mpz_class den = tk.nextz(); mpz_class b2; Linear_Expression lb = read_expr(tk, d, b); Linear_Expression ub = read_expr(tk, d, b2);
      if (op == "bounded_affine_image") p.bounded_affine_image(Variable(v), lb, ub, den); else p.bounded_affine_preimage(Variable(v), lb, ub, den);
    }
    else if (op == "unconstrain") p.unconstrain(Variable(tk.nextl()));
    else if (op == "unconstrain_set") { long k = tk.nextl(); Variables_Set vs; for (long i = 0; i < k; ++i) vs.insert(Variable(tk.nextl())); p.unconstrain(vs); }
    else if (op == "remove_space_dimensions") { long k = tk.nextl(); Variables_Set vs; for (long i = 0; i < k; ++i) vs.insert(Variable(tk.nextl())); p.remove_space_dimensions(vs); }
    else if (op == "map_space_dimensions") { PFunc f; long k = tk.nextl(); for (long i = 0; i < k; ++i) { long j = tk.nextl(); f.m.push_back(j); if (j >= 0 && (unsigned) j > f.maxc) f.maxc = j; } p.map_space_dimensions(f); }
    else if (op == "expand_space_dimension") { unsigned v = tk.nextl(); unsigned m = tk.nextl(); p.expand_space_dimension(Variable(v), m); }
    else if (op == "fold_space_dimensions") { long k = tk.nextl(); Variables_Set vs; for (long i = 0; i < k; ++i) vs.insert(Variable(tk.nextl())); unsigned dd = tk.nextl(); p.fold_space_dimensions(vs, Variable(dd)); }
    else if (op == "widening_assign") p.widening_assign(arg(tk.nextl()));
    else if (op == "add_congruences") p.add_congruences(read_cgs(tk, d));
    else if (op == "add_space_dimensions_and_embed") p.add_space_dimensions_and_embed(tk.nextl());
    else if (op == "add_space_dimensions_and_project") p.add_space_dimensions_and_project(tk.nextl());
    else if (op == "remove_higher_space_dimensions") p.remove_higher_space_dimensions(tk.nextl());
    else throw std::runtime_error("case: unknown op " + op);
  }
  void qry(const std::string& q, Toks& tk) {
    unsigned d = dim(); mpz_class b;
#define ANSB(e) do { bool b_ = (e); std::cout << "ans b " << (b_ ? 1 : 0) << "\n"; } while (0)
    if (q == "is_empty") ANSB(p.is_empty());
    else if (q == "is_universe") ANSB(p.is_universe());
    else if (q == "is_bounded") ANSB(p.is_bounded());
    else if (q == "is_topologically_closed") ANSB(p.is_topologically_closed());
    else if (q == "is_discrete") ANSB(p.is_discrete());
    else if (q == "contains") ANSB(p.contains(arg(tk.nextl())));
    else if (q == "strictly_contains") ANSB(p.strictly_contains(arg(tk.nextl())));
    else if (q == "is_disjoint_from") ANSB(p.is_disjoint_from(arg(tk.nextl())));
    else if (q == "equals") ANSB(p == arg(tk.nextl()));
    else if (q == "constrains") ANSB(p.constrains(Variable(tk.nextl())));
    else if (q == "bounds_from_above") ANSB(p.bounds_from_above(read_expr(tk, d, b)));
    else if (q == "bounds_from_below") ANSB(p.bounds_from_below(read_expr(tk, d, b)));
    else if (q == "affine_dimension") std::cout << "ans n " << p.affine_dimension() << "\n";
    else if (q == "relation_with_con") print_rel(p.relation_with(read_con(tk, d)));
    else if (q == "relation_with_cg") {
      // the product's answer, then what each component answers on its own (after the reduction the call implies):
      // lets the judge attribute a wrong definite answer to the component domain that produced it
      Congruence cg = read_cg(tk, d);
      Poly_Con_Relation r = p.relation_with(cg);
      D1 a(p.d1); D2 b(p.d2);
      Poly_Con_Relation r1 = a.relation_with(cg), r2 = b.relation_with(cg);
      std::cout << "ans rel " << (r.implies(Poly_Con_Relation::is_disjoint()) ? 1 : 0) << " " << (r.implies(Poly_Con_Relation::is_included()) ? 1 : 0) << " "
                << (r.implies(Poly_Con_Relation::saturates()) ? 1 : 0) << " " << (r.implies(Poly_Con_Relation::strictly_intersects()) ? 1 : 0)
                << " comp " << (r1.implies(Poly_Con_Relation::is_disjoint()) ? 1 : 0) << " " << (r1.implies(Poly_Con_Relation::is_included()) ? 1 : 0)
                << " " << (r2.implies(Poly_Con_Relation::is_disjoint()) ? 1 : 0) << " " << (r2.implies(Poly_Con_Relation::is_included()) ? 1 : 0) << "\n";
    }
    else if (q == "relation_with_gen") { Poly_Gen_Relation r = p.relation_with(read_gen(tk, d)); std::cout << "ans b " << (r.implies(Poly_Gen_Relation::subsumes()) ? 1 : 0) << "\n"; }
    else if (q == "maximize" || q == "minimize") {
      Linear_Expression e = read_expr(tk, d, b); Coefficient n, dn; bool m = false;
      bool r = (q == "maximize") ? p.maximize(e, n, dn, m) : p.minimize(e, n, dn, m);
      if (!r) std::cout << "ans opt 0\n"; else std::cout << "ans opt 1 " << n << " " << dn << " " << (m ? 1 : 0) << "\n";
    }
    else if (q == "constraints") { std::cout << "ans "; print_cons(std::cout, p.constraints(), d); std::cout << "\n"; }
    else if (q == "minimized_constraints") { std::cout << "ans "; print_cons(std::cout, p.minimized_constraints(), d); std::cout << "\n"; }
    else if (q == "congruences") { std::cout << "ans "; print_cgs(std::cout, p.congruences(), d); std::cout << "\n"; }
    else if (q == "domains") {  // domain1() / domain2(): the public, reducing accessors
      std::cout << "ans doms | "; print_comp(std::cout, p.domain1(), d); std::cout << " | "; print_comp(std::cout, p.domain2(), d); std::cout << "\n";
    }
    else throw std::runtime_error("case: unknown query " + q);
#undef ANSB
  }
};

template <class D1, class D2>
static IProd* make_prod(char red, unsigned dim, Degenerate_Element k) {
  typedef Domain_Product<D1, D2> DP;
  switch (red) {
  case 'D': return new ProdT<typename DP::Direct_Product, D1, D2>(dim, k);
  case 'S': return new ProdT<typename DP::Smash_Product, D1, D2>(dim, k);
  case 'K': return new ProdT<typename DP::Constraints_Product, D1, D2>(dim, k);
  case 'G': return new ProdT<typename DP::Congruences_Product, D1, D2>(dim, k);
  case 'P': return new ProdT<typename DP::Shape_Preserving_Product, D1, D2>(dim, k);
  }
  throw std::runtime_error("case: bad reduction");
}
static IProd* make(const std::string& pair, char red, unsigned dim, Degenerate_Element k) {
  if (pair == "CG") return make_prod<C_Polyhedron, Grid>(red, dim, k);
  if (pair == "GC") return make_prod<Grid, C_Polyhedron>(red, dim, k);
  if (pair == "NG") return make_prod<NNC_Polyhedron, Grid>(red, dim, k);
  if (pair == "CN") return make_prod<C_Polyhedron, NNC_Polyhedron>(red, dim, k);
  if (pair == "NN") return make_prod<NNC_Polyhedron, NNC_Polyhedron>(red, dim, k);
  if (pair == "BG") return make_prod<Rational_Box, Grid>(red, dim, k);
  if (pair == "BC") return make_prod<Rational_Box, C_Polyhedron>(red, dim, k);
  if (pair == "SC") return make_prod<QBDS, C_Polyhedron>(red, dim, k);
  if (pair == "GG") return make_prod<Grid, Grid>(red, dim, k);
  if (pair == "CS") return make_prod<C_Polyhedron, QBDS>(red, dim, k);
  if (pair == "BO") return make_prod<Rational_Box, QOCT>(red, dim, k);
  if (pair == "NB") return make_prod<NNC_Polyhedron, Rational_Box>(red, dim, k);
  throw std::runtime_error("case: bad pair " + pair);
}

static void all_states() { for (Pool::iterator i = pool.begin(); i != pool.end(); ++i) i->second->print_state(i->first); }

int main(int argc, char** argv) {
  if (argc < 2) { std::cerr << "usage: run_prp casefile\n"; return 2; }
  std::ifstream in(argv[1]); std::string line; std::string pair; char red = 'D';
  while (std::getline(in, line)) {
    Toks tk(line); if (!tk.more()) continue;
    std::string cmd = tk.next();
    if (cmd[0] == '#') continue;
    try {
      if (cmd == "case") {
        for (Pool::iterator i = pool.begin(); i != pool.end(); ++i) delete i->second; pool.clear();
        std::string id = tk.next(); pair = tk.next(); red = tk.next()[0];
        std::cout << "case " << id << "\n";
      }
      else if (cmd == "end") std::cout << "end\n";
      else {
        try {
          if (cmd == "new") { int id = tk.nextl(); unsigned dim = tk.nextl(); std::string k = tk.next();
            put(id, make(pair, red, dim, k == "empty" ? EMPTY : UNIVERSE)); std::cout << "res ok\n"; }
          else if (cmd == "set") { int id = tk.nextl(); int w = tk.nextl(); IProd* x = get(id); unsigned d = x->dim();
            if (tk.next() != "cons") throw std::runtime_error("case: expected cons"); Constraint_System cs = read_cons(tk, d);
            if (tk.next() != "cgs") throw std::runtime_error("case: expected cgs"); Congruence_System cgs = read_cgs(tk, d);
            x->set_comp(w, cs, cgs); std::cout << "res ok\n"; }
          else if (cmd == "setempty") { int id = tk.nextl(); int w = tk.nextl(); get(id)->set_empty(w); std::cout << "res ok\n"; }
          else if (cmd == "copy") { int id = tk.nextl(); put(id, get(tk.nextl())->clone()); std::cout << "res ok\n"; }
          else if (cmd == "red") { get(tk.nextl())->reduce(); std::cout << "res ok\n"; }
          else if (cmd == "op") { int id = tk.nextl(); std::string o = tk.next(); get(id)->op(o, tk); std::cout << "res ok\n"; }
          else if (cmd == "qry") { int id = tk.nextl(); std::string q = tk.next(); get(id)->qry(q, tk); }
          else if (cmd == "shrink") { int id = tk.nextl(); int dir = tk.nextl(); unsigned idx = tk.nextl(); get(id)->shrink(dir, idx); }
          else throw std::runtime_error("case: unknown command " + cmd);
        } catch (const std::exception& e) {
          if (std::string(e.what()).substr(0, 5) == "case:") throw;
          std::cout << "res exn " << exn_class(e) << "\n";
        }
        all_states();
      }
    } catch (const std::exception& e) {
      std::cout << "HARNESS-ERROR " << e.what() << " in: " << line << std::endl;
      return 3;
    }
    std::cout.flush();
  }
  return 0;
}
