// Case-language interpreter for Pointset_Powerset<PSET> (and, in `cow' blocks, bare Determinate<PSET>
// handles) against the real library.   usage: run_pset <casefile>
// After every command the state of EVERY live object is printed (flag, size, OK(), every disjunct as
// constraints + generators), read through const access on copies so that the lazy state is not moved.
#define VH_PRIVATE_ACCESS
#include "vh_common.hh"
using namespace Parma_Polyhedra_Library;
using namespace vh;

struct PFunc {  // partial function for map_space_dimensions
  std::vector<long> m; unsigned maxc;
  PFunc() : maxc(0) {}
  bool has_empty_codomain() const { for (size_t i = 0; i < m.size(); ++i) if (m[i] >= 0) return false; return true; }
  dimension_type max_in_codomain() const { return maxc; }
  bool maps(dimension_type i, dimension_type& j) const { if (i >= m.size() || m[i] < 0) return false; j = m[i]; return true; }
};

template <typename PSET> struct Topo { static const char* name(); };
template <> const char* Topo<C_Polyhedron>::name() { return "C"; }
template <> const char* Topo<NNC_Polyhedron>::name() { return "NNC"; }

template <typename PSET>
struct Runner {
  typedef Pointset_Powerset<PSET> PS;
  typedef Determinate<PSET> Det;
  std::map<int, PS*> pool;
  std::vector<Det*> handles;

  ~Runner() { clear(); }
  void clear() {
    for (typename std::map<int, PS*>::iterator i = pool.begin(); i != pool.end(); ++i) delete i->second;
    pool.clear();
    for (size_t i = 0; i < handles.size(); ++i) delete handles[i];
    handles.clear();
  }
  PS& get(int id) {
    typename std::map<int, PS*>::iterator i = pool.find(id);
    if (i == pool.end()) throw std::runtime_error("case: unknown object");
    return *i->second;
  }
  void put(int id, PS* p) {
    typename std::map<int, PS*>::iterator i = pool.find(id);
    if (i != pool.end()) { delete i->second; i->second = p; } else pool[id] = p;
  }
  static void print_poly(const PSET& orig) {
    unsigned d = orig.space_dimension();
    PSET c1(orig); print_cons(std::cout, c1.constraints(), d); std::cout << " ";
    PSET c2(orig); print_gens(std::cout, c2.generators(), d);
  }
  void print_state(int id, const PS& x) {
    std::cout << "st " << id << " " << Topo<PSET>::name() << " " << x.space_dimension() << " " << (x.reduced ? 1 : 0)
              << " " << x.sequence.size() << " " << (x.OK() ? 1 : 0);
    for (typename PS::Sequence::const_iterator i = x.sequence.begin(); i != x.sequence.end(); ++i) {
      std::cout << " | " << i->prep->pset.space_dimension() << " "; print_poly(i->prep->pset);
    }
    std::cout << "\n";
  }
  void print_all() {
    for (typename std::map<int, PS*>::iterator i = pool.begin(); i != pool.end(); ++i) print_state(i->first, *i->second);
    std::cout << "endst\n";
  }
  PSET read_poly(Toks& tk, unsigned dim) {
    std::string how = tk.next();
    if (how == "cons") return PSET(read_cons(tk, dim));
    if (how == "gens") return PSET(read_gens(tk, dim));
    if (how == "empty") return PSET(dim, EMPTY);
    if (how == "universe") return PSET(dim, UNIVERSE);
    throw std::runtime_error("case: bad polyhedron " + how);
  }

  void do_new(Toks& tk) {
    int id = tk.nextl(); unsigned dim = tk.nextl(); std::string how = tk.next();
    if (how == "empty") put(id, new PS(dim, EMPTY));
    else if (how == "universe") put(id, new PS(dim, UNIVERSE));
    else if (how == "poly") { PSET p = read_poly(tk, dim); put(id, new PS(p)); }
    else if (how == "cons") { Constraint_System cs = read_cons(tk, dim); put(id, new PS(cs)); }
    else throw std::runtime_error("case: bad new");
  }

  void do_op(Toks& tk) {
    int id = tk.nextl(); PS& x = get(id); std::string op = tk.next(); unsigned dim = x.space_dimension();
    if (op == "add_disjunct") x.add_disjunct(read_poly(tk, dim));
    else if (op == "assign") x = get(tk.nextl());
    else if (op == "swap") x.m_swap(get(tk.nextl()));
    else if (op == "intersection_assign") x.intersection_assign(get(tk.nextl()));
    else if (op == "meet_assign") x.meet_assign(get(tk.nextl()));
    else if (op == "upper_bound_assign") x.upper_bound_assign(get(tk.nextl()));
    else if (op == "least_upper_bound_assign") x.least_upper_bound_assign(get(tk.nextl()));
    else if (op == "difference_assign") x.difference_assign(get(tk.nextl()));
    else if (op == "concatenate_assign") x.concatenate_assign(get(tk.nextl()));
    else if (op == "time_elapse_assign") x.time_elapse_assign(get(tk.nextl()));
    else if (op == "add_constraint") x.add_constraint(read_con(tk, dim));
    else if (op == "refine_with_constraint") x.refine_with_constraint(read_con(tk, dim));
    else if (op == "add_constraints") x.add_constraints(read_cons(tk, dim));
    else if (op == "refine_with_constraints") x.refine_with_constraints(read_cons(tk, dim));
    else if (op == "affine_image" || op == "affine_preimage") {
      unsigned v = tk.nextl(); mpz_class den = tk.nextz(); mpz_class b; Linear_Expression e = read_expr_n(tk, b);
      if (op == "affine_image") x.affine_image(Variable(v), e, den); else x.affine_preimage(Variable(v), e, den);
    }
    else if (op == "unconstrain") x.unconstrain(Variable(tk.nextl()));
    else if (op == "add_space_dimensions_and_embed") x.add_space_dimensions_and_embed(tk.nextl());
    else if (op == "add_space_dimensions_and_project") x.add_space_dimensions_and_project(tk.nextl());
    else if (op == "remove_higher_space_dimensions") x.remove_higher_space_dimensions(tk.nextl());
    else if (op == "remove_space_dimensions") { long k = tk.nextl(); Variables_Set vs; for (long i = 0; i < k; ++i) vs.insert(Variable(tk.nextl())); x.remove_space_dimensions(vs); }
    else if (op == "expand_space_dimension") { unsigned v = tk.nextl(); unsigned m = tk.nextl(); x.expand_space_dimension(Variable(v), m); }
    else if (op == "fold_space_dimensions") { long k = tk.nextl(); Variables_Set vs; for (long i = 0; i < k; ++i) vs.insert(Variable(tk.nextl())); unsigned d = tk.nextl(); x.fold_space_dimensions(vs, Variable(d)); }
    else if (op == "map_space_dimensions") { PFunc f; long k = tk.nextl(); for (long i = 0; i < k; ++i) { long j = tk.nextl(); f.m.push_back(j); if (j >= 0 && (unsigned) j > f.maxc) f.maxc = j; } x.map_space_dimensions(f); }
    else if (op == "topological_closure_assign") x.topological_closure_assign();
    else if (op == "omega_reduce") x.omega_reduce();
    else if (op == "pairwise_reduce") x.pairwise_reduce();
    else if (op == "collapse") x.collapse((unsigned) tk.nextl());
    else if (op == "collapse_all") x.collapse();
    else if (op == "add_non_bottom_disjunct_preserve_reduction") { PSET p = read_poly(tk, dim); x.add_non_bottom_disjunct_preserve_reduction(Det(p)); }
    else if (op == "drop_disjunct") { long k = tk.nextl(); typename PS::iterator i = x.begin(); std::advance(i, k); x.drop_disjunct(i); }
    else if (op == "mutate_disjunct") {  // non-const iteration is not offered; the public route is a copy of the disjunct re-added
      long k = tk.nextl(); typename PS::Sequence::iterator i = x.sequence.begin(); std::advance(i, k);
      i->pointset().add_constraint(read_con(tk, dim)); x.reduced = false; }
    else if (op == "simplify_using_context_assign") { bool b = x.simplify_using_context_assign(get(tk.nextl())); std::cout << "ret " << (b ? 1 : 0) << "\n"; }
    else throw std::runtime_error("case: unknown op " + op);
  }

  void do_qry(Toks& tk) {
    int id = tk.nextl(); const PS& x = get(id); std::string q = tk.next();
    bool b;
    if (q == "is_empty") b = x.is_empty();
    else if (q == "is_bottom") b = x.is_bottom();
    else if (q == "is_top") b = x.is_top();
    else if (q == "is_universe") b = x.is_universe();
    else if (q == "is_bounded") b = x.is_bounded();
    else if (q == "is_topologically_closed") b = x.is_topologically_closed();
    else if (q == "size") { std::cout << "ans n " << x.size() << "\n"; return; }
    else if (q == "OK") b = x.OK();
    else if (q == "contains") b = x.contains(get(tk.nextl()));
    else if (q == "strictly_contains") b = x.strictly_contains(get(tk.nextl()));
    else if (q == "geometrically_covers") b = x.geometrically_covers(get(tk.nextl()));
    else if (q == "geometrically_equals") b = x.geometrically_equals(get(tk.nextl()));
    else if (q == "definitely_entails") b = x.definitely_entails(get(tk.nextl()));
    else if (q == "equals") b = (x == get(tk.nextl()));
    else if (q == "is_disjoint_from") b = x.is_disjoint_from(get(tk.nextl()));
    else if (q == "constrains") b = x.constrains(Variable(tk.nextl()));
    else throw std::runtime_error("case: unknown query " + q);
    std::cout << "ans b " << (b ? 1 : 0) << "\n";
  }

  // ---- bare Determinate handles ----
  void print_handles() {
    std::map<const void*, int> ids;
    std::cout << "cst " << handles.size();
    for (size_t i = 0; i < handles.size(); ++i) {
      std::cout << " | ";
      if (!handles[i]) { std::cout << "-"; continue; }
      const void* p = handles[i]->prep;
      if (!ids.count(p)) { int k = ids.size(); ids[p] = k; }
      std::cout << ids[p] << " " << handles[i]->prep->references << " ";
      PSET c(handles[i]->prep->pset); print_cons(std::cout, c.constraints(), c.space_dimension());
    }
    std::cout << "\n";
  }
  void do_cw(Toks& tk) {
    std::string op = tk.next();
    if (op == "slots") { for (size_t i = 0; i < handles.size(); ++i) delete handles[i]; handles.assign(tk.nextl(), (Det*) 0); }
    else {
      size_t h = tk.nextl();
      if (h >= handles.size()) throw std::runtime_error("case: handle out of range");
      if (op == "new") { unsigned dim = tk.nextl(); if (handles[h]) throw std::runtime_error("case: live"); handles[h] = new Det(read_poly(tk, dim)); }
      else if (op == "copy") { size_t k = tk.nextl(); if (handles[h] || !handles[k]) throw std::runtime_error("case: copy"); handles[h] = new Det(*handles[k]); }
      else if (op == "assign") { size_t k = tk.nextl(); if (!handles[h] || !handles[k]) throw std::runtime_error("case: assign"); *handles[h] = *handles[k]; }
      else if (op == "swap") { size_t k = tk.nextl(); if (!handles[h] || !handles[k]) throw std::runtime_error("case: swap"); handles[h]->m_swap(*handles[k]); }
      else if (op == "mutate") { if (!handles[h]) throw std::runtime_error("case: mutate"); PSET& p = handles[h]->pointset(); p.add_constraint(read_con(tk, p.space_dimension())); }
      else if (op == "read") { if (!handles[h]) throw std::runtime_error("case: read"); const Det& d = *handles[h]; (void) d.pointset().space_dimension(); }
      else if (op == "destroy") { if (!handles[h]) throw std::runtime_error("case: destroy"); delete handles[h]; handles[h] = 0; }
      else throw std::runtime_error("case: unknown cw " + op);
    }
    print_handles();
  }

  // returns false when the line is the start of another case
  // the command itself and its `res' / `ans' line (the state dump follows, outside any raised abandon flag)
  void exec(const std::string& cmd, Toks& tk) {
    if (cmd == "new" || cmd == "copy" || cmd == "op") {
      try {
        if (cmd == "new") do_new(tk);
        else if (cmd == "copy") { int id = tk.nextl(); put(id, new PS(get(tk.nextl()))); }
        else do_op(tk);
        std::cout << "res ok\n";
      } catch (const std::exception& e) {
        if (std::string(e.what()).substr(0, 5) == "case:") throw;
        std::cout << "res exn " << exn_class(e) << "\n";
      }
    }
    else {
      try { do_qry(tk); }
      catch (const std::exception& e) { if (std::string(e.what()).substr(0, 5) == "case:") throw; std::cout << "ans exn " << exn_class(e) << "\n"; }
    }
  }
  void line(const std::string& cmd, Toks& tk) {
    if (cmd == "new" || cmd == "copy" || cmd == "op" || cmd == "qry") { exec(cmd, tk); print_all(); }
    else if (cmd == "cw") do_cw(tk);
    else throw std::runtime_error("case: unknown command " + cmd);
  }
};


// ---- Pointset_Powerset<Grid>: geometric predicates and difference (judged by sampling + the verified grid reference) ----
struct GridRunner {
  typedef Pointset_Powerset<Grid> PS;
  std::map<int, PS*> pool;
  ~GridRunner() { clear(); }
  void clear() { for (std::map<int, PS*>::iterator i = pool.begin(); i != pool.end(); ++i) delete i->second; pool.clear(); }
  PS& get(int id) { std::map<int, PS*>::iterator i = pool.find(id); if (i == pool.end()) throw std::runtime_error("case: unknown object"); return *i->second; }
  void put(int id, PS* p) { std::map<int, PS*>::iterator i = pool.find(id); if (i != pool.end()) { delete i->second; i->second = p; } else pool[id] = p; }
  void print_all() {
    for (std::map<int, PS*>::iterator i = pool.begin(); i != pool.end(); ++i) {
      const PS& x = *i->second;
      std::cout << "st " << i->first << " G " << x.space_dimension() << " " << (x.reduced ? 1 : 0) << " " << x.sequence.size() << " " << (x.OK() ? 1 : 0);
      for (PS::Sequence::const_iterator j = x.sequence.begin(); j != x.sequence.end(); ++j) {
        Grid c(j->prep->pset);
        std::cout << " | " << c.space_dimension() << " " << (c.is_empty() ? 1 : 0) << " ";
        Grid c2(j->prep->pset); print_cgs(std::cout, c2.congruences(), c2.space_dimension());
      }
      std::cout << "\n";
    }
    std::cout << "endst\n";
  }
  Grid read_grid(Toks& tk, unsigned dim) {
    std::string how = tk.next();
    if (how == "cgs") return Grid(read_cgs(tk, dim));
    if (how == "empty") return Grid(dim, EMPTY);
    if (how == "universe") return Grid(dim, UNIVERSE);
    throw std::runtime_error("case: bad grid " + how);
  }
  void line(const std::string& cmd, Toks& tk) {
    if (cmd == "new" || cmd == "copy" || cmd == "op") {
      try {
        if (cmd == "new") { int id = tk.nextl(); unsigned dim = tk.nextl(); std::string how = tk.next(); put(id, new PS(dim, how == "universe" ? UNIVERSE : EMPTY)); }
        else if (cmd == "copy") { int id = tk.nextl(); put(id, new PS(get(tk.nextl()))); }
        else {
          int id = tk.nextl(); PS& x = get(id); std::string op = tk.next(); unsigned dim = x.space_dimension();
          if (op == "add_disjunct") x.add_disjunct(read_grid(tk, dim));
          else if (op == "omega_reduce") x.omega_reduce();
          else if (op == "pairwise_reduce") x.pairwise_reduce();
          else if (op == "difference_assign") x.difference_assign(get(tk.nextl()));
          else if (op == "intersection_assign") x.intersection_assign(get(tk.nextl()));
          else if (op == "upper_bound_assign") x.upper_bound_assign(get(tk.nextl()));
          else if (op == "assign") x = get(tk.nextl());
          else throw std::runtime_error("case: unknown grid op " + op);
        }
        std::cout << "res ok\n";
      } catch (const std::exception& e) {
        if (std::string(e.what()).substr(0, 5) == "case:") throw;
        std::cout << "res exn " << exn_class(e) << "\n";
      }
      print_all();
    }
    else if (cmd == "qry") {
      try {
        int id = tk.nextl(); const PS& x = get(id); std::string q = tk.next(); bool b;
        if (q == "geometrically_covers") b = x.geometrically_covers(get(tk.nextl()));
        else if (q == "geometrically_equals") b = x.geometrically_equals(get(tk.nextl()));
        else if (q == "check_containment") { Grid g = read_grid(tk, x.space_dimension()); b = check_containment(g, x); }   // is g inside the union x ?
        else if (q == "contains") b = x.contains(get(tk.nextl()));
        else if (q == "is_disjoint_from") b = x.is_disjoint_from(get(tk.nextl()));
        else if (q == "is_empty") b = x.is_empty();
        else if (q == "OK") b = x.OK();
        else throw std::runtime_error("case: unknown grid query " + q);
        std::cout << "ans b " << (b ? 1 : 0) << "\n";
      } catch (const std::exception& e) { if (std::string(e.what()).substr(0, 5) == "case:") throw; std::cout << "ans exn " << exn_class(e) << "\n"; }
      print_all();
    }
    else throw std::runtime_error("case: unknown command " + cmd);
  }
};

// a Throwable that is never thrown: raises the abandon flag without making the components give up
struct Never_Thrown : public Throwable { void throw_me() const {} ~Never_Thrown() {} };
static Never_Thrown never_thrown;
struct Hurry { Hurry() { abandon_expensive_computations = &never_thrown; } ~Hurry() { abandon_expensive_computations = 0; } };

int main(int argc, char** argv) {
  if (argc < 2) { std::cerr << "usage: run_pset casefile\n"; return 2; }
  std::ifstream in(argv[1]); std::string ln;
  Runner<C_Polyhedron> rc; Runner<NNC_Polyhedron> rn; GridRunner rg; bool nnc = false, grid = false;
  while (std::getline(in, ln)) {
    Toks tk(ln); if (!tk.more()) continue;
    std::string cmd = tk.next();
    if (cmd[0] == '#') continue;
    try {
      if (cmd == "case") { rc.clear(); rn.clear(); rg.clear(); std::cout << "case " << tk.next() << "\n"; std::string tp = tk.next(); nnc = (tp == "NNC"); grid = (tp == "G"); }
      else if (grid && cmd != "end") rg.line(cmd, tk);
      else if (cmd == "end") std::cout << "end\n";
      else if (cmd == "hurry") {   // the rest of the line is executed with abandon_expensive_computations raised
        std::string c2 = tk.next();
        if (c2 != "op" && c2 != "qry") throw std::runtime_error("case: hurry applies to op / qry");
        if (nnc) { Hurry h; try { rn.exec(c2, tk); } catch (...) { abandon_expensive_computations = 0; throw; } }
        else { Hurry h; try { rc.exec(c2, tk); } catch (...) { abandon_expensive_computations = 0; throw; } }
        if (nnc) rn.print_all(); else rc.print_all();
      }
      else if (nnc) rn.line(cmd, tk); else rc.line(cmd, tk);
    } catch (const std::exception& e) {
      std::cout << "HARNESS-ERROR " << e.what() << " in: " << ln << std::endl;
      return 3;
    }
    std::cout.flush();
  }
  return 0;
}
