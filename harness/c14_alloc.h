// C14: counting / fault-injecting replacement of ::operator new/delete and of GMP's allocation functions.
// Every block carries a 32-byte header and is linked in a list of live blocks (the ledger).
// Nothing in here allocates through the functions it replaces.
#ifndef C14_ALLOC_HH
#define C14_ALLOC_HH
#include <gmp.h>
#include <new>
#include <cstdlib>
#include <cstring>
#include <cstdio>
#include <stdint.h>
#include <execinfo.h>
#include <dlfcn.h>
#include <cxxabi.h>

namespace c14 {

enum { L_NEW = 0, L_GMP = 1 };
struct Hdr { Hdr* prev; Hdr* next; size_t size; uint32_t seq; uint8_t layer; uint8_t cls; uint16_t magic; };   // cls: 0 operator new, 1 GMP via mpq_init, 2 other GMP
static const uint16_t MAGIC = 0xC14A;

static Hdr head = { &head, &head, 0, 0, 0, 0, 0 };
static long live_blocks = 0, live_bytes = 0;
static long total_requests = 0;       // all requests ever (both layers)
// fault control
static bool armed = false;            // counting + injection active
static long req_no = 0;               // requests since arm() that are eligible for injection
static long fail_at = 0;              // 0 = never
static bool fired = false;
static int fired_layer = -1;
static size_t fired_size = 0;
static const char* fired_caller = "";
static bool inject_new = true, inject_gmp = true;
static long gmp_skipped = 0;          // GMP requests seen while armed whose caller is not whitelisted (never failed)
static long new_seen = 0, gmp_seen = 0;
static uint32_t epoch_seq = 0;        // sequence number of blocks (all requests while armed or not)

// event trace (containers): type 'A' alloc ok, 'X' failed request, 'F' free; layer; size
struct Ev { char t; char layer; size_t size; };
static const int MAXEV = 8192;
static Ev evs[MAXEV]; static int nev = 0; static bool tracing = false;
static inline void log_ev(char t, int layer, size_t sz) { if (tracing && nev < MAXEV) { evs[nev].t = t; evs[nev].layer = (char) layer; evs[nev].size = sz; ++nev; } }

// backtraces (diagnosis rerun only)
static const int BT_DEPTH = 24, BT_MAX = 60000;
static bool recording = false;
static void* bt_tab[BT_MAX][BT_DEPTH]; static unsigned char bt_len[BT_MAX];
static void* bt_throw[BT_DEPTH]; static int bt_throw_len = 0;
static uint32_t rec_base = 0;

static inline void record_bt(uint32_t seq) {
  if (!recording) return;
  uint32_t i = seq - rec_base;
  if (i >= (uint32_t) BT_MAX) return;
  bt_len[i] = (unsigned char) backtrace(bt_tab[i], BT_DEPTH);
}

// ---- caller classification for the GMP layer ----
struct CallerEnt { void* ra; const char* name; bool ok; int cls; };
static CallerEnt ctab[512]; static int nct = 0;
static const char* const GMP_SAFE[] = { "__gmpz_realloc", "__gmpz_init_set", "__gmpz_init_set_si", "__gmpz_init_set_ui",
  "__gmpz_init2", "__gmpz_init_set_d", "__gmpz_init_set_str", "__gmpz_realloc2", 0 };
static inline const CallerEnt& classify(void* ra) {
  for (int i = 0; i < nct; ++i) if (ctab[i].ra == ra) return ctab[i];
  Dl_info di; const char* nm = "?";
  if (dladdr(ra, &di) && di.dli_sname) nm = di.dli_sname;
  bool ok = false;
  for (int j = 0; GMP_SAFE[j]; ++j) if (std::strcmp(GMP_SAFE[j], nm) == 0) ok = true;
  int cls = std::strcmp(nm, "__gmpq_init") == 0 ? 1 : 2;
  if (nct < 512) { ctab[nct].ra = ra; ctab[nct].name = nm; ctab[nct].ok = ok; ctab[nct].cls = cls; return ctab[nct++]; }
  static CallerEnt tmp; tmp.ra = ra; tmp.name = nm; tmp.ok = ok; tmp.cls = cls; return tmp;
}
// histogram of GMP callers (by name) seen while armed
struct CallerCnt { const char* name; long n; bool ok; };
static CallerCnt ccnt[128]; static int nccnt = 0;
static inline void count_caller(const CallerEnt& c) {
  for (int i = 0; i < nccnt; ++i) if (ccnt[i].name == c.name || std::strcmp(ccnt[i].name, c.name) == 0) { ++ccnt[i].n; return; }
  if (nccnt < 128) { ccnt[nccnt].name = c.name; ccnt[nccnt].n = 1; ccnt[nccnt].ok = c.ok; ++nccnt; }
}

static inline void* raw_alloc(size_t n, int layer, int cls = 0) {
  Hdr* h = (Hdr*) std::malloc(sizeof(Hdr) + (n ? n : 1));
  if (!h) { std::fprintf(stderr, "c14: real out of memory\n"); std::abort(); }
  h->size = n; h->seq = epoch_seq++; h->layer = (uint8_t) layer; h->cls = (uint8_t) cls; h->magic = MAGIC;
  h->next = head.next; h->prev = &head; head.next->prev = h; head.next = h;
  ++live_blocks; live_bytes += (long) n;
  record_bt(h->seq);
  return (void*) (h + 1);
}
static inline void raw_free(void* p, int layer) {
  if (!p) return;
  Hdr* h = ((Hdr*) p) - 1;
  if (h->magic != MAGIC) { std::fprintf(stderr, "c14: free of a block not from this allocator (or double free), layer %d\n", layer); std::abort(); }
  if (h->layer != layer) { std::fprintf(stderr, "c14: block freed through the wrong layer\n"); std::abort(); }
  h->magic = 0xDEAD;
  h->prev->next = h->next; h->next->prev = h->prev;
  --live_blocks; live_bytes -= (long) h->size;
  log_ev('F', layer, h->size);
  std::free(h);
}
static inline size_t block_size(void* p) { return (((Hdr*) p) - 1)->size; }

// returns true when this request must fail
static inline bool request(int layer, size_t n, const char* caller, bool eligible) {
  ++total_requests;
  if (!armed) return false;
  if (layer == L_NEW) ++new_seen; else ++gmp_seen;
  if (!eligible) { ++gmp_skipped; return false; }
  if ((layer == L_NEW && !inject_new) || (layer == L_GMP && !inject_gmp)) return false;
  ++req_no;
  if (!fired && fail_at > 0 && req_no == fail_at) {
    fired = true; fired_layer = layer; fired_size = n; fired_caller = caller;
    log_ev('X', layer, n);
    bt_throw_len = backtrace(bt_throw, BT_DEPTH);
    return true;
  }
  return false;
}

static inline void* new_impl(size_t n) {
  if (request(L_NEW, n, "operator new", true)) throw std::bad_alloc();
  void* p = raw_alloc(n, L_NEW); log_ev('A', L_NEW, n); return p;
}
static inline void* new_impl_nothrow(size_t n) {
  if (request(L_NEW, n, "operator new(nothrow)", true)) return 0;
  void* p = raw_alloc(n, L_NEW); log_ev('A', L_NEW, n); return p;
}

extern "C" {
static void* gmp_alloc(size_t n) {
  const CallerEnt& c = classify(__builtin_return_address(0));
  if (armed) count_caller(c);
  if (request(L_GMP, n, c.name, c.ok)) throw std::bad_alloc();
  void* p = raw_alloc(n, L_GMP, c.cls); log_ev('A', L_GMP, n); return p;
}
static void* gmp_realloc(void* old, size_t osz, size_t n) {
  const CallerEnt& c = classify(__builtin_return_address(0));
  if (armed) count_caller(c);
  if (request(L_GMP, n, c.name, c.ok)) throw std::bad_alloc();
  void* p = raw_alloc(n, L_GMP, old ? ((((Hdr*) old) - 1)->cls) : c.cls); log_ev('A', L_GMP, n);
  if (old) { size_t m = block_size(old); std::memcpy(p, old, m < n ? m : n); raw_free(old, L_GMP); }
  return p;
}
static void gmp_free(void* p, size_t) { raw_free(p, L_GMP); }
}

// installed before any static constructor of default priority (the library's Init object creates mpz values)
__attribute__((constructor(101))) static void install_gmp() { mp_set_memory_functions(gmp_alloc, gmp_realloc, gmp_free); }

static inline void arm(long k) { req_no = 0; fail_at = k; fired = false; fired_layer = -1; fired_size = 0; fired_caller = ""; gmp_skipped = 0; new_seen = gmp_seen = 0; armed = true; }
static inline void disarm() { armed = false; }

static inline const char* demangle(const char* s, char* buf, size_t n) {
  int st = 0; size_t len = n;
  char* tmp = (char*) std::malloc(n);
  char* r = abi::__cxa_demangle(s, tmp, &len, &st);
  if (st == 0 && r) { std::strncpy(buf, r, n - 1); buf[n - 1] = 0; std::free(r); }
  else { std::strncpy(buf, s, n - 1); buf[n - 1] = 0; std::free(tmp); }
  // cut the argument list
  int depth = 0;
  for (size_t i = 0; buf[i]; ++i) { if (buf[i] == '<') ++depth; else if (buf[i] == '>') --depth; else if (buf[i] == '(' && depth == 0) { buf[i] = 0; break; } }
  return buf;
}
static inline void* fn_of(void* ra, const char** name) {
  Dl_info di; if (dladdr(ra, &di) && di.dli_sname) { *name = di.dli_sname; return di.dli_saddr; }
  *name = "?"; return 0;
}
} // namespace c14

void* operator new(size_t n) { return c14::new_impl(n); }
void* operator new[](size_t n) { return c14::new_impl(n); }
void* operator new(size_t n, const std::nothrow_t&) noexcept { return c14::new_impl_nothrow(n); }
void* operator new[](size_t n, const std::nothrow_t&) noexcept { return c14::new_impl_nothrow(n); }
void operator delete(void* p) noexcept { c14::raw_free(p, c14::L_NEW); }
void operator delete[](void* p) noexcept { c14::raw_free(p, c14::L_NEW); }
void operator delete(void* p, size_t) noexcept { c14::raw_free(p, c14::L_NEW); }
void operator delete[](void* p, size_t) noexcept { c14::raw_free(p, c14::L_NEW); }
void operator delete(void* p, const std::nothrow_t&) noexcept { c14::raw_free(p, c14::L_NEW); }
void operator delete[](void* p, const std::nothrow_t&) noexcept { c14::raw_free(p, c14::L_NEW); }
#endif
