// C08: widening chains against the real library.
// usage: run_widen <scriptfile>     (one observation block per script line on stdout)
//
// Script lines (ids are small integers naming objects of the pool; <P> is poly | bds | oct | box):
//   case <name>
//   new   <id> <topo C|NNC> <dim> gens K g... | cons K c... | empty | universe
//   mk    <id> <route> <src> <seed>     same SET as <src>, built through another construction route
//   hull  <id> <a> <b>                  id := a; id.upper_bound_assign(b)
//   widen <W> <id> <x> <y> <t>          id := x; id.<W>_widening_assign(copy of y [, &t]) ; t = -1: no token pointer
//   lim   <W> <limited|bounded> <id> <x> <y> <t> cons K c...
//   cert  <id>                          certificate data of the library's classes (+ the minimized systems)
//   cmp   <a> <b>                       Cert(a).compare(Cert(b)), Cert(a).compare(b), Cert(a).is_stabilizing(b)
//   ps    <id-list...>                  powerset multiset ordering (see do_ps)
// Every command answers `res <cmd> ok|exn <class>` first.
#define VH_PRIVATE_ACCESS
#include "vh_common.hh"
#include "BD_Shape_defs.hh"
#include "Octagonal_Shape_defs.hh"
#include "Rational_Box.hh"
#include "C_Polyhedron_defs.hh"
#include "NNC_Polyhedron_defs.hh"
#include "Pointset_Powerset_defs.hh"
#include <algorithm>
using namespace Parma_Polyhedra_Library;
using namespace vh;

typedef std::map<int, Polyhedron*> Pool;
static Pool pool;

static Polyhedron* clone(const Polyhedron& p) {
  if (p.topology() == NECESSARILY_CLOSED) return new C_Polyhedron(static_cast<const C_Polyhedron&>(p));
  return new NNC_Polyhedron(static_cast<const NNC_Polyhedron&>(p));
}
static Polyhedron* get(int id) {
  Pool::iterator i = pool.find(id);
  if (i == pool.end()) throw std::runtime_error("case: unknown object");
  return i->second;
}
static void put(int id, Polyhedron* p) {
  Pool::iterator i = pool.find(id);
  if (i != pool.end()) { delete i->second; i->second = p; } else pool[id] = p;
}
static std::string flags_of(const Polyhedron& p) {
  std::ostringstream os; p.status.ascii_dump(os); std::string s = os.str();
  for (size_t i = 0; i < s.size(); ++i) if (s[i] == ' ' || s[i] == '\n') s[i] = '_';
  return s;
}
// state of an object, read from COPIES so that the observation does not move the lazy state
static void print_state(const char* tag, int id, const Polyhedron& orig) {
  std::cout << tag << " " << id << " " << (orig.topology() == NECESSARILY_CLOSED ? "C" : "NNC") << " "
            << orig.space_dimension() << " " << flags_of(orig) << " ";
  Polyhedron* c = clone(orig);
  unsigned d = c->space_dimension();
  print_cons(std::cout, c->constraints(), d); std::cout << " ";
  Polyhedron* c2 = clone(orig);
  print_gens(std::cout, c2->generators(), d);
  std::cout << " ok " << (orig.OK() ? 1 : 0);
  // dimension of the lineality space (from a third copy)
  Polyhedron* c3 = clone(orig); unsigned nl = 0;
  if (!c3->is_empty()) { const Generator_System& mg = c3->minimized_generators(); for (Generator_System::const_iterator i = mg.begin(); i != mg.end(); ++i) if (i->is_line()) ++nl; }
  std::cout << " lin " << nl << "\n";
  delete c; delete c2; delete c3;
}
static Polyhedron* make(bool c, unsigned dim, Degenerate_Element k) {
  return c ? (Polyhedron*) new C_Polyhedron(dim, k) : (Polyhedron*) new NNC_Polyhedron(dim, k);
}
static Polyhedron* make(bool c, const Constraint_System& cs) {
  return c ? (Polyhedron*) new C_Polyhedron(cs) : (Polyhedron*) new NNC_Polyhedron(cs);
}
static Polyhedron* make(bool c, const Generator_System& gs) {
  return c ? (Polyhedron*) new C_Polyhedron(gs) : (Polyhedron*) new NNC_Polyhedron(gs);
}

static void do_new(Toks& tk) {
  int id = tk.nextl(); std::string topo = tk.next(); unsigned dim = tk.nextl(); std::string how = tk.next();
  bool c = (topo == "C");
  Polyhedron* p = 0;
  if (how == "universe") p = make(c, dim, UNIVERSE);
  else if (how == "empty") p = make(c, dim, EMPTY);
  else if (how == "cons") { Constraint_System cs = read_cons(tk, dim); p = make(c, cs); }
  else if (how == "gens") { Generator_System gs = read_gens(tk, dim); p = make(c, gs); }
  else throw std::runtime_error("case: bad new");
  put(id, p);
}

// deterministic tiny PRNG for the redundancy routes
struct Rng { unsigned long s; Rng(unsigned long x) : s(x * 2654435761UL + 12345) {}
  unsigned next() { s = s * 6364136223846793005UL + 1442695040888963407UL; return (unsigned) (s >> 33); }
  unsigned below(unsigned n) { return n ? next() % n : 0; } };

template <typename T> static void shuffle(std::vector<T>& v, Rng& r) {
  for (size_t i = v.size(); i > 1; --i) std::swap(v[i - 1], v[r.below(i)]);
}

// the same set as src, through another construction route
static Polyhedron* do_route(const std::string& route, const Polyhedron& src, unsigned long seed) {
  bool c = src.topology() == NECESSARILY_CLOSED;
  unsigned dim = src.space_dimension();
  Rng rng(seed);
  Polyhedron* s = clone(src);   // all reads from a copy
  Polyhedron* p = 0;
  if (route == "copy") { p = clone(src); }
  else if (s->is_empty()) {
    // an empty polyhedron has no generators; only the constraint routes make sense
    if (route == "cons" || route == "mcons" || route == "consred" || route == "addc") {
      Constraint_System cs = s->constraints(); if (dim > 0 && cs.space_dimension() < dim) cs.set_space_dimension(dim); p = make(c, cs); }
    else p = make(c, dim, EMPTY);
  }
  else if (route == "cons") { Constraint_System cs = s->constraints(); if (dim > 0) cs.set_space_dimension(dim); p = make(c, cs); }
  else if (route == "mcons") { Constraint_System cs = s->minimized_constraints(); if (dim > 0) cs.set_space_dimension(dim); p = make(c, cs); }
  else if (route == "gens") { Generator_System gs = s->generators(); if (dim > 0) gs.set_space_dimension(dim); p = make(c, gs); }
  else if (route == "mgens") { Generator_System gs = s->minimized_generators(); if (dim > 0) gs.set_space_dimension(dim); p = make(c, gs); }
  else if (route == "consred" || route == "addc" || route == "pendc") {
    std::vector<Constraint> v;
    const Constraint_System& cs = s->minimized_constraints();
    for (Constraint_System::const_iterator i = cs.begin(); i != cs.end(); ++i) v.push_back(*i);
    size_t n0 = v.size();
    std::vector<Constraint> red;
    // redundant rows: positive combinations of two inequalities, loosened copies of inequalities
    for (unsigned k = 0; k < 3 && n0 > 0; ++k) {
      const Constraint& a = v[rng.below(n0)]; const Constraint& b = v[rng.below(n0)];
      unsigned m1 = 1 + rng.below(3), m2 = 1 + rng.below(3);
      Linear_Expression ea(a.expression()), eb(b.expression());
      Linear_Expression e = m1 * ea + m2 * eb;
      if (a.is_equality() && b.is_equality()) red.push_back(e == 0);
      else if (a.is_equality() || b.is_equality()) continue;   // sign of an equality is arbitrary: skip
      else if (a.is_strict_inequality() || b.is_strict_inequality()) red.push_back(c ? (e >= 0) : (e > 0));
      else red.push_back(e >= 0);
      if (a.is_inequality()) { Linear_Expression l(a.expression()); l += (1 + rng.below(4)); red.push_back(l >= 0); }
    }
    if (route == "consred") {
      for (size_t i = 0; i < red.size(); ++i) v.push_back(red[i]);
      shuffle(v, rng);
      Constraint_System out; if (dim > 0) out.set_space_dimension(dim);
      for (size_t i = 0; i < v.size(); ++i) out.insert(v[i]);
      p = make(c, out);
    } else if (route == "addc") {
      shuffle(v, rng);
      p = make(c, dim, UNIVERSE);
      for (size_t i = 0; i < v.size(); ++i) p->add_constraint(v[i]);
    } else { // pendc: minimized, then redundant constraints left pending
      p = clone(*s); p->minimize();
      for (size_t i = 0; i < red.size(); ++i) p->add_constraint(red[i]);
    }
  }
  else if (route == "gensred" || route == "addg" || route == "pendg") {
    std::vector<Generator> v;
    const Generator_System& gs = s->minimized_generators();
    std::vector<Generator> pts, rays;
    for (Generator_System::const_iterator i = gs.begin(); i != gs.end(); ++i) {
      v.push_back(*i);
      if (i->is_point()) pts.push_back(*i);
      if (i->is_ray()) rays.push_back(*i);
    }
    std::vector<Generator> red;
    for (unsigned k = 0; k < 3; ++k) {
      if (!pts.empty()) {
        // a point of the segment between two points: (d2*m1*p1 + d1*m2*p2) / (d1*d2*(m1+m2))
        const Generator& a = pts[rng.below(pts.size())]; const Generator& b = pts[rng.below(pts.size())];
        unsigned m1 = 1 + rng.below(3), m2 = 1 + rng.below(3);
        Linear_Expression ea(a.expression()), eb(b.expression());
        Coefficient da = a.divisor(), db = b.divisor();
        Linear_Expression e = (db * m1) * ea + (da * m2) * eb;
        red.push_back(point(e, da * db * (m1 + m2)));
        if (!rays.empty()) {
          const Generator& r = rays[rng.below(rays.size())];
          Linear_Expression er(r.expression());
          Linear_Expression e2 = ea + (da * (1 + rng.below(3))) * er;
          red.push_back(point(e2, da));
        }
      }
      if (rays.size() >= 2) {
        const Generator& a = rays[rng.below(rays.size())]; const Generator& b = rays[rng.below(rays.size())];
        Linear_Expression ea(a.expression()), eb(b.expression());
        Linear_Expression e = (1 + rng.below(3)) * ea + (1 + rng.below(3)) * eb;
        if (!e.all_homogeneous_terms_are_zero()) red.push_back(ray(e));
      }
    }
    if (route == "gensred") {
      for (size_t i = 0; i < red.size(); ++i) v.push_back(red[i]);
      shuffle(v, rng);
      Generator_System out; if (dim > 0) out.set_space_dimension(dim);
      for (size_t i = 0; i < v.size(); ++i) out.insert(v[i]);
      p = make(c, out);
    } else if (route == "addg") {
      shuffle(v, rng);
      // a point first, the rest one by one
      size_t ip = 0; for (size_t i = 0; i < v.size(); ++i) if (v[i].is_point()) { ip = i; break; }
      Generator_System g0; if (dim > 0) g0.set_space_dimension(dim); g0.insert(v[ip]);
      p = make(c, g0);
      for (size_t i = 0; i < v.size(); ++i) if (i != ip) p->add_generator(v[i]);
    } else { // pendg: minimized, then redundant generators left pending
      p = clone(*s); p->minimize();
      for (size_t i = 0; i < red.size(); ++i) p->add_generator(red[i]);
    }
  }
  else { delete s; throw std::runtime_error("case: unknown route " + route); }
  delete s;
  return p;
}


// ---------------------------------------------------------------------------------------------------------------
// weakly relational shapes and boxes (topology field BDS | OCT | BOX): same commands, same answers (no generators,
// no certificates)
struct Shape {
  virtual ~Shape() {}
  virtual Shape* clone() const = 0;
  virtual const char* kind() const = 0;
  virtual unsigned dim() const = 0;
  virtual Constraint_System cons() const = 0;          // read from a copy
  virtual bool ok() const = 0;
  virtual std::string flags() const = 0;
  virtual void join(const Shape& y) = 0;
  virtual void widen(const std::string& W, const Shape& y, unsigned* tp) = 0;
  virtual void lim(const std::string& W, const Shape& y, const Constraint_System& cs, unsigned* tp) = 0;
  virtual Shape* route(const std::string& r, unsigned long seed) const = 0;
};
typedef BD_Shape<mpq_class> BDS;
typedef Octagonal_Shape<mpq_class> OCT;


// custom stop points:  W = CC76sp[q1,q2,...]  (ascending rationals n or n/d; may be empty)
static bool parse_sp(const std::string& W, std::vector<mpq_class>& sp) {
  if (W.compare(0, 7, "CC76sp[") != 0 || W[W.size() - 1] != ']') return false;
  std::string body = W.substr(7, W.size() - 8), cur;
  for (size_t i = 0; i <= body.size(); ++i) {
    if (i == body.size() || body[i] == ',') { if (!cur.empty()) { mpq_class q(cur); q.canonicalize(); sp.push_back(q); } cur.clear(); }
    else cur += body[i];
  }
  return true;
}
template <typename N> static std::vector<N> to_n(const std::vector<mpq_class>& sp) {
  std::vector<N> v(sp.size());
  for (size_t i = 0; i < sp.size(); ++i) assign_r(v[i], sp[i], ROUND_NOT_NEEDED);
  return v;
}
template <typename T> struct Ops;
template <> struct Ops<BDS> {
  static const char* kind() { return "BDS"; }
  static std::string flags(const BDS& x) { std::ostringstream os; x.status.ascii_dump(os); return os.str(); }
  static void widen(BDS& x, const std::string& W, const BDS& y, unsigned* tp) {
    if (W == "BHMZ05") x.BHMZ05_widening_assign(y, tp); else if (W == "H79") x.H79_widening_assign(y, tp);
    else if (W == "CC76") x.CC76_extrapolation_assign(y, tp);
    else { std::vector<mpq_class> sp; if (!parse_sp(W, sp)) throw std::runtime_error("case: unknown widening " + W);
           std::vector<BDS::coefficient_type> v = to_n<BDS::coefficient_type>(sp);
           x.CC76_extrapolation_assign(y, v.begin(), v.end(), tp); } }
  static void lim(BDS& x, const std::string& W, const BDS& y, const Constraint_System& cs, unsigned* tp) {
    if (W == "BHMZ05") x.limited_BHMZ05_extrapolation_assign(y, cs, tp); else if (W == "H79") x.limited_H79_extrapolation_assign(y, cs, tp);
    else if (W == "CC76") x.limited_CC76_extrapolation_assign(y, cs, tp); else throw std::runtime_error("case: unknown widening " + W); }
};
template <> struct Ops<OCT> {
  static const char* kind() { return "OCT"; }
  static std::string flags(const OCT& x) { std::ostringstream os; x.status.ascii_dump(os); return os.str(); }
  static void widen(OCT& x, const std::string& W, const OCT& y, unsigned* tp) {
    if (W == "BHMZ05") x.BHMZ05_widening_assign(y, tp); else if (W == "CC76") x.CC76_extrapolation_assign(y, tp);
    else { std::vector<mpq_class> sp; if (!parse_sp(W, sp)) throw std::runtime_error("case: unknown widening " + W);
           std::vector<OCT::coefficient_type> v = to_n<OCT::coefficient_type>(sp);
           x.CC76_extrapolation_assign(y, v.begin(), v.end(), tp); } }
  static void lim(OCT& x, const std::string& W, const OCT& y, const Constraint_System& cs, unsigned* tp) {
    if (W == "BHMZ05") x.limited_BHMZ05_extrapolation_assign(y, cs, tp); else if (W == "CC76") x.limited_CC76_extrapolation_assign(y, cs, tp);
    else throw std::runtime_error("case: unknown widening " + W); }
};
template <> struct Ops<Rational_Box> {
  static const char* kind() { return "BOX"; }
  static std::string flags(const Rational_Box& x) { std::ostringstream os; x.status.ascii_dump(os); return os.str(); }
  static void widen(Rational_Box& x, const std::string& W, const Rational_Box& y, unsigned* tp) {
    if (W == "CC76") x.CC76_widening_assign(y, tp);
    else { std::vector<mpq_class> sp; if (!parse_sp(W, sp)) throw std::runtime_error("case: unknown widening " + W);
           if (tp != 0) throw std::runtime_error("case: the stop-point overload of Box::CC76_widening_assign takes no tokens");
           x.CC76_widening_assign(y, sp.begin(), sp.end()); } }
  static void lim(Rational_Box& x, const std::string& W, const Rational_Box& y, const Constraint_System& cs, unsigned* tp) {
    if (W == "CC76") x.limited_CC76_extrapolation_assign(y, cs, tp); else throw std::runtime_error("case: unknown widening " + W); }
};

template <typename T> struct ShapeT : Shape {
  T v;
  ShapeT(const T& t) : v(t) {}
  Shape* clone() const { return new ShapeT<T>(v); }
  const char* kind() const { return Ops<T>::kind(); }
  unsigned dim() const { return v.space_dimension(); }
  Constraint_System cons() const { T c(v); return c.constraints(); }
  bool ok() const { return v.OK(); }
  std::string flags() const { std::string s = Ops<T>::flags(v); for (size_t i = 0; i < s.size(); ++i) if (s[i] == ' ' || s[i] == '\n') s[i] = '_'; return s.empty() ? "-" : s; }
  void join(const Shape& y) { v.upper_bound_assign(static_cast<const ShapeT<T>&>(y).v); }
  void widen(const std::string& W, const Shape& y, unsigned* tp) { Ops<T>::widen(v, W, static_cast<const ShapeT<T>&>(y).v, tp); }
  void lim(const std::string& W, const Shape& y, const Constraint_System& cs, unsigned* tp) { Ops<T>::lim(v, W, static_cast<const ShapeT<T>&>(y).v, cs, tp); }
  Shape* route(const std::string& r, unsigned long seed) const {
    Rng rng(seed);
    unsigned d = v.space_dimension();
    T s(v);
    if (r == "copy") return new ShapeT<T>(v);
    if (r == "closed") { T t(v); (void) t.minimized_constraints(); return new ShapeT<T>(t); }   // closure / reduction computed in place
    if (r == "empt") { T t(v); (void) t.is_empty(); return new ShapeT<T>(t); }
    std::vector<Constraint> cv;
    { Constraint_System cs = (r == "cons") ? s.constraints() : s.minimized_constraints();
      for (Constraint_System::const_iterator i = cs.begin(); i != cs.end(); ++i) cv.push_back(*i); }
    if (r == "cons" || r == "mcons") {
      T t(d, UNIVERSE); for (size_t i = 0; i < cv.size(); ++i) t.refine_with_constraint(cv[i]); return new ShapeT<T>(t); }
    if (r == "poly") {
      Constraint_System cs; if (d > 0) cs.set_space_dimension(d); for (size_t i = 0; i < cv.size(); ++i) cs.insert(cv[i]);
      if (cs.has_strict_inequalities()) { NNC_Polyhedron ph(cs); T t(ph, ANY_COMPLEXITY); return new ShapeT<T>(t); }
      C_Polyhedron ph(cs); T t(ph, ANY_COMPLEXITY); return new ShapeT<T>(t); }
    if (r == "addc" || r == "consred") {
      std::vector<Constraint> all(cv);
      if (r == "consred") {
        size_t n0 = cv.size();
        for (unsigned k = 0; k < 4 && n0 > 0; ++k) {
          const Constraint& a = cv[rng.below(n0)]; const Constraint& b = cv[rng.below(n0)];
          if (a.is_inequality()) { Linear_Expression l(a.expression()); l += (1 + rng.below(4)); all.push_back(l >= 0); }
          if (a.is_inequality() && b.is_inequality()) { Linear_Expression ea(a.expression()), eb(b.expression()); all.push_back(ea + eb >= 0); }
        }
      }
      shuffle(all, rng);
      T t(d, UNIVERSE);
      // redundant sums may fall outside the class of the shape: refine ignores those (they are implied anyway)
      for (size_t i = 0; i < all.size(); ++i) t.refine_with_constraint(all[i]);
      return new ShapeT<T>(t);
    }
    throw std::runtime_error("case: unknown shape route " + r);
  }
};

typedef std::map<int, Shape*> SPool;
static SPool spool;
static Shape* sget(int id) { SPool::iterator i = spool.find(id); if (i == spool.end()) throw std::runtime_error("case: unknown shape object"); return i->second; }
static void sput(int id, Shape* p) { SPool::iterator i = spool.find(id); if (i != spool.end()) { delete i->second; i->second = p; } else spool[id] = p; }
static bool is_shape_kind(const std::string& k) { return k == "BDS" || k == "OCT" || k == "BOX"; }
static void print_sstate(const char* tag, int id, const Shape& o) {
  std::cout << tag << " " << id << " " << o.kind() << " " << o.dim() << " " << o.flags() << " ";
  print_cons(std::cout, o.cons(), o.dim());
  std::cout << " gens 0 ok " << (o.ok() ? 1 : 0) << "\n";
}
static Shape* new_shape(const std::string& kind, unsigned dim, const std::string& how, Toks& tk) {
  Constraint_System cs; bool empty = (how == "empty");
  if (how == "cons") cs = read_cons(tk, dim);
  else if (how != "universe" && how != "empty") throw std::runtime_error("case: bad new");
  if (kind == "BDS") { BDS t(dim, empty ? EMPTY : UNIVERSE); if (how == "cons") t.add_constraints(cs); return new ShapeT<BDS>(t); }
  if (kind == "OCT") { OCT t(dim, empty ? EMPTY : UNIVERSE); if (how == "cons") t.add_constraints(cs); return new ShapeT<OCT>(t); }
  Rational_Box t(dim, empty ? EMPTY : UNIVERSE); if (how == "cons") t.add_constraints(cs); return new ShapeT<Rational_Box>(t);
}

// ---------------------------------------------------------------------------------------------------------------
// the EMPTY set in every emptiness state:  newe <id> <topo> <dim> <state> <seed>
//   marked   built EMPTY                       addc     ordinary bounds + an inconsistent pair through add_constraint,
//   refine   the same through refine_with_constraint        never queried
//   cons     constructor from the inconsistent system        meet     intersection of two disjoint non-empty objects
//   queried  addc, then is_empty()                           minq     addc, then minimized_constraints()
//   pend     (polyhedra) a minimized non-empty object, then the inconsistent constraint left pending
static void empty_system(Rng& rng, unsigned dim, bool strict_ok, bool relational_ok, std::vector<Constraint>& ord, std::vector<Constraint>& bad) {
  unsigned v = rng.below(dim);
  for (unsigned i = 0; i < dim; ++i) {
    if (i == v || rng.below(3) == 0) continue;
    long lo = (long) rng.below(6) - 3, hi = lo + (long) rng.below(5);
    ord.push_back(Variable(i) >= lo); if (rng.below(4)) ord.push_back(Variable(i) <= hi);
  }
  long a = (long) rng.below(7) - 2; unsigned k = rng.below(4);
  if (k == 0 && strict_ok) { bad.push_back(Variable(v) > a); bad.push_back(Variable(v) <= a); }
  else if (k == 1) { bad.push_back(Variable(v) == a); bad.push_back(Variable(v) == a + 1 + (long) rng.below(3)); }
  else if (k == 2 && relational_ok && dim > 1) { unsigned u = (v + 1 + rng.below(dim - 1)) % dim;
    bad.push_back(Variable(v) - Variable(u) >= 1 + (long) rng.below(2)); bad.push_back(Variable(u) - Variable(v) >= 0);
    ord.push_back(Variable(u) >= a); }
  else { bad.push_back(Variable(v) >= a + 1 + (long) rng.below(3)); bad.push_back(Variable(v) <= a); }
}
static Polyhedron* empty_poly(bool c, unsigned dim, const std::string& st, unsigned long seed) {
  Rng rng(seed);
  if (st == "marked" || dim == 0) return make(c, dim, EMPTY);
  std::vector<Constraint> ord, bad; empty_system(rng, dim, !c, true, ord, bad);
  Polyhedron* p = 0;
  if (st == "cons") { Constraint_System cs; cs.set_space_dimension(dim); for (size_t i = 0; i < ord.size(); ++i) cs.insert(ord[i]); for (size_t i = 0; i < bad.size(); ++i) cs.insert(bad[i]); return make(c, cs); }
  if (st == "meet") { p = make(c, dim, UNIVERSE); Polyhedron* q = make(c, dim, UNIVERSE);
    for (size_t i = 0; i < ord.size(); ++i) { p->add_constraint(ord[i]); q->add_constraint(ord[i]); }
    p->add_constraint(bad[0]); q->add_constraint(bad[1]); p->intersection_assign(*q); delete q; return p; }
  if (st == "pend") { p = make(c, dim, UNIVERSE); for (size_t i = 0; i < ord.size(); ++i) p->add_constraint(ord[i]); p->add_constraint(bad[0]); p->minimize(); p->add_constraint(bad[1]); return p; }
  p = make(c, dim, UNIVERSE);
  if (st == "refine") { for (size_t i = 0; i < ord.size(); ++i) p->refine_with_constraint(ord[i]); for (size_t i = 0; i < bad.size(); ++i) p->refine_with_constraint(bad[i]); return p; }
  for (size_t i = 0; i < ord.size(); ++i) p->add_constraint(ord[i]); for (size_t i = 0; i < bad.size(); ++i) p->add_constraint(bad[i]);
  if (st == "addc") return p;
  if (st == "queried") { (void) p->is_empty(); return p; }
  if (st == "minq") { (void) p->minimized_constraints(); return p; }
  delete p; throw std::runtime_error("case: unknown emptiness state " + st);
}
template <typename T> static Shape* empty_shape_t(unsigned dim, const std::string& st, unsigned long seed, bool strict_ok, bool relational_ok) {
  Rng rng(seed);
  if (st == "marked" || dim == 0) return new ShapeT<T>(T(dim, EMPTY));
  std::vector<Constraint> ord, bad; empty_system(rng, dim, strict_ok, relational_ok, ord, bad);
  if (st == "cons") { Constraint_System cs; cs.set_space_dimension(dim); for (size_t i = 0; i < ord.size(); ++i) cs.insert(ord[i]); for (size_t i = 0; i < bad.size(); ++i) cs.insert(bad[i]); return new ShapeT<T>(T(cs)); }
  if (st == "meet") { T p(dim, UNIVERSE), q(dim, UNIVERSE);
    for (size_t i = 0; i < ord.size(); ++i) { p.add_constraint(ord[i]); q.add_constraint(ord[i]); }
    p.add_constraint(bad[0]); q.add_constraint(bad[1]); p.intersection_assign(q); return new ShapeT<T>(p); }
  T p(dim, UNIVERSE);
  if (st == "refine") { for (size_t i = 0; i < ord.size(); ++i) p.refine_with_constraint(ord[i]); for (size_t i = 0; i < bad.size(); ++i) p.refine_with_constraint(bad[i]); return new ShapeT<T>(p); }
  for (size_t i = 0; i < ord.size(); ++i) p.add_constraint(ord[i]); for (size_t i = 0; i < bad.size(); ++i) p.add_constraint(bad[i]);
  if (st == "addc" || st == "pend") return new ShapeT<T>(p);
  if (st == "queried") { (void) p.is_empty(); return new ShapeT<T>(p); }
  if (st == "minq") { (void) p.minimized_constraints(); return new ShapeT<T>(p); }
  throw std::runtime_error("case: unknown emptiness state " + st);
}
static Shape* empty_shape(const std::string& kind, unsigned dim, const std::string& st, unsigned long seed) {
  if (kind == "BDS") return empty_shape_t<BDS>(dim, st, seed, false, true);
  if (kind == "OCT") return empty_shape_t<OCT>(dim, st, seed, false, true);
  return empty_shape_t<Rational_Box>(dim, st, seed, true, false);
}

static void widen_call(const std::string& W, Polyhedron& x, const Polyhedron& y, unsigned* tp) {
  if (W == "H79") x.H79_widening_assign(y, tp);
  else if (W == "BHRZ03") x.BHRZ03_widening_assign(y, tp);
  else throw std::runtime_error("case: unknown widening " + W);
}
static void lim_call(const std::string& W, const std::string& kind, Polyhedron& x, const Polyhedron& y,
                     const Constraint_System& cs, unsigned* tp) {
  if (W == "H79" && kind == "limited") x.limited_H79_extrapolation_assign(y, cs, tp);
  else if (W == "H79" && kind == "bounded") x.bounded_H79_extrapolation_assign(y, cs, tp);
  else if (W == "BHRZ03" && kind == "limited") x.limited_BHRZ03_extrapolation_assign(y, cs, tp);
  else if (W == "BHRZ03" && kind == "bounded") x.bounded_BHRZ03_extrapolation_assign(y, cs, tp);
  else throw std::runtime_error("case: unknown extrapolation " + W + " " + kind);
}

static void print_bcert(const BHRZ03_Certificate& b) {
  std::cout << " b " << b.affine_dim << " " << b.lin_space_dim << " " << b.num_constraints << " " << b.num_points
            << " " << b.num_rays_null_coord.size();
  for (size_t i = 0; i < b.num_rays_null_coord.size(); ++i) std::cout << " " << b.num_rays_null_coord[i];
  std::cout << " ok " << (b.OK() ? 1 : 0);
}

static void do_cert(int id) {
  const Polyhedron& orig = *get(id);
  Polyhedron* a = clone(orig);
  if (a->is_empty()) { std::cout << "cert " << id << " empty\n"; delete a; return; }
  delete a;
  Polyhedron* p1 = clone(orig); Polyhedron* p2 = clone(orig); Polyhedron* p3 = clone(orig);
  BHRZ03_Certificate b(*p1);
  H79_Certificate h(*p2);
  std::cout << "cert " << id; print_bcert(b);
  std::cout << " h " << h.affine_dim << " " << h.num_constraints << " min ";
  unsigned d = p3->space_dimension();
  print_cons(std::cout, p3->minimized_constraints(), d); std::cout << " ";
  print_gens(std::cout, p3->minimized_generators(), d); std::cout << "\n";
  delete p1; delete p2; delete p3;
}

static void do_cmp(int ia, int ib) {
  Polyhedron* a1 = clone(*get(ia)); Polyhedron* a2 = clone(*get(ia));
  Polyhedron* b1 = clone(*get(ib)); Polyhedron* b2 = clone(*get(ib)); Polyhedron* b3 = clone(*get(ib));
  Polyhedron* b4 = clone(*get(ib)); Polyhedron* b5 = clone(*get(ib));
  BHRZ03_Certificate ca(*a1), cb(*b1);
  H79_Certificate ha(*a2), hb(*b2);
  std::cout << "cmp " << ia << " " << ib << " B " << ca.compare(cb) << " " << ca.compare(*b3) << " "
            << (ca.is_stabilizing(*b4) ? 1 : 0) << " " << (BHRZ03_Certificate::Compare()(ca, cb) ? 1 : 0)
            << " H " << ha.compare(hb) << " " << ha.compare(*b5) << " " << (H79_Certificate::Compare()(ha, hb) ? 1 : 0) << "\n";
  delete a1; delete a2; delete b1; delete b2; delete b3; delete b4; delete b5;
}

// ps <k> x1..xk <m> y1..ym : the multiset ordering of the powerset widening on the certificates of the listed
// polyhedra: builds two Pointset_Powerset<C_Polyhedron|NNC_Polyhedron> WITHOUT omega-reduction interfering
// (collect_certificates is called on the sequences as given) and prints the multisets and the verdict of
// x.is_cert_multiset_stabilizing(collect(y)).
template <typename PH>
static void do_ps_t(const std::vector<int>& xs, const std::vector<int>& ys, unsigned dim) {
  typedef Pointset_Powerset<PH> PS;
  typedef std::map<BHRZ03_Certificate, typename PS::size_type, BHRZ03_Certificate::Compare> MS;
  PS x(dim, EMPTY), y(dim, EMPTY);
  // bypass add_disjunct's omega-reduction bookkeeping: push the disjuncts directly
  for (size_t i = 0; i < xs.size(); ++i) { x.sequence.push_back(Determinate<PH>(static_cast<const PH&>(*get(xs[i])))); }
  for (size_t i = 0; i < ys.size(); ++i) { y.sequence.push_back(Determinate<PH>(static_cast<const PH&>(*get(ys[i])))); }
  x.reduced = true; y.reduced = true;
  MS xm, ym;
  x.collect_certificates(xm); y.collect_certificates(ym);
  std::cout << "ps x " << xm.size();
  for (typename MS::const_iterator i = xm.begin(); i != xm.end(); ++i) { print_bcert(i->first); std::cout << " n " << i->second; }
  std::cout << " y " << ym.size();
  for (typename MS::const_iterator i = ym.begin(); i != ym.end(); ++i) { print_bcert(i->first); std::cout << " n " << i->second; }
  std::cout << " stab " << (x.is_cert_multiset_stabilizing(ym) ? 1 : 0) << "\n";
}

int main(int argc, char** argv) {
  if (argc < 2) { std::cerr << "usage: run_widen script\n"; return 2; }
  std::ifstream in(argv[1]); std::string line;
  while (std::getline(in, line)) {
    Toks tk(line); if (!tk.more()) continue;
    std::string cmd = tk.next();
    if (cmd[0] == '#') continue;
    try {
      if (cmd == "case") { for (Pool::iterator i = pool.begin(); i != pool.end(); ++i) delete i->second; pool.clear(); for (SPool::iterator i = spool.begin(); i != spool.end(); ++i) delete i->second; spool.clear(); std::cout << "case " << tk.next() << "\n"; }
      else if (cmd == "end") std::cout << "end\n";
      else {
        try {
          if (cmd == "newe") {
            int id = tk.nextl(); std::string topo = tk.next(); unsigned dim = tk.nextl(); std::string st = tk.next(); unsigned long seed = tk.nextl();
            if (is_shape_kind(topo)) { sput(id, empty_shape(topo, dim, st, seed)); std::cout << "res newe ok\n"; print_sstate("st", id, *sget(id)); }
            else { put(id, empty_poly(topo == "C", dim, st, seed)); std::cout << "res newe ok\n"; print_state("st", id, *get(id)); }
          }
          else if (cmd == "new" && is_shape_kind(tk.t.at(2))) {
            int id = tk.nextl(); std::string kind = tk.next(); unsigned dim = tk.nextl(); std::string how = tk.next();
            sput(id, new_shape(kind, dim, how, tk)); std::cout << "res new ok\n"; print_sstate("st", id, *sget(id)); }
          else if (cmd == "new") { int id = std::atoi(tk.t[1].c_str()); do_new(tk); std::cout << "res new ok\n"; print_state("st", id, *get(id)); }
          else if (cmd == "mk") {
            int id = tk.nextl(); std::string route = tk.next(); int src = tk.nextl(); unsigned long seed = tk.nextl();
            if (spool.count(src)) { sput(id, sget(src)->route(route, seed)); std::cout << "res mk ok\n"; print_sstate("st", id, *sget(id)); }
            else {
            put(id, do_route(route, *get(src), seed));
            std::cout << "res mk ok\n"; print_state("st", id, *get(id)); }
          }
          else if (cmd == "hull") {
            int id = tk.nextl(); int a = tk.nextl(); int b = tk.nextl();
            if (spool.count(a)) { Shape* p = sget(a)->clone(); try { p->join(*sget(b)); } catch (...) { delete p; throw; } sput(id, p); std::cout << "res hull ok\n"; print_sstate("st", id, *sget(id)); }
            else {
            Polyhedron* p = clone(*get(a)); p->upper_bound_assign(*get(b)); put(id, p);
            std::cout << "res hull ok\n"; print_state("st", id, *get(id)); }
          }
          else if (cmd == "widen") {
            std::string W = tk.next(); int id = tk.nextl(); int ix = tk.nextl(); int iy = tk.nextl(); long t = tk.nextl();
            if (spool.count(ix)) {
              Shape* x = sget(ix)->clone(); Shape* y = sget(iy)->clone();
              unsigned tok = t < 0 ? 0 : (unsigned) t;
              try { x->widen(W, *y, t < 0 ? 0 : &tok); } catch (...) { delete x; delete y; throw; }
              sput(id, x);
              std::cout << "res widen ok\n" << "tok " << (t < 0 ? -1L : (long) tok) << "\n";
              print_sstate("st", id, *sget(id)); print_sstate("sty", iy, *y); delete y;
              std::cout.flush(); continue;
            }
            Polyhedron* x = clone(*get(ix)); Polyhedron* y = clone(*get(iy));
            unsigned tok = t < 0 ? 0 : (unsigned) t;
            try { widen_call(W, *x, *y, t < 0 ? 0 : &tok); } catch (...) { delete x; delete y; throw; }
            put(id, x);
            std::cout << "res widen ok\n";
            std::cout << "tok " << (t < 0 ? -1L : (long) tok) << "\n";
            print_state("st", id, *get(id)); print_state("sty", iy, *y);
            delete y;
          }
          else if (cmd == "lim") {
            std::string W = tk.next(); std::string kind = tk.next(); int id = tk.nextl(); int ix = tk.nextl(); int iy = tk.nextl(); long t = tk.nextl();
            if (spool.count(ix)) {
              Shape* x = sget(ix)->clone(); Shape* y = sget(iy)->clone();
              std::string ck = tk.next();
              Constraint_System cs;
              if (ck == "cons") cs = read_cons(tk, x->dim());
              else if (ck == "consx") { Shape* c = x->clone(); cs = c->cons(); delete c; }    // x's own constraints as the limit
              else throw std::runtime_error("case: expected cons");
              unsigned tok = t < 0 ? 0 : (unsigned) t;
              try { x->lim(W, *y, cs, t < 0 ? 0 : &tok); } catch (...) { delete x; delete y; throw; }
              sput(id, x);
              std::cout << "res lim ok\n" << "tok " << (t < 0 ? -1L : (long) tok) << "\n";
              print_sstate("st", id, *sget(id)); print_sstate("sty", iy, *y); delete y;
              std::cout.flush(); continue;
            }
            Polyhedron* x = clone(*get(ix)); Polyhedron* y = clone(*get(iy));
            std::string ck = tk.next();
            Constraint_System cs;
            if (ck == "cons") cs = read_cons(tk, x->space_dimension());
            else if (ck == "consx") { Polyhedron* c = clone(*x); cs = c->minimized_constraints(); delete c; if (x->space_dimension() > 0) cs.set_space_dimension(x->space_dimension()); }
            else throw std::runtime_error("case: expected cons");
            unsigned tok = t < 0 ? 0 : (unsigned) t;
            try { lim_call(W, kind, *x, *y, cs, t < 0 ? 0 : &tok); } catch (...) { delete x; delete y; throw; }
            put(id, x);
            std::cout << "res lim ok\n";
            std::cout << "tok " << (t < 0 ? -1L : (long) tok) << "\n";
            print_state("st", id, *get(id)); print_state("sty", iy, *y);
            delete y;
          }
          else if (cmd == "cert") { int id = tk.nextl(); get(id); std::cout << "res cert ok\n"; do_cert(id); }
          else if (cmd == "cmp") { int a = tk.nextl(); int b = tk.nextl(); get(a); get(b); std::cout << "res cmp ok\n"; do_cmp(a, b); }
          else if (cmd == "ps") {
            long k = tk.nextl(); std::vector<int> xs, ys; for (long i = 0; i < k; ++i) xs.push_back(tk.nextl());
            long m = tk.nextl(); for (long i = 0; i < m; ++i) ys.push_back(tk.nextl());
            const Polyhedron& f = *get(xs.empty() ? ys.at(0) : xs[0]);
            std::cout << "res ps ok\n";
            if (f.topology() == NECESSARILY_CLOSED) do_ps_t<C_Polyhedron>(xs, ys, f.space_dimension());
            else do_ps_t<NNC_Polyhedron>(xs, ys, f.space_dimension());
          }
          else throw std::runtime_error("case: unknown command " + cmd);
        } catch (const std::exception& e) {
          if (std::string(e.what()).substr(0, 5) == "case:") throw;
          std::cout << "res " << cmd << " exn " << exn_class(e) << "\n";
        }
      }
    } catch (const std::exception& e) {
      std::cout << "HARNESS-ERROR " << e.what() << " in: " << line << std::endl;
      return 3;
    }
    std::cout.flush();
  }
  return 0;
}
