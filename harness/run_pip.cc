// C07 harness: interprets PIP_Problem histories against the real library and prints, after every
// solve step, the status and the solution tree WALKED THROUGH THE PUBLIC NODE INTERFACE ONLY
// (as_decision/as_solution, constraints(), art_parameter_begin/end, denominator(), child_node(),
// parametric_values()).  No private access is used in this file.
//
// usage: run_pip <cpu-seconds-per-case>      (cases on stdin, results on stdout)
//
// input, one token sequence per line:
//   case <id>
//   new <dim>                                   PIP_Problem(dim)
//   newcs <dim> <np> p1..pnp <m>                PIP_Problem(dim, first, last, params); m "con" lines follow
//   par <n> i1..in                              add_to_parameter_space_dimensions
//   dims <mv> <mp>                              add_space_dimensions_and_embed
//   con <E|G|S> <k0> <n> a0..a(n-1)             add_constraint       ( E: = 0, G: >= 0, S: > 0 )
//   cons <m>                                    add_constraints; m "con" lines follow
//   ctl <0..4>                                  set_control_parameter (FIRST,DEEPEST,ALL | ROW_FIRST,ROW_MAX_COLUMN)
//   big <i>                                     set_big_parameter_dimension
//   copy | assign                               replace the problem by a copy of itself
//   solve <solve|sat|sol|opt>                   which entry point triggers the resolution
//   end
// output:
//   B <id>                                      case started
//   R <id> <step> <OPT|UNF> ok=<0|1> dim=<d> <tree>
//   X <id> <step> <exception text>
//   R <id> <step> TIMEOUT                       (then the process exits with code 3)
//   Z <id>                                      case finished
// tree := N | S nc na nv <con>*nc <art>*na <val>*nv | D nc na <con>*nc <art>*na <tree> <tree>
// con := (E|G|S) k0 n a0..   art := A den k0 n a0..   val := V k0 n a0..
#include <iostream>
#include <sstream>
#include <string>
#include <vector>
#include <stdexcept>
#include <csignal>
#include <cstdlib>
#include <unistd.h>
#include <sys/time.h>
#include <gmpxx.h>
#include "ppl-config.h"
#include "Init_defs.hh"
#include "Variable_defs.hh"
#include "Variables_Set_defs.hh"
#include "Linear_Expression_defs.hh"
#include "Constraint_defs.hh"
#include "Constraint_System_defs.hh"
#include "PIP_Problem_defs.hh"
#include "PIP_Tree_defs.hh"

using namespace Parma_Polyhedra_Library;
static Parma_Polyhedra_Library::Init ppl_init_object;

static std::string cur_id = "-";
static int cur_step = 0;

static void on_alarm(int) {
  // async-signal-safe enough for a dying process: build the line with write()
  std::string s = "\nR " + cur_id + " " + std::to_string(cur_step) + " TIMEOUT\n";
  ssize_t r = write(1, s.c_str(), s.size()); (void) r;
  _exit(3);
}

// per-case limit in CPU seconds of this process (not wall-clock: the verdict "does not return"
// must not depend on how loaded the machine is)
static void set_cpu_timer(int seconds) {
  struct itimerval it;
  it.it_interval.tv_sec = 0; it.it_interval.tv_usec = 0;
  it.it_value.tv_sec = seconds; it.it_value.tv_usec = 0;
  setitimer(ITIMER_PROF, &it, 0);
}

static void print_expr(std::ostream& os, const Linear_Expression& e) {
  os << e.inhomogeneous_term() << " " << e.space_dimension();
  for (dimension_type i = 0; i < e.space_dimension(); ++i) os << " " << e.coefficient(Variable(i));
}

static void print_node(std::ostream& os, const PIP_Tree_Node* n, const PIP_Problem& pip) {
  if (n == 0) { os << " N"; return; }
  const PIP_Decision_Node* d = n->as_decision();
  const PIP_Solution_Node* s = n->as_solution();
  const Constraint_System& cs = n->constraints();
  dimension_type nc = 0;
  for (Constraint_System::const_iterator c = cs.begin(); c != cs.end(); ++c) ++nc;
  dimension_type na = n->art_parameter_count();
  std::vector<dimension_type> vars;
  if (s != 0) {
    const Variables_Set& ps = pip.parameter_space_dimensions();
    for (dimension_type i = 0; i < pip.space_dimension(); ++i) if (ps.count(i) == 0) vars.push_back(i);
    os << " S " << nc << " " << na << " " << vars.size();
  } else {
    os << " D " << nc << " " << na;
  }
  for (Constraint_System::const_iterator c = cs.begin(); c != cs.end(); ++c) {
    os << " " << (c->is_equality() ? "E" : c->is_strict_inequality() ? "S" : "G") << " ";
    Linear_Expression e(c->expression());
    print_expr(os, e);
  }
  dimension_type seen = 0;
  for (PIP_Tree_Node::Artificial_Parameter_Sequence::const_iterator a = n->art_parameter_begin();
       a != n->art_parameter_end(); ++a, ++seen) {
    os << " A " << a->denominator() << " ";
    print_expr(os, *a);
  }
  if (seen != na) os << " !art_count_mismatch";
  if (s != 0) {
    for (size_t k = 0; k < vars.size(); ++k) {
      os << " V ";
      print_expr(os, s->parametric_values(Variable(vars[k])));
    }
  } else if (d != 0) {
    print_node(os, d->child_node(true), pip);
    print_node(os, d->child_node(false), pip);
  } else {
    os << " !neither_decision_nor_solution";
  }
}

static Constraint read_con(std::istream& is) {
  std::string kind; mpz_class k0; unsigned n;
  is >> kind >> k0 >> n;
  Linear_Expression e;
  for (unsigned i = 0; i < n; ++i) { mpz_class a; is >> a; if (a != 0) e += a * Variable(i); }
  if (n > 0) e += 0 * Variable(n - 1);   // keep the declared space dimension
  e += k0;
  if (kind == "E") return Constraint(e == 0);
  if (kind == "S") return Constraint(e > 0);
  return Constraint(e >= 0);
}

static bool next_line(std::istringstream& ls) {
  std::string line;
  while (std::getline(std::cin, line)) {
    if (line.empty()) continue;
    ls.clear(); ls.str(line); return true;
  }
  return false;
}

int main(int argc, char** argv) {
  int tmo = argc > 1 ? atoi(argv[1]) : 5;
  signal(SIGPROF, on_alarm);
  std::istringstream ls;
  PIP_Problem* pip = 0;
  while (next_line(ls)) {
    std::string op; ls >> op;
    try {
      if (op == "case") {
        ls >> cur_id; cur_step = 0;
        delete pip; pip = 0;
        std::cout << "B " << cur_id << std::endl;
        set_cpu_timer(tmo);
      } else if (op == "end") {
        set_cpu_timer(0);
        delete pip; pip = 0;
        std::cout << "Z " << cur_id << std::endl;
      } else if (op == "new") {
        unsigned d; ls >> d; delete pip; pip = new PIP_Problem(d);
      } else if (op == "newcs") {
        unsigned d, np, m; ls >> d >> np; Variables_Set ps;
        for (unsigned i = 0; i < np; ++i) { unsigned p; ls >> p; ps.insert(p); }
        ls >> m; std::vector<Constraint> v;
        for (unsigned i = 0; i < m; ++i) { std::istringstream l2; next_line(l2); std::string w; l2 >> w; v.push_back(read_con(l2)); }
        delete pip; pip = new PIP_Problem(d, v.begin(), v.end(), ps);
      } else if (pip == 0) {
        throw std::runtime_error("harness: no problem object");
      } else if (op == "par") {
        unsigned n; ls >> n; Variables_Set ps;
        for (unsigned i = 0; i < n; ++i) { unsigned p; ls >> p; ps.insert(p); }
        pip->add_to_parameter_space_dimensions(ps);
      } else if (op == "dims") {
        unsigned mv, mp; ls >> mv >> mp; pip->add_space_dimensions_and_embed(mv, mp);
      } else if (op == "con") {
        pip->add_constraint(read_con(ls));
      } else if (op == "cons") {
        unsigned m; ls >> m; Constraint_System cs;
        for (unsigned i = 0; i < m; ++i) { std::istringstream l2; next_line(l2); std::string w; l2 >> w; cs.insert(read_con(l2)); }
        pip->add_constraints(cs);
      } else if (op == "ctl") {
        int v; ls >> v;
        static const PIP_Problem::Control_Parameter_Value tab[5] = {
          PIP_Problem::CUTTING_STRATEGY_FIRST, PIP_Problem::CUTTING_STRATEGY_DEEPEST, PIP_Problem::CUTTING_STRATEGY_ALL,
          PIP_Problem::PIVOT_ROW_STRATEGY_FIRST, PIP_Problem::PIVOT_ROW_STRATEGY_MAX_COLUMN };
        pip->set_control_parameter(tab[v % 5]);
      } else if (op == "big") {
        unsigned b; ls >> b; pip->set_big_parameter_dimension(b);
      } else if (op == "copy") {
        PIP_Problem* c = new PIP_Problem(*pip); delete pip; pip = c;
      } else if (op == "assign") {
        PIP_Problem* c = new PIP_Problem(0); *c = *pip; delete pip; pip = c;
      } else if (op == "solve") {
        std::string mode; ls >> mode; ++cur_step;
        bool opt; const PIP_Tree_Node* root = 0;
        if (mode == "sat") { opt = pip->is_satisfiable(); root = pip->solution(); }
        else if (mode == "sol") { root = pip->solution(); opt = (root != 0); }
        else if (mode == "opt") { root = pip->optimizing_solution(); opt = (root != 0); }
        else { opt = (pip->solve() == OPTIMIZED_PIP_PROBLEM); root = pip->solution(); }
        // a second call must give the same status (the result is cached)
        bool again = (pip->solve() == OPTIMIZED_PIP_PROBLEM);
        std::ostringstream os;
        os << "R " << cur_id << " " << cur_step << " " << (opt ? "OPT" : "UNF")
           << " ok=" << ((pip->OK() && again == opt && (root != 0) == opt) ? 1 : 0) << " dim=" << pip->space_dimension();
        print_node(os, root, *pip);
        std::cout << os.str() << std::endl;
      } else {
        throw std::runtime_error("harness: unknown op " + op);
      }
    } catch (const std::exception& e) {
      std::string w = e.what();
      for (size_t i = 0; i < w.size(); ++i) if (w[i] == '\n') w[i] = ' ';
      std::cout << "X " << cur_id << " " << cur_step << " " << w << std::endl;
    }
  }
  delete pip;
  return 0;
}
