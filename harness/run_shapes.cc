// Case-language interpreter for boxes, BD shapes and octagonal shapes over several coefficient types,
// against the real library (C03 / C04).
// usage: run_shapes <casefile>   (observations on stdout)
//
// Objects live in a pool; each has a KIND:
//   main kinds (full interface):   bds_q bds_z bds_i8 bds_d   oct_q oct_z oct_i8 oct_d   box_q box_z box_i8 box_d
//   source-only kinds:             cpoly nncpoly grid gens
// Lines:
//   case <id>
//   new <id> <kind> <dim> universe | empty | cons K <con>.. | gens K <gen>.. | cgs K <cg>.. | from <src-id> <poly|simplex|any>
//   copy <id> <src-id>
//   op <id> <name> args..        qry <id> <name> args..       stall        end
// After every new/copy/op the receiver's state is printed WITHOUT moving its lazy state:
//   st <id> <kind> <dim> <flags> rep E | rep M <rows> <entries..> | rep B <n> <lo hi>..   cons K ..  ok b
// (rep read from the object itself through private access; cons from a copy).
#define VH_PRIVATE_ACCESS
#include "vh_common.hh"
#include <cmath>
using namespace Parma_Polyhedra_Library;
using namespace vh;

// ---- the box instantiations of interfaces/interfaced_boxes.hh (not part of src/) ----
struct VZ_Box_Interval_Info_Policy {
  const_bool_nodef(store_special, true); const_bool_nodef(store_open, false); const_bool_nodef(cache_empty, true);
  const_bool_nodef(cache_singleton, true); const_bool_nodef(cache_normalized, false); const_int_nodef(next_bit, 0);
  const_bool_nodef(may_be_empty, true); const_bool_nodef(may_contain_infinity, false);
  const_bool_nodef(check_empty_result, false); const_bool_nodef(check_inexact, false);
};
struct VFP_Box_Interval_Info_Policy {
  const_bool_nodef(store_special, false); const_bool_nodef(store_open, true); const_bool_nodef(cache_empty, true);
  const_bool_nodef(cache_singleton, true); const_bool_nodef(cache_normalized, false); const_int_nodef(next_bit, 0);
  const_bool_nodef(may_be_empty, true); const_bool_nodef(may_contain_infinity, false);
  const_bool_nodef(check_empty_result, false); const_bool_nodef(check_inexact, false);
};
typedef Box<Interval<mpz_class, Interval_Info_Bitset<unsigned int, VZ_Box_Interval_Info_Policy> > > VZ_Box;
typedef Box<Interval<int8_t, Interval_Info_Bitset<unsigned int, VZ_Box_Interval_Info_Policy> > > VI8_Box;
typedef Box<Interval<double, Interval_Info_Bitset<unsigned int, VFP_Box_Interval_Info_Policy> > > VD_Box;

// ---- exact printing of bounds ----
template <typename N> static void print_ext(std::ostream& o, const N& x) {
  if (is_plus_infinity(x)) { o << "+inf"; return; }
  if (is_minus_infinity(x)) { o << "-inf"; return; }
  if (is_not_a_number(x)) { o << "nan"; return; }
  mpq_class q; assign_r(q, x, ROUND_NOT_NEEDED); q.canonicalize();
  o << q.get_num() << "/" << q.get_den();
}
template <typename T> static void print_raw(std::ostream& o, const T& x) {
  mpq_class q; assign_r(q, x, ROUND_NOT_NEEDED); q.canonicalize();
  o << q.get_num() << "/" << q.get_den();
}

template <typename T> static void dump_rep(std::ostream& o, const BD_Shape<T>& x) {
  if (x.marked_empty()) { o << "rep E"; return; }
  dimension_type r = x.dbm.num_rows();
  o << "rep M " << r;
  for (dimension_type i = 0; i < r; ++i) for (dimension_type j = 0; j < r; ++j) { o << " "; print_ext(o, x.dbm[i][j]); }
}
template <typename T> static void dump_rep(std::ostream& o, const Octagonal_Shape<T>& x) {
  if (x.marked_empty()) { o << "rep E"; return; }
  dimension_type r = 2 * x.space_dimension();
  o << "rep M " << r;
  for (dimension_type i = 0; i < r; ++i) {
    typename OR_Matrix<typename Octagonal_Shape<T>::N>::const_row_iterator it = x.matrix.row_begin() + i;
    typename OR_Matrix<typename Octagonal_Shape<T>::N>::const_row_reference_type row = *it;
    dimension_type rs = OR_Matrix<typename Octagonal_Shape<T>::N>::row_size(i);
    for (dimension_type j = 0; j < rs; ++j) { o << " "; print_ext(o, row[j]); }
  }
}
template <typename ITV> static void dump_rep(std::ostream& o, const Box<ITV>& x) {
  if (x.marked_empty()) { o << "rep E"; return; }
  dimension_type n = x.space_dimension();
  o << "rep B " << n;
  for (dimension_type k = 0; k < n; ++k) {
    const ITV& i = x.seq[k];
    if (i.is_empty()) { o << " e e"; continue; }
    if (i.lower_is_boundary_infinity()) o << " -inf"; else { o << (i.lower_is_open() ? " o" : " c"); print_raw(o, i.lower()); }
    if (i.upper_is_boundary_infinity()) o << " +inf"; else { o << (i.upper_is_open() ? " o" : " c"); print_raw(o, i.upper()); }
  }
}
template <typename T> static void force_closure(BD_Shape<T>& x) { x.shortest_path_closure_assign(); }
template <typename T> static void force_closure(Octagonal_Shape<T>& x) { x.strong_closure_assign(); }
template <typename ITV> static void force_closure(Box<ITV>& x) { (void) x.is_empty(); }
// propagate_constraint(s) exists for boxes only
template <typename T> static void do_propagate(BD_Shape<T>&, const Constraint_System&) { throw std::runtime_error("case: propagate on a BD shape"); }
template <typename T> static void do_propagate(Octagonal_Shape<T>&, const Constraint_System&) { throw std::runtime_error("case: propagate on an octagon"); }
template <typename ITV> static void do_propagate(Box<ITV>& x, const Constraint_System& cs) {
  Constraint_System::const_iterator i = cs.begin(); unsigned k = 0; for (Constraint_System::const_iterator j = cs.begin(); j != cs.end(); ++j) ++k;
  if (k == 1) x.propagate_constraint(*i); else x.propagate_constraints(cs);
}
// integer_upper_bound_assign_if_exact exists (compile-time check) for integer carriers of BD shapes / octagons only
template <bool IS_INT> struct IntUB { template <typename D> static bool go(D&, const D&) { throw std::runtime_error("case: integer_upper_bound_assign_if_exact on a non-integer carrier"); } };
template <> struct IntUB<true> { template <typename D> static bool go(D& x, const D& y) { return x.integer_upper_bound_assign_if_exact(y); } };
template <typename T> static bool int_ub(BD_Shape<T>& x, const BD_Shape<T>& y) { return IntUB<std::numeric_limits<T>::is_integer>::go(x, y); }
template <typename T> static bool int_ub(Octagonal_Shape<T>& x, const Octagonal_Shape<T>& y) { return IntUB<std::numeric_limits<T>::is_integer>::go(x, y); }
template <typename ITV> static bool int_ub(Box<ITV>&, const Box<ITV>&) { throw std::runtime_error("case: integer_upper_bound_assign_if_exact on a box"); }
template <typename T> static void force_reduction(BD_Shape<T>& x) { x.shortest_path_reduction_assign(); }
template <typename T> static void force_reduction(Octagonal_Shape<T>& x) { x.strong_reduction_assign(); }
template <typename ITV> static void force_reduction(Box<ITV>& x) { (void) x.is_empty(); }
template <typename T> static void force_incremental(BD_Shape<T>& x, unsigned v) { if (!x.marked_empty() && x.space_dimension() > 0) x.incremental_shortest_path_closure_assign(Variable(v)); }
template <typename T> static void force_incremental(Octagonal_Shape<T>& x, unsigned v) { if (!x.marked_empty() && x.space_dimension() > 0) x.incremental_strong_closure_assign(Variable(v)); }
template <typename ITV> static void force_incremental(Box<ITV>& x, unsigned) { (void) x.is_empty(); }

struct PFunc {
  std::vector<long> m; unsigned maxc;
  PFunc() : maxc(0) {}
  bool has_empty_codomain() const { for (size_t i = 0; i < m.size(); ++i) if (m[i] >= 0) return false; return true; }
  dimension_type max_in_codomain() const { return maxc; }
  bool maps(dimension_type i, dimension_type& j) const { if (i >= m.size() || m[i] < 0) return false; j = m[i]; return true; }
};

struct Obj;
typedef std::map<int, Obj*> Pool;
static Pool pool;

struct Obj {
  virtual ~Obj() {}
  virtual const char* kind() const = 0;
  virtual Obj* clone() const = 0;
  virtual unsigned dim() const = 0;
  virtual void print_state(int id) const = 0;
  virtual void op(Toks&) { throw std::runtime_error("case: op on a source-only object"); }
  virtual void qry(Toks&) { throw std::runtime_error("case: qry on a source-only object"); }
};
static Obj* get(int id) { Pool::iterator i = pool.find(id); if (i == pool.end()) throw std::runtime_error("case: unknown object"); return i->second; }
static void put(int id, Obj* p) { Pool::iterator i = pool.find(id); if (i != pool.end()) { delete i->second; i->second = p; } else pool[id] = p; }

static std::string squash(std::string s) { for (size_t i = 0; i < s.size(); ++i) if (s[i] == ' ' || s[i] == '\n') s[i] = '_'; return s; }

struct PolyObj : Obj {
  Polyhedron* p;
  PolyObj(Polyhedron* q) : p(q) {}
  ~PolyObj() { delete p; }
  bool closed() const { return p->topology() == NECESSARILY_CLOSED; }
  const char* kind() const { return closed() ? "cpoly" : "nncpoly"; }
  Obj* clone() const { return new PolyObj(closed() ? (Polyhedron*) new C_Polyhedron(static_cast<const C_Polyhedron&>(*p)) : new NNC_Polyhedron(static_cast<const NNC_Polyhedron&>(*p))); }
  unsigned dim() const { return p->space_dimension(); }
  void print_state(int id) const {
    // printed from a copy: the source keeps its own lazy state (constraints not minimized, generators pending...)
    PolyObj* c = static_cast<PolyObj*>(clone());
    std::cout << "st " << id << " " << kind() << " " << dim() << " - rep P ";
    print_cons(std::cout, c->p->minimized_constraints(), dim());
    std::cout << " ok " << (p->OK() ? 1 : 0) << "\n";
    delete c;
  }
};
struct GridObj : Obj {
  Grid g;
  GridObj(const Grid& x) : g(x) {}
  const char* kind() const { return "grid"; }
  Obj* clone() const { return new GridObj(g); }
  unsigned dim() const { return g.space_dimension(); }
  void print_state(int id) const {
    Grid c(g);
    std::cout << "st " << id << " grid " << dim() << " - rep G " << (c.is_empty() ? 1 : 0) << " ";
    print_cgs(std::cout, c.minimized_congruences(), dim());
    std::cout << " ok " << (g.OK() ? 1 : 0) << "\n";
  }
};
struct GensObj : Obj {
  Generator_System gs; unsigned d;
  GensObj(const Generator_System& x, unsigned dd) : gs(x), d(dd) {}
  const char* kind() const { return "gens"; }
  Obj* clone() const { return new GensObj(gs, d); }
  unsigned dim() const { return d; }
  void print_state(int id) const {
    std::cout << "st " << id << " gens " << d << " - rep S "; print_gens(std::cout, gs, d); std::cout << " ok 1\n";
  }
};

static Complexity_Class read_cx(Toks& tk) {
  std::string c = tk.next();
  if (c == "poly") return POLYNOMIAL_COMPLEXITY; if (c == "simplex") return SIMPLEX_COMPLEXITY; if (c == "any") return ANY_COMPLEXITY;
  throw std::runtime_error("case: bad complexity " + c);
}
static void print_rel(const Poly_Con_Relation& r) {
  std::cout << "ans rel " << (r.implies(Poly_Con_Relation::is_disjoint()) ? 1 : 0) << " "
            << (r.implies(Poly_Con_Relation::is_included()) ? 1 : 0) << " "
            << (r.implies(Poly_Con_Relation::saturates()) ? 1 : 0) << " "
            << (r.implies(Poly_Con_Relation::strictly_intersects()) ? 1 : 0) << "\n";
}
#define ANSB(e) do { bool b_ = (e); std::cout << "ans b " << b_ << "\n"; } while (0)

template <typename D> struct DomObj;
template <typename D> static D* try_from(const Obj* s, Complexity_Class cx);

template <typename D> struct DomObj : Obj {
  D x; const char* k;
  DomObj(const D& y, const char* kk) : x(y), k(kk) {}
  const char* kind() const { return k; }
  Obj* clone() const { return new DomObj<D>(x, k); }
  unsigned dim() const { return x.space_dimension(); }
  void print_state(int id) const {
    std::ostringstream fl; x.status.ascii_dump(fl);
    std::cout << "st " << id << " " << k << " " << dim() << " " << squash(fl.str()) << " ";
    dump_rep(std::cout, x);
    std::cout << " ";
    D c(x);
    print_cons(std::cout, c.constraints(), dim());
    std::cout << " ok " << (x.OK() ? 1 : 0) << "\n";
  }
  const D& arg(Toks& tk) const {
    Obj* o = get(tk.nextl()); DomObj<D>* d = dynamic_cast<DomObj<D>*>(o);
    if (!d) throw std::runtime_error("case: argument of a different kind");
    return d->x;
  }
  void op(Toks& tk) {
    std::string op = tk.next(); unsigned dim = x.space_dimension();
    if (op == "add_constraint") x.add_constraint(read_con(tk, dim));
    else if (op == "refine_with_constraint") x.refine_with_constraint(read_con(tk, dim));
    else if (op == "add_constraints") x.add_constraints(read_cons(tk, dim));
    else if (op == "refine_with_constraints") x.refine_with_constraints(read_cons(tk, dim));
    else if (op == "propagate_constraints") do_propagate(x, read_cons(tk, dim));
    else if (op == "add_recycled_constraints") { Constraint_System cs = read_cons(tk, dim); x.add_recycled_constraints(cs); }
    else if (op == "add_congruence") x.add_congruence(read_cg(tk, dim));
    else if (op == "refine_with_congruence") x.refine_with_congruence(read_cg(tk, dim));
    else if (op == "add_congruences") x.add_congruences(read_cgs(tk, dim));
    else if (op == "refine_with_congruences") x.refine_with_congruences(read_cgs(tk, dim));
    else if (op == "intersection_assign") x.intersection_assign(arg(tk));
    else if (op == "upper_bound_assign") x.upper_bound_assign(arg(tk));
    else if (op == "difference_assign") x.difference_assign(arg(tk));
    else if (op == "time_elapse_assign") x.time_elapse_assign(arg(tk));
    else if (op == "concatenate_assign") x.concatenate_assign(arg(tk));
    else if (op == "topological_closure_assign") x.topological_closure_assign();
    else if (op == "upper_bound_assign_if_exact") { bool b = x.upper_bound_assign_if_exact(arg(tk)); std::cout << "ret " << (b ? 1 : 0) << "\n"; }
    else if (op == "simplify_using_context_assign") { bool b = x.simplify_using_context_assign(arg(tk)); std::cout << "ret " << (b ? 1 : 0) << "\n"; }
    else if (op == "affine_image" || op == "affine_preimage") {
      unsigned v = tk.nextl(); mpz_class den = tk.nextz(); mpz_class b; Linear_Expression e = read_expr_n(tk, b);
      if (op == "affine_image") x.affine_image(Variable(v), e, den); else x.affine_preimage(Variable(v), e, den);
    }
    else if (op == "generalized_affine_image" || op == "generalized_affine_preimage") {
      unsigned v = tk.nextl(); Relation_Symbol r = read_rel(tk); mpz_class den = tk.nextz(); mpz_class b; Linear_Expression e = read_expr_n(tk, b);
      if (op == "generalized_affine_image") x.generalized_affine_image(Variable(v), r, e, den); else x.generalized_affine_preimage(Variable(v), r, e, den);
    }
    else if (op == "generalized_affine_image_lhs" || op == "generalized_affine_preimage_lhs") {
      mpz_class b1; Linear_Expression l = read_expr_n(tk, b1); Relation_Symbol r = read_rel(tk); mpz_class b2; Linear_Expression e = read_expr_n(tk, b2);
      if (op == "generalized_affine_image_lhs") x.generalized_affine_image(l, r, e); else x.generalized_affine_preimage(l, r, e);
    }
    else if (op == "bounded_affine_image" || op == "bounded_affine_preimage") {
      unsigned v = tk.nextl(); mpz_class den = tk.nextz(); mpz_class b1; Linear_Expression lb = read_expr_n(tk, b1); mpz_class b2; Linear_Expression ub = read_expr_n(tk, b2);
      if (op == "bounded_affine_image") x.bounded_affine_image(Variable(v), lb, ub, den); else x.bounded_affine_preimage(Variable(v), lb, ub, den);
    }
    else if (op == "unconstrain") x.unconstrain(Variable(tk.nextl()));
    else if (op == "unconstrain_set") { long k = tk.nextl(); Variables_Set vs; for (long i = 0; i < k; ++i) vs.insert(Variable(tk.nextl())); x.unconstrain(vs); }
    else if (op == "add_space_dimensions_and_embed") x.add_space_dimensions_and_embed(tk.nextl());
    else if (op == "add_space_dimensions_and_project") x.add_space_dimensions_and_project(tk.nextl());
    else if (op == "remove_space_dimensions") { long k = tk.nextl(); Variables_Set vs; for (long i = 0; i < k; ++i) vs.insert(Variable(tk.nextl())); x.remove_space_dimensions(vs); }
    else if (op == "remove_higher_space_dimensions") x.remove_higher_space_dimensions(tk.nextl());
    else if (op == "expand_space_dimension") { unsigned v = tk.nextl(); unsigned m = tk.nextl(); x.expand_space_dimension(Variable(v), m); }
    else if (op == "fold_space_dimensions") { long k = tk.nextl(); Variables_Set vs; for (long i = 0; i < k; ++i) vs.insert(Variable(tk.nextl())); unsigned d = tk.nextl(); x.fold_space_dimensions(vs, Variable(d)); }
    else if (op == "map_space_dimensions") { PFunc f; long k = tk.nextl(); for (long i = 0; i < k; ++i) { long j = tk.nextl(); f.m.push_back(j); if (j >= 0 && (unsigned) j > f.maxc) f.maxc = j; } x.map_space_dimensions(f); }
    else if (op == "assign") x = arg(tk);
    else if (op == "swap" || op == "swap_std") {   // the state of the argument is printed too (see main)
      Obj* o = get(tk.nextl()); DomObj<D>* d = dynamic_cast<DomObj<D>*>(o);
      if (!d) throw std::runtime_error("case: argument of a different kind");
      if (op == "swap") x.m_swap(d->x); else { using std::swap; swap(x, d->x); }
    }
    else if (op == "integer_upper_bound_assign_if_exact") { bool b = int_ub(x, arg(tk)); std::cout << "ret " << (b ? 1 : 0) << "\n"; }
    else if (op == "closure") force_closure(x);                 // shortest_path_closure_assign / strong_closure_assign
    else if (op == "reduction") force_reduction(x);             // shortest_path_reduction_assign / strong_reduction_assign
    else if (op == "incremental_closure") {
      // the contract of incremental_*_closure_assign(v): the matrix was closed and then constraints on v only were added
      unsigned v = tk.nextl(); Constraint c = read_con(tk, dim);
      force_closure(x); x.add_constraint(c); force_incremental(x, v);
    }
    else if (op == "obs_constraints") { (void) x.constraints(); }
    else if (op == "obs_minimized_constraints") { (void) x.minimized_constraints(); }
    else if (op == "obs_is_empty") { (void) x.is_empty(); }
    else throw std::runtime_error("case: unknown op " + op);
  }
  void qry(Toks& tk) {
    std::string q = tk.next(); unsigned dim = x.space_dimension();
    if (q == "is_empty") ANSB(x.is_empty());
    else if (q == "is_universe") ANSB(x.is_universe());
    else if (q == "is_bounded") ANSB(x.is_bounded());
    else if (q == "is_topologically_closed") ANSB(x.is_topologically_closed());
    else if (q == "is_discrete") ANSB(x.is_discrete());
    else if (q == "contains_integer_point") ANSB(x.contains_integer_point());
    else if (q == "contains") ANSB(x.contains(arg(tk)));
    else if (q == "strictly_contains") ANSB(x.strictly_contains(arg(tk)));
    else if (q == "is_disjoint_from") ANSB(x.is_disjoint_from(arg(tk)));
    else if (q == "equals") ANSB(x == arg(tk));
    else if (q == "affine_dimension") std::cout << "ans n " << x.affine_dimension() << "\n";
    else if (q == "constrains") ANSB(x.constrains(Variable(tk.nextl())));
    else if (q == "relation_with_con") print_rel(x.relation_with(read_con(tk, dim)));
    else if (q == "relation_with_cg") print_rel(x.relation_with(read_cg(tk, dim)));
    // arguments of SMALLER space dimension than the shape (arity k given explicitly)
    else if (q == "relation_with_con_n") { unsigned k = tk.nextl(); print_rel(x.relation_with(read_con(tk, k))); }
    else if (q == "relation_with_cg_n") { unsigned k = tk.nextl(); print_rel(x.relation_with(read_cg(tk, k))); }
    else if (q == "relation_with_gen_n") { unsigned k = tk.nextl(); Poly_Gen_Relation r = x.relation_with(read_gen(tk, k)); std::cout << "ans b " << (r.implies(Poly_Gen_Relation::subsumes()) ? 1 : 0) << "\n"; }
    else if (q == "relation_with_gen") { Poly_Gen_Relation r = x.relation_with(read_gen(tk, dim)); std::cout << "ans b " << (r.implies(Poly_Gen_Relation::subsumes()) ? 1 : 0) << "\n"; }
    else if (q == "bounds_from_above" || q == "bounds_from_below") { mpz_class b; Linear_Expression e = read_expr_n(tk, b);
      ANSB(q == "bounds_from_above" ? x.bounds_from_above(e) : x.bounds_from_below(e)); }
    else if (q == "maximize" || q == "minimize") {
      mpz_class b; Linear_Expression e = read_expr_n(tk, b); Coefficient n, d; bool m; Generator g = point();
      bool r = (q == "maximize") ? x.maximize(e, n, d, m, g) : x.minimize(e, n, d, m, g);
      if (!r) std::cout << "ans opt 0\n";
      else { std::cout << "ans opt 1 " << n << " " << d << " " << (m ? 1 : 0) << " "; print_gen(std::cout, g, dim); std::cout << "\n"; }
    }
    else if (q == "maximize_nw" || q == "minimize_nw") {
      mpz_class b; Linear_Expression e = read_expr_n(tk, b); Coefficient n, d; bool m;
      bool r = (q == "maximize_nw") ? x.maximize(e, n, d, m) : x.minimize(e, n, d, m);
      if (!r) std::cout << "ans opt 0\n";
      else std::cout << "ans opt 1 " << n << " " << d << " " << (m ? 1 : 0) << "\n";
    }
    else if (q == "frequency") { mpz_class b; Linear_Expression e = read_expr_n(tk, b); Coefficient fn, fd, vn, vd;
      bool r = x.frequency(e, fn, fd, vn, vd);
      if (!r) std::cout << "ans freq 0\n"; else std::cout << "ans freq 1 " << fn << " " << fd << " " << vn << " " << vd << "\n"; }
    else throw std::runtime_error("case: unknown query " + q);
  }
};

typedef BD_Shape<mpq_class> BQ; typedef BD_Shape<mpz_class> BZ; typedef BD_Shape<int8_t> BI; typedef BD_Shape<double> BDb;
typedef Octagonal_Shape<mpq_class> OQ; typedef Octagonal_Shape<mpz_class> OZ; typedef Octagonal_Shape<int8_t> OI; typedef Octagonal_Shape<double> ODb;
typedef Rational_Box XQ; typedef VZ_Box XZ; typedef VI8_Box XI; typedef VD_Box XD;

// constructor of D from any source object
template <typename D, typename S> static D* from_dom(const Obj* s, Complexity_Class cx) {
  const DomObj<S>* d = dynamic_cast<const DomObj<S>*>(s);
  return d ? new D(d->x, cx) : 0;
}
template <typename D> static D* try_from(const Obj* s, Complexity_Class cx) {
  if (const PolyObj* p = dynamic_cast<const PolyObj*>(s)) return new D(*p->p, cx);
  if (const GridObj* g = dynamic_cast<const GridObj*>(s)) return new D(g->g, cx);
  if (const GensObj* g = dynamic_cast<const GensObj*>(s)) return new D(g->gs);
  D* r = 0;
  if ((r = from_dom<D, BQ>(s, cx))) return r; if ((r = from_dom<D, BZ>(s, cx))) return r;
  if ((r = from_dom<D, BI>(s, cx))) return r; if ((r = from_dom<D, BDb>(s, cx))) return r;
  if ((r = from_dom<D, OQ>(s, cx))) return r; if ((r = from_dom<D, OZ>(s, cx))) return r;
  if ((r = from_dom<D, OI>(s, cx))) return r; if ((r = from_dom<D, ODb>(s, cx))) return r;
  if ((r = from_dom<D, XQ>(s, cx))) return r; if ((r = from_dom<D, XZ>(s, cx))) return r;
  if ((r = from_dom<D, XI>(s, cx))) return r; if ((r = from_dom<D, XD>(s, cx))) return r;
  throw std::runtime_error("case: bad source kind");
}

template <typename D> static Obj* new_dom(const char* kind, unsigned dim, const std::string& how, Toks& tk) {
  if (how == "universe") return new DomObj<D>(D(dim, UNIVERSE), kind);
  if (how == "empty") return new DomObj<D>(D(dim, EMPTY), kind);
  if (how == "cons") { Constraint_System cs = read_cons(tk, dim); return new DomObj<D>(D(cs), kind); }
  if (how == "cgs") { Congruence_System cs = read_cgs(tk, dim); return new DomObj<D>(D(cs), kind); }
  if (how == "gens") { Generator_System gs = read_gens(tk, dim); return new DomObj<D>(D(gs), kind); }
  if (how == "twin") {  // rebuilt from the constraints() of another object of the same kind (read from a copy)
    const DomObj<D>* s = dynamic_cast<const DomObj<D>*>(get(tk.nextl()));
    if (!s) throw std::runtime_error("case: twin of a different kind");
    D c(s->x); Constraint_System cs = c.constraints(); D t(c.space_dimension(), UNIVERSE); t.add_constraints(cs);
    return new DomObj<D>(t, kind);
  }
  if (how == "from") { const Obj* s = get(tk.nextl()); Complexity_Class cx = read_cx(tk); D* d = try_from<D>(s, cx); Obj* o = new DomObj<D>(*d, kind); delete d; return o; }
  throw std::runtime_error("case: bad new " + how);
}

#ifndef VH_FAMILY
#define VH_FAMILY 0          // 0 = all main kinds; 1 = BD shapes; 2 = octagons; 3 = boxes
#endif

static Obj* do_new_kind(const std::string& kind, unsigned dim, const std::string& how, Toks& tk) {
  if (kind == "cpoly" || kind == "nncpoly") {
    bool c = (kind == "cpoly"); Polyhedron* p = 0;
    if (how == "universe") p = c ? (Polyhedron*) new C_Polyhedron(dim, UNIVERSE) : new NNC_Polyhedron(dim, UNIVERSE);
    else if (how == "empty") p = c ? (Polyhedron*) new C_Polyhedron(dim, EMPTY) : new NNC_Polyhedron(dim, EMPTY);
    else if (how == "cons") { Constraint_System cs = read_cons(tk, dim); p = c ? (Polyhedron*) new C_Polyhedron(cs) : new NNC_Polyhedron(cs); }
    else if (how == "gens") { Generator_System gs = read_gens(tk, dim); p = c ? (Polyhedron*) new C_Polyhedron(gs) : new NNC_Polyhedron(gs); }
    else throw std::runtime_error("case: bad new poly");
    return new PolyObj(p);
  }
  if (kind == "grid") {
    if (how == "universe") return new GridObj(Grid(dim, UNIVERSE));
    if (how == "empty") return new GridObj(Grid(dim, EMPTY));
    if (how == "cgs") return new GridObj(Grid(read_cgs(tk, dim)));
    throw std::runtime_error("case: bad new grid");
  }
  if (kind == "gens") { if (how != "gens") throw std::runtime_error("case: bad new gens"); return new GensObj(read_gens(tk, dim), dim); }
#if VH_FAMILY == 0 || VH_FAMILY == 1
  if (kind == "bds_q") return new_dom<BQ>("bds_q", dim, how, tk);
  if (kind == "bds_z") return new_dom<BZ>("bds_z", dim, how, tk);
  if (kind == "bds_i8") return new_dom<BI>("bds_i8", dim, how, tk);
  if (kind == "bds_d") return new_dom<BDb>("bds_d", dim, how, tk);
#endif
#if VH_FAMILY == 0 || VH_FAMILY == 2
  if (kind == "oct_q") return new_dom<OQ>("oct_q", dim, how, tk);
  if (kind == "oct_z") return new_dom<OZ>("oct_z", dim, how, tk);
  if (kind == "oct_i8") return new_dom<OI>("oct_i8", dim, how, tk);
  if (kind == "oct_d") return new_dom<ODb>("oct_d", dim, how, tk);
#endif
#if VH_FAMILY == 0 || VH_FAMILY == 3
  if (kind == "box_q") return new_dom<XQ>("box_q", dim, how, tk);
  if (kind == "box_z") return new_dom<XZ>("box_z", dim, how, tk);
  if (kind == "box_i8") return new_dom<XI>("box_i8", dim, how, tk);
  if (kind == "box_d") return new_dom<XD>("box_d", dim, how, tk);
#endif
  throw std::runtime_error("case: kind not built into this harness: " + kind);
}

static bool is_case_err(const std::exception& e) { return std::string(e.what()).substr(0, 5) == "case:"; }

int main(int argc, char** argv) {
  if (argc < 2) { std::cerr << "usage: run_shapes casefile\n"; return 2; }
  std::ifstream in(argv[1]); std::string line;
  while (std::getline(in, line)) {
    Toks tk(line); if (!tk.more()) continue;
    std::string cmd = tk.next();
    if (cmd[0] == '#') continue;
    try {
      if (cmd == "case") { for (Pool::iterator i = pool.begin(); i != pool.end(); ++i) delete i->second; pool.clear(); std::cout << "case " << tk.next() << "\n"; }
      else if (cmd == "end") std::cout << "end\n";
      else if (cmd == "new") {
        int id = tk.nextl(); std::string kind = tk.next(); unsigned dim = tk.nextl(); std::string how = tk.next();
        try { Obj* o = do_new_kind(kind, dim, how, tk); put(id, o); std::cout << "res ok\n"; o->print_state(id); }
        catch (const std::exception& e) {
          if (is_case_err(e)) throw;
          // the constructor refused its argument: the id is bound to the universe of that kind so that the case can go on
          std::cout << "res exn " << exn_class(e) << "\n";
          Toks none(""); Obj* o = do_new_kind(kind, dim, "universe", none); put(id, o); o->print_state(id);
        }
      }
      else if (cmd == "copy") { int id = tk.nextl(); Obj* o = get(tk.nextl())->clone(); put(id, o); std::cout << "res ok\n"; o->print_state(id); }
      else if (cmd == "op") {
        int id = tk.nextl(); Obj* o = get(id);
        try { o->op(tk); std::cout << "res ok\n"; }
        catch (const std::exception& e) { if (is_case_err(e)) throw; std::cout << "res exn " << exn_class(e) << "\n"; }
        o->print_state(id);
        if (tk.t.size() > 3 && (tk.t[2] == "swap" || tk.t[2] == "swap_std")) { int id2 = std::atoi(tk.t[3].c_str()); get(id2)->print_state(id2); }
      }
      else if (cmd == "stall") { for (Pool::iterator i = pool.begin(); i != pool.end(); ++i) i->second->print_state(i->first); std::cout << "endst\n"; }
      else if (cmd == "qry") {
        int id = tk.nextl(); Obj* o = get(id);
        try { o->qry(tk); } catch (const std::exception& e) { if (is_case_err(e)) throw; std::cout << "ans exn " << exn_class(e) << "\n"; }
      }
      else throw std::runtime_error("case: unknown command " + cmd);
    } catch (const std::exception& e) {
      std::cout << "HARNESS-ERROR " << e.what() << " in: " << line << std::endl;
      return 3;
    }
    std::cout.flush();
  }
  return 0;
}
