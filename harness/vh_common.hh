// Shared helpers for the case-language harnesses: token stream, parsing and printing of
// constraints / generators / congruences in the integer text format used by the judges.
#ifndef VH_COMMON_HH
#define VH_COMMON_HH
#include "vh_ppl.hh"
#include <typeinfo>

namespace vh {
using namespace Parma_Polyhedra_Library;

struct Toks {
  std::vector<std::string> t; size_t i;
  Toks(const std::string& line) : i(0) { std::istringstream is(line); std::string w; while (is >> w) t.push_back(w); }
  bool more() const { return i < t.size(); }
  std::string next() { if (i >= t.size()) throw std::runtime_error("case syntax: missing token"); return t[i++]; }
  long nextl() { return std::atol(next().c_str()); }
  mpz_class nextz() { return mpz_class(next()); }
};

inline Linear_Expression read_expr(Toks& tk, unsigned dim, mpz_class& inhomo) {
  // b a0 .. a_{dim-1}
  inhomo = tk.nextz();
  Linear_Expression e;
  if (dim > 0) e.set_space_dimension(dim);
  for (unsigned i = 0; i < dim; ++i) { mpz_class a = tk.nextz(); if (a != 0) e += a * Variable(i); }
  e += inhomo;
  return e;
}
// like read_expr but with an explicit arity (number of coefficients may differ from the object's dimension)
inline Linear_Expression read_expr_n(Toks& tk, mpz_class& inhomo) {
  unsigned n = (unsigned) tk.nextl();
  return read_expr(tk, n, inhomo);
}

inline Constraint read_con(Toks& tk, unsigned dim) {
  std::string k = tk.next(); mpz_class b; Linear_Expression e = read_expr(tk, dim, b);
  if (k == "=") return e == 0; if (k == ">=") return e >= 0; if (k == ">") return e > 0;
  throw std::runtime_error("bad constraint kind " + k);
}
inline Constraint_System read_cons(Toks& tk, unsigned dim) {
  long k = tk.nextl(); Constraint_System cs; if (dim > 0) cs.set_space_dimension(dim);
  for (long i = 0; i < k; ++i) cs.insert(read_con(tk, dim));
  return cs;
}
inline Generator read_gen(Toks& tk, unsigned dim) {
  std::string k = tk.next(); mpz_class d = tk.nextz();
  Linear_Expression e; if (dim > 0) e.set_space_dimension(dim);
  for (unsigned i = 0; i < dim; ++i) { mpz_class a = tk.nextz(); if (a != 0) e += a * Variable(i); }
  if (k == "l") return Generator::line(e); if (k == "r") return Generator::ray(e);
  if (k == "p") return Generator::point(e, d); if (k == "c") return Generator::closure_point(e, d);
  throw std::runtime_error("bad generator kind " + k);
}
inline Generator_System read_gens(Toks& tk, unsigned dim) {
  long k = tk.nextl(); Generator_System gs; if (dim > 0) gs.set_space_dimension(dim);
  for (long i = 0; i < k; ++i) gs.insert(read_gen(tk, dim));
  return gs;
}
inline Congruence read_cg(Toks& tk, unsigned dim) {
  // m b a0..   meaning  a.x + b == 0 (mod m)   (m = 0: equality)
  mpz_class m = tk.nextz(); mpz_class b; Linear_Expression e = read_expr(tk, dim, b);
  if (m == 0) return Congruence(e == 0);
  return (e %= 0) / m;
}
inline Congruence_System read_cgs(Toks& tk, unsigned dim) {
  long k = tk.nextl(); Congruence_System cs(dim);
  for (long i = 0; i < k; ++i) cs.insert(read_cg(tk, dim));
  return cs;
}
inline Relation_Symbol read_rel(Toks& tk) {
  std::string r = tk.next();
  if (r == "<") return LESS_THAN; if (r == "<=") return LESS_OR_EQUAL; if (r == "==") return EQUAL;
  if (r == ">=") return GREATER_OR_EQUAL; if (r == ">") return GREATER_THAN; if (r == "!=") return NOT_EQUAL;
  throw std::runtime_error("bad relsym " + r);
}

inline void print_con(std::ostream& o, const Constraint& c, unsigned dim) {
  o << (c.is_equality() ? "=" : (c.is_strict_inequality() ? ">" : ">=")) << " " << c.inhomogeneous_term();
  for (unsigned i = 0; i < dim; ++i) o << " " << (i < c.space_dimension() ? c.coefficient(Variable(i)) : Coefficient(0));
}
inline void print_cons(std::ostream& o, const Constraint_System& cs, unsigned dim) {
  unsigned k = 0; for (Constraint_System::const_iterator i = cs.begin(); i != cs.end(); ++i) ++k;
  o << "cons " << k;
  for (Constraint_System::const_iterator i = cs.begin(); i != cs.end(); ++i) { o << " "; print_con(o, *i, dim); }
}
inline void print_gen(std::ostream& o, const Generator& g, unsigned dim) {
  const char* k = g.is_line() ? "l" : g.is_ray() ? "r" : g.is_point() ? "p" : "c";
  o << k << " ";
  if (g.is_point() || g.is_closure_point()) o << g.divisor(); else o << 1;
  for (unsigned i = 0; i < dim; ++i) o << " " << (i < g.space_dimension() ? g.coefficient(Variable(i)) : Coefficient(0));
}
inline void print_gens(std::ostream& o, const Generator_System& gs, unsigned dim) {
  unsigned k = 0; for (Generator_System::const_iterator i = gs.begin(); i != gs.end(); ++i) ++k;
  o << "gens " << k;
  for (Generator_System::const_iterator i = gs.begin(); i != gs.end(); ++i) { o << " "; print_gen(o, *i, dim); }
}
inline void print_cg(std::ostream& o, const Congruence& c, unsigned dim) {
  o << c.modulus() << " " << c.inhomogeneous_term();
  for (unsigned i = 0; i < dim; ++i) o << " " << (i < c.space_dimension() ? c.coefficient(Variable(i)) : Coefficient(0));
}
inline void print_cgs(std::ostream& o, const Congruence_System& cs, unsigned dim) {
  unsigned k = 0; for (Congruence_System::const_iterator i = cs.begin(); i != cs.end(); ++i) ++k;
  o << "cgs " << k;
  for (Congruence_System::const_iterator i = cs.begin(); i != cs.end(); ++i) { o << " "; print_cg(o, *i, dim); }
}

// name of the standard exception class actually thrown
inline const char* exn_class(const std::exception& e) {
  if (dynamic_cast<const std::invalid_argument*>(&e)) return "invalid_argument";
  if (dynamic_cast<const std::domain_error*>(&e)) return "domain_error";
  if (dynamic_cast<const std::length_error*>(&e)) return "length_error";
  if (dynamic_cast<const std::out_of_range*>(&e)) return "out_of_range";
  if (dynamic_cast<const std::logic_error*>(&e)) return "logic_error";
  if (dynamic_cast<const std::overflow_error*>(&e)) return "overflow_error";
  if (dynamic_cast<const std::runtime_error*>(&e)) return "runtime_error";
  if (dynamic_cast<const std::bad_alloc*>(&e)) return "bad_alloc";
  return "exception";
}
} // namespace vh
#endif
