// Case-language interpreter for C / NNC polyhedra against the real library.
// usage: run_poly <casefile>   (observations on stdout, one line per case line)
#define VH_PRIVATE_ACCESS
#include "vh_common.hh"
using namespace Parma_Polyhedra_Library;
using namespace vh;

typedef std::map<int, Polyhedron*> Pool;
static Pool pool;
static std::string pending_extra;  // "ret b" / "tok n" lines, printed after the "res" line

static Polyhedron* clone(const Polyhedron& p) {
  if (p.topology() == NECESSARILY_CLOSED) return new C_Polyhedron(static_cast<const C_Polyhedron&>(p));
  return new NNC_Polyhedron(static_cast<const NNC_Polyhedron&>(p));
}
static Polyhedron* get(int id) {
  Pool::iterator i = pool.find(id);
  if (i == pool.end()) throw std::runtime_error("case: unknown object");
  return i->second;
}
static void put(int id, Polyhedron* p) {
  Pool::iterator i = pool.find(id);
  if (i != pool.end()) { delete i->second; i->second = p; } else pool[id] = p;
}
static std::string flags_of(const Polyhedron& p) {
  std::ostringstream os; p.status.ascii_dump(os); std::string s = os.str();
  for (size_t i = 0; i < s.size(); ++i) if (s[i] == ' ' || s[i] == '\n') s[i] = '_';
  return s;
}
// state of an object, read from a COPY so that the observation does not move the lazy state
static void print_state(int id) {
  const Polyhedron& orig = *get(id);
  std::cout << "st " << id << " " << (orig.topology() == NECESSARILY_CLOSED ? "C" : "NNC") << " "
            << orig.space_dimension() << " " << flags_of(orig) << " ";
  Polyhedron* c = clone(orig);
  unsigned d = c->space_dimension();
  print_cons(std::cout, c->constraints(), d); std::cout << " ";
  Polyhedron* c2 = clone(orig);
  print_gens(std::cout, c2->generators(), d);
  std::cout << " ok " << (orig.OK() ? 1 : 0) << "\n";
  delete c; delete c2;
}
static void print_rel(const Poly_Con_Relation& r) {
  std::cout << "ans rel " << (r.implies(Poly_Con_Relation::is_disjoint()) ? 1 : 0) << " "
            << (r.implies(Poly_Con_Relation::is_included()) ? 1 : 0) << " "
            << (r.implies(Poly_Con_Relation::saturates()) ? 1 : 0) << " "
            << (r.implies(Poly_Con_Relation::strictly_intersects()) ? 1 : 0) << "\n";
}
// Untrusted hints for the judge: generators of the non-empty pieces  x /\ not c  (c a constraint of y), computed on
// NNC copies so that neither operand's lazy state moves. The judge validates each one against its own pieces.
static void diff_hints(const Polyhedron& x, const Polyhedron& y) {
  if (x.space_dimension() != y.space_dimension() || x.topology() != y.topology()) return;
  std::ostringstream os;
  try {
    unsigned d = x.space_dimension();
    Polyhedron* xc = clone(x); Polyhedron* yc = clone(y);
    NNC_Polyhedron base = (xc->topology() == NECESSARILY_CLOSED)
      ? NNC_Polyhedron(static_cast<const C_Polyhedron&>(*xc)) : NNC_Polyhedron(static_cast<const NNC_Polyhedron&>(*xc));
    const Constraint_System& cs = yc->constraints();
    for (Constraint_System::const_iterator i = cs.begin(); i != cs.end(); ++i) {
      Linear_Expression e(i->expression());
      std::vector<Constraint> negs;
      if (i->is_equality()) { negs.push_back(e < 0); negs.push_back(e > 0); }
      else if (i->is_strict_inequality()) negs.push_back(e <= 0);
      else negs.push_back(e < 0);
      for (size_t k = 0; k < negs.size(); ++k) {
        NNC_Polyhedron z(base); z.add_constraint(negs[k]);
        if (z.is_empty()) continue;
        os << "hint "; print_gens(os, z.generators(), d); os << "\n";
      }
    }
    delete xc; delete yc;
  } catch (...) { return; }
  pending_extra = os.str();
}

struct PFunc {  // partial function for map_space_dimensions
  std::vector<long> m; unsigned maxc;
  PFunc() : maxc(0) {}
  bool has_empty_codomain() const { for (size_t i = 0; i < m.size(); ++i) if (m[i] >= 0) return false; return true; }
  dimension_type max_in_codomain() const { return maxc; }
  bool maps(dimension_type i, dimension_type& j) const { if (i >= m.size() || m[i] < 0) return false; j = m[i]; return true; }
};

static void do_new(Toks& tk) {
  int id = tk.nextl(); std::string topo = tk.next(); unsigned dim = tk.nextl(); std::string how = tk.next();
  bool c = (topo == "C");
  Polyhedron* p = 0;
  if (how == "universe") p = c ? (Polyhedron*) new C_Polyhedron(dim, UNIVERSE) : new NNC_Polyhedron(dim, UNIVERSE);
  else if (how == "empty") p = c ? (Polyhedron*) new C_Polyhedron(dim, EMPTY) : new NNC_Polyhedron(dim, EMPTY);
  else if (how == "cons") { Constraint_System cs = read_cons(tk, dim); p = c ? (Polyhedron*) new C_Polyhedron(cs) : new NNC_Polyhedron(cs); }
  else if (how == "gens") { Generator_System gs = read_gens(tk, dim); p = c ? (Polyhedron*) new C_Polyhedron(gs) : new NNC_Polyhedron(gs); }
  else if (how == "cgs") { Congruence_System cs = read_cgs(tk, dim); p = c ? (Polyhedron*) new C_Polyhedron(cs) : new NNC_Polyhedron(cs); }
  else if (how == "box") {   // conversion from a rational box: per dimension  lk ln ld uk un ud  (lk: -inf [ ( ; uk: +inf ] ))
    Rational_Box b(dim);
    for (unsigned i = 0; i < dim; ++i) {
      std::string lk = tk.next(); mpz_class ln(tk.next()), ld(tk.next()); std::string uk = tk.next(); mpz_class un(tk.next()), ud(tk.next());
      if (lk == "[") b.add_constraint(Coefficient(ld) * Variable(i) >= Coefficient(ln));
      else if (lk == "(") b.add_constraint(Coefficient(ld) * Variable(i) > Coefficient(ln));
      if (uk == "]") b.add_constraint(Coefficient(ud) * Variable(i) <= Coefficient(un));
      else if (uk == ")") b.add_constraint(Coefficient(ud) * Variable(i) < Coefficient(un));
    }
    p = c ? (Polyhedron*) new C_Polyhedron(b) : new NNC_Polyhedron(b);
  }
  else if (how == "from") {  // other topology
    const Polyhedron& y = *get(tk.nextl());
    if (c) p = (y.topology() == NECESSARILY_CLOSED) ? new C_Polyhedron(static_cast<const C_Polyhedron&>(y)) : new C_Polyhedron(static_cast<const NNC_Polyhedron&>(y));
    else p = (y.topology() == NECESSARILY_CLOSED) ? new NNC_Polyhedron(static_cast<const C_Polyhedron&>(y)) : new NNC_Polyhedron(static_cast<const NNC_Polyhedron&>(y));
  }
  else throw std::runtime_error("case: bad new");
  put(id, p);
}

static void do_op(Toks& tk) {
  int id = tk.nextl(); Polyhedron& x = *get(id); std::string op = tk.next(); unsigned dim = x.space_dimension();
  if (op == "add_constraint") x.add_constraint(read_con(tk, dim));
  else if (op == "refine_with_constraint") x.refine_with_constraint(read_con(tk, dim));
  else if (op == "add_constraints") x.add_constraints(read_cons(tk, dim));
  else if (op == "refine_with_constraints") x.refine_with_constraints(read_cons(tk, dim));
  else if (op == "add_recycled_constraints") { Constraint_System cs = read_cons(tk, dim); x.add_recycled_constraints(cs); }
  else if (op == "add_generator") x.add_generator(read_gen(tk, dim));
  else if (op == "add_generators") x.add_generators(read_gens(tk, dim));
  else if (op == "add_recycled_generators") { Generator_System gs = read_gens(tk, dim); x.add_recycled_generators(gs); }
  else if (op == "add_congruence") x.add_congruence(read_cg(tk, dim));
  else if (op == "refine_with_congruence") x.refine_with_congruence(read_cg(tk, dim));
  else if (op == "add_congruences") x.add_congruences(read_cgs(tk, dim));
  else if (op == "refine_with_congruences") x.refine_with_congruences(read_cgs(tk, dim));
  else if (op == "intersection_assign") x.intersection_assign(*get(tk.nextl()));
  else if (op == "add_generators_from") {
    // generator OBJECTS of another polyhedron (they carry that polyhedron's topology), points first
    Polyhedron* yc = clone(*get(tk.nextl()));
    Generator_System gs = yc->generators();
    const bool closed = (x.topology() == NECESSARILY_CLOSED);
    for (int pass = 0; pass < 2; ++pass)
      for (Generator_System::const_iterator i = gs.begin(); i != gs.end(); ++i) {
        if ((pass == 0) != i->is_point()) continue;
        if (closed && i->is_closure_point()) continue;
        x.add_generator(*i);
      }
    delete yc;
  }
  else if (op == "poly_hull_assign") x.poly_hull_assign(*get(tk.nextl()));
  else if (op == "upper_bound_assign") x.upper_bound_assign(*get(tk.nextl()));
  else if (op == "poly_difference_assign" || op == "difference_assign") {
    const Polyhedron& y = *get(tk.nextl());
    diff_hints(x, y);
    if (op == "poly_difference_assign") x.poly_difference_assign(y); else x.difference_assign(y);
  }
  else if (op == "time_elapse_assign") x.time_elapse_assign(*get(tk.nextl()));
  else if (op == "positive_time_elapse_assign") { const Polyhedron& y = *get(tk.nextl());
    if (x.topology() == NECESSARILY_CLOSED) static_cast<C_Polyhedron&>(x).positive_time_elapse_assign(y);
    else static_cast<NNC_Polyhedron&>(x).positive_time_elapse_assign(y); }
  else if (op == "concatenate_assign") x.concatenate_assign(*get(tk.nextl()));
  else if (op == "topological_closure_assign") x.topological_closure_assign();
  else if (op == "affine_image" || op == "affine_preimage") {
    unsigned v = tk.nextl(); mpz_class den = tk.nextz(); mpz_class b; Linear_Expression e = read_expr_n(tk, b);
    if (op == "affine_image") x.affine_image(Variable(v), e, den); else x.affine_preimage(Variable(v), e, den);
  }
  else if (op == "generalized_affine_image" || op == "generalized_affine_preimage") {
    unsigned v = tk.nextl(); Relation_Symbol r = read_rel(tk); mpz_class den = tk.nextz(); mpz_class b; Linear_Expression e = read_expr_n(tk, b);
    if (op == "generalized_affine_image") x.generalized_affine_image(Variable(v), r, e, den); else x.generalized_affine_preimage(Variable(v), r, e, den);
  }
  else if (op == "generalized_affine_image_lhs" || op == "generalized_affine_preimage_lhs") {
    mpz_class b1; Linear_Expression l = read_expr_n(tk, b1); Relation_Symbol r = read_rel(tk); mpz_class b2; Linear_Expression e = read_expr_n(tk, b2);
    if (op == "generalized_affine_image_lhs") x.generalized_affine_image(l, r, e); else x.generalized_affine_preimage(l, r, e);
  }
  else if (op == "bounded_affine_image" || op == "bounded_affine_preimage") {
    unsigned v = tk.nextl(); mpz_class den = tk.nextz(); mpz_class b1; Linear_Expression lb = read_expr_n(tk, b1); mpz_class b2; Linear_Expression ub = read_expr_n(tk, b2);
    if (op == "bounded_affine_image") x.bounded_affine_image(Variable(v), lb, ub, den); else x.bounded_affine_preimage(Variable(v), lb, ub, den);
  }
  else if (op == "unconstrain") x.unconstrain(Variable(tk.nextl()));
  else if (op == "unconstrain_set") { long k = tk.nextl(); Variables_Set vs; for (long i = 0; i < k; ++i) vs.insert(Variable(tk.nextl())); x.unconstrain(vs); }
  else if (op == "add_space_dimensions_and_embed") x.add_space_dimensions_and_embed(tk.nextl());
  else if (op == "add_space_dimensions_and_project") x.add_space_dimensions_and_project(tk.nextl());
  else if (op == "remove_space_dimensions") { long k = tk.nextl(); Variables_Set vs; for (long i = 0; i < k; ++i) vs.insert(Variable(tk.nextl())); x.remove_space_dimensions(vs); }
  else if (op == "remove_higher_space_dimensions") x.remove_higher_space_dimensions(tk.nextl());
  else if (op == "expand_space_dimension") { unsigned v = tk.nextl(); unsigned m = tk.nextl(); x.expand_space_dimension(Variable(v), m); }
  else if (op == "fold_space_dimensions") { long k = tk.nextl(); Variables_Set vs; for (long i = 0; i < k; ++i) vs.insert(Variable(tk.nextl())); unsigned d = tk.nextl(); x.fold_space_dimensions(vs, Variable(d)); }
  else if (op == "map_space_dimensions") { PFunc f; long k = tk.nextl(); for (long i = 0; i < k; ++i) { long j = tk.nextl(); f.m.push_back(j); if (j >= 0 && (unsigned) j > f.maxc) f.maxc = j; } x.map_space_dimensions(f); }
  else if (op == "assign") { const Polyhedron& y = *get(tk.nextl());
    if (x.topology() == NECESSARILY_CLOSED) static_cast<C_Polyhedron&>(x) = static_cast<const C_Polyhedron&>(y);
    else static_cast<NNC_Polyhedron&>(x) = static_cast<const NNC_Polyhedron&>(y); }
  else if (op == "swap") { Polyhedron& y = *get(tk.nextl()); x.m_swap(y); }
  else if (op == "H79_widening_assign") x.H79_widening_assign(*get(tk.nextl()));
  else if (op == "BHRZ03_widening_assign") x.BHRZ03_widening_assign(*get(tk.nextl()));
  else if (op == "H79_widening_assign_tp" || op == "BHRZ03_widening_assign_tp") {
    const Polyhedron& y = *get(tk.nextl()); unsigned t = tk.nextl();
    if (op[0] == 'H') x.H79_widening_assign(y, &t); else x.BHRZ03_widening_assign(y, &t);
    { std::ostringstream o_; o_ << "tok " << t << "\n"; pending_extra = o_.str(); }
  }
  else if (op == "limited_H79_extrapolation_assign" || op == "limited_BHRZ03_extrapolation_assign" ||
           op == "bounded_H79_extrapolation_assign" || op == "bounded_BHRZ03_extrapolation_assign") {
    const Polyhedron& y = *get(tk.nextl()); Constraint_System cs = read_cons(tk, dim);
    if (op == "limited_H79_extrapolation_assign") x.limited_H79_extrapolation_assign(y, cs);
    else if (op == "limited_BHRZ03_extrapolation_assign") x.limited_BHRZ03_extrapolation_assign(y, cs);
    else if (op == "bounded_H79_extrapolation_assign") x.bounded_H79_extrapolation_assign(y, cs);
    else x.bounded_BHRZ03_extrapolation_assign(y, cs);
  }
  else if (op == "drop_some_non_integer_points") x.drop_some_non_integer_points(ANY_COMPLEXITY);
  else if (op == "poly_hull_assign_if_exact" || op == "upper_bound_assign_if_exact") {
    const Polyhedron& y = *get(tk.nextl()); bool b;
    if (x.topology() == NECESSARILY_CLOSED) b = static_cast<C_Polyhedron&>(x).upper_bound_assign_if_exact(static_cast<const C_Polyhedron&>(y));
    else b = static_cast<NNC_Polyhedron&>(x).upper_bound_assign_if_exact(static_cast<const NNC_Polyhedron&>(y));
    { std::ostringstream o_; o_ << "ret " << (b ? 1 : 0) << "\n"; pending_extra = o_.str(); }
  }
  else if (op == "simplify_using_context_assign") { bool b = x.simplify_using_context_assign(*get(tk.nextl())); { std::ostringstream o_; o_ << "ret " << (b ? 1 : 0) << "\n"; pending_extra = o_.str(); } }
  else throw std::runtime_error("case: unknown op " + op);
}

#define ANSB(e) do { bool b_ = (e); std::cout << "ans b " << b_ << "\n"; } while (0)
static void do_qry(Toks& tk) {
  int id = tk.nextl(); const Polyhedron& x = *get(id); std::string q = tk.next(); unsigned dim = x.space_dimension();
  if (q == "is_empty") ANSB(x.is_empty());
  else if (q == "is_universe") ANSB(x.is_universe());
  else if (q == "is_bounded") ANSB(x.is_bounded());
  else if (q == "is_topologically_closed") ANSB(x.is_topologically_closed());
  else if (q == "is_discrete") ANSB(x.is_discrete());
  else if (q == "contains_integer_point") ANSB(x.contains_integer_point());
  else if (q == "contains") ANSB(x.contains(*get(tk.nextl())));
  else if (q == "strictly_contains") ANSB(x.strictly_contains(*get(tk.nextl())));
  else if (q == "is_disjoint_from") ANSB(x.is_disjoint_from(*get(tk.nextl())));
  else if (q == "equals") ANSB(x == *get(tk.nextl()));
  else if (q == "affine_dimension") std::cout << "ans n " << x.affine_dimension() << "\n";
  else if (q == "constrains") ANSB(x.constrains(Variable(tk.nextl())));
  else if (q == "relation_with_con") print_rel(x.relation_with(read_con(tk, dim)));
  else if (q == "relation_with_cg") print_rel(x.relation_with(read_cg(tk, dim)));
  else if (q == "relation_with_gen") { Poly_Gen_Relation r = x.relation_with(read_gen(tk, dim)); std::cout << "ans b " << (r.implies(Poly_Gen_Relation::subsumes()) ? 1 : 0) << "\n"; }
  else if (q == "bounds_from_above" || q == "bounds_from_below") { mpz_class b; Linear_Expression e = read_expr_n(tk, b);
    ANSB(q == "bounds_from_above" ? x.bounds_from_above(e) : x.bounds_from_below(e)); }
  else if (q == "maximize" || q == "minimize") {
    mpz_class b; Linear_Expression e = read_expr_n(tk, b); Coefficient n, d; bool m; Generator g = point();
    bool r = (q == "maximize") ? x.maximize(e, n, d, m, g) : x.minimize(e, n, d, m, g);
    if (!r) std::cout << "ans opt 0\n";
    else { std::cout << "ans opt 1 " << n << " " << d << " " << (m ? 1 : 0) << " "; print_gen(std::cout, g, dim); std::cout << "\n"; }
  }
  else if (q == "frequency") { mpz_class b; Linear_Expression e = read_expr_n(tk, b); Coefficient fn, fd, vn, vd;
    bool r = x.frequency(e, fn, fd, vn, vd);
    if (!r) std::cout << "ans freq 0\n"; else std::cout << "ans freq 1 " << fn << " " << fd << " " << vn << " " << vd << "\n"; }
  else throw std::runtime_error("case: unknown query " + q);
}

static void do_obs(Toks& tk) {
  int id = tk.nextl(); const Polyhedron& x = *get(id); std::string w = tk.next(); unsigned dim = x.space_dimension();
  std::cout << "obs ";
  if (w == "constraints") print_cons(std::cout, x.constraints(), dim);
  else if (w == "minimized_constraints") print_cons(std::cout, x.minimized_constraints(), dim);
  else if (w == "generators") print_gens(std::cout, x.generators(), dim);
  else if (w == "minimized_generators") print_gens(std::cout, x.minimized_generators(), dim);
  else if (w == "congruences") print_cgs(std::cout, x.congruences(), dim);
  else if (w == "minimized_congruences") print_cgs(std::cout, x.minimized_congruences(), dim);
  else if (w == "OK") std::cout << "ok " << x.OK();
  else if (w == "is_empty") std::cout << "b " << x.is_empty();
  else throw std::runtime_error("case: unknown obs " + w);
  std::cout << "\n";
}

int main(int argc, char** argv) {
  if (argc < 2) { std::cerr << "usage: run_poly casefile\n"; return 2; }
  std::ifstream in(argv[1]); std::string line;
  while (std::getline(in, line)) {
    Toks tk(line); if (!tk.more()) continue;
    std::string cmd = tk.next();
    if (cmd[0] == '#') continue;
    try {
      if (cmd == "case") { for (Pool::iterator i = pool.begin(); i != pool.end(); ++i) delete i->second; pool.clear(); std::cout << "case " << tk.next() << "\n"; }
      else if (cmd == "end") std::cout << "end\n";
      else if (cmd == "new") { int id = std::atoi(tk.t[1].c_str()); try { do_new(tk); std::cout << "res ok\n"; print_state(id); } catch (const std::exception& e) { if (dynamic_cast<const std::runtime_error*>(&e) && std::string(e.what()).substr(0,5) == "case:") throw; std::cout << "res exn " << exn_class(e) << "\n"; } }
      else if (cmd == "copy") { int id = tk.nextl(); put(id, clone(*get(tk.nextl()))); std::cout << "res ok\n"; print_state(id); }
      else if (cmd == "twin") {
        // an object denoting the same set as X, rebuilt from one of X's descriptions (read from a copy of X)
        int id = tk.nextl(); const Polyhedron& x = *get(tk.nextl()); std::string how = tk.next();
        Polyhedron* c = clone(x); const bool closed = (x.topology() == NECESSARILY_CLOSED);
        Polyhedron* y = 0;
        if (how == "cons" || how == "cons_nm") {
          Constraint_System cs = (how == "cons") ? c->minimized_constraints() : c->constraints();
          y = closed ? (Polyhedron*) new C_Polyhedron(cs) : new NNC_Polyhedron(cs);
        } else if (how == "gens" || how == "gens_nm") {
          Generator_System gs = (how == "gens") ? c->minimized_generators() : c->generators();
          y = closed ? (Polyhedron*) new C_Polyhedron(gs) : new NNC_Polyhedron(gs);
        } else throw std::runtime_error("case: bad twin");
        if (y->space_dimension() < x.space_dimension())
          y->add_space_dimensions_and_embed(x.space_dimension() - y->space_dimension());
        delete c; put(id, y); std::cout << "res ok\n"; print_state(id);
      }
      else if (cmd == "op") {
        int id = std::atoi(tk.t[1].c_str());
        // every other object mentioned as an argument is re-observed too (arguments must stay unchanged)
        pending_extra.clear();
        try { do_op(tk); std::cout << "res ok\n" << pending_extra; }
        catch (const std::exception& e) {
          if (std::string(e.what()).substr(0,5) == "case:") throw;
          std::cout << "res exn " << exn_class(e) << "\n";
        }
        print_state(id);
      }
      else if (cmd == "stall") { for (Pool::iterator i = pool.begin(); i != pool.end(); ++i) print_state(i->first); std::cout << "endst\n"; }
      else if (cmd == "qry") { try { do_qry(tk); } catch (const std::exception& e) { if (std::string(e.what()).substr(0,5) == "case:") throw; std::cout << "ans exn " << exn_class(e) << "\n"; } }
      else if (cmd == "obs") { try { do_obs(tk); } catch (const std::exception& e) { if (std::string(e.what()).substr(0,5) == "case:") throw; std::cout << "obs exn " << exn_class(e) << "\n"; } }
      else throw std::runtime_error("case: unknown command " + cmd);
    } catch (const std::exception& e) {
      std::cout << "HARNESS-ERROR " << e.what() << " in: " << line << std::endl;
      return 3;
    }
    std::cout.flush();
  }
  return 0;
}
