// C11 harness, part 2: INDEPENDENT exact oracle for the parts of the checked-number kernel that have no Coq model:
// floating point (checked_float_inlines.hh), GMP integers and rationals (checked_mpz_inlines.hh,
// checked_mpq_inlines.hh), conversions between ALL pairs of numeric types, and all comparison entry points on
// all ordered pairs of types.  Every value (floats included) is converted to an exact mpq; the Result word's
// relation, classification and directed rounding are checked exactly.
//
//   run_checked_num <seed> <quick|thorough>
// output: "O <section> <op> <T1> <T2> <class> <dir> | <operands> | <stored> <r> | <why>"   one line per failure
//         "N <section> <evaluations>"                                                      counts
#include <iostream>
#include <sstream>
#include <string>
#include <vector>
#include <map>
#include <set>
#include <algorithm>
#include <cmath>
#include <cstring>
#include <cstdlib>
#include <limits>
#include <stdint.h>
#include <gmpxx.h>
#include "ppl-config.h"
#include "Checked_Number_defs.hh"
#include "checked_numeric_limits.hh"
#include "Init_defs.hh"

using namespace Parma_Polyhedra_Library;
static Init vh_init;     // sets the FPU rounding mode the library relies on

// ---------------------------------------------------------------------------------------------------------------
// exact descriptions
// ---------------------------------------------------------------------------------------------------------------
struct XV { int kind; mpq_class q; XV() : kind(0) {} XV(int k) : kind(k) {} XV(const mpq_class& v) : kind(0), q(v) {} };
// kind: 0 finite (q), 1 +inf, -1 -inf, 2 nan/undefined, 3 sqrt(q)  (3 only for exact results)

static std::string show(const XV& v) {
  if (v.kind == 1) return "+inf"; if (v.kind == -1) return "-inf"; if (v.kind == 2) return "nan";
  std::ostringstream o; if (v.kind == 3) o << "sqrt(" << v.q << ")"; else o << v.q; return o.str();
}

template <typename T> struct NT;
#define DEF_INT(T, NAME, BITS, SGN) template <> struct NT<T> { static const char* name() { return NAME; } \
  static const bool is_float = false, is_int = true, is_gmp = false, sgn = SGN; static const int bits = BITS; static const int mant = BITS; }
DEF_INT(int8_t, "int8", 8, true); DEF_INT(int16_t, "int16", 16, true); DEF_INT(int32_t, "int32", 32, true); DEF_INT(int64_t, "int64", 64, true);
DEF_INT(uint8_t, "uint8", 8, false); DEF_INT(uint16_t, "uint16", 16, false); DEF_INT(uint32_t, "uint32", 32, false); DEF_INT(uint64_t, "uint64", 64, false);
template <> struct NT<float> { static const char* name() { return "float"; } static const bool is_float = true, is_int = false, is_gmp = false, sgn = true; static const int bits = 32; static const int mant = 24; };
template <> struct NT<double> { static const char* name() { return "double"; } static const bool is_float = true, is_int = false, is_gmp = false, sgn = true; static const int bits = 64; static const int mant = 53; };
template <> struct NT<long double> { static const char* name() { return "ldouble"; } static const bool is_float = true, is_int = false, is_gmp = false, sgn = true; static const int bits = 80; static const int mant = 64; };
template <> struct NT<mpz_class> { static const char* name() { return "mpz"; } static const bool is_float = false, is_int = false, is_gmp = true, sgn = true; static const int bits = 0; static const int mant = 1 << 30; };
template <> struct NT<mpq_class> { static const char* name() { return "mpq"; } static const bool is_float = false, is_int = false, is_gmp = true, sgn = true; static const int bits = 0; static const int mant = 1 << 30; };

static mpz_class z_of_ll(long long v) { mpz_class z; z = (long)v; return z; }
static mpz_class z_of_ull(unsigned long long v) { mpz_class z; z = (unsigned long)v; return z; }

template <typename T> static XV describe(const T& v) {
  if (NT<T>::sgn) return XV(mpq_class(z_of_ll((long long)v))); else return XV(mpq_class(z_of_ull((unsigned long long)v)));
}
static XV describe_d(double v) {
  if (v != v) return XV(2);
  if (v > std::numeric_limits<double>::max()) return XV(1);
  if (v < -std::numeric_limits<double>::max()) return XV(-1);
  return XV(mpq_class(v));
}
// x87 80-bit extended: 64-bit mantissa; exact value = (m * 2^64) * 2^(e - 64) with m = frexpl(v) in [1/2, 1)
static XV describe_ld(long double v) {
  if (v != v) return XV(2);
  if (v > std::numeric_limits<long double>::max()) return XV(1);
  if (v < -std::numeric_limits<long double>::max()) return XV(-1);
  if (v == 0) return XV(mpq_class(0));
  int e; long double m = frexpl(v, &e);
  bool neg = m < 0; if (neg) m = -m;
  long double scaled = ldexpl(m, 64);                      // an integer below 2^64, exactly
  unsigned long long n = (unsigned long long)scaled;
  mpz_class z; z = (unsigned long)n;
  mpq_class q(z);
  int k = e - 64;
  if (k >= 0) q *= mpq_class(mpz_class(1) << k); else q /= mpq_class(mpz_class(1) << (-k));
  if (neg) q = -q;
  return XV(q);
}
template <> XV describe<long double>(const long double& v) { return describe_ld(v); }
template <> XV describe<float>(const float& v) { return describe_d((double)v); }
template <> XV describe<double>(const double& v) { return describe_d(v); }
template <> XV describe<mpz_class>(const mpz_class& v) { return XV(mpq_class(v)); }
template <> XV describe<mpq_class>(const mpq_class& v) { return XV(v); }

struct ToInfo { bool bounded; mpq_class lo, hi; bool can_inf, can_nan; };
template <typename T> static ToInfo to_info() {
  ToInfo ti; ti.can_inf = ti.can_nan = NT<T>::is_float; ti.bounded = !NT<T>::is_gmp;
  if (NT<T>::is_int) {
    mpz_class one = 1;
    if (NT<T>::sgn) { ti.lo = mpq_class(-(one << (NT<T>::bits - 1))); ti.hi = mpq_class((one << (NT<T>::bits - 1)) - 1); }
    else { ti.lo = 0; ti.hi = mpq_class((one << NT<T>::bits) - 1); }
  }
  else if (NT<T>::is_float) {
    if (NT<T>::mant == 64) ti.hi = describe_ld(std::numeric_limits<long double>::max()).q;
    else ti.hi = mpq_class(NT<T>::mant == 24 ? (double)std::numeric_limits<float>::max() : std::numeric_limits<double>::max());
    ti.lo = -ti.hi;
  }
  return ti;
}

// sign of (e - s); e.kind in {0,1,-1,3}, s.kind in {0,1,-1}
static int cmp_es(const XV& e, const XV& s) {
  if (s.kind == 1) return e.kind == 1 ? 0 : -1;
  if (s.kind == -1) return e.kind == -1 ? 0 : 1;
  if (e.kind == 1) return 1;
  if (e.kind == -1) return -1;
  if (e.kind == 0) return cmp(e.q, s.q);
  if (s.q < 0) return 1;
  mpq_class ss = s.q * s.q;
  return cmp(e.q, ss);
}

// The documented meaning of a result word (Result_defs.hh), independent of everything else in /verif.
static const char* oracle(const ToInfo& ti, unsigned r, unsigned dir, const XV& e, const XV& s) {
  unsigned rel = r & 7u, cls = r & 48u; bool ovf = (r & 64u) != 0, unrep = (r & 128u) != 0; unsigned reason = r >> 8;
  bool up = (dir & 7u) == 1u, down = (dir & 7u) == 0u;
  if (cls == 48u) {
    if (ti.can_nan && (unrep || s.kind != 2)) return "nan-class-but-nan-not-stored";
    if (reason == 10u || reason == 11u) return 0;
    if (e.kind != 2) return "nan-class-but-exact-result-defined";
    return 0;
  }
  if (e.kind == 2) return "numeric-class-but-exact-result-undefined";
  if (cls == 0u) {
    if (unrep) return "normal-class-unrepresentable";
    if (s.kind == 2) return "normal-class-but-nan-stored";
    if (s.kind != 0 && !ti.can_inf) return "stored-infinite-in-a-type-without-infinity";
    if (s.kind == 0 && ti.bounded && (s.q < ti.lo || s.q > ti.hi)) return "stored-out-of-range";
    int c = cmp_es(e, s);
    bool okr = (c == 0 && (rel & 1u)) || (c < 0 && (rel & 2u)) || (c > 0 && (rel & 4u));
    if (!okr) return "relation-false";
    if (ovf && !(ti.bounded && s.kind == 0 && ((rel == 2u && s.q == ti.lo) || (rel == 4u && s.q == ti.hi)))) return "overflow-bit-misused";
    if (up && c > 0) return "round-up-violated";
    if (down && c < 0) return "round-down-violated";
    return 0;
  }
  if (cls == 32u) {
    if (unrep) { if (ti.can_inf) return "pinf-unrepresentable-in-a-type-with-infinity"; }
    else if (s.kind != 1) return "pinf-class-but-not-stored";
    if (rel == 1u) { if (e.kind != 1) return "eq-pinf-false"; }
    else if (rel == 2u) {
      if (e.kind == 1 || e.kind == -1) return "lt-pinf-but-exact-infinite";
      if (!ti.bounded || cmp_es(e, XV(ti.hi)) <= 0) return "lt-pinf-but-not-an-overflow";
    }
    else return "pinf-relation";
    if (!unrep && down && e.kind != 1) return "round-down-violated";
    return 0;
  }
  if (unrep) { if (ti.can_inf) return "minf-unrepresentable-in-a-type-with-infinity"; }
  else if (s.kind != -1) return "minf-class-but-not-stored";
  if (rel == 1u) { if (e.kind != -1) return "eq-minf-false"; }
  else if (rel == 4u) {
    if (e.kind == 1 || e.kind == -1) return "gt-minf-but-exact-infinite";
    if (!ti.bounded || cmp_es(e, XV(ti.lo)) >= 0) return "gt-minf-but-not-an-overflow";
  }
  else return "minf-relation";
  if (!unrep && up && e.kind != -1) return "round-up-violated";
  return 0;
}

// ---------------------------------------------------------------------------------------------------------------
// operand pools
// ---------------------------------------------------------------------------------------------------------------
static unsigned long long rng_state = 1;
static unsigned long long rnd() { rng_state = rng_state * 6364136223846793005ULL + 1442695040888963407ULL; return rng_state >> 11; }
static mpz_class rnd_bits(int n) { mpz_class z = 0; for (int i = 0; i < n; i += 32) { z <<= 32; z += (unsigned long)(rnd() & 0xffffffffULL); } mpz_class m = 1; m <<= n; z %= m; return z; }
static mpz_class pow2(int k) { mpz_class z = 1; z <<= k; return z; }
static mpq_class q2(const mpz_class& n, int k) { mpq_class q(n, pow2(k)); q.canonicalize(); return q; }   // n / 2^k

// odd numerator with exactly `nb` bits and given residue modulo 2^lowbits
static mpz_class odd_num(int nb, unsigned low, int lowbits) {
  mpz_class n = pow2(nb - 1) + (rnd_bits(nb - 1 - lowbits) << lowbits);
  n += low;
  return n;
}

static std::vector<mpq_class> universal;        // rationals every pool is derived from
static std::vector<mpq_class> dyadic_f, dyadic_d, dyadic_l; // aimed at the rounding decision of mpq -> float / double
static bool thorough = false;

static void build_universal() {
  std::set<std::string> seen;
  std::vector<mpq_class>& U = universal;
  const int smalln[] = { 0, 1, 2, 3, 5, 7 };
  for (int i = 0; i < 6; ++i) { U.push_back(mpq_class(smalln[i])); U.push_back(mpq_class(-smalln[i])); }
  U.push_back(mpq_class(1, 2)); U.push_back(mpq_class(-1, 2)); U.push_back(mpq_class(1, 3)); U.push_back(mpq_class(-2, 3));
  U.push_back(mpq_class(3, 2)); U.push_back(mpq_class(-7, 2)); U.push_back(mpq_class(22, 7));
  const int ib[] = { 7, 8, 15, 16, 31, 32, 63, 64 };
  for (int i = 0; i < 8; ++i) {
    mpq_class p(pow2(ib[i]));
    const mpq_class dl[] = { mpq_class(-1), mpq_class(-1, 2), mpq_class(0), mpq_class(1, 2), mpq_class(1) };
    for (int j = 0; j < 5; ++j) { U.push_back(p + dl[j]); U.push_back(-p + dl[j]); }
  }
  const int fb[] = { 24, 53, 64 };
  for (int i = 0; i < 3; ++i) {
    int P = fb[i];
    for (int d = -1; d <= 1; ++d) { U.push_back(mpq_class(pow2(P) + d)); U.push_back(mpq_class(-(pow2(P) + d))); U.push_back(mpq_class(pow2(P + 1) + d)); U.push_back(mpq_class(pow2(P + 2) + d)); }
    // numerators of P, P+1, P+2 bits over small and large powers of two
    for (int extra = 0; extra <= 2; ++extra) for (unsigned low = 1; low < 8; low += 2) {
      mpz_class n = odd_num(P + extra, low, 3);
      U.push_back(q2(n, 1)); U.push_back(q2(-n, P + 3)); if (thorough) U.push_back(q2(n, 40));
    }
  }
  // extremes of the floating point formats
  mpq_class fmax(std::numeric_limits<float>::max()), dmax(std::numeric_limits<double>::max());
  mpq_class fulp(pow2(104)), dulp(pow2(971));   // ulp at max
  U.push_back(fmax); U.push_back(-fmax); U.push_back(fmax + fulp / 2); U.push_back(fmax + fulp / 4); U.push_back(mpq_class(pow2(128))); U.push_back(-mpq_class(pow2(128)) - 1);
  U.push_back(dmax); U.push_back(-dmax); U.push_back(dmax + dulp / 2); U.push_back(dmax + 1); U.push_back(mpq_class(pow2(1024))); U.push_back(-mpq_class(pow2(1030)));
  U.push_back(q2(1, 149)); U.push_back(q2(1, 150)); U.push_back(q2(3, 151)); U.push_back(q2(-1, 149)); U.push_back(q2(1, 126)); U.push_back(q2(pow2(24) - 1, 149 + 0));
  U.push_back(q2(1, 1074)); U.push_back(q2(1, 1075)); U.push_back(q2(3, 1076)); U.push_back(q2(-1, 1074)); U.push_back(q2(1, 1022)); U.push_back(q2(1, 1200));
  // x87 extended: LDBL_MIN = 2^-16382, largest denormal = 2^-16382 - 2^-16445, smallest = 2^-16445, LDBL_MAX = 2^16384 - 2^16320
  { mpq_class lmin = q2(1, 16382), dmin = q2(1, 16445), lmax = mpq_class(pow2(16384) - pow2(16320));
    U.push_back(lmin); U.push_back(-lmin); U.push_back(lmin - dmin); U.push_back(lmin - dmin / 2); U.push_back(-(lmin - dmin / 2)); U.push_back(lmin - dmin / 4);
    U.push_back(lmin + dmin / 2); U.push_back(dmin); U.push_back(dmin / 2); U.push_back(dmin * 3 / 2); U.push_back(-dmin / 4);
    U.push_back(lmax); U.push_back(-lmax); U.push_back(lmax + mpq_class(pow2(16319))); U.push_back(mpq_class(pow2(16384))); U.push_back(-mpq_class(pow2(16384)) - 1); }
  int nr = thorough ? 60 : 16;
  for (int i = 0; i < nr; ++i) {
    mpz_class n = rnd_bits(8 + (int)(rnd() % 90)), d = rnd_bits(1 + (int)(rnd() % 70)) + 1;
    mpq_class q(n, d); q.canonicalize(); if (rnd() & 1) q = -q; U.push_back(q);
  }
  std::vector<mpq_class> V;
  for (size_t i = 0; i < U.size(); ++i) { std::string k = U[i].get_str(); if (seen.insert(k).second) V.push_back(U[i]); }
  U.swap(V);
  // aimed dyadic rationals
  int nd = thorough ? 4000 : 600;
  for (int f = 0; f < 3; ++f) {
    int P = fb[f]; std::vector<mpq_class>& D = f == 2 ? dyadic_l : f ? dyadic_d : dyadic_f;
    int emin = f == 2 ? 16445 : f ? 1074 : 149, emax = f == 2 ? 16383 : f ? 1023 : 127;
    for (int i = 0; i < nd; ++i) {
      int extra = (int)(rnd() % 4);                 // P, P+1, P+2, P+3 bit numerators
      mpz_class n = odd_num(P + extra, (unsigned)((rnd() % 4) * 2 + 1), 3);
      int k;
      switch (rnd() % 4) { case 0: k = 1 + (int)(rnd() % 3); break; case 1: k = (int)(rnd() % (P + 40)); break;
        case 2: k = emin - (int)(rnd() % 30) + P; break; default: k = -(emax - P - (int)(rnd() % 6)); }
      mpq_class q = k >= 0 ? q2(n, k) : mpq_class(n * pow2(-k));
      if (rnd() & 1) q = -q;
      D.push_back(q);
    }
  }
}

template <typename T> struct Pool { static std::vector<T> v; static std::vector<XV> x; };
template <typename T> std::vector<T> Pool<T>::v;
template <typename T> std::vector<XV> Pool<T>::x;

template <typename T> static void add_val(const T& t) {
  XV d = describe(t);
  for (size_t i = 0; i < Pool<T>::v.size(); ++i) {
    const XV& o = Pool<T>::x[i];
    if (o.kind == d.kind && (d.kind != 0 || o.q == d.q)) {
      if (!NT<T>::is_float || d.kind != 0 || d.q != 0) return;   // keep both signed zeros
    }
  }
  Pool<T>::v.push_back(t); Pool<T>::x.push_back(d);
}

template <typename T> static void build_int_pool() {
  ToInfo ti = to_info<T>();
  for (size_t i = 0; i < universal.size(); ++i) {
    const mpq_class& q = universal[i];
    mpz_class fl, ce; mpz_fdiv_q(fl.get_mpz_t(), q.get_num().get_mpz_t(), q.get_den().get_mpz_t()); mpz_cdiv_q(ce.get_mpz_t(), q.get_num().get_mpz_t(), q.get_den().get_mpz_t());
    mpz_class c[2] = { fl, ce };
    for (int j = 0; j < 2; ++j) {
      if (mpq_class(c[j]) < ti.lo || mpq_class(c[j]) > ti.hi) continue;
      T t = NT<T>::sgn ? (T)c[j].get_si() : (T)c[j].get_ui();
      add_val<T>(t);
    }
  }
  add_val<T>((T)ti.lo.get_num().get_si());
  add_val<T>(NT<T>::sgn ? (T)ti.hi.get_num().get_si() : (T)ti.hi.get_num().get_ui());
}
template <typename T> static void build_float_pool() {
  const T inf = std::numeric_limits<T>::infinity();
  add_val<T>((T)0.0); add_val<T>(-(T)0.0); add_val<T>(inf); add_val<T>(-inf); add_val<T>(std::numeric_limits<T>::quiet_NaN());
  add_val<T>(std::numeric_limits<T>::denorm_min()); add_val<T>(-std::numeric_limits<T>::denorm_min());
  add_val<T>(std::numeric_limits<T>::min()); add_val<T>(std::numeric_limits<T>::max()); add_val<T>(-std::numeric_limits<T>::max());
  add_val<T>(std::numeric_limits<T>::min() - std::numeric_limits<T>::denorm_min());
  add_val<T>((T)1 + std::numeric_limits<T>::epsilon()); add_val<T>((T)1 - std::numeric_limits<T>::epsilon() / 2);
  for (size_t i = 0; i < universal.size(); ++i) {
    double d = mpq_get_d(universal[i].get_mpq_t());      // truncation toward zero, exact enough to land next to q
    T t = (T)d;
    if (NT<T>::mant == 64) {
      // beyond double's range / precision: scale the top 64 bits of |q| by hand
      const mpq_class& q = universal[i];
      if (q != 0) {
        long ex = (long)mpz_sizeinbase(q.get_num().get_mpz_t(), 2) - (long)mpz_sizeinbase(q.get_den().get_mpz_t(), 2);
        mpz_class nn = abs(q.get_num()), dd = q.get_den(); long sh = 64 - ex;
        if (sh >= 0) nn <<= sh; else dd <<= (-sh);
        mpz_class top = nn / dd;                           // about 2^63 .. 2^65
        while (mpz_sizeinbase(top.get_mpz_t(), 2) > 64) { top >>= 1; --sh; }
        long double v = ldexpl((long double)(unsigned long long)top.get_ui(), (int)std::max(-40000L, std::min(40000L, -sh)));
        t = (T)(sgn(q) < 0 ? -v : v);
      }
    }
    T lo = std::nextafter(t, -inf), hi = std::nextafter(t, inf);
    add_val<T>(t);
    if ((i % 3) == 0 || thorough) { add_val<T>(lo); add_val<T>(hi); }
  }
}
static void build_gmp_pools() {
  for (size_t i = 0; i < universal.size(); ++i) {
    const mpq_class& q = universal[i];
    add_val<mpq_class>(q);
    mpz_class fl, ce; mpz_fdiv_q(fl.get_mpz_t(), q.get_num().get_mpz_t(), q.get_den().get_mpz_t()); mpz_cdiv_q(ce.get_mpz_t(), q.get_num().get_mpz_t(), q.get_den().get_mpz_t());
    add_val<mpz_class>(fl); add_val<mpz_class>(ce);
  }
}

// ---------------------------------------------------------------------------------------------------------------
// reporting
// ---------------------------------------------------------------------------------------------------------------
static std::map<std::string, long long> counts;
static std::map<std::string, int> printed;
static void fail(const char* section, const std::string& op, const char* t1, const char* t2, const char* cls, unsigned dir,
                 const std::string& operands, const std::string& got, const char* why) {
  std::string key = std::string(section) + " " + op + " " + t1 + " " + t2 + " " + cls;
  int& n = printed[key];
  ++n;
  if (n > 25) { if (n == 26) std::cout << "O " << key << " " << dir << " | ... | ... | (more of the same suppressed)\n"; counts["suppressed " + key]++; return; }
  std::cout << "O " << key << " " << dir << " | " << operands << " | " << got << " | " << why << "\n";
}

static const unsigned DIRS[] = { 1u, 0u, 6u, 9u, 8u };   // UP, DOWN, IGNORE, UP|STRICT, DOWN|STRICT

// ---------------------------------------------------------------------------------------------------------------
// 1. conversions  assign_r(To, From) for every ordered pair of types
// ---------------------------------------------------------------------------------------------------------------
template <typename To> static To sentinel() { return To(); }

template <typename T> static bool representable_in_float_type(const XV& v, int mant) {
  if (v.kind != 0) return true;
  if (v.q == 0) return true;
  if (v.q.get_den() != 1) return false;
  mpz_class n = abs(v.q.get_num());
  size_t nb = mpz_sizeinbase(n.get_mpz_t(), 2); size_t tz = mpz_scan1(n.get_mpz_t(), 0);
  return (int)(nb - tz) <= mant;
}

// does the dyadic rational q = n / 2^k have at most `mant' significant bits?
static bool dyadic_fits(const mpq_class& q, int mant) { if (q == 0) return true; mpz_class n = abs(q.get_num()); size_t nb = mpz_sizeinbase(n.get_mpz_t(), 2), tz = mpz_scan1(n.get_mpz_t(), 0); return (int)(nb - tz) <= mant; }
static mpq_class trunc_q_early(const mpq_class& q) { mpz_class t; mpz_tdiv_q(t.get_mpz_t(), q.get_num().get_mpz_t(), q.get_den().get_mpz_t()); return mpq_class(t); }
static mpq_class floor_q_early(const mpq_class& q) { mpz_class t; mpz_fdiv_q(t.get_mpz_t(), q.get_num().get_mpz_t(), q.get_den().get_mpz_t()); return mpq_class(t); }
template <typename To, typename From>
static void conv_values(const std::vector<From>& vals, const std::vector<XV>& xs, const char* tag) {
  ToInfo ti = to_info<To>();
  for (size_t i = 0; i < vals.size(); ++i) {
    for (int k = 0; k < 5; ++k) {
      unsigned dir = DIRS[k];
      To to = sentinel<To>();
      Result r = assign_r(to, vals[i], static_cast<Rounding_Dir>(dir));
      counts[std::string("conv")]++;
      XV s = describe(to);
      const char* why = oracle(ti, (unsigned)r, dir, xs[i], s);
      if (why) {
        std::ostringstream g; g << show(s) << " " << (unsigned)r;
        // a floating point source equal to max+1 of an integer destination wider than the source's mantissa
        const char* cls = (NT<To>::is_int && NT<From>::is_float && NT<To>::bits > NT<From>::mant && xs[i].kind == 0 && xs[i].q == ti.hi + 1)
          ? "float-source-equals-int-max+1" : "other";
        // a long double source that double cannot hold exactly (more than 53 significant bits), into a 64-bit integer
        if (NT<To>::is_int && NT<To>::bits == 64 && NT<From>::mant == 64 && xs[i].kind == 0 && !dyadic_fits(xs[i].q, 53))
          cls = "ldouble-source-not-representable-in-double";
        fail("conv", std::string("assign") + tag, NT<To>::name(), NT<From>::name(), cls, dir, show(xs[i]), g.str(), why);
      }
    }
  }
}
template <typename To, typename From> static void conv_pair() { conv_values<To, From>(Pool<From>::v, Pool<From>::x, ""); }
template <typename To> static void conv_dyadic() {
  std::vector<XV> xf, xd;
  for (size_t i = 0; i < dyadic_f.size(); ++i) xf.push_back(XV(dyadic_f[i]));
  for (size_t i = 0; i < dyadic_d.size(); ++i) xd.push_back(XV(dyadic_d[i]));
  if (NT<To>::mant == 64) { std::vector<XV> xl; for (size_t i = 0; i < dyadic_l.size(); ++i) xl.push_back(XV(dyadic_l[i])); conv_values<To, mpq_class>(dyadic_l, xl, "_dyadic"); return; }
  conv_values<To, mpq_class>(NT<To>::mant == 24 ? dyadic_f : dyadic_d, NT<To>::mant == 24 ? xf : xd, "_dyadic");
}
template <typename To> static void conv_to() {
  conv_pair<To, int8_t>(); conv_pair<To, int16_t>(); conv_pair<To, int32_t>(); conv_pair<To, int64_t>();
  conv_pair<To, uint8_t>(); conv_pair<To, uint16_t>(); conv_pair<To, uint32_t>(); conv_pair<To, uint64_t>();
  conv_pair<To, float>(); conv_pair<To, double>(); conv_pair<To, long double>(); conv_pair<To, mpz_class>(); conv_pair<To, mpq_class>();
}

// ---------------------------------------------------------------------------------------------------------------
// 2. arithmetic on float, double, mpz, mpq (same type for destination and operands)
// ---------------------------------------------------------------------------------------------------------------
enum AOp { A_NEG, A_ABS, A_FLOOR, A_CEIL, A_TRUNC, A_SQRT, A_ADD, A_SUB, A_MUL, A_DIV, A_IDIV, A_REM, A_ADD_MUL, A_SUB_MUL,
           A_ADD_2EXP, A_SUB_2EXP, A_MUL_2EXP, A_DIV_2EXP, A_SMOD_2EXP, A_UMOD_2EXP, A_COUNT };
static const char* aop_name[] = { "neg", "abs", "floor", "ceil", "trunc", "sqrt", "add", "sub", "mul", "div", "idiv", "rem", "add_mul", "sub_mul",
  "add_2exp", "sub_2exp", "mul_2exp", "div_2exp", "smod_2exp", "umod_2exp" };
static int aop_arity(AOp o) { return o <= A_SQRT ? 1 : o <= A_REM ? 2 : o <= A_SUB_MUL ? 3 : 4; }

static int sgn_xv(const XV& a) { return a.kind == 1 ? 1 : a.kind == -1 ? -1 : sgn(a.q); }
static mpq_class trunc_q(const mpq_class& q) { mpz_class t; mpz_tdiv_q(t.get_mpz_t(), q.get_num().get_mpz_t(), q.get_den().get_mpz_t()); return mpq_class(t); }
static mpq_class floor_q(const mpq_class& q) { mpz_class t; mpz_fdiv_q(t.get_mpz_t(), q.get_num().get_mpz_t(), q.get_den().get_mpz_t()); return mpq_class(t); }
static mpq_class ceil_q(const mpq_class& q) { mpz_class t; mpz_cdiv_q(t.get_mpz_t(), q.get_num().get_mpz_t(), q.get_den().get_mpz_t()); return mpq_class(t); }

// exact result in the extended reals; false = outside the contract of a policy with all check_* flags off
static bool add_xv(const XV& a, const XV& b, XV& out) {
  if (a.kind && b.kind) { if (a.kind != b.kind) return false; out = XV(a.kind); return true; }
  if (a.kind) { out = XV(a.kind); return true; }
  if (b.kind) { out = XV(b.kind); return true; }
  out = XV(mpq_class(a.q + b.q)); return true;
}
static bool mul_xv(const XV& a, const XV& b, XV& out) {
  if (a.kind || b.kind) { int s = sgn_xv(a) * sgn_xv(b); if (s == 0) return false; out = XV(s); return true; }
  out = XV(mpq_class(a.q * b.q)); return true;
}
static XV neg_xv(const XV& a) { if (a.kind) return XV(-a.kind); return XV(mpq_class(-a.q)); }

static bool exact_arith(AOp op, bool is_float, bool integral, const XV& a, const XV& b, const XV& c, unsigned e, XV& out) {
  int ar = aop_arity(op);
  if (a.kind == 2 || (ar >= 2 && ar <= 3 && b.kind == 2) || (ar == 3 && c.kind == 2)) { out = XV(2); return true; }
  mpq_class two_e(pow2((int)e));
  switch (op) {
  case A_NEG: out = neg_xv(a); return true;
  case A_ABS: out = a.kind ? XV(1) : XV(mpq_class(abs(a.q))); return true;
  case A_FLOOR: out = a.kind ? a : XV(floor_q(a.q)); return true;
  case A_CEIL: out = a.kind ? a : XV(ceil_q(a.q)); return true;
  case A_TRUNC: out = a.kind ? a : XV(trunc_q(a.q)); return true;
  case A_SQRT:
    if (a.kind == 1) { out = XV(1); return true; }
    if (a.kind == -1 || a.q < 0) return false;      // check_sqrt_neg is off: the caller guarantees a non-negative operand
    out = XV(a.q); out.kind = 3; if (a.q == 0) out.kind = 0; return true;
  case A_ADD: return add_xv(a, b, out);
  case A_SUB: return add_xv(a, neg_xv(b), out);
  case A_MUL: return mul_xv(a, b, out);
  case A_DIV: case A_IDIV:
    if (b.kind == 0 && b.q == 0) return false;
    if (a.kind && b.kind) return false;
    if (op == A_IDIV && (a.kind || b.kind)) return false;
    if (a.kind) { out = XV(a.kind * sgn(b.q)); return true; }
    if (b.kind) { out = XV(mpq_class(0)); return true; }
    { mpq_class q = a.q / b.q; if (op == A_IDIV || (integral && false)) q = trunc_q(q); out = XV(q); }
    return true;
  case A_REM:
    if (b.kind == 0 && b.q == 0) return false;
    if (a.kind) return false;
    if (b.kind) { out = a; return true; }
    { mpq_class q = trunc_q(a.q / b.q); out = XV(mpq_class(a.q - b.q * q)); }
    return true;
  case A_ADD_MUL: case A_SUB_MUL: {
    // floating point: the product is rounded on its own (no fused multiply-add on this platform) and the source
    // itself notes "FIXME: missing check_inf_add_inf": an infinite accumulator is outside what the code handles
    if (is_float && c.kind != 0) return false;
    XV p; if (!mul_xv(a, b, p)) return false;
    if (op == A_SUB_MUL) p = neg_xv(p);
    return add_xv(c, p, out); }
  case A_ADD_2EXP: return add_xv(a, XV(two_e), out);
  case A_SUB_2EXP: return add_xv(a, XV(mpq_class(-two_e)), out);
  case A_MUL_2EXP: return mul_xv(a, XV(two_e), out);
  case A_DIV_2EXP: if (a.kind) { out = a; return true; } out = XV(mpq_class(a.q / two_e)); return true;
  case A_SMOD_2EXP: case A_UMOD_2EXP: {
    if (a.kind) return false;
    if (op == A_SMOD_2EXP && e == 0) return false;   // "modulo 2^0 in [-2^-1, 2^-1)": undefined shift for integers, division by zero in smod_2exp_mpq
    mpq_class u = a.q - two_e * floor_q(a.q / two_e);
    if (op == A_SMOD_2EXP && u >= two_e / 2) u -= two_e;
    out = XV(u); return true; }
  default: return false;
  }
}

// idiv is not specialised for the floating point types
template <typename T, bool F> struct IDiv { static Result run(T& to, const T& x, const T& y, Rounding_Dir d) { return idiv_assign_r(to, x, y, d); } };
template <typename T> struct IDiv<T, true> { static Result run(T&, const T&, const T&, Rounding_Dir) { return V_NAN; } };

template <typename T> struct ACall {
  static Result run(AOp op, T& to, const T& x, const T& y, unsigned e, Rounding_Dir d) {
    switch (op) {
    case A_NEG: return neg_assign_r(to, x, d);
    case A_ABS: return abs_assign_r(to, x, d);
    case A_FLOOR: return floor_assign_r(to, x, d);
    case A_CEIL: return ceil_assign_r(to, x, d);
    case A_TRUNC: return trunc_assign_r(to, x, d);
    case A_SQRT: return sqrt_assign_r(to, x, d);
    case A_ADD: return add_assign_r(to, x, y, d);
    case A_SUB: return sub_assign_r(to, x, y, d);
    case A_MUL: return mul_assign_r(to, x, y, d);
    case A_DIV: return div_assign_r(to, x, y, d);
    case A_IDIV: return IDiv<T, NT<T>::is_float>::run(to, x, y, d);
    case A_REM: return rem_assign_r(to, x, y, d);
    case A_ADD_MUL: return add_mul_assign_r(to, x, y, d);
    case A_SUB_MUL: return sub_mul_assign_r(to, x, y, d);
    case A_ADD_2EXP: return add_2exp_assign_r(to, x, e, d);
    case A_SUB_2EXP: return sub_2exp_assign_r(to, x, e, d);
    case A_MUL_2EXP: return mul_2exp_assign_r(to, x, e, d);
    case A_DIV_2EXP: return div_2exp_assign_r(to, x, e, d);
    case A_SMOD_2EXP: return smod_2exp_assign_r(to, x, e, d);
    case A_UMOD_2EXP: return umod_2exp_assign_r(to, x, e, d);
    default: return V_NAN;
    }
  }
};

template <typename T>
static void arith_one(AOp op, unsigned dir, size_t i, size_t j, size_t k, unsigned e) {
  static const ToInfo ti = to_info<T>();
  const std::vector<T>& V = Pool<T>::v; const std::vector<XV>& X = Pool<T>::x;
  XV ex;
  int ar = aop_arity(op);
  if (!exact_arith(op, NT<T>::is_float, false, X[i], X[j], X[k], e, ex)) return;
  if (!NT<T>::is_float && op == A_MUL_2EXP && false) return;
  T to = (ar == 3) ? V[k] : T();
  Result r = ACall<T>::run(op, to, V[i], V[j], e, static_cast<Rounding_Dir>(dir));
  counts["arith"]++;
  XV s = describe(to);
  // an mpz destination holds integers: the exact result of the integer-valued operations is the rational one, the
  // result word must say how the stored integer relates to it
  const char* why = oracle(ti, (unsigned)r, dir, ex, s);
  if (why) {
    std::ostringstream o, g; o << show(X[i]); if (ar == 2 || ar == 3) o << " " << show(X[j]); if (ar == 3) o << " to=" << show(X[k]); if (ar == 4) o << " exp=" << e;
    g << show(s) << " " << (unsigned)r;
    const char* cls = "other";
    if (op == A_SQRT && NT<T>::is_gmp && NT<T>::name()[2] == 'q' && X[i].kind == 0 && (X[i].q < 1 || (dir & 7u) == 6u)) cls = "mpq-sqrt-relation";
    fail("arith", aop_name[op], NT<T>::name(), NT<T>::name(), cls, dir, o.str(), g.str(), why);
  }
}

template <typename T> static void arith_type() {
  const size_t n = Pool<T>::v.size();
  // sub-pool for the quadratic / cubic loops
  std::vector<size_t> sub, sub3;
  size_t step2 = thorough ? 2 : (n > 90 ? n / 60 : 1), step3 = n > 14 ? n / 14 : 1;
  for (size_t i = 0; i < n; ++i) { if (i < 14 || i % step2 == 0) sub.push_back(i); if (i < 6 || i % step3 == 0) sub3.push_back(i); }
  static const unsigned exps[] = { 0, 1, 5, 31, 63 };
  for (int o = 0; o < A_COUNT; ++o) {
    AOp op = (AOp)o; int ar = aop_arity(op);
    if (NT<T>::is_float && op == A_IDIV) continue;
    for (int d = 0; d < 5; ++d) {
      unsigned dir = DIRS[d];
      if (ar == 1) for (size_t i = 0; i < n; ++i) arith_one<T>(op, dir, i, 0, 0, 0);
      else if (ar == 4) for (size_t i = 0; i < n; ++i) for (int e = 0; e < 5; ++e) arith_one<T>(op, dir, i, 0, 0, exps[e]);
      else if (ar == 2) for (size_t a = 0; a < sub.size(); ++a) for (size_t b = 0; b < sub.size(); ++b) arith_one<T>(op, dir, sub[a], sub[b], 0, 0);
      else for (size_t a = 0; a < sub3.size(); ++a) for (size_t b = 0; b < sub3.size(); ++b) for (size_t c = 0; c < sub3.size(); ++c) arith_one<T>(op, dir, sub3[a], sub3[b], sub3[c], 0);
    }
  }
}

// ---------------------------------------------------------------------------------------------------------------
// 3. comparisons: every entry point on every ordered pair of types
// ---------------------------------------------------------------------------------------------------------------
static int cmp_xv(const XV& a, const XV& b) {   // both non-nan
  if (a.kind || b.kind) { int x = a.kind, y = b.kind; return x < y ? -1 : x > y ? 1 : (x != 0 ? 0 : 0); }
  return cmp(a.q, b.q);
}
static int cmp_ext_xv(const XV& a, const XV& b) {
  if (a.kind == 0 && b.kind == 0) { int c = cmp(a.q, b.q); return c < 0 ? -1 : c > 0 ? 1 : 0; }
  if (a.kind == b.kind) return 0;
  if (a.kind == 1 || b.kind == -1) return 1;
  return -1;
}

template <typename T> static bool is_special_encoding(const XV& v) {
  // the values an integer type uses to encode +inf, -inf, NaN under a policy with has_infinity / has_nan
  if (!NT<T>::is_int || v.kind != 0) return false;
  ToInfo ti = to_info<T>();
  if (NT<T>::sgn) return v.q == ti.hi || v.q == ti.lo || v.q == ti.lo + 1;
  return v.q == ti.hi || v.q == ti.hi - 1 || v.q == ti.hi - 2;
}
template <typename T1, typename T2> static const char* cmp_class(const std::string& entry, const XV& a, const XV& b) {
  // input conditions under which the known comparison defects apply (known_findings.d/C11.json)
  bool g = entry.find("greater") != std::string::npos || entry.find("operator>") != std::string::npos;
  bool l = entry.find("less") != std::string::npos || entry.find("operator<") != std::string::npos;
  bool nan = a.kind == 2 || b.kind == 2;
  // (7) less_than / less_or_equal of an integer too wide for the float's mantissa against a float NaN (greater_*(x, y) is lt/le(y, x))
  bool p_nan = (l && NT<T1>::is_int && NT<T2>::is_float && NT<T1>::bits > NT<T2>::mant && b.kind == 2)
            || (g && NT<T2>::is_int && NT<T1>::is_float && NT<T2>::bits > NT<T1>::mant && a.kind == 2);
  // (6) greater_* with an integer equal to a special encoding against a float
  bool p_spec = g && ((NT<T1>::is_float && is_special_encoding<T2>(b)) || (NT<T2>::is_float && is_special_encoding<T1>(a)));
  // (8) a float equal to max+1 of the integer operand's type
  bool p_max = !nan && ((NT<T1>::is_int && NT<T2>::is_float && NT<T1>::bits > NT<T2>::mant && b.kind == 0 && b.q == to_info<T1>().hi + 1)
                     || (NT<T2>::is_int && NT<T1>::is_float && NT<T2>::bits > NT<T1>::mant && a.kind == 0 && a.q == to_info<T2>().hi + 1));
  // (5) a float against an integer wider than its mantissa and not representable in it (FPU inexact-flag test)
  bool p_wide = !nan && ((NT<T1>::is_float && NT<T2>::is_int && NT<T2>::bits > NT<T1>::mant && !representable_in_float_type<T1>(b, NT<T1>::mant))
                      || (NT<T2>::is_float && NT<T1>::is_int && NT<T1>::bits > NT<T2>::mant && !representable_in_float_type<T2>(a, NT<T2>::mant)));
  int n = (p_nan ? 1 : 0) + (p_spec ? 1 : 0) + (p_max ? 1 : 0) + (p_wide ? 1 : 0);
  if (n >= 2) return "several-known-defects-apply";
  if (p_nan) return "less-wide-int-vs-float-nan";
  if (p_spec) return "greater-with-int-equal-to-a-special-encoding";
  if (p_max) return "float-equals-int-max+1";
  if (p_wide) return "float-vs-wide-int-not-representable";
  return nan ? "nan-operand" : "other";
}

// cmp() is specialised for operands of the same type only
template <typename T1, typename T2> struct Cmp3 { static bool run(const T1&, const T2&, int&) { return false; } };
template <typename T> struct Cmp3<T, T> { static bool run(const T& x, const T& y, int& g) { g = Parma_Polyhedra_Library::cmp(x, y); g = g < 0 ? -1 : g > 0 ? 1 : 0; return true; } };

template <typename T1, typename T2>
static void cmp_one(const T1& x, const XV& a, const T2& y, const XV& b) {
  // a floating point infinity / NaN against a native GMP number: the generic `x < y' converts the float with
  // mpq_set_d, which raises GMP's invalid-operation exception (SIGFPE): not run (reported as an observation)
  if ((NT<T1>::is_float && NT<T2>::is_gmp && a.kind != 0) || (NT<T2>::is_float && NT<T1>::is_gmp && b.kind != 0)) { counts["compare-skipped-float-special-vs-gmp"]++; return; }
  bool nan = a.kind == 2 || b.kind == 2;
  int c = nan ? 0 : cmp_ext_xv(a, b);
  bool want[6] = { !nan && c == 0, nan || c != 0, !nan && c < 0, !nan && c <= 0, !nan && c > 0, !nan && c >= 0 };
  static const char* names[6] = { "equal", "not_equal", "less_than", "less_or_equal", "greater_than", "greater_or_equal" };
  static const char* onames[6] = { "operator==", "operator!=", "operator<", "operator<=", "operator>", "operator>=" };
  bool got[6] = { equal(x, y), not_equal(x, y), less_than(x, y), less_or_equal(x, y), greater_than(x, y), greater_or_equal(x, y) };
  counts["compare"] += 6;
  for (int k = 0; k < 6; ++k) if (got[k] != want[k]) {
    std::ostringstream o; o << show(a) << " " << show(b);
    fail("compare", names[k], NT<T1>::name(), NT<T2>::name(), cmp_class<T1, T2>(names[k], a, b), 0, o.str(), got[k] ? "true" : "false", "comparison-differs-from-exact");
  }
  if (!nan) {
    int g = 0;
    if (Cmp3<T1, T2>::run(x, y, g)) counts["compare"]++; else g = c;
    if (g != c) { std::ostringstream o, gs; o << show(a) << " " << show(b); gs << g;
      fail("compare", "cmp", NT<T1>::name(), NT<T2>::name(), cmp_class<T1, T2>("cmp", a, b), 0, o.str(), gs.str(), "comparison-differs-from-exact"); }
  }
  // the overloaded operators need a Checked_Number on one side
  typedef Checked_Number<T1, Check_Overflow_Policy<T1> > C1;
  typedef Checked_Number<T2, Check_Overflow_Policy<T2> > C2;
  C1 cx; cx.raw_value() = x; C2 cy; cy.raw_value() = y;
  bool go1[6] = { cx == y, cx != y, cx < y, cx <= y, cx > y, cx >= y };
  bool go2[6] = { x == cy, x != cy, x < cy, x <= cy, x > cy, x >= cy };
  counts["compare"] += 12;
  for (int k = 0; k < 6; ++k) {
    if (go1[k] != want[k]) { std::ostringstream o; o << show(a) << " " << show(b);
      fail("compare", std::string(onames[k]) + "(checked,native)", NT<T1>::name(), NT<T2>::name(), cmp_class<T1, T2>(onames[k], a, b), 0, o.str(), go1[k] ? "true" : "false", "comparison-differs-from-exact"); }
    if (go2[k] != want[k]) { std::ostringstream o; o << show(a) << " " << show(b);
      fail("compare", std::string(onames[k]) + "(native,checked)", NT<T1>::name(), NT<T2>::name(), cmp_class<T1, T2>(onames[k], a, b), 0, o.str(), go2[k] ? "true" : "false", "comparison-differs-from-exact"); }
  }
}

template <typename T1, typename T2> static void cmp_pair() {
  const std::vector<T1>& V1 = Pool<T1>::v; const std::vector<XV>& X1 = Pool<T1>::x;
  const std::vector<T2>& V2 = Pool<T2>::v; const std::vector<XV>& X2 = Pool<T2>::x;
  // order the second pool by exact value; every x is compared with its neighbours in that order (+ the specials)
  std::vector<size_t> ord, spec;
  for (size_t j = 0; j < V2.size(); ++j) (X2[j].kind == 2 ? spec : ord).push_back(j);
  struct Less { const std::vector<XV>* X; bool operator()(size_t a, size_t b) const { return cmp_ext_xv((*X)[a], (*X)[b]) < 0; } } less; less.X = &X2;
  std::sort(ord.begin(), ord.end(), less);
  const int W = thorough ? 6 : 3;
  for (size_t i = 0; i < V1.size(); ++i) {
    for (size_t s = 0; s < spec.size(); ++s) cmp_one<T1, T2>(V1[i], X1[i], V2[spec[s]], X2[spec[s]]);
    if (X1[i].kind == 2) { for (size_t j = 0; j < ord.size(); j += 7) cmp_one<T1, T2>(V1[i], X1[i], V2[ord[j]], X2[ord[j]]); continue; }
    // first position whose value is >= x
    size_t lo = 0, hi = ord.size();
    while (lo < hi) { size_t m = (lo + hi) / 2; if (cmp_ext_xv(X2[ord[m]], X1[i]) < 0) lo = m + 1; else hi = m; }
    long from = (long)lo - W, to = (long)lo + W;
    for (long j = from; j <= to; ++j) if (j >= 0 && j < (long)ord.size()) cmp_one<T1, T2>(V1[i], X1[i], V2[ord[j]], X2[ord[j]]);
    cmp_one<T1, T2>(V1[i], X1[i], V2[ord[0]], X2[ord[0]]); cmp_one<T1, T2>(V1[i], X1[i], V2[ord[ord.size() - 1]], X2[ord[ord.size() - 1]]);
    size_t rj = (size_t)(rnd() % ord.size()); cmp_one<T1, T2>(V1[i], X1[i], V2[ord[rj]], X2[ord[rj]]);
  }
}
template <typename T1> static void cmp_from() {
  cmp_pair<T1, int8_t>(); cmp_pair<T1, int16_t>(); cmp_pair<T1, int32_t>(); cmp_pair<T1, int64_t>();
  cmp_pair<T1, uint8_t>(); cmp_pair<T1, uint16_t>(); cmp_pair<T1, uint32_t>(); cmp_pair<T1, uint64_t>();
  cmp_pair<T1, float>(); cmp_pair<T1, double>(); cmp_pair<T1, long double>(); cmp_pair<T1, mpz_class>(); cmp_pair<T1, mpq_class>();
}


// ---------------------------------------------------------------------------------------------------------------
// 4. textual input: Checked::input / input_mpq / parse_number (checked.cc) through assign_r(To&, const char*, dir).
//    Strings are GENERATED from a structural description (sign, base prefix, integer and fractional digits, exponent
//    marker/sign/digits, optional /DENOMINATOR of the same shape); the exact value is computed from the description,
//    never by parsing the string again.
// ---------------------------------------------------------------------------------------------------------------
struct Part {
  int sign;            // 0 none, 1 '+', 2 '-'
  int base; int style; // style 0: plain decimal, 1: 0x / 0X, 2: <base>^^
  std::string ints, fracs; bool dot;
  int exp_style;       // 0 none, 1 'e', 2 'E', 3 'p'/'P' (binary exponent of a hexadecimal mantissa), 4 "*^"
  int exp_sign;        // 0 none, 1 '+', 2 '-'
  unsigned exp;
};
static char digit_char(int d) { if (d < 10) return (char)('0' + d); char c = (char)('a' + d - 10); return (rnd() & 1) ? c : (char)(c - 32); }
static int digit_val(char c) { if (c >= '0' && c <= '9') return c - '0'; if (c >= 'a' && c <= 'z') return c - 'a' + 10; return c - 'A' + 10; }
static std::string digits(int base, int n, int zeros_front, int zeros_back) {
  std::string r(zeros_front, '0');
  for (int i = 0; i < n; ++i) { int d = (int)(rnd() % (unsigned)base); if ((i == 0 || i == n - 1) && d == 0) d = 1 % base == 0 ? 0 : 1; r += digit_char(d); }
  r += std::string(zeros_back, '0');
  return r;
}
static std::string part_text(const Part& p) {
  std::ostringstream o;
  if (p.sign == 1) o << '+'; else if (p.sign == 2) o << '-';
  if (p.style == 1) o << ((rnd() & 1) ? "0x" : "0X"); else if (p.style == 2) o << p.base << "^^";
  o << p.ints; if (p.dot) o << '.' << p.fracs;
  switch (p.exp_style) { case 1: o << 'e'; break; case 2: o << 'E'; break; case 3: o << ((rnd() & 1) ? 'p' : 'P'); break; case 4: o << "*^"; break; default: break; }
  if (p.exp_style) { if (p.exp_sign == 1) o << '+'; else if (p.exp_sign == 2) o << '-'; o << p.exp; }
  return o.str();
}
static mpq_class part_value(const Part& p) {
  mpz_class m = 0; std::string all = p.ints + (p.dot ? p.fracs : std::string());
  for (size_t i = 0; i < all.size(); ++i) { m *= p.base; m += digit_val(all[i]); }
  mpq_class v(m);
  if (p.dot && !p.fracs.empty()) { mpz_class d; mpz_ui_pow_ui(d.get_mpz_t(), (unsigned long)p.base, p.fracs.size()); v /= mpq_class(d); }
  if (p.exp_style) { mpz_class e; mpz_ui_pow_ui(e.get_mpz_t(), p.exp_style == 3 ? 2UL : (unsigned long)p.base, p.exp); if (p.exp_sign == 2) v /= mpq_class(e); else v *= mpq_class(e); }
  if (p.sign == 2) v = -v;
  return v;
}
// shape: number of integer digits, fractional digits (-1: no '.'), trailing zeros, exponent style/sign/value
static Part make_part(int base, int style, int sign, int ni, int nf, int tz_int, int tz_frac, int exp_style, int exp_sign, unsigned exp) {
  Part p; p.sign = sign; p.base = base; p.style = style; p.dot = nf >= 0;
  p.ints = ni > 0 ? digits(base, ni, (int)(rnd() % 2), tz_int) : std::string();
  p.fracs = nf > 0 ? digits(base, nf, (int)(rnd() % 2), tz_frac) : std::string();
  if (p.ints.empty() && (!p.dot || p.fracs.empty())) p.ints = "1";
  if (exp_style == 1 || exp_style == 2) { if (base > 14) exp_style = 4; }     // 'e' is a digit in bases above 14
  if (exp_style == 3 && base != 16) exp_style = 4;
  p.exp_style = exp_style; p.exp_sign = exp_sign; p.exp = exp;
  return p;
}

struct InCase { std::string text; XV exact; bool invalid; };
static std::vector<InCase> in_cases;
static void add_case(const std::string& t, const XV& e, bool invalid = false) { InCase c; c.text = t; c.exact = e; c.invalid = invalid; in_cases.push_back(c); }

static void build_input_cases() {
  // special tokens and malformed strings
  add_case("inf", XV(1)); add_case("+inf", XV(1)); add_case("-inf", XV(-1)); add_case("+INF", XV(1)); add_case("-Inf", XV(-1));
  add_case("nan", XV(2)); add_case("NaN", XV(2)); add_case("  nan", XV(2)); add_case(" \t-inf", XV(-1));
  const char* bad[] = { "", " ", ".", "-", "+", "abc", "1e", "1e+", "2.5E-", "0x1p+", "3*^-", "1*", "1*^", "1/", "1/.", "--1", "0x", "2^^", "1^^0", "37^^1", "3^^7", "1p3", "1/x", "e5", "in", "na" };
  for (size_t i = 0; i < sizeof(bad) / sizeof(bad[0]); ++i) add_case(bad[i], XV(2), true);
  add_case("1/0", XV(2)); add_case("0/0", XV(2)); add_case("5/0.000", XV(2)); add_case("0x10/0x0", XV(2));
  add_case("0", XV(mpq_class(0))); add_case("-0", XV(mpq_class(0))); add_case("000", XV(mpq_class(0))); add_case("0.000e7", XV(mpq_class(0))); add_case("0/7", XV(mpq_class(0)));
  add_case("1.", XV(mpq_class(1))); add_case(".5", XV(mpq_class(1, 2))); add_case("-.5e1", XV(mpq_class(-5))); add_case("+.25", XV(mpq_class(1, 4)));
  add_case("0x.8", XV(mpq_class(1, 2))); add_case("0x1.8p1", XV(mpq_class(3))); add_case("16^^ff", XV(mpq_class(255))); add_case("2^^101.1", XV(mpq_class(11, 2)));
  add_case("36^^z", XV(mpq_class(35))); add_case("3^^12e2", XV(mpq_class(45))); { mpz_class z; mpz_ui_pow_ui(z.get_mpz_t(), 10, 400); add_case("1e400", XV(mpq_class(z))); add_case("1e-400", XV(mpq_class(1, z))); add_case("-25e398/0.25", XV(mpq_class(-z))); }
  add_case(" 12 ", XV(mpq_class(12))); add_case("12,5", XV(mpq_class(12))); add_case("3/ 4", XV(mpq_class(3, 4)));
  // every production x exponent-merge sign case, over several bases
  struct B { int base, style; } bases[] = { {10, 0}, {16, 1}, {2, 2}, {8, 2}, {10, 2}, {14, 2}, {16, 2}, {36, 2}, {3, 2} };
  const int nb = (int)(sizeof(bases) / sizeof(bases[0]));
  struct Sh { int ni, nf, tzi, tzf, es, esg; unsigned e; } shapes[] = {
    {1, -1, 0, 0, 0, 0, 0}, {3, -1, 2, 0, 0, 0, 0}, {2, 0, 0, 0, 0, 0, 0}, {1, 2, 0, 0, 0, 0, 0}, {0, 2, 0, 0, 0, 0, 0}, {2, 3, 0, 2, 0, 0, 0},
    {1, -1, 0, 0, 1, 0, 3}, {1, -1, 0, 0, 2, 1, 2}, {2, -1, 1, 0, 1, 2, 2}, {1, 2, 0, 0, 1, 0, 5}, {1, 2, 0, 1, 2, 2, 1}, {1, 1, 0, 0, 4, 0, 2}, {2, -1, 0, 0, 4, 2, 3},
    {1, 1, 0, 0, 3, 0, 3}, {2, -1, 1, 0, 3, 2, 5}, {1, -1, 0, 0, 1, 0, 0}, {6, 4, 0, 0, 1, 2, 7} };
  const int ns = (int)(sizeof(shapes) / sizeof(shapes[0]));
  for (int b = 0; b < nb; ++b) for (int s = 0; s < ns; ++s) {
    const Sh& h = shapes[s];
    Part n = make_part(bases[b].base, bases[b].style, (int)(rnd() % 3), h.ni, h.nf, h.tzi, h.tzf, h.es, h.esg, h.e);
    add_case(part_text(n), XV(part_value(n)));
    // as numerator over every denominator shape of the same base (all exponent-merge sign cases) and of another base
    int reps = thorough ? ns : 6;
    for (int k = 0; k < reps; ++k) {
      int t = thorough ? k : (int)((unsigned)(s * 5 + k * 3 + b) % (unsigned)ns);
      const Sh& g = shapes[t];
      bool other = (k % 5 == 4);
      const B& db = other ? bases[(b + 1 + k) % nb] : bases[b];
      Part d = make_part(db.base, db.style, (int)(rnd() % 3), g.ni, g.nf, g.tzi, g.tzf, g.es, g.esg, g.e);
      Part n2 = make_part(bases[b].base, bases[b].style, (int)(rnd() % 3), h.ni, h.nf, h.tzi, h.tzf, h.es, h.esg, h.e);
      mpq_class dv = part_value(d);
      std::string txt = part_text(n2) + "/" + part_text(d);
      if (dv == 0) add_case(txt, XV(2)); else add_case(txt, XV(mpq_class(part_value(n2) / dv)));
    }
  }
  // seeded random parts, and values aimed at the boundaries of the destination types written in several ways
  int nr = thorough ? 1500 : 250;
  for (int i = 0; i < nr; ++i) {
    const B& bb = bases[rnd() % nb];
    Part n = make_part(bb.base, bb.style, (int)(rnd() % 3), (int)(rnd() % 8), (int)(rnd() % 6) - 1, (int)(rnd() % 3), (int)(rnd() % 3), (int)(rnd() % 5), (int)(rnd() % 3), (unsigned)(rnd() % 12));
    if (rnd() % 3 == 0) {
      const B& db = (rnd() % 4 == 0) ? bases[rnd() % nb] : bb;
      Part d = make_part(db.base, db.style, (int)(rnd() % 3), (int)(rnd() % 5), (int)(rnd() % 5) - 1, (int)(rnd() % 3), (int)(rnd() % 3), (int)(rnd() % 5), (int)(rnd() % 3), (unsigned)(rnd() % 12));
      mpq_class dv = part_value(d);
      std::string txt = part_text(n) + "/" + part_text(d);
      if (dv == 0) add_case(txt, XV(2)); else add_case(txt, XV(mpq_class(part_value(n) / dv)));
    }
    else add_case(part_text(n), XV(part_value(n)));
  }
  for (size_t i = 0; i < universal.size(); i += (thorough ? 1 : 3)) {
    const mpq_class& q = universal[i];
    add_case(q.get_str(), XV(q));                                      // "n/d" in decimal
    if (q.get_den() == 1) { add_case(q.get_num().get_str() + "00e-2", XV(q)); add_case(q.get_num().get_str() + ".0", XV(q)); }
    std::string hn = q.get_num().get_str(16), hd = q.get_den().get_str(16);
    std::string h = (hn[0] == '-' ? std::string("-0x") + hn.substr(1) : std::string("0x") + hn);
    add_case(q.get_den() == 1 ? h : h + "/0x" + hd, XV(q));
  }
}

template <typename To> static void input_to() {
  ToInfo ti = to_info<To>();
  for (size_t i = 0; i < in_cases.size(); ++i) {
    const InCase& c = in_cases[i];
    for (int k = 0; k < 5; ++k) {
      unsigned dir = DIRS[k];
      To to = sentinel<To>();
      Result r = assign_r(to, c.text.c_str(), static_cast<Rounding_Dir>(dir));
      counts["input"]++;
      XV s = describe(to);
      const char* why = 0;
      if (c.invalid) { if ((unsigned)r != (unsigned)V_CVT_STR_UNK) why = "malformed-string-not-reported-as-V_CVT_STR_UNK"; }
      else {
        why = oracle(ti, (unsigned)r, dir, c.exact, s);
        if (!why && c.exact.kind == 2 && ((unsigned)r & ~128u) == (unsigned)V_CVT_STR_UNK) why = "valid-string-reported-as-V_CVT_STR_UNK";
      }
      if (why) {
        std::ostringstream g; g << show(s) << " " << (unsigned)r;
        const char* cls = "other";
        size_t n = c.text.size();
        if (c.invalid && n >= 2 && (c.text[n - 1] == '+' || c.text[n - 1] == '-') && std::string("eEpP^").find(c.text[n - 2]) != std::string::npos)
          cls = "exponent-sign-at-end-of-input";
        fail("input", "assign_r(string)", NT<To>::name(), "text", cls, dir, std::string("\"") + c.text + "\" = " + show(c.exact), g.str(), why);
      }
    }
  }
}

int main(int argc, char** argv) {
  std::ios::sync_with_stdio(false);
  unsigned long long seed = argc > 1 ? strtoull(argv[1], 0, 10) : 1;
  thorough = argc > 2 && std::string(argv[2]) == "thorough";
  std::string only = argc > 3 ? argv[3] : "all";
  rng_state = seed * 2654435761ULL + 17;
  build_universal();
  build_int_pool<int8_t>(); build_int_pool<int16_t>(); build_int_pool<int32_t>(); build_int_pool<int64_t>();
  build_int_pool<uint8_t>(); build_int_pool<uint16_t>(); build_int_pool<uint32_t>(); build_int_pool<uint64_t>();
  build_float_pool<float>(); build_float_pool<double>(); build_float_pool<long double>(); build_gmp_pools();
  std::cout << "P universal " << universal.size() << " int64 " << Pool<int64_t>::v.size() << " float " << Pool<float>::v.size() << " double "
            << Pool<double>::v.size() << " mpz " << Pool<mpz_class>::v.size() << " mpq " << Pool<mpq_class>::v.size() << "\n";
  if (only == "all" || only == "conv") {
    conv_to<int8_t>(); conv_to<int16_t>(); conv_to<int32_t>(); conv_to<int64_t>();
    conv_to<uint8_t>(); conv_to<uint16_t>(); conv_to<uint32_t>(); conv_to<uint64_t>();
    conv_to<float>(); conv_to<double>(); conv_to<long double>(); conv_to<mpz_class>(); conv_to<mpq_class>();
    conv_dyadic<float>(); conv_dyadic<double>(); conv_dyadic<long double>();
  }
  if (only == "all" || only == "arith") { arith_type<float>(); arith_type<double>(); arith_type<long double>(); arith_type<mpz_class>(); arith_type<mpq_class>(); }
  if (only == "all" || only == "compare") {
    cmp_from<int8_t>(); cmp_from<int16_t>(); cmp_from<int32_t>(); cmp_from<int64_t>();
    cmp_from<uint8_t>(); cmp_from<uint16_t>(); cmp_from<uint32_t>(); cmp_from<uint64_t>();
    cmp_from<float>(); cmp_from<double>(); cmp_from<long double>(); cmp_from<mpz_class>(); cmp_from<mpq_class>();
  }
  if (only == "all" || only == "input") {
    build_input_cases();
    std::cout << "P input-strings " << in_cases.size() << "\n";
    input_to<mpq_class>(); input_to<mpz_class>(); input_to<float>(); input_to<double>(); input_to<long double>();
    input_to<int8_t>(); input_to<int16_t>(); input_to<int32_t>(); input_to<int64_t>();
    input_to<uint8_t>(); input_to<uint16_t>(); input_to<uint32_t>(); input_to<uint64_t>();
  }
  for (std::map<std::string, long long>::const_iterator i = counts.begin(); i != counts.end(); ++i)
    std::cout << "N " << i->first << " " << i->second << "\n";
  return 0;
}
