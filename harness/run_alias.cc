// C13 harness: histories over a pool of objects of ONE domain per case, with copy construction, assignment,
// swap, destruction and binary operations whose receiver and argument may be THE SAME object.
// After every command the harness prints what EVERY pool object denotes (read from a fresh copy, so that
// reading does not move the lazy state of the pool object itself); the judge (ocaml/judge_alias.ml) decides
// with the verified oracle which objects were allowed to change and whether paired results agree.
//
// usage: run_alias <casefile>
//   case <id> <dom>        dom in C NNC Grid BDS Oct Box PS Prod LE CS GS
//   new X <dim> universe|empty|cons K c..|gens K g..|cgs K cg..|expr n b a..
//   copy X Y | del X | op X assign Y | op X swap Y | op X <name> [Y|literal ...] | qry X <name> [Y] | obs X <what>
//   eq X Y | eqres          (directives for the judge, echoed)
// output per command:  cmd <line> / res ok [ret v] | res exn <class> / st ... (one per pool object) / endst
#define VH_PRIVATE_ACCESS
#include <unistd.h>
#include <sys/wait.h>
#include "vh_common.hh"
#define private public
#define protected public
#include "Partially_Reduced_Product_defs.hh"
#include "Pointset_Powerset_defs.hh"
#include "BD_Shape_defs.hh"
#include "Octagonal_Shape_defs.hh"
#include "Box_defs.hh"
#include "Rational_Box.hh"
#include "Grid_defs.hh"
#undef private
#undef protected
using namespace Parma_Polyhedra_Library;
using namespace vh;

typedef BD_Shape<mpq_class> BDS;
typedef Octagonal_Shape<mpq_class> Oct;
typedef Rational_Box RBox;
typedef Pointset_Powerset<C_Polyhedron> PS;
typedef Partially_Reduced_Product<C_Polyhedron, BDS, Constraints_Reduction<C_Polyhedron, BDS> > Prod;

struct CaseErr : std::runtime_error { CaseErr(const std::string& s) : std::runtime_error("case: " + s) {} };

static std::string squash(const std::string& s0) {
  std::string s = s0;
  for (size_t i = 0; i < s.size(); ++i) if (s[i] == ' ' || s[i] == '\n') s[i] = '_';
  return s;
}
static Variables_Set read_vars(Toks& tk) { long k = tk.nextl(); Variables_Set vs; for (long i = 0; i < k; ++i) vs.insert(Variable(tk.nextl())); return vs; }

// ---------------------------------------------------------------------------------------------------------
// grid printing (format of judge_grid: cg = "b m a..", generator = "p|q|l d a..")
static void print_gcgs(std::ostream& o, const Congruence_System& cs, unsigned n) {
  unsigned k = 0; for (Congruence_System::const_iterator i = cs.begin(); i != cs.end(); ++i) ++k;
  o << "gcgs " << k;
  for (Congruence_System::const_iterator i = cs.begin(); i != cs.end(); ++i) {
    o << " " << i->inhomogeneous_term() << " " << i->modulus();
    for (unsigned v = 0; v < n; ++v) { o << " "; if (v < i->space_dimension()) o << i->coefficient(Variable(v)); else o << 0; }
  }
}
static void print_ggens(std::ostream& o, const Grid_Generator_System& gs, unsigned n) {
  unsigned k = 0; for (Grid_Generator_System::const_iterator i = gs.begin(); i != gs.end(); ++i) ++k;
  o << "ggens " << k;
  for (Grid_Generator_System::const_iterator i = gs.begin(); i != gs.end(); ++i) {
    const Grid_Generator& g = *i;
    if (g.is_line()) o << " l 1"; else if (g.is_point()) o << " p " << g.divisor(); else o << " q " << g.divisor();
    for (unsigned v = 0; v < n; ++v) { o << " "; if (v < g.space_dimension()) o << g.coefficient(Variable(v)); else o << 0; }
  }
}
static Grid_Generator read_ggen(Toks& tk, unsigned n) {
  std::string t = tk.next(); mpz_class d = tk.nextz(); Linear_Expression e; if (n > 0) e.set_space_dimension(n);
  for (unsigned i = 0; i < n; ++i) { mpz_class a = tk.nextz(); if (a != 0) e += a * Variable(i); }
  if (t == "p") return grid_point(e, d); if (t == "q") return parameter(e, d); return grid_line(e);
}

// ---------------------------------------------------------------------------------------------------------
// per-domain traits
template <class D> struct Tr;

// -- shared by all semantic domains --
template <class D> static unsigned sdim(const D& x) { return x.space_dimension(); }

template <class D> static bool common_bin(D& x, const std::string& op, const D& y, std::string& ret) {
  if (op == "intersection_assign") x.intersection_assign(y);
  else if (op == "upper_bound_assign") x.upper_bound_assign(y);
  else if (op == "difference_assign") x.difference_assign(y);
  else if (op == "time_elapse_assign") x.time_elapse_assign(y);
  else if (op == "concatenate_assign") x.concatenate_assign(y);
  else if (op == "upper_bound_assign_if_exact") ret = x.upper_bound_assign_if_exact(y) ? "1" : "0";
  else return false;
  return true;
}
template <class D> static bool common_qry(const D& x, const std::string& q, const D& y, std::string& ret) {
  if (q == "contains") ret = x.contains(y) ? "1" : "0";
  else if (q == "strictly_contains") ret = x.strictly_contains(y) ? "1" : "0";
  else if (q == "is_disjoint_from") ret = x.is_disjoint_from(y) ? "1" : "0";
  else if (q == "equals") ret = (x == y) ? "1" : "0";
  else if (q == "differs") ret = (x != y) ? "1" : "0";
  else return false;
  return true;
}
template <class D> static bool common_un(D& x, const std::string& op, Toks& tk) {
  unsigned dim = x.space_dimension();
  if (op == "refine_with_constraint") x.refine_with_constraint(read_con(tk, dim));
  else if (op == "refine_with_constraints") x.refine_with_constraints(read_cons(tk, dim));
  else if (op == "refine_with_congruence") x.refine_with_congruence(read_cg(tk, dim));
  else if (op == "affine_image" || op == "affine_preimage") {
    unsigned v = tk.nextl(); mpz_class den = tk.nextz(); mpz_class b; Linear_Expression e = read_expr_n(tk, b);
    if (op == "affine_image") x.affine_image(Variable(v), e, den); else x.affine_preimage(Variable(v), e, den);
  }
  else if (op == "generalized_affine_image") {
    unsigned v = tk.nextl(); Relation_Symbol r = read_rel(tk); mpz_class den = tk.nextz(); mpz_class b; Linear_Expression e = read_expr_n(tk, b);
    x.generalized_affine_image(Variable(v), r, e, den);
  }
  else if (op == "unconstrain") x.unconstrain(Variable(tk.nextl()));
  else if (op == "add_space_dimensions_and_embed") x.add_space_dimensions_and_embed(tk.nextl());
  else if (op == "add_space_dimensions_and_project") x.add_space_dimensions_and_project(tk.nextl());
  else if (op == "remove_higher_space_dimensions") x.remove_higher_space_dimensions(tk.nextl());
  else if (op == "remove_space_dimensions") x.remove_space_dimensions(read_vars(tk));
  else if (op == "topological_closure_assign") x.topological_closure_assign();
  else return false;
  return true;
}
// observers called DIRECTLY on the pool object (they may move its lazy state; its value must not move)
template <class D> static bool common_obs(const D& x, const std::string& w) {
  if (w == "is_empty") (void) x.is_empty();
  else if (w == "is_universe") (void) x.is_universe();
  else if (w == "is_bounded") (void) x.is_bounded();
  else if (w == "is_topologically_closed") (void) x.is_topologically_closed();
  else if (w == "affine_dimension") (void) x.affine_dimension();
  else if (w == "OK") (void) x.OK();
  else return false;
  return true;
}
#define CONS_OBS(x, w) \
  if (w == "constraints") (void) x.constraints(); \
  else if (w == "minimized_constraints") (void) x.minimized_constraints(); \
  else if (w == "congruences") (void) x.congruences(); \
  else if (w == "minimized_congruences") (void) x.minimized_congruences();

// ---- polyhedra ----
template <class P> struct PolyTr {
  typedef P D;
  static D* make(const std::string& how, unsigned dim, Toks& tk) {
    if (how == "universe") return new D(dim, UNIVERSE);
    if (how == "empty") return new D(dim, EMPTY);
    if (how == "cons") return new D(read_cons(tk, dim));
    if (how == "gens") return new D(read_gens(tk, dim));
    throw CaseErr("bad new " + how);
  }
  static std::string flags(const D& x) { std::ostringstream os; x.status.ascii_dump(os); return squash(os.str()); }
  static void value(std::ostream& o, const D& x) {
    D c(x); o << "P "; print_cons(o, c.constraints(), c.space_dimension());
  }
  // a deep rebuild from the constraints (read from a copy): shares nothing with x
  static D* rebuild(const D& x) { D c(x); D* p = new D(x.space_dimension(), UNIVERSE); p->add_constraints(c.constraints()); return p; }
  static bool bin(D& x, const std::string& op, const D& y, Toks& tk, std::map<int, D*>& pool, std::string& ret) {
    if (op == "poly_hull_assign") x.poly_hull_assign(y);
    else if (op == "poly_difference_assign") x.poly_difference_assign(y);
    else if (op == "H79_widening_assign") x.H79_widening_assign(y);
    else if (op == "BHRZ03_widening_assign") x.BHRZ03_widening_assign(y);
    else if (op == "widening_assign") x.widening_assign(y);
    else if (op == "H79_widening_assign_tp") { unsigned t = tk.nextl(); x.H79_widening_assign(y, &t); ret = "tok" + std::to_string(t); }
    else if (op == "BHRZ03_widening_assign_tp") { unsigned t = tk.nextl(); x.BHRZ03_widening_assign(y, &t); ret = "tok" + std::to_string(t); }
    else if (op == "simplify_using_context_assign") ret = x.simplify_using_context_assign(y) ? "1" : "0";
    else if (op == "positive_time_elapse_assign") x.positive_time_elapse_assign(y);
    // the argument is a REFERENCE to the system held inside y (y may be x itself)
    else if (op == "add_constraints_of") x.add_constraints(y.constraints());
    else if (op == "refine_with_constraints_of") x.refine_with_constraints(y.constraints());
    else if (op == "add_generators_of") x.add_generators(y.generators());
    else if (op == "add_congruences_of") x.add_congruences(y.congruences());
    else if (op == "add_constraint_first_of") { const Constraint_System& cs = y.constraints(); if (cs.begin() != cs.end()) x.add_constraint(*cs.begin()); }
    else if (op == "add_generator_first_of") { const Generator_System& gs = y.generators(); if (gs.begin() != gs.end()) x.add_generator(*gs.begin()); }
    // x.op(y, cs) with cs a reference to the constraint system held inside a third (or the same) object
    else if (op == "limited_H79_extrapolation_assign_of" || op == "limited_BHRZ03_extrapolation_assign_of" ||
             op == "bounded_H79_extrapolation_assign_of" || op == "bounded_BHRZ03_extrapolation_assign_of") {
      int z = tk.nextl(); if (!pool.count(z)) throw CaseErr("unknown object"); const Constraint_System& cs = pool[z]->constraints();
      if (op[0] == 'l' && op[8] == 'H') x.limited_H79_extrapolation_assign(y, cs);
      else if (op[0] == 'l') x.limited_BHRZ03_extrapolation_assign(y, cs);
      else if (op[8] == 'H') x.bounded_H79_extrapolation_assign(y, cs);
      else x.bounded_BHRZ03_extrapolation_assign(y, cs);
    }
    else return false;
    return true;
  }
  static bool un(D& x, const std::string& op, Toks& tk) {
    unsigned dim = x.space_dimension();
    if (op == "add_constraint") x.add_constraint(read_con(tk, dim));
    else if (op == "add_constraints") x.add_constraints(read_cons(tk, dim));
    else if (op == "add_generator") x.add_generator(read_gen(tk, dim));
    else if (op == "add_generators") x.add_generators(read_gens(tk, dim));
    else if (op == "add_recycled_constraints") { Constraint_System cs = read_cons(tk, dim); x.add_recycled_constraints(cs); }
    else if (op == "add_recycled_generators") { Generator_System gs = read_gens(tk, dim); x.add_recycled_generators(gs); }
    else return false;
    return true;
  }
  static bool qry(const D& x, const std::string& q, const D& y, std::string& ret) { return false; }
  static bool obs(const D& x, const std::string& w) {
    CONS_OBS(x, w)
    else if (w == "generators") (void) x.generators();
    else if (w == "minimized_generators") (void) x.minimized_generators();
    else if (w == "is_discrete") (void) x.is_discrete();
    else if (w == "contains_integer_point") (void) x.contains_integer_point();
    else return false;
    return true;
  }
};
template <> struct Tr<C_Polyhedron> : PolyTr<C_Polyhedron> {};
template <> struct Tr<NNC_Polyhedron> : PolyTr<NNC_Polyhedron> {};

// ---- grids ----
template <> struct Tr<Grid> {
  typedef Grid D;
  static D* make(const std::string& how, unsigned dim, Toks& tk) {
    if (how == "universe") return new D(dim, UNIVERSE);
    if (how == "empty") return new D(dim, EMPTY);
    if (how == "cgs") return new D(read_cgs(tk, dim));
    if (how == "cons") return new D(read_cons(tk, dim));
    if (how == "ggens") { long k = tk.nextl(); Grid_Generator_System gs(dim); for (long i = 0; i < k; ++i) gs.insert(read_ggen(tk, dim)); return new D(gs); }
    throw CaseErr("bad new " + how);
  }
  static std::string flags(const D& x) { std::ostringstream os; x.status.ascii_dump(os); return squash(os.str()); }
  static void value(std::ostream& o, const D& x) {
    unsigned n = x.space_dimension();
    D c(x); o << "G "; print_ggens(o, c.grid_generators(), n); o << " ";
    D c2(x); print_gcgs(o, c2.congruences(), n);
  }
  static D* rebuild(const D& x) { D c(x); D* p = new D(x.space_dimension(), UNIVERSE); p->add_congruences(c.congruences()); return p; }
  static bool bin(D& x, const std::string& op, const D& y, Toks& tk, std::map<int, D*>& pool, std::string& ret) {
    if (op == "widening_assign") x.widening_assign(y);
    else if (op == "congruence_widening_assign") x.congruence_widening_assign(y);
    else if (op == "generator_widening_assign") x.generator_widening_assign(y);
    else if (op == "simplify_using_context_assign") ret = x.simplify_using_context_assign(y) ? "1" : "0";
    else if (op == "add_congruences_of") x.add_congruences(y.congruences());
    else if (op == "refine_with_congruences_of") x.refine_with_congruences(y.congruences());
    else if (op == "add_grid_generators_of") x.add_grid_generators(y.grid_generators());
    else if (op == "add_constraints_of") x.add_constraints(y.constraints());
    else if (op == "add_congruence_first_of") { const Congruence_System& cs = y.congruences(); if (cs.begin() != cs.end()) x.add_congruence(*cs.begin()); }
    else if (op == "add_grid_generator_first_of") { const Grid_Generator_System& gs = y.grid_generators(); if (gs.begin() != gs.end()) x.add_grid_generator(*gs.begin()); }
    else if (op == "limited_extrapolation_assign_of" || op == "limited_congruence_extrapolation_assign_of" || op == "limited_generator_extrapolation_assign_of") {
      int z = tk.nextl(); if (!pool.count(z)) throw CaseErr("unknown object"); const Congruence_System& cs = pool[z]->congruences();
      if (op == "limited_extrapolation_assign_of") x.limited_extrapolation_assign(y, cs);
      else if (op == "limited_congruence_extrapolation_assign_of") x.limited_congruence_extrapolation_assign(y, cs);
      else x.limited_generator_extrapolation_assign(y, cs);
    }
    else return false;
    return true;
  }
  static bool un(D& x, const std::string& op, Toks& tk) {
    unsigned dim = x.space_dimension();
    if (op == "add_congruence") x.add_congruence(read_cg(tk, dim));
    else if (op == "add_congruences") x.add_congruences(read_cgs(tk, dim));
    else if (op == "add_grid_generator") x.add_grid_generator(read_ggen(tk, dim));
    else return false;
    return true;
  }
  static bool qry(const D& x, const std::string& q, const D& y, std::string& ret) { return false; }
  static bool obs(const D& x, const std::string& w) {
    CONS_OBS(x, w)
    else if (w == "grid_generators") (void) x.grid_generators();
    else if (w == "minimized_grid_generators") (void) x.minimized_grid_generators();
    else return false;
    return true;
  }
};

// constraints of an object used as the `cs` argument of the limited extrapolations of the weakly relational domains:
// rows without variables (0 = 1 of an empty shape) are dropped, because BD_Shape/Octagonal_Shape::get_limiting_shape
// divides by the zero coefficient of such a row (an unrelated defect, reported separately; see gen_alias.EXCLUDED)
static Constraint_System with_variables_only(const Constraint_System& cs) {
  Constraint_System r; if (cs.space_dimension() > 0) r.set_space_dimension(cs.space_dimension());
  for (Constraint_System::const_iterator i = cs.begin(); i != cs.end(); ++i) if (!i->expression().all_homogeneous_terms_are_zero()) r.insert(*i);
  return r;
}
// ---- weakly relational shapes and boxes over mpq (constraints() is exact) ----
template <class S> struct ShapeBase {
  typedef S D;
  static D* make(const std::string& how, unsigned dim, Toks& tk) {
    if (how == "universe") return new D(dim, UNIVERSE);
    if (how == "empty") return new D(dim, EMPTY);
    if (how == "cons") { D* p = new D(dim, UNIVERSE); try { p->refine_with_constraints(read_cons(tk, dim)); } catch (...) { delete p; throw; } return p; }
    throw CaseErr("bad new " + how);
  }
  static void value(std::ostream& o, const D& x) { D c(x); o << "P "; print_cons(o, c.constraints(), c.space_dimension()); }
  static D* rebuild(const D& x) { D c(x); D* p = new D(x.space_dimension(), UNIVERSE); p->refine_with_constraints(c.constraints()); return p; }
  static bool un(D& x, const std::string& op, Toks& tk) { return false; }
  static bool qry(const D& x, const std::string& q, const D& y, std::string& ret) { return false; }
  static bool obs(const D& x, const std::string& w) { CONS_OBS(x, w) else return false; return true; }
};
template <> struct Tr<BDS> : ShapeBase<BDS> {
  static std::string flags(const D& x) { std::ostringstream os; x.status.ascii_dump(os); return squash(os.str()); }
  static bool bin(D& x, const std::string& op, const D& y, Toks& tk, std::map<int, D*>& pool, std::string& ret) {
    if (op == "widening_assign") x.widening_assign(y);
    else if (op == "BHMZ05_widening_assign") x.BHMZ05_widening_assign(y);
    else if (op == "CC76_extrapolation_assign") x.CC76_extrapolation_assign(y);
    else if (op == "H79_widening_assign") x.H79_widening_assign(y);
    else if (op == "CC76_narrowing_assign") x.CC76_narrowing_assign(y);
    else if (op == "simplify_using_context_assign") ret = x.simplify_using_context_assign(y) ? "1" : "0";
    else if (op == "add_constraints_of") x.add_constraints(y.constraints());
    else if (op == "refine_with_constraints_of") x.refine_with_constraints(y.constraints());
    else if (op == "limited_BHMZ05_extrapolation_assign_of" || op == "limited_CC76_extrapolation_assign_of" || op == "limited_H79_extrapolation_assign_of") {
      int z = tk.nextl(); if (!pool.count(z)) throw CaseErr("unknown object"); Constraint_System cs = with_variables_only(pool[z]->constraints());
      if (op[8] == 'B') x.limited_BHMZ05_extrapolation_assign(y, cs); else if (op[8] == 'C') x.limited_CC76_extrapolation_assign(y, cs);
      else x.limited_H79_extrapolation_assign(y, cs);
    }
    else return false;
    return true;
  }
};
template <> struct Tr<Oct> : ShapeBase<Oct> {
  static std::string flags(const D& x) { std::ostringstream os; x.status.ascii_dump(os); return squash(os.str()); }
  static bool bin(D& x, const std::string& op, const D& y, Toks& tk, std::map<int, D*>& pool, std::string& ret) {
    if (op == "widening_assign") x.widening_assign(y);
    else if (op == "BHMZ05_widening_assign") x.BHMZ05_widening_assign(y);
    else if (op == "CC76_extrapolation_assign") x.CC76_extrapolation_assign(y);
    else if (op == "CC76_narrowing_assign") x.CC76_narrowing_assign(y);
    else if (op == "simplify_using_context_assign") ret = x.simplify_using_context_assign(y) ? "1" : "0";
    else if (op == "add_constraints_of") x.add_constraints(y.constraints());
    else if (op == "refine_with_constraints_of") x.refine_with_constraints(y.constraints());
    else if (op == "limited_BHMZ05_extrapolation_assign_of" || op == "limited_CC76_extrapolation_assign_of") {
      int z = tk.nextl(); if (!pool.count(z)) throw CaseErr("unknown object"); Constraint_System cs = with_variables_only(pool[z]->constraints());
      if (op[8] == 'B') x.limited_BHMZ05_extrapolation_assign(y, cs); else x.limited_CC76_extrapolation_assign(y, cs);
    }
    else return false;
    return true;
  }
};
template <> struct Tr<RBox> : ShapeBase<RBox> {
  static std::string flags(const D& x) { std::ostringstream os; x.status.ascii_dump(os); return squash(os.str()); }
  static bool bin(D& x, const std::string& op, const D& y, Toks& tk, std::map<int, D*>& pool, std::string& ret) {
    if (op == "widening_assign") x.widening_assign(y);
    else if (op == "CC76_widening_assign") x.CC76_widening_assign(y);
    else if (op == "CC76_narrowing_assign") x.CC76_narrowing_assign(y);
    else if (op == "simplify_using_context_assign") ret = x.simplify_using_context_assign(y) ? "1" : "0";
    else if (op == "add_constraints_of") x.add_constraints(y.constraints());
    else if (op == "refine_with_constraints_of") x.refine_with_constraints(y.constraints());
    else if (op == "limited_CC76_extrapolation_assign_of") {
      int z = tk.nextl(); if (!pool.count(z)) throw CaseErr("unknown object"); Constraint_System cs = with_variables_only(pool[z]->constraints());
      x.limited_CC76_extrapolation_assign(y, cs);
    }
    else return false;
    return true;
  }
};

// ---- powerset of C polyhedra (disjuncts are reference-counted Determinate handles) ----
template <> struct Tr<PS> {
  typedef PS D;
  static D* make(const std::string& how, unsigned dim, Toks& tk) {
    if (how == "universe") return new D(dim, UNIVERSE);
    if (how == "empty") return new D(dim, EMPTY);
    if (how == "cons") return new D(read_cons(tk, dim));
    throw CaseErr("bad new " + how);
  }
  static std::string flags(const D& x) {
    // reduced flag and the reference count of every disjunct's representation
    std::ostringstream os; os << (x.reduced ? "R" : "r");
    for (D::const_iterator i = x.begin(); i != x.end(); ++i) { C_Polyhedron c(i->pointset()); os << "." << i->prep->references << (c.is_empty() ? "e" : ""); }
    return os.str();
  }
  static void value(std::ostream& o, const D& x) {
    D c(x); unsigned n = c.space_dimension(); o << "S " << c.size();
    for (D::const_iterator i = c.begin(); i != c.end(); ++i) { C_Polyhedron p(i->pointset()); o << " "; print_cons(o, p.constraints(), n); }
  }
  // a deep rebuild: every disjunct is a new polyhedron built from the constraints of a copy of the original disjunct,
  // in the same order; no Determinate representation is shared with x (or with anything else)
  static D* rebuild(const D& x) {
    D c(x); unsigned n = x.space_dimension(); D* p = new D(n, EMPTY);
    for (D::const_iterator i = c.begin(); i != c.end(); ++i) { C_Polyhedron t(i->pointset()); C_Polyhedron q(n, UNIVERSE); q.add_constraints(t.constraints()); p->add_disjunct(q); }
    return p;
  }
  static bool bin(D& x, const std::string& op, const D& y, Toks& tk, std::map<int, D*>& pool, std::string& ret) {
    if (op == "simplify_using_context_assign") ret = x.simplify_using_context_assign(y) ? "1" : "0";
    else if (op == "least_upper_bound_assign") x.least_upper_bound_assign(y);
    else if (op == "meet_assign") x.meet_assign(y);
    else if (op == "BGP99_extrapolation_assign") { unsigned m = tk.nextl(); x.BGP99_extrapolation_assign(y, widen_fun_ref(&Polyhedron::H79_widening_assign), m); }
    else if (op == "BHZ03_widening_assign") x.BHZ03_widening_assign<BHRZ03_Certificate>(y, widen_fun_ref(&Polyhedron::H79_widening_assign));
    // the argument is a reference to a disjunct held inside y (y may be x itself)
    else if (op == "add_disjunct_first_of") { if (y.begin() != y.end()) x.add_disjunct(y.begin()->pointset()); }
    else if (op == "add_disjunct_last_of") { if (y.begin() != y.end()) { D::const_iterator i = y.end(); --i; x.add_disjunct(i->pointset()); } }
    else return false;
    return true;
  }
  static bool un(D& x, const std::string& op, Toks& tk) {
    unsigned dim = x.space_dimension();
    if (op == "add_disjunct") x.add_disjunct(C_Polyhedron(read_cons(tk, dim)));
    else if (op == "add_constraint") x.add_constraint(read_con(tk, dim));
    else if (op == "pairwise_reduce") x.pairwise_reduce();
    else if (op == "omega_reduce") x.omega_reduce();
    else if (op == "collapse") x.collapse();
    else if (op == "drop_first_disjunct") { if (x.begin() != x.end()) x.drop_disjunct(x.begin()); }
    else return false;
    return true;
  }
  static bool qry(const D& x, const std::string& q, const D& y, std::string& ret) {
    if (q == "geometrically_covers") ret = x.geometrically_covers(y) ? "1" : "0";
    else if (q == "geometrically_equals") ret = x.geometrically_equals(y) ? "1" : "0";
    else if (q == "definitely_entails") ret = x.definitely_entails(y) ? "1" : "0";
    else return false;
    return true;
  }
  static bool obs(const D& x, const std::string& w) {
    if (w == "omega_reduce") x.omega_reduce();
    else if (w == "size") (void) x.size();
    else if (w == "is_omega_reduced") (void) x.is_omega_reduced();
    else return false;
    return true;
  }
};

// ---- a reduced product (C polyhedron x BD shape over mpq, constraints reduction): the value is the
//      intersection of the two components ----
template <> struct Tr<Prod> {
  typedef Prod D;
  static D* make(const std::string& how, unsigned dim, Toks& tk) {
    if (how == "universe") return new D(dim, UNIVERSE);
    if (how == "empty") return new D(dim, EMPTY);
    if (how == "cons") { D* p = new D(dim, UNIVERSE); try { p->refine_with_constraints(read_cons(tk, dim)); } catch (...) { delete p; throw; } return p; }
    throw CaseErr("bad new " + how);
  }
  static std::string flags(const D& x) { return x.reduced ? "R" : "r"; }
  static void value(std::ostream& o, const D& x) {
    D c(x); unsigned n = c.space_dimension();
    Constraint_System a = c.domain1().constraints(); Constraint_System b = c.domain2().constraints();
    unsigned k = 0;
    for (Constraint_System::const_iterator i = a.begin(); i != a.end(); ++i) ++k;
    for (Constraint_System::const_iterator i = b.begin(); i != b.end(); ++i) ++k;
    o << "P cons " << k;
    for (Constraint_System::const_iterator i = a.begin(); i != a.end(); ++i) { o << " "; print_con(o, *i, n); }
    for (Constraint_System::const_iterator i = b.begin(); i != b.end(); ++i) { o << " "; print_con(o, *i, n); }
  }
  static D* rebuild(const D& x) { D c(x); D* p = new D(x.space_dimension(), UNIVERSE); p->refine_with_constraints(c.constraints()); return p; }
  static bool bin(D& x, const std::string& op, const D& y, Toks& tk, std::map<int, D*>& pool, std::string& ret) {
    if (op == "widening_assign") x.widening_assign(y);
    else if (op == "add_constraints_of") x.add_constraints(y.constraints());
    else if (op == "refine_with_constraints_of") x.refine_with_constraints(y.constraints());
    else return false;
    return true;
  }
  static bool un(D& x, const std::string& op, Toks& tk) { return false; }
  static bool qry(const D& x, const std::string& q, const D& y, std::string& ret) { return false; }
  static bool obs(const D& x, const std::string& w) {
    CONS_OBS(x, w)
    else if (w == "reduce") (void) x.reduce();
    else return false;
    return true;
  }
};

// ---------------------------------------------------------------------------------------------------------
// direct check that a CONST argument (an object distinct from the receiver) comes back from a call as it went in:
// a deep copy taken before the call is compared, with the library's own operator==, with a copy taken after the call
// (the comparison runs on copies so that it does not move the lazy state of the argument itself; a copy inherits a
// corrupted representation, e.g. a constraint system left with the wrong topology), both containments are asked, the
// dimension must be the same and OK() must hold.  Printed as:  argck dim=1 ok=1 eq=1 sub=1 sup=1   (2 = exception)
template <class D> static int guarded_eq(const D& a, const D& b) { try { return (a == b) ? 1 : 0; } catch (...) { return 2; } }
template <class D> static int guarded_contains(const D& a, const D& b) { try { return a.contains(b) ? 1 : 0; } catch (...) { return 2; } }
template <class D> struct ArgCheck {
  D* before; bool was_ok;
  ArgCheck(const D& x, const D& y) : before(0), was_ok(true) { if (&x != &y) { before = new D(y); was_ok = y.OK(); } }
  ~ArgCheck() { delete before; }
  void report(const D& y) {
    if (before == 0 || !was_ok) return;
    int okk = 2, dim = 2, eq = 2, sub = 2, sup = 2;
    try { okk = y.OK() ? 1 : 0; } catch (...) {}
    try { dim = (y.space_dimension() == before->space_dimension()) ? 1 : 0; } catch (...) {}
    try { D after(y); eq = guarded_eq(after, *before); sub = guarded_contains(after, *before); sup = guarded_contains(*before, after); } catch (...) {}
    std::cout << "argck dim=" << dim << " ok=" << okk << " eq=" << eq << " sub=" << sub << " sup=" << sup << "\n";
  }
};

// ---------------------------------------------------------------------------------------------------------
// the interpreter of one case, for a semantic domain D
template <class D> struct Runner {
  typedef std::map<int, D*> Pool;
  Pool pool;
  ~Runner() { for (typename Pool::iterator i = pool.begin(); i != pool.end(); ++i) delete i->second; }
  D* get(int id) { typename Pool::iterator i = pool.find(id); if (i == pool.end()) throw CaseErr("unknown object"); return i->second; }
  void put(int id, D* p) { typename Pool::iterator i = pool.find(id); if (i != pool.end()) { delete i->second; i->second = p; } else pool[id] = p; }
  void states() {
    for (typename Pool::iterator i = pool.begin(); i != pool.end(); ++i) {
      const D& x = *i->second;
      std::cout << "st " << i->first << " " << x.space_dimension() << " " << (x.OK() ? 1 : 0) << " " << Tr<D>::flags(x) << " ";
      Tr<D>::value(std::cout, x);
      std::cout << "\n";
    }
    std::cout << "endst\n";
  }
  void exec(Toks& tk, const std::string& cmd) {
    if (cmd == "new") { int id = tk.nextl(); unsigned dim = tk.nextl(); std::string how = tk.next(); put(id, Tr<D>::make(how, dim, tk)); std::cout << "res ok\n"; }
    else if (cmd == "copy") { int id = tk.nextl(); const D& y = *get(tk.nextl()); std::string fl = Tr<D>::flags(y); put(id, new D(y)); std::cout << "res ok srcflags " << fl << "\n"; }
    else if (cmd == "rebuild") { int id = tk.nextl(); const D& y = *get(tk.nextl()); put(id, Tr<D>::rebuild(y)); std::cout << "res ok\n"; }
    else if (cmd == "del") { int id = tk.nextl(); delete get(id); pool.erase(id); std::cout << "res ok\n"; }
    else if (cmd == "op") {
      int id = tk.nextl(); D& x = *get(id); std::string op = tk.next(); std::string ret;
      if (op == "assign") { D& y = *get(tk.nextl()); x = y; }
      else if (op == "swap") { D& y = *get(tk.nextl()); x.m_swap(y); }
      else if (op == "std_swap") { D& y = *get(tk.nextl()); using std::swap; swap(x, y); }
      else {
        size_t save = tk.i;
        if (!common_un(x, op, tk)) { tk.i = save;
          if (!Tr<D>::un(x, op, tk)) { tk.i = save;
            const D& y = *get(tk.nextl());
            ArgCheck<D> ac(x, y);
            try { if (!common_bin(x, op, y, ret) && !Tr<D>::bin(x, op, y, tk, pool, ret)) throw CaseErr("unknown op " + op); }
            catch (const CaseErr&) { throw; }
            catch (...) { ac.report(y); throw; }
            ac.report(y);
          }
        }
      }
      std::cout << "res ok" << (ret.empty() ? "" : " ret ") << ret << "\n";
    }
    else if (cmd == "qry") {
      int id = tk.nextl(); const D& x = *get(id); std::string q = tk.next(); const D& y = *get(tk.nextl()); std::string ret;
      ArgCheck<D> ac(x, y);
      try { if (!common_qry(x, q, y, ret) && !Tr<D>::qry(x, q, y, ret)) throw CaseErr("unknown query " + q); }
      catch (const CaseErr&) { throw; }
      catch (...) { ac.report(y); throw; }
      ac.report(y);
      std::cout << "res ok ret " << ret << "\n";
    }
    else if (cmd == "obs") {
      int id = tk.nextl(); const D& x = *get(id); std::string w = tk.next();
      if (!common_obs(x, w) && !Tr<D>::obs(x, w)) throw CaseErr("unknown observer " + w);
      std::cout << "res ok\n";
    }
    else throw CaseErr("unknown command " + cmd);
  }
  int run(const std::vector<std::string>& lines) {
    for (size_t k = 0; k < lines.size(); ++k) {
      Toks tk(lines[k]); if (!tk.more()) continue;
      std::string cmd = tk.next();
      std::cout << "cmd " << lines[k] << std::endl;
      if (cmd == "eq" || cmd == "eqres" || cmd == "eqres3" || cmd == "note") continue;
      try {
        try { exec(tk, cmd); }
        catch (const CaseErr&) { throw; }
        catch (const std::exception& e) { std::cout << "res exn " << exn_class(e) << "\n"; }
        states();
      } catch (const CaseErr& e) { std::cout << "HARNESS-ERROR " << e.what() << " in: " << lines[k] << std::endl; return 3; }
      std::cout.flush();
    }
    return 0;
  }
};

// ---------------------------------------------------------------------------------------------------------
// syntactic objects: Linear_Expression (LE), Constraint_System (CS), Generator_System (GS).
// Their value is their printed content (exact text comparison by the judge: kind "T").
struct SynRunner {
  std::string dom;
  std::map<int, Linear_Expression*> le; std::map<int, Constraint_System*> cs; std::map<int, Generator_System*> gs;
  ~SynRunner() {
    for (std::map<int, Linear_Expression*>::iterator i = le.begin(); i != le.end(); ++i) delete i->second;
    for (std::map<int, Constraint_System*>::iterator i = cs.begin(); i != cs.end(); ++i) delete i->second;
    for (std::map<int, Generator_System*>::iterator i = gs.begin(); i != gs.end(); ++i) delete i->second;
  }
  template <class M> typename M::mapped_type get(M& m, int id) { typename M::iterator i = m.find(id); if (i == m.end()) throw CaseErr("unknown object"); return i->second; }
  template <class M> void put(M& m, int id, typename M::mapped_type p) { typename M::iterator i = m.find(id); if (i != m.end()) { delete i->second; i->second = p; } else m[id] = p; }
  static void print_le(std::ostream& o, const Linear_Expression& e) {
    o << "T le_" << e.space_dimension() << "_" << e.inhomogeneous_term();
    for (unsigned v = 0; v < e.space_dimension(); ++v) o << "_" << e.coefficient(Variable(v));
  }
  void states() {
    for (std::map<int, Linear_Expression*>::iterator i = le.begin(); i != le.end(); ++i) {
      const Linear_Expression& x = *i->second; Linear_Expression c(x);
      std::cout << "st " << i->first << " " << x.space_dimension() << " " << (x.OK() ? 1 : 0) << " " << (x.representation() == DENSE ? "dense" : "sparse") << " ";
      print_le(std::cout, c); std::cout << "\n";
    }
    for (std::map<int, Constraint_System*>::iterator i = cs.begin(); i != cs.end(); ++i) {
      const Constraint_System& x = *i->second; Constraint_System c(x);
      std::cout << "st " << i->first << " " << x.space_dimension() << " " << (x.OK() ? 1 : 0) << " " << (x.representation() == DENSE ? "dense" : "sparse")
                << "." << x.sys.num_pending_rows() << "." << (x.sys.is_sorted() ? "s" : "u") << " T ";
      std::ostringstream os; print_cons(os, c, c.space_dimension()); std::cout << squash(os.str()) << "\n";
    }
    for (std::map<int, Generator_System*>::iterator i = gs.begin(); i != gs.end(); ++i) {
      const Generator_System& x = *i->second; Generator_System c(x);
      std::cout << "st " << i->first << " " << x.space_dimension() << " " << (x.OK() ? 1 : 0) << " " << (x.representation() == DENSE ? "dense" : "sparse")
                << "." << x.sys.num_pending_rows() << "." << (x.sys.is_sorted() ? "s" : "u") << " T ";
      std::ostringstream os; print_gens(os, c, c.space_dimension()); std::cout << squash(os.str()) << "\n";
    }
    std::cout << "endst\n";
  }
  void exec_le(Toks& tk, const std::string& cmd) {
    if (cmd == "new") { int id = tk.nextl(); unsigned dim = tk.nextl(); std::string how = tk.next(); mpz_class b;
      Linear_Expression e = read_expr(tk, dim, b);
      if (how == "sparse") put(le, id, new Linear_Expression(e, SPARSE)); else put(le, id, new Linear_Expression(e, DENSE));
      std::cout << "res ok\n"; }
    else if (cmd == "copy") { int id = tk.nextl(); const Linear_Expression& y = *get(le, tk.nextl()); put(le, id, new Linear_Expression(y)); std::cout << "res ok\n"; }
    else if (cmd == "del") { int id = tk.nextl(); delete get(le, id); le.erase(id); std::cout << "res ok\n"; }
    else if (cmd == "op") {
      int id = tk.nextl(); Linear_Expression& x = *get(le, id); std::string op = tk.next();
      if (op == "set_coefficient") { unsigned v = tk.nextl(); x.set_coefficient(Variable(v), tk.nextz()); }
      else if (op == "set_space_dimension") x.set_space_dimension(tk.nextl());
      else if (op == "negate") neg_assign(x);
      else if (op == "mul") { x *= tk.nextz(); }
      else if (op == "set_representation") { std::string r = tk.next(); x.set_representation(r == "sparse" ? SPARSE : DENSE); }
      else {
        Linear_Expression& y = *get(le, tk.nextl());
        if (op == "assign") x = y;
        else if (op == "swap") x.m_swap(y);
        else if (op == "std_swap") { using std::swap; swap(x, y); }
        else if (op == "copy_dense") { Linear_Expression t(y, DENSE); x.m_swap(t); }
        else if (op == "copy_sparse") { Linear_Expression t(y, SPARSE); x.m_swap(t); }
        else if (op == "add_assign") x += y;
        else if (op == "sub_assign") x -= y;
        else if (op == "add_mul_assign") { mpz_class n = tk.nextz(); add_mul_assign(x, n, y); }
        else if (op == "sub_mul_assign") { mpz_class n = tk.nextz(); sub_mul_assign(x, n, y); }
        else if (op == "linear_combine_c") { mpz_class c1 = tk.nextz(), c2 = tk.nextz(); x.linear_combine(y, c1, c2); }
        else if (op == "linear_combine_range") { mpz_class c1 = tk.nextz(), c2 = tk.nextz(); unsigned a = tk.nextl(), b = tk.nextl(); x.linear_combine(y, c1, c2, a, b); }
        else throw CaseErr("unknown op " + op);
      }
      std::cout << "res ok\n";
    }
    else if (cmd == "qry") {
      int id = tk.nextl(); const Linear_Expression& x = *get(le, id); std::string q = tk.next(); const Linear_Expression& y = *get(le, tk.nextl());
      if (q == "is_equal_to") std::cout << "res ok ret " << (x.is_equal_to(y) ? 1 : 0) << "\n";
      else if (q == "compare") { int c = compare(x, y); std::cout << "res ok ret " << (c < 0 ? -1 : c > 0 ? 1 : 0) << "\n"; }
      else throw CaseErr("unknown query " + q);
    }
    else if (cmd == "obs") { int id = tk.nextl(); const Linear_Expression& x = *get(le, id); (void) tk.next(); (void) x.all_homogeneous_terms_are_zero(); (void) x.OK(); std::cout << "res ok\n"; }
    else throw CaseErr("unknown command " + cmd);
  }
  template <class Sys, class M> void exec_sys(M& m, Toks& tk, const std::string& cmd, bool is_cs) {
    if (cmd == "copy") { int id = tk.nextl(); const Sys& y = *get(m, tk.nextl()); put(m, id, new Sys(y)); std::cout << "res ok\n"; }
    else if (cmd == "del") { int id = tk.nextl(); delete get(m, id); m.erase(id); std::cout << "res ok\n"; }
    else if (cmd == "op") {
      int id = tk.nextl(); Sys& x = *get(m, id); std::string op = tk.next();
      if (op == "set_space_dimension") x.set_space_dimension(tk.nextl());
      else if (op == "set_representation") { std::string r = tk.next(); x.set_representation(r == "sparse" ? SPARSE : DENSE); }
      else if (op == "clear") x.clear();
      else if (op == "sort_rows") { if (x.sys.num_pending_rows() == 0) x.sys.sort_rows(); }
      // make pending rows ordinary rows; the sortedness flag is dropped because the former pending rows are in arbitrary order
      else if (op == "unset_pending") { if (x.sys.num_pending_rows() > 0) { x.sys.unset_pending_rows(); x.sys.set_sorted(false); } }
      else if (op == "remove_trailing") x.sys.remove_trailing_rows(std::min<dimension_type>(tk.nextl(), x.sys.num_rows()));
      else {
        Sys& y = *get(m, tk.nextl());
        if (op == "assign") x = y;
        else if (op == "swap") x.m_swap(y);
        else if (op == "std_swap") { using std::swap; swap(x, y); }
        // a row argument is a REFERENCE to a row stored inside y (y may be x: the vector of rows is resized)
        else if (op == "insert_row_of") { unsigned k = tk.nextl(); if (y.sys.num_rows() > 0) x.insert(y.sys[k % y.sys.num_rows()]); }
        else if (op == "insert_pending_row_of") { unsigned k = tk.nextl(); if (y.sys.num_rows() > 0) x.insert_pending(y.sys[k % y.sys.num_rows()]); }
        else if (op == "insert_sys") x.insert(y);
        else if (op == "insert_pending_sys") x.sys.insert_pending(y.sys);
        // recycling: the donor is left valid but unspecified; it must be a distinct object (a twin copy when aliased)
        else if (op == "insert_recycled_sys") { if (&x == &y) { Sys t(y); x.sys.insert(t.sys, Recycle_Input()); } else x.sys.insert(y.sys, Recycle_Input()); }
        else throw CaseErr("unknown op " + op);
      }
      std::cout << "res ok\n";
    }
    else if (cmd == "qry") {
      int id = tk.nextl(); const Sys& x = *get(m, id); std::string q = tk.next(); const Sys& y = *get(m, tk.nextl());
      if (q == "sys_equal") std::cout << "res ok ret " << (x.sys == y.sys ? 1 : 0) << "\n";
      else throw CaseErr("unknown query " + q);
    }
    else if (cmd == "obs") { int id = tk.nextl(); const Sys& x = *get(m, id); (void) tk.next(); (void) x.OK(); (void) x.empty(); std::cout << "res ok\n"; }
    else throw CaseErr("unknown command " + cmd);
  }
  void exec(Toks& tk, const std::string& cmd) {
    if (dom == "LE") exec_le(tk, cmd);
    else if (dom == "CS") {
      if (cmd == "new") { int id = tk.nextl(); unsigned dim = tk.nextl(); std::string how = tk.next();
        Constraint_System s = read_cons(tk, dim); Constraint_System* p = new Constraint_System(s, how == "sparse" ? SPARSE : DENSE); put(cs, id, p); std::cout << "res ok\n"; }
      else exec_sys<Constraint_System>(cs, tk, cmd, true);
    }
    else {
      if (cmd == "new") { int id = tk.nextl(); unsigned dim = tk.nextl(); std::string how = tk.next();
        Generator_System s = read_gens(tk, dim); Generator_System* p = new Generator_System(s, how == "sparse" ? SPARSE : DENSE); put(gs, id, p); std::cout << "res ok\n"; }
      else exec_sys<Generator_System>(gs, tk, cmd, false);
    }
  }
  int run(const std::vector<std::string>& lines) {
    for (size_t k = 0; k < lines.size(); ++k) {
      Toks tk(lines[k]); if (!tk.more()) continue;
      std::string cmd = tk.next();
      std::cout << "cmd " << lines[k] << std::endl;
      if (cmd == "eq" || cmd == "eqres" || cmd == "eqres3" || cmd == "note") continue;
      try {
        try { exec(tk, cmd); }
        catch (const CaseErr&) { throw; }
        catch (const std::exception& e) { std::cout << "res exn " << exn_class(e) << "\n"; }
        states();
      } catch (const CaseErr& e) { std::cout << "HARNESS-ERROR " << e.what() << " in: " << lines[k] << std::endl; return 3; }
      std::cout.flush();
    }
    return 0;
  }
};

// ---------------------------------------------------------------------------------------------------------
// intervals (Rational_Interval): three-address arithmetic z.op(x, y) whose RECEIVER may be the first operand, the second
// or both (z.mul_assign(z, y), z.mul_assign(x, z), z.mul_assign(z, z)), the compound operators and neg/join/intersect.
// The value is the exact text of the bounds (mpq) with their open / unbounded flags; all empty intervals print alike.
struct ItvRunner {
  typedef Rational_Interval I;
  std::map<int, I*> pool;
  ~ItvRunner() { for (std::map<int, I*>::iterator i = pool.begin(); i != pool.end(); ++i) delete i->second; }
  I* get(int id) { std::map<int, I*>::iterator i = pool.find(id); if (i == pool.end()) throw CaseErr("unknown object"); return i->second; }
  void put(int id, I* p) { std::map<int, I*>::iterator i = pool.find(id); if (i != pool.end()) { delete i->second; i->second = p; } else pool[id] = p; }
  static void bound(I& x, bool upper, const std::string& kind, Toks& tk) {
    mpz_class n = tk.nextz(), d = tk.nextz(); mpq_class q(n, d); q.canonicalize();
    if (kind == "i") {
      (upper ? x.upper() : x.lower()) = 0;
      x.info().set_boundary_property(upper ? UPPER : LOWER, SPECIAL); x.info().set_boundary_property(upper ? UPPER : LOWER, OPEN);
    } else {
      (upper ? x.upper() : x.lower()) = q;
      if (kind == "o") x.info().set_boundary_property(upper ? UPPER : LOWER, OPEN);
    }
  }
  static std::string text(const I& x0) {
    I x(x0); std::ostringstream o;
    if (x.is_empty()) return "itv_empty";
    bool li = x.lower_is_boundary_infinity(), ui = x.upper_is_boundary_infinity();
    o << "itv_" << (li ? "i" : (x.lower_is_open() ? "o" : "c")) << "_"; if (li) o << 0; else { mpq_class q(x.lower()); q.canonicalize(); o << q; }
    o << "_" << (ui ? "i" : (x.upper_is_open() ? "o" : "c")) << "_"; if (ui) o << 0; else { mpq_class q(x.upper()); q.canonicalize(); o << q; }
    return o.str();
  }
  void states() {
    for (std::map<int, I*>::iterator i = pool.begin(); i != pool.end(); ++i) {
      const I& x = *i->second;
      std::cout << "st " << i->first << " 1 " << (x.OK() ? 1 : 0) << " itv T " << text(x) << "\n";
    }
    std::cout << "endst\n";
  }
  void exec(Toks& tk, const std::string& cmd) {
    if (cmd == "new") {
      int id = tk.nextl(); (void) tk.nextl(); std::string lk = tk.next(); I* p = new I(); p->info().clear();
      if (lk == "empty") p->assign(EMPTY);
      else { bound(*p, false, lk, tk); std::string uk = tk.next(); bound(*p, true, uk, tk); }
      put(id, p); std::cout << "res ok\n";
    }
    else if (cmd == "copy") { int id = tk.nextl(); const I& y = *get(tk.nextl()); put(id, new I(y)); std::cout << "res ok\n"; }
    else if (cmd == "del") { int id = tk.nextl(); delete get(id); pool.erase(id); std::cout << "res ok\n"; }
    else if (cmd == "obs") { int id = tk.nextl(); const I& x = *get(id); (void) tk.next(); (void) x.is_empty(); (void) x.is_singleton(); (void) x.OK(); std::cout << "res ok\n"; }
    else if (cmd == "op") {
      int id = tk.nextl(); I& z = *get(id); std::string op = tk.next(); I& x = *get(tk.nextl());
      if (op == "assign") z = x;
      else if (op == "swap") z.m_swap(x);
      else if (op == "std_swap") { using std::swap; swap(z, x); }
      else if (op == "neg_assign") z.neg_assign(x);
      else if (op == "join_assign") z.join_assign(x);
      else if (op == "intersect_assign") z.intersect_assign(x);
      else if (op == "add_op") z += x;
      else if (op == "sub_op") z -= x;
      else if (op == "mul_op") z *= x;
      else if (op == "div_op") z /= x;
      else {
        I& y = *get(tk.nextl());
        if (op == "add_assign") z.add_assign(x, y);
        else if (op == "sub_assign") z.sub_assign(x, y);
        else if (op == "mul_assign") z.mul_assign(x, y);
        else if (op == "div_assign") z.div_assign(x, y);
        else if (op == "join3") z.join_assign(x, y);
        else if (op == "intersect3") z.intersect_assign(x, y);
        else throw CaseErr("unknown op " + op);
      }
      std::cout << "res ok\n";
    }
    else throw CaseErr("unknown command " + cmd);
  }
  int run(const std::vector<std::string>& lines) {
    for (size_t k = 0; k < lines.size(); ++k) {
      Toks tk(lines[k]); if (!tk.more()) continue;
      std::string cmd = tk.next();
      std::cout << "cmd " << lines[k] << std::endl;
      if (cmd == "eq" || cmd == "eqres" || cmd == "eqres3" || cmd == "note") continue;
      try {
        try { exec(tk, cmd); }
        catch (const CaseErr&) { throw; }
        catch (const std::exception& e) { std::cout << "res exn " << exn_class(e) << "\n"; }
        states();
      } catch (const CaseErr& e) { std::cout << "HARNESS-ERROR " << e.what() << " in: " << lines[k] << std::endl; return 3; }
      std::cout.flush();
    }
    return 0;
  }
};

// ---------------------------------------------------------------------------------------------------------
// solvers: PIP_Problem and MIP_Problem are values too.  The value of a problem is read from THE OBJECT ITSELF (a copy
// would rebuild the internal links that are under test): for PIP the printed solution tree after solve(), plus whether
// every node of the tree names this very problem as its owner; for MIP the status, optimum and optimizing point.
struct SolverRunner {
  std::string dom;
  std::map<int, PIP_Problem*> pip; std::map<int, MIP_Problem*> mip;
  ~SolverRunner() {
    for (std::map<int, PIP_Problem*>::iterator i = pip.begin(); i != pip.end(); ++i) delete i->second;
    for (std::map<int, MIP_Problem*>::iterator i = mip.begin(); i != mip.end(); ++i) delete i->second;
  }
  template <class M> typename M::mapped_type get(M& m, int id) { typename M::iterator i = m.find(id); if (i == m.end()) throw CaseErr("unknown object"); return i->second; }
  template <class M> void put(M& m, int id, typename M::mapped_type p) { typename M::iterator i = m.find(id); if (i != m.end()) { delete i->second; i->second = p; } else m[id] = p; }
  static bool owners_ok(const PIP_Tree_Node* nd, const PIP_Problem* owner) {
    if (nd == 0) return true;
    if (nd->get_owner() != owner) return false;
    if (const PIP_Decision_Node* d = nd->as_decision()) return owners_ok(d->child_node(true), owner) && owners_ok(d->child_node(false), owner);
    return true;
  }
  static std::string pip_text(PIP_Problem& x) {
    std::ostringstream o;
    PIP_Problem_Status st = x.solve();
    o << "pip_dim" << x.space_dimension() << "_st" << int(st) << "_owners" << (owners_ok(x.solution(), &x) ? 1 : 0) << "_";
    if (st == OPTIMIZED_PIP_PROBLEM) {
      x.print_solution(o);
      // the leaves are also queried one by one
      std::vector<const PIP_Tree_Node*> todo(1, x.solution());
      while (!todo.empty()) {
        const PIP_Tree_Node* nd = todo.back(); todo.pop_back(); if (nd == 0) continue;
        if (const PIP_Decision_Node* d = nd->as_decision()) { todo.push_back(d->child_node(false)); todo.push_back(d->child_node(true)); }
        else if (const PIP_Solution_Node* sn = nd->as_solution()) {
          using namespace IO_Operators;
          for (dimension_type v = 0; v < x.space_dimension(); ++v)
            if (x.parameter_space_dimensions().count(v) == 0) o << "|" << sn->parametric_values(Variable(v));
        }
      }
    }
    return squash(o.str());
  }
  static std::string mip_text(MIP_Problem& x) {
    std::ostringstream o; using namespace IO_Operators;
    MIP_Problem_Status st = x.solve();
    o << "mip_dim" << x.space_dimension() << "_st" << int(st) << "_mode" << int(x.optimization_mode()) << "_";
    if (st == OPTIMIZED_MIP_PROBLEM) { Coefficient n, d; x.optimal_value(n, d); o << n << "/" << d; }   // (the optimizing point is not unique: not part of the value)
    o << "_ncons" << std::distance(x.constraints_begin(), x.constraints_end()) << "_obj_" << x.objective_function();
    return squash(o.str());
  }
  void states() {
    for (std::map<int, PIP_Problem*>::iterator i = pip.begin(); i != pip.end(); ++i) {
      std::string t = pip_text(*i->second);
      std::cout << "st " << i->first << " " << i->second->space_dimension() << " " << (i->second->OK() ? 1 : 0) << " pip T " << t << "\n";
    }
    for (std::map<int, MIP_Problem*>::iterator i = mip.begin(); i != mip.end(); ++i) {
      std::string t = mip_text(*i->second);
      std::cout << "st " << i->first << " " << i->second->space_dimension() << " " << (i->second->OK() ? 1 : 0) << " mip T " << t << "\n";
    }
    std::cout << "endst\n";
  }
  void exec_pip(Toks& tk, const std::string& cmd) {
    if (cmd == "new") {
      int id = tk.nextl(); unsigned dim = tk.nextl(); unsigned npar = tk.nextl();
      PIP_Problem* p = new PIP_Problem(dim); Variables_Set ps; for (unsigned i = dim - npar; i < dim; ++i) ps.insert(Variable(i));
      p->add_to_parameter_space_dimensions(ps);
      Constraint_System cs = read_cons(tk, dim); for (Constraint_System::const_iterator i = cs.begin(); i != cs.end(); ++i) p->add_constraint(*i);
      put(pip, id, p); std::cout << "res ok\n";
    }
    else if (cmd == "copy") { int id = tk.nextl(); const PIP_Problem& y = *get(pip, tk.nextl()); put(pip, id, new PIP_Problem(y)); std::cout << "res ok\n"; }
    else if (cmd == "rebuild") {   // an independent problem with the same dimensions, parameters and constraints
      int id = tk.nextl(); const PIP_Problem& y = *get(pip, tk.nextl());
      PIP_Problem* p = new PIP_Problem(y.space_dimension(), y.constraints_begin(), y.constraints_end(), y.parameter_space_dimensions());
      put(pip, id, p); std::cout << "res ok\n";
    }
    else if (cmd == "del") { int id = tk.nextl(); delete get(pip, id); pip.erase(id); std::cout << "res ok\n"; }
    else if (cmd == "obs") { int id = tk.nextl(); (void) tk.next(); (void) get(pip, id)->is_satisfiable(); std::cout << "res ok\n"; }
    else if (cmd == "op") {
      int id = tk.nextl(); PIP_Problem& x = *get(pip, id); std::string op = tk.next();
      if (op == "add_constraint") x.add_constraint(read_con(tk, x.space_dimension()));
      else if (op == "solve") (void) x.solve();
      else if (op == "clear") x.clear();
      else if (op == "add_dims") { unsigned v = tk.nextl(), q = tk.nextl(); x.add_space_dimensions_and_embed(v, q); }
      else { PIP_Problem& y = *get(pip, tk.nextl());
        if (op == "assign") x = y; else if (op == "swap") x.m_swap(y); else if (op == "std_swap") { using std::swap; swap(x, y); }
        else throw CaseErr("unknown op " + op); }
      std::cout << "res ok\n";
    }
    else throw CaseErr("unknown command " + cmd);
  }
  void exec_mip(Toks& tk, const std::string& cmd) {
    if (cmd == "new") {
      int id = tk.nextl(); unsigned dim = tk.nextl(); unsigned nint = tk.nextl();
      Constraint_System cs = read_cons(tk, dim); mpz_class b; Linear_Expression obj = read_expr(tk, dim, b);
      MIP_Problem* p = new MIP_Problem(dim, cs, obj, tk.next() == "max" ? MAXIMIZATION : MINIMIZATION);
      Variables_Set is; for (unsigned i = 0; i < nint; ++i) is.insert(Variable(i)); p->add_to_integer_space_dimensions(is);
      put(mip, id, p); std::cout << "res ok\n";
    }
    else if (cmd == "copy") { int id = tk.nextl(); const MIP_Problem& y = *get(mip, tk.nextl()); put(mip, id, new MIP_Problem(y)); std::cout << "res ok\n"; }
    else if (cmd == "rebuild") {
      int id = tk.nextl(); const MIP_Problem& y = *get(mip, tk.nextl());
      MIP_Problem* p = new MIP_Problem(y.space_dimension(), y.constraints_begin(), y.constraints_end(), y.objective_function(), y.optimization_mode());
      p->add_to_integer_space_dimensions(y.integer_space_dimensions());
      put(mip, id, p); std::cout << "res ok\n";
    }
    else if (cmd == "del") { int id = tk.nextl(); delete get(mip, id); mip.erase(id); std::cout << "res ok\n"; }
    else if (cmd == "obs") { int id = tk.nextl(); (void) tk.next(); (void) get(mip, id)->is_satisfiable(); std::cout << "res ok\n"; }
    else if (cmd == "op") {
      int id = tk.nextl(); MIP_Problem& x = *get(mip, id); std::string op = tk.next();
      if (op == "add_constraint") x.add_constraint(read_con(tk, x.space_dimension()));
      else if (op == "solve") (void) x.solve();
      else if (op == "clear") x.clear();
      else if (op == "set_objective") { mpz_class b; x.set_objective_function(read_expr(tk, x.space_dimension(), b)); }
      else if (op == "set_mode") x.set_optimization_mode(tk.next() == "max" ? MAXIMIZATION : MINIMIZATION);
      else if (op == "add_dims") x.add_space_dimensions_and_embed(tk.nextl());
      else { MIP_Problem& y = *get(mip, tk.nextl());
        if (op == "assign") x = y; else if (op == "swap") x.m_swap(y); else if (op == "std_swap") { using std::swap; swap(x, y); }
        else throw CaseErr("unknown op " + op); }
      std::cout << "res ok\n";
    }
    else throw CaseErr("unknown command " + cmd);
  }
  int run(const std::vector<std::string>& lines) {
    for (size_t k = 0; k < lines.size(); ++k) {
      Toks tk(lines[k]); if (!tk.more()) continue;
      std::string cmd = tk.next();
      std::cout << "cmd " << lines[k] << std::endl;
      if (cmd == "eq" || cmd == "eqres" || cmd == "eqres3" || cmd == "note") continue;
      try {
        try { if (dom == "PIP") exec_pip(tk, cmd); else exec_mip(tk, cmd); }
        catch (const CaseErr&) { throw; }
        catch (const std::exception& e) { std::cout << "res exn " << exn_class(e) << "\n"; }
        states();
      } catch (const CaseErr& e) { std::cout << "HARNESS-ERROR " << e.what() << " in: " << lines[k] << std::endl; return 3; }
      std::cout.flush();
    }
    return 0;
  }
};

static int run_case(const std::string& dom, const std::vector<std::string>& lines) {
  if (dom == "PIP" || dom == "MIP") { SolverRunner r; r.dom = dom; return r.run(lines); }
  if (dom == "ITV") { ItvRunner r; return r.run(lines); }
  if (dom == "C") { Runner<C_Polyhedron> r; return r.run(lines); }
  if (dom == "NNC") { Runner<NNC_Polyhedron> r; return r.run(lines); }
  if (dom == "Grid") { Runner<Grid> r; return r.run(lines); }
  if (dom == "BDS") { Runner<BDS> r; return r.run(lines); }
  if (dom == "Oct") { Runner<Oct> r; return r.run(lines); }
  if (dom == "Box") { Runner<RBox> r; return r.run(lines); }
  if (dom == "PS") { Runner<PS> r; return r.run(lines); }
  if (dom == "Prod") { Runner<Prod> r; return r.run(lines); }
  if (dom == "LE" || dom == "CS" || dom == "GS") { SynRunner r; r.dom = dom; return r.run(lines); }
  std::cout << "HARNESS-ERROR case: unknown domain " << dom << std::endl;
  return 3;
}

int main(int argc, char** argv) {
  if (argc < 2) { std::cerr << "usage: run_alias casefile\n"; return 2; }
  std::ifstream in(argv[1]); std::string line;
  std::vector<std::string> cur; std::string dom; bool open = false;
  while (true) {
    bool got = (bool) std::getline(in, line);
    Toks tk(got ? line : std::string("case"));
    std::string first = tk.more() ? tk.next() : "";
    if (!got || first == "case") {
      if (open) {
        // every case runs in its own process: a crash (or heap corruption) cannot leak into the next case
        std::cout.flush();
        pid_t pid = fork();
        if (pid == 0) { alarm(120); int rc = run_case(dom, cur); std::cout.flush(); _exit(rc); }
        int status = 0; waitpid(pid, &status, 0);
        if (WIFSIGNALED(status)) std::cout << "crashed signal " << WTERMSIG(status) << "\n";
        else if (WEXITSTATUS(status) != 0) { std::cout << "end\n"; std::cout.flush(); return WEXITSTATUS(status); }
        std::cout << "end\n"; std::cout.flush();
      }
      if (!got) break;
      std::string id = tk.next(); dom = tk.next(); cur.clear(); open = true;
      std::cout << "case " << id << " " << dom << "\n";
      continue;
    }
    if (first.empty() || first[0] == '#' || first == "end") continue;
    if (open) cur.push_back(line);
  }
  return 0;
}
