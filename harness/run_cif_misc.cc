// C20 -- hand-written part of the behavioural tie: time-outs, the entry without try block, domain_error
// through MIP_Problem, length_error / invalid_argument through the common entry points, exactly-once deletion.
// Same line protocol as the generated drivers (cif_support.hh).
#include "cif_support.hh"
#include <ctime>
#include "ppl_c_implementation_common_defs.hh"   // the hand-written helper classes of the interface (regenerated copy)

static ppl_Polyhedron_t cube(unsigned n) {
  ppl_Polyhedron_t p; ppl_new_C_Polyhedron_from_space_dimension(&p, n, 0);
  cif::CCoef one(1), mone(-1);
  for (unsigned i = 0; i < n; ++i) {
    ppl_Linear_Expression_t le; ppl_Constraint_t c;
    ppl_new_Linear_Expression_with_dimension(&le, n);
    ppl_Linear_Expression_add_to_coefficient(le, i, one.h);
    ppl_new_Constraint(&c, le, PPL_CONSTRAINT_TYPE_GREATER_OR_EQUAL); ppl_Polyhedron_add_constraint(p, c); ppl_delete_Constraint(c);
    ppl_Linear_Expression_add_to_coefficient(le, i, mone.h); ppl_Linear_Expression_add_to_coefficient(le, i, mone.h);
    ppl_Linear_Expression_add_to_inhomogeneous(le, one.h);
    ppl_new_Constraint(&c, le, PPL_CONSTRAINT_TYPE_GREATER_OR_EQUAL); ppl_Polyhedron_add_constraint(p, c); ppl_delete_Constraint(c);
    ppl_delete_Linear_Expression(le);
  }
  return p;
}

int main(int argc, char** argv) {
  setvbuf(stdout, 0, _IOLBF, 1 << 16);
  if (ppl_initialize() != 0) return 2;
  ppl_set_error_handler(cif::handler);
  unsigned big = argc > 1 ? (unsigned) atoi(argv[1]) : 16;

  // ---- (4) time-outs: kind|setter|ret of interrupted call|handler codes|ret of NEXT call (no new time-out)|after explicit reset
  {
    ppl_const_Generator_System_t gs;
    ppl_Polyhedron_t p = cube(big), q = cube(3);
    cif::seen.clear();
    int s = ppl_set_deterministic_timeout(1, 0);
    int r = ppl_Polyhedron_get_generators(p, &gs);
    std::string h = cif::seen_str();
    cif::seen.clear();
    int next = ppl_Polyhedron_get_generators(q, &gs);
    int usable = ppl_Polyhedron_OK(p);
    int rs = ppl_reset_deterministic_timeout();
    ppl_Polyhedron_t q2 = cube(3);
    int after = ppl_Polyhedron_get_generators(q2, &gs);
    std::printf("W|ppl_set_deterministic_timeout|%d|%d|%s|%d|%d|%d|%d\n", s, r, h.c_str(), next, rs, after, usable);
    ppl_delete_Polyhedron(p); ppl_delete_Polyhedron(q); ppl_delete_Polyhedron(q2);
  }
  {
    ppl_const_Generator_System_t gs;
    ppl_Polyhedron_t p = cube(big + 4), q = cube(3);
    cif::seen.clear();
    int s = ppl_set_timeout(2);
    int r = ppl_Polyhedron_get_generators(p, &gs);
    std::string h = cif::seen_str();
    cif::seen.clear();
    int next = ppl_Polyhedron_get_generators(q, &gs);
    int usable = ppl_Polyhedron_OK(p);
    int rs = ppl_reset_timeout();
    ppl_Polyhedron_t q2 = cube(3);
    int after = ppl_Polyhedron_get_generators(q2, &gs);
    std::printf("W|ppl_set_timeout|%d|%d|%s|%d|%d|%d|%d\n", s, r, h.c_str(), next, rs, after, usable);
    ppl_delete_Polyhedron(p); ppl_delete_Polyhedron(q); ppl_delete_Polyhedron(q2);
  }
  // ---- (4b) call SEQUENCES of the four registration entries (model: CIface/Timeouts.v).
  //   T ppl_set_timeout(1 hour)   t ppl_reset_timeout   H ppl_set_deterministic_timeout(huge)   S ...(1: exceeded by any conversion)
  //   d ppl_reset_deterministic_timeout   C a conversion (cube of dimension 8 -> generators)
  //   observed: the outcome of every C (0, or -11 with the handler that ran: D deterministic / W wall clock), and which watchdog
  //   objects exist at the end, through the block ledger (bW / bD blocks per armed wall-clock / deterministic watchdog);
  //   then both are reset and the ledger must be back at its base (an overwritten, never deleted watchdog shows up here).
  {
    unsigned seqseed = argc > 2 ? (unsigned) atoi(argv[2]) : 1;
    auto op = [&](char c, std::string& out) -> int {
      switch (c) {
      case 'T': return ppl_set_timeout(360000);
      case 't': return ppl_reset_timeout();
      case 'H': return ppl_set_deterministic_timeout(1000000, 20);
      case 'S': return ppl_set_deterministic_timeout(1, 0);
      case 'd': return ppl_reset_deterministic_timeout();
      default: {
        ppl_Polyhedron_t p = cube(8); ppl_const_Generator_System_t gs;
        cif::seen.clear(); cif::kinds.clear();
        int r = ppl_Polyhedron_get_generators(p, &gs);
        char buf[32]; std::snprintf(buf, sizeof buf, "%s%d%s", out.empty() ? "" : ",", r, cif::kinds.c_str());
        out += buf;
        ppl_delete_Polyhedron(p);
        return 0; }
      }
    };
    std::string out; out.reserve(512);
    const char* warm = "TtHdSCdTHCtd";
    for (const char* q = warm; *q; ++q) op(*q, out);
    ppl_reset_timeout(); ppl_reset_deterministic_timeout();
    long b0 = cif::live; ppl_set_timeout(360000); long bW = cif::live - b0; ppl_reset_timeout();
    long b1 = cif::live; ppl_set_deterministic_timeout(1000000, 20); long bD = cif::live - b1; ppl_reset_deterministic_timeout();
    std::printf("Q0|calibration|bW=%ld|bD=%ld|back=%d\n", bW, bD, (cif::live == b0) ? 1 : 0);
    std::vector<std::string> seqs;
    const char alpha[] = "TtHSdC";
    for (int a = 0; a < 6; ++a) { seqs.push_back(std::string(1, alpha[a]));
      for (int b = 0; b < 6; ++b) { seqs.push_back(std::string(1, alpha[a]) + alpha[b]);
        for (int c = 0; c < 6; ++c) seqs.push_back(std::string(1, alpha[a]) + alpha[b] + alpha[c]); } }
    cif::seed(seqseed);
    for (int k = 0; k < 60; ++k) { std::string q; int n = 4 + (int) cif::rnd(4); for (int i = 0; i < n; ++i) q += alpha[cif::rnd(6)]; seqs.push_back(q); }
    seqs.push_back("SHC"); seqs.push_back("THSCtC"); seqs.push_back("SCSCHHC");
    for (size_t i = 0; i < seqs.size(); ++i) {
      out.clear();
      long base = cif::live; int bad = 0;
      for (size_t j = 0; j < seqs[i].size(); ++j) if (op(seqs[i][j], out) != 0) ++bad;
      long delta = cif::live - base;
      int r1 = ppl_reset_timeout(), r2 = ppl_reset_deterministic_timeout();
      std::printf("Q|%s|%s|%ld|%ld|%ld|%d|%d\n", seqs[i].c_str(), out.c_str(), delta, bW, bD, (cif::live == base) ? 1 : 0, bad + (r1 != 0) + (r2 != 0));
    }
    // the wall clock must still fire when a deterministic threshold is registered AFTER it (budget: seconds of CPU)
    {
      ppl_const_Generator_System_t gs; ppl_Polyhedron_t p = cube(big + 4);
      cif::seen.clear(); cif::kinds.clear();
      int s1 = ppl_set_timeout(3), s2 = ppl_set_deterministic_timeout(1, 31);
      clock_t t0 = clock();
      int r = ppl_Polyhedron_get_generators(p, &gs);
      long ms = (long) ((clock() - t0) * 1000 / CLOCKS_PER_SEC);
      std::string k = cif::kinds;
      ppl_reset_timeout(); ppl_reset_deterministic_timeout();
      std::printf("V|wall-then-deterministic|%d|%d|%d|%s|%ld\n", s1, s2, r, k.c_str(), ms);
      ppl_delete_Polyhedron(p);
    }
  }
  // invalid arguments of the setters themselves
  cif::run_plain("ppl_set_deterministic_timeout", "weight0",
                 [&] { int r = ppl_set_deterministic_timeout(0, 0); ppl_reset_deterministic_timeout(); return r; },
                 [&] { (void) Weightwatch_Traits::compute_delta(0, 0); return 0; });
  cif::run_plain("ppl_set_deterministic_timeout", "overflow",
                 [&] { int r = ppl_set_deterministic_timeout(~0UL, 40); ppl_reset_deterministic_timeout(); return r; },
                 [&] { (void) Weightwatch_Traits::compute_delta(~0UL, 40); return 0; });

  // ---- (3) the entry without a try block: does bad_alloc cross the boundary?
  {
    std::string what = "returned";
    char* res = 0;
    cif::seen.clear();
    cif::arm(1);
    try { res = ppl_io_wrap_string("a b c d e f", 2, 5, 5); }
    catch (const std::bad_alloc&) { what = "escaped:BadAlloc"; }
    catch (...) { what = "escaped:other"; }
    cif::disarm();
    std::printf("E|ppl_io_wrap_string|oom|%s|%s|%s\n", what.c_str(), cif::fired ? "fired" : "noalloc", cif::seen_str().c_str());
    free(res);
    res = ppl_io_wrap_string("a b c d e f", 2, 5, 5);
    std::string want = IO_Operators::wrap_string("a b c d e f", 2, 5, 5);
    std::printf("E|ppl_io_wrap_string|valid|%s|-|\n", (res && want == res) ? "same" : "different");
    free(res);
  }

  // ---- (2) domain_error: optimizing point of an unfeasible / unbounded MIP problem
  for (int k = 0; k < 3; ++k) {
    // k = 0: unfeasible (x >= 1, x <= 0); 1: unbounded (maximize x, x >= 0); 2: fine
    ppl_MIP_Problem_t mip; ppl_new_MIP_Problem_from_space_dimension(&mip, 1);
    cif::CCoef one(1), mone(-1);
    ppl_Linear_Expression_t le; ppl_new_Linear_Expression_with_dimension(&le, 1);
    ppl_Linear_Expression_add_to_coefficient(le, 0, one.h);
    ppl_MIP_Problem_set_objective_function(mip, le);
    ppl_MIP_Problem_set_optimization_mode(mip, PPL_OPTIMIZATION_MODE_MAXIMIZATION);
    ppl_Constraint_t c;
    if (k == 0) {
      ppl_Linear_Expression_add_to_inhomogeneous(le, mone.h);
      ppl_new_Constraint(&c, le, PPL_CONSTRAINT_TYPE_GREATER_OR_EQUAL); ppl_MIP_Problem_add_constraint(mip, c); ppl_delete_Constraint(c);
      ppl_Linear_Expression_add_to_inhomogeneous(le, one.h);
      ppl_new_Constraint(&c, le, PPL_CONSTRAINT_TYPE_LESS_OR_EQUAL); ppl_MIP_Problem_add_constraint(mip, c); ppl_delete_Constraint(c);
    }
    else {
      ppl_new_Constraint(&c, le, PPL_CONSTRAINT_TYPE_GREATER_OR_EQUAL); ppl_MIP_Problem_add_constraint(mip, c); ppl_delete_Constraint(c);
      if (k == 2) {
        ppl_Linear_Expression_add_to_inhomogeneous(le, mone.h);
        ppl_new_Constraint(&c, le, PPL_CONSTRAINT_TYPE_LESS_OR_EQUAL); ppl_MIP_Problem_add_constraint(mip, c); ppl_delete_Constraint(c);
      }
    }
    ppl_delete_Linear_Expression(le);
    const MIP_Problem& m = *reinterpret_cast<const MIP_Problem*>(mip);
    MIP_Problem twin(m);
    ppl_const_Generator_t g = 0;
    std::string want;
    cif::run_plain("ppl_MIP_Problem_optimizing_point", k == 0 ? "unfeasible" : k == 1 ? "unbounded" : "optimized",
                   [&] { return ppl_MIP_Problem_optimizing_point(mip, &g); },
                   [&] { want = cif::xdump(twin.optimizing_point()); return 0; },
                   [&]() -> bool { return g != 0 && cif::xdump(cif::cxx(g)) == want; });
    cif::run_plain("ppl_MIP_Problem_feasible_point", k == 0 ? "unfeasible" : k == 1 ? "unbounded" : "optimized",
                   [&] { return ppl_MIP_Problem_feasible_point(mip, &g); },
                   [&] { want = cif::xdump(twin.feasible_point()); return 0; },
                   [&]() -> bool { return g != 0 && cif::xdump(cif::cxx(g)) == want; });
    cif::run_plain("ppl_MIP_Problem_solve", k == 0 ? "unfeasible" : k == 1 ? "unbounded" : "optimized",
                   [&] { return ppl_MIP_Problem_solve(mip); },
                   [&] { MIP_Problem_Status s = twin.solve();
                         return s == UNFEASIBLE_MIP_PROBLEM ? PPL_MIP_PROBLEM_STATUS_UNFEASIBLE : s == UNBOUNDED_MIP_PROBLEM ? PPL_MIP_PROBLEM_STATUS_UNBOUNDED : PPL_MIP_PROBLEM_STATUS_OPTIMIZED; });
    cif::run_plain("ppl_MIP_Problem_is_satisfiable", k == 0 ? "unfeasible" : "feasible",
                   [&] { return ppl_MIP_Problem_is_satisfiable(mip); }, [&] { return twin.is_satisfiable() ? 1 : 0; });
    cif::CCoef n(5), d(6); Coefficient mn(5), md(6);
    cif::run_plain("ppl_MIP_Problem_optimal_value", k == 0 ? "unfeasible" : k == 1 ? "unbounded" : "optimized",
                   [&] { return ppl_MIP_Problem_optimal_value(mip, n.h, d.h); },
                   [&] { twin.optimal_value(mn, md); return 0; },
                   [&]() -> bool { return cif::cxx((ppl_const_Coefficient_t) n.h) == mn && cif::cxx((ppl_const_Coefficient_t) d.h) == md; });
    cif::run_plain("ppl_MIP_Problem_add_space_dimensions_and_embed", "max",
                   [&] { return ppl_MIP_Problem_add_space_dimensions_and_embed(mip, MIP_Problem::max_space_dimension()); },
                   [&] { twin.add_space_dimensions_and_embed(MIP_Problem::max_space_dimension()); return 0; });
    {
      cif::CCon strict(3, 1, 2), wide(3, 4, 0);
      MIP_Problem t2(m);
      cif::run_plain("ppl_MIP_Problem_add_constraint", "strict",
                     [&] { return ppl_MIP_Problem_add_constraint(mip, strict.h); }, [&] { t2.add_constraint(cif::cxx((ppl_const_Constraint_t) strict.h)); return 0; });
      cif::run_plain("ppl_MIP_Problem_add_constraint", "dim4",
                     [&] { return ppl_MIP_Problem_add_constraint(mip, wide.h); }, [&] { t2.add_constraint(cif::cxx((ppl_const_Constraint_t) wide.h)); return 0; });
    }
    cif::run_plain("ppl_MIP_Problem_OK", "after-errors", [&] { return ppl_MIP_Problem_OK(mip); }, [&] { return 1; });
    int r = ppl_delete_MIP_Problem(mip);
    if (r != 0) std::printf("X|ppl_delete_MIP_Problem|%d\n", r);
  }

  // ---- common entry points: generators / congruences / linear expressions with ill-formed arguments
  {
    cif::CLE le(5, 2); cif::CCoef zero(0), two(2);
    ppl_Generator_t g = 0;
    for (int kind = 0; kind < 4; ++kind) {
      enum ppl_enum_Generator_Type t = kind == 0 ? PPL_GENERATOR_TYPE_POINT : kind == 1 ? PPL_GENERATOR_TYPE_RAY : kind == 2 ? PPL_GENERATOR_TYPE_LINE : PPL_GENERATOR_TYPE_CLOSURE_POINT;
      for (int z = 0; z < 2; ++z) {
        ppl_Coefficient_t d = z ? zero.h : two.h;
        Generator* tw = 0;
        const Linear_Expression& e = cif::cxx((ppl_const_Linear_Expression_t) le.h);
        const Coefficient& dd = cif::cxx((ppl_const_Coefficient_t) d);
        char tag[32]; std::snprintf(tag, sizeof tag, "kind%d-%s", kind, z ? "zero-divisor" : "div2");
        cif::run_plain("ppl_new_Generator", tag,
                       [&] { g = 0; int r = ppl_new_Generator(&g, le.h, t, d); if (r == 0 && g) { ppl_delete_Generator(g); } return r; },
                       [&] { Generator x = kind == 0 ? Generator::point(e, dd) : kind == 1 ? Generator::ray(e) : kind == 2 ? Generator::line(e) : Generator::closure_point(e, dd); (void) x; (void) tw; return 0; });
      }
    }
    cif::CLE zle(0, 0);
    cif::run_plain("ppl_new_Generator", "ray-zero-vector",
                   [&] { g = 0; int r = ppl_new_Generator(&g, zle.h, PPL_GENERATOR_TYPE_RAY, two.h); if (r == 0 && g) ppl_delete_Generator(g); return r; },
                   [&] { Generator x = Generator::ray(cif::cxx((ppl_const_Linear_Expression_t) zle.h)); (void) x; return 0; });
    cif::run_plain("ppl_Linear_Expression_add_to_coefficient", "var-max",
                   [&] { return ppl_Linear_Expression_add_to_coefficient(le.h, Linear_Expression::max_space_dimension() + 5, two.h); },
                   [&] { Linear_Expression x(cif::cxx((ppl_const_Linear_Expression_t) le.h)); x += Coefficient(2) * Variable(Linear_Expression::max_space_dimension() + 5); return 0; });
    ppl_Coefficient_t out; ppl_new_Coefficient(&out);
    cif::run_plain("ppl_Linear_Expression_coefficient", "var5-of-dim2",
                   [&] { return ppl_Linear_Expression_coefficient(le.h, 5, out); },
                   [&] { (void) cif::cxx((ppl_const_Linear_Expression_t) le.h).coefficient(Variable(5)); return 0; });
    ppl_delete_Coefficient(out);
  }

  // ---- linear expressions built from constraints / generators / congruences / grid generators
  {
    cif::CCon c(4, 3, 0); cif::CGen g(2, 3, 0); cif::CCg cg(5, 3, 2); cif::CGG gg0(2, 3, 0), gg1(3, 3, 1);
    ppl_Linear_Expression_t le = 0; std::string want;
    std::function<bool()> same = [&]() -> bool {
      bool ok = le != 0 && cif::cdump<ppl_const_Linear_Expression_t>(ppl_Linear_Expression_ascii_dump, le) == want;
      if (le) { ppl_delete_Linear_Expression(le); le = 0; }
      return ok; };
    cif::run_plain("ppl_new_Linear_Expression_from_Constraint", "dim3",
                   [&] { return ppl_new_Linear_Expression_from_Constraint(&le, c.h); },
                   [&] { want = cif::xdump(Linear_Expression(cif::cxx((ppl_const_Constraint_t) c.h).expression())); return 0; }, same);
    cif::run_plain("ppl_new_Linear_Expression_from_Generator", "point",
                   [&] { return ppl_new_Linear_Expression_from_Generator(&le, g.h); },
                   [&] { want = cif::xdump(Linear_Expression(cif::cxx((ppl_const_Generator_t) g.h).expression())); return 0; }, same);
    cif::run_plain("ppl_new_Linear_Expression_from_Congruence", "mod2",
                   [&] { return ppl_new_Linear_Expression_from_Congruence(&le, cg.h); },
                   [&] { want = cif::xdump(Linear_Expression(cif::cxx((ppl_const_Congruence_t) cg.h).expression())); return 0; }, same);
#ifdef CIF_HAVE_ppl_new_Linear_Expression_from_Grid_Generator
    cif::run_plain("ppl_new_Linear_Expression_from_Grid_Generator", "point",
                   [&] { return ppl_new_Linear_Expression_from_Grid_Generator(&le, gg0.h); },
                   [&] { want = cif::xdump(Linear_Expression(cif::cxx((ppl_const_Grid_Generator_t) gg0.h).expression())); return 0; }, same);
    cif::run_plain("ppl_new_Linear_Expression_from_Grid_Generator", "parameter",
                   [&] { return ppl_new_Linear_Expression_from_Grid_Generator(&le, gg1.h); },
                   [&] { want = cif::xdump(Linear_Expression(cif::cxx((ppl_const_Grid_Generator_t) gg1.h).expression())); return 0; }, same);
#endif
  }

  // ---- (6) the partial-function wrapper given to map_space_dimensions, against the Coq model CIface/PFunc.v:
  //   every array over {undefined, 0, 1, 2, 3} of length 0..4; observers called twice (they cache) and in both orders.
  //   line  P|<array, u = undefined>|<has_empty_codomain>|<max_in_codomain or ->|<maps(0..n) : value or u>
  {
    typedef Parma_Polyhedra_Library::Interfaces::C::Array_Partial_Function_Wrapper APW;
    const dimension_type nd = not_a_dimension();
    for (int n = 0; n <= 4; ++n) {
      int total = 1; for (int k = 0; k < n; ++k) total *= 5;
      for (int code = 0; code < total; ++code) {
        std::vector<dimension_type> v(n ? n : 1, nd); int c = code;
        std::string arr;
        for (int k = 0; k < n; ++k) { int d = c % 5; c /= 5; v[k] = d == 0 ? nd : (dimension_type) (d - 1); arr += d == 0 ? 'u' : (char) ('0' + d - 1); }
        APW w1(v.data(), (size_t) n), w2(v.data(), (size_t) n);
        bool e1 = w1.has_empty_codomain();
        std::string mx = "-";
        if (!e1) { dimension_type m1 = w1.max_in_codomain(), m2 = w2.max_in_codomain(); bool e2 = w2.has_empty_codomain();
          mx = (m1 == m2 && m1 == w1.max_in_codomain() && e2 == e1 && w1.has_empty_codomain() == e1) ? std::to_string((unsigned long) m1) : std::string("unstable"); }
        else if (w2.has_empty_codomain() != e1 || !w1.has_empty_codomain()) mx = "unstable";
        std::string mp;
        for (int i = 0; i <= n; ++i) { dimension_type j = 77; bool b = w1.maps((dimension_type) i, j); mp += b ? (char) ('0' + (int) j) : 'u'; if (!b && j != 77) mp += '!'; }
        std::printf("P|%s|%d|%s|%s\n", arr.c_str(), e1 ? 1 : 0, mx.c_str(), mp.c_str());
      }
    }
  }

  // ---- (7) output entries on SEQUENCES: the text printed for an object must not depend on what was printed before.
  //   Every printable common type, built over a variable of index 0, 25, 26, 27, 51, 52, 700 (and back), printed through
  //   asprint / fprint (and print for variables and constraints), is compared with the C++ operator<< under
  //   Variable::default_output_function (installed temporarily: independent of the C interface's own naming function).
  {
    long nprint = 0, nbad = 0;
    auto cxx_text = [&](std::function<void(std::ostream&)> f) -> std::string {
      Variable::output_function_type* keep = Variable::get_output_function();
      Variable::set_output_function(&Variable::default_output_function);
      std::ostringstream s; f(s);
      Variable::set_output_function(keep);
      return s.str(); };
    auto report = [&](const char* entry, unsigned long idx, int r, const std::string& got, const std::string& want) {
      ++nprint;
      if (r != 0 || got != want) { ++nbad; std::printf("N|%s|%lu|%d|%s|%s|%s\n", entry, idx, r, cif::esc(got).c_str(), cif::esc(want).c_str(),
                                                       (r == 0 && got == want + "\n") ? "trailing-newline-only" : "text"); } };
    auto via_file = [&](std::function<int(FILE*)> f, int& r) -> std::string {
      char* b = 0; size_t l = 0; FILE* fp = open_memstream(&b, &l); r = f(fp); fclose(fp); std::string s(b, l); free(b); return s; };
    auto via_stdout = [&](std::function<int()> f, int& r) -> std::string {
      fflush(stdout); FILE* keep = stdout; char* b = 0; size_t l = 0; stdout = open_memstream(&b, &l); r = f(); fclose(stdout); stdout = keep; std::string s(b, l); free(b); return s; };
    const unsigned long idxs[] = {0, 25, 26, 27, 51, 52, 700, 0, 26, 1, 700, 2, 0};
    for (int round = 0; round < 2; ++round)
    for (size_t q = 0; q < sizeof idxs / sizeof idxs[0]; ++q) {
      unsigned long ix = idxs[q];
      Variable V(ix);
      int r; char* sp;
      // variables
      std::string wv = cxx_text([&](std::ostream& s) { Variable::default_output_function(s, V); });
      sp = 0; r = ppl_io_asprint_variable(&sp, ix); report("ppl_io_asprint_variable", ix, r, sp ? sp : "<null>", wv); free(sp);
      { std::string g = via_file([&](FILE* f) { return ppl_io_fprint_variable(f, ix); }, r); report("ppl_io_fprint_variable", ix, r, g, wv); }
      { std::string g = via_stdout([&] { return ppl_io_print_variable(ix); }, r); report("ppl_io_print_variable", ix, r, g, wv); }
      // objects over that variable (built in C++, printed through their C handles)
      Linear_Expression le = 3 * V - 2; if (ix > 0) le += Variable(0);
      Constraint c = (le >= 0);
      Congruence cg = (le %= 1) / 3;
      Generator g = Generator::point(le, 2);
      Grid_Generator gg = Grid_Generator::grid_point(le, 2);
      Constraint_System cs; cs.insert(c); cs.insert(V <= 5);
      Generator_System gs; gs.insert(g); gs.insert(Generator::ray(V));
      Congruence_System cgs; cgs.insert(cg);
      Grid_Generator_System ggs; ggs.insert(gg);
      Coefficient co(-12345);
      using namespace IO_Operators;
#define CIF_PRINTED(TYPE, OBJ) { \
        std::string w = cxx_text([&](std::ostream& s) { s << OBJ; }); \
        sp = 0; r = ppl_io_asprint_##TYPE(&sp, cif::chnd(&OBJ)); report("ppl_io_asprint_" #TYPE, ix, r, sp ? sp : "<null>", w); free(sp); \
        std::string gf = via_file([&](FILE* f) { return ppl_io_fprint_##TYPE(f, cif::chnd(&OBJ)); }, r); report("ppl_io_fprint_" #TYPE, ix, r, gf, w); \
        std::string gp = via_stdout([&] { return ppl_io_print_##TYPE(cif::chnd(&OBJ)); }, r); report("ppl_io_print_" #TYPE, ix, r, gp, w); }
      CIF_PRINTED(Coefficient, co)
      CIF_PRINTED(Linear_Expression, le)
      CIF_PRINTED(Constraint, c)
      CIF_PRINTED(Constraint_System, cs)
      CIF_PRINTED(Generator, g)
      CIF_PRINTED(Generator_System, gs)
      CIF_PRINTED(Congruence, cg)
      CIF_PRINTED(Congruence_System, cgs)
      CIF_PRINTED(Grid_Generator, gg)
      CIF_PRINTED(Grid_Generator_System, ggs)
#undef CIF_PRINTED
    }
    // a client naming function, then back to the default one
    {
      ppl_io_variable_output_function_type* dflt = 0; int r0 = ppl_io_get_variable_output_function(&dflt);
      struct L { static const char* name(ppl_dimension_type v) { static char b[32]; std::snprintf(b, sizeof b, "x_%lu", (unsigned long) v); return b; } };
      int r1 = ppl_io_set_variable_output_function(&L::name);
      char* sp = 0; int r = ppl_io_asprint_variable(&sp, 27); report("ppl_io_set_variable_output_function", 27, r | r0 | r1, sp ? sp : "<null>", "x_27"); free(sp);
      Constraint c = (Variable(27) + Variable(0) >= 1); sp = 0; r = ppl_io_asprint_Constraint(&sp, cif::chnd(&c)); report("ppl_io_set_variable_output_function", 27, r, sp ? sp : "<null>", "x_0 + x_27 >= 1"); free(sp);
      ppl_io_variable_output_function_type* cur = 0; r = ppl_io_get_variable_output_function(&cur); report("ppl_io_get_variable_output_function", 0, r, cur == &L::name ? "same" : "other", "same");
      r1 = ppl_io_set_variable_output_function(dflt);
      sp = 0; r = ppl_io_asprint_variable(&sp, 0); report("ppl_io_set_variable_output_function", 0, r | r1, sp ? sp : "<null>", "A"); free(sp);
    }
    std::printf("N0|printed=%ld|different=%ld\n", nprint, nbad);
  }

  std::printf("S|created=%ld|deleted=%ld|cases=%ld|live=%ld\n", cif::created, cif::deleted, cif::cases, cif::live);
  ppl_finalize();
  return 0;
}
