// C14 scenario list (included by run_fault.cc). Coefficients are built from ints only, so that the file also
// compiles against the checked-int8 build of the library.
struct LScn : Scn {
  std::function<void()> b, c, d; std::function<bool()> v, u; std::function<long()> own; std::function<std::string()> res;
  void build() { b(); } void call() { c(); } void destroy() { d(); }
  bool valid() { return v ? v() : true; } bool usable() { return u ? u() : true; }
  long owned_blocks() { return own ? own() : -1; }
  std::string result() { return res ? res() : std::string(); }
};
static LScn* lscn(const std::string& name, std::function<void()> b, std::function<void()> c, std::function<void()> d,
                  std::function<bool()> v = 0, std::function<bool()> u = 0) {
  LScn* s = new LScn; s->name = name; s->b = b; s->c = c; s->d = d; s->v = v; s->u = u; scns.push_back(s); return s;
}
static std::string itos(long x) { std::ostringstream o; o << x; return o.str(); }

static Coefficient big(int limbs, int lo = 1) {   // a value occupying exactly `limbs` GMP limbs (mpz build), or a small value
  Coefficient c(lo);
#ifdef PPL_GMP_INTEGERS
  if (limbs > 1) { mpz_class t(1); t <<= (64 * (limbs - 1)); t += lo; c = t; }
#endif
  return c;
}

#ifdef PPL_GMP_INTEGERS
// ---- containers with a Coq allocation model ------------------------------------------------------------
static long cotree_owned(const CO_Tree& t) {
  long n = 0; if (t.indexes) ++n; if (t.data) ++n;
  for (dimension_type i = 1; i <= t.reserved_size; ++i) if (t.indexes[i] != CO_Tree::unused_index && t.data[i].get_mpz_t()->_mp_alloc > 0) ++n;
  return n;
}
static std::string cotree_params(const CO_Tree& t) {
  std::ostringstream o; o << "rsz=" << t.reserved_size << " used=";
  bool first = true;
  for (dimension_type i = 1; i <= t.reserved_size; ++i) if (t.indexes[i] != CO_Tree::unused_index) {
    long l = t.data[i].get_mpz_t()->_mp_size; if (l < 0) l = -l;
    o << (first ? "" : ",") << i << ":" << l; first = false;
  }
  if (first) o << "-";
  return o.str();
}
// the cached end iterators are compared first: OK() itself walks begin()..end() and would read freed memory when they are stale
static bool cotree_cached_ok(const CO_Tree& t) {
  return CO_Tree::const_iterator(t.cached_end) == CO_Tree::const_iterator(t, t.reserved_size + 1) && t.cached_const_end == CO_Tree::const_iterator(t, t.reserved_size + 1);
}
static bool cotree_valid(const CO_Tree& t) { return cotree_cached_ok(t) && t.OK(); }
static bool cotree_usable(CO_Tree& t) {
  CO_Tree z(t); if (!z.OK()) return false;
  t.insert(1000, Coefficient(5)); t.insert(3, Coefficient(7)); if (!t.OK()) return false;
  t.erase(1000); if (!t.OK()) return false;
  t = z; if (!t.OK()) return false;
  t.clear(); return t.OK() && t.empty();
}
struct VecIter {   // an Iterator for CO_Tree(Iterator, n)
  const std::vector<std::pair<dimension_type, Coefficient> >* v; size_t i;
  dimension_type index() const { return (*v)[i].first; }
  const Coefficient& operator*() const { return (*v)[i].second; }
  VecIter& operator++() { ++i; return *this; }
};
// objects under test are constructed in place (no allocation for the object itself, so that the trace is the callee's)
struct TreeSt { CO_Tree* t; CO_Tree* x; std::vector<std::pair<dimension_type, Coefficient> > src; __attribute__((aligned(16))) char buf[sizeof(CO_Tree)]; TreeSt() : t(0), x(0) {} };
static void kill_tree(CO_Tree*& t) { if (t) t->~CO_Tree(); t = 0; }
static CO_Tree* make_tree(const int* keys, const int* limbs, int n) {
  CO_Tree* t = new CO_Tree;
  for (int i = 0; i < n; ++i) t->insert((dimension_type) keys[i], big(limbs[i], 1 + i));
  return t;
}

static void container_scenarios() {
  // CO_Tree::init(n)
  static const int init_ns[] = { 0, 3, 4, 9 };   // (init is only ever called with 0 or a reserved size >= 3)
  for (size_t q = 0; q < sizeof init_ns / sizeof init_ns[0]; ++q) {
    int n = init_ns[q]; TreeSt* st = new TreeSt;
    LScn* s = lscn("cotree_init_" + itos(n), [st]() { st->t = new CO_Tree; }, [st, n]() { st->t->init(n); }, [st]() { delete st->t; st->t = 0; },
                   [st]() { return cotree_cached_ok(*st->t) && st->t->structure_OK(); }, [st]() { return cotree_usable(*st->t); });   // (an allocated empty tree is an internal state: OK()'s density test does not apply)
    s->container = true; s->params = "init n=" + itos(n); s->own = [st]() { return cotree_owned(*st->t); };
  }
  // CO_Tree(Iterator, n)
  static const int srcs[][8] = { {1, 1, 0}, {1, 0}, {2, 1, 1, 0}, {1, 1, 1, 1, 1, 1, 1, 0}, {1, 3, 1, 2, 0}, {0} };
  for (int q = 0; q < 6; ++q) {
    TreeSt* st = new TreeSt; std::string p;
    for (int j = 0; srcs[q][j]; ++j) { st->src.push_back(std::make_pair((dimension_type) (2 * j + 1), big(srcs[q][j], 3 + j))); p += (j ? "," : "") + itos(srcs[q][j]); }
    if (p.empty()) p = "-";
    LScn* s = lscn("cotree_iter_" + itos(q), [st]() { st->t = 0; },
                   [st]() { VecIter it; it.v = &st->src; it.i = 0; st->t = new (st->buf) CO_Tree(it, st->src.size()); },
                   [st]() { kill_tree(st->t); },
                   [st]() { return st->t == 0 || cotree_valid(*st->t); }, [st]() { return st->t == 0 || cotree_usable(*st->t); });
    s->container = true; s->params = "iter src=" + p; s->own = [st]() { return st->t ? cotree_owned(*st->t) : 0L; };
  }
  // copy constructor / assignment / rebuild_bigger_tree
  static const int k1[] = { 5, 1, 9, 14 }, l1[] = { 1, 2, 1, 1 };
  static const int k2[] = { 2, 4, 6, 8, 10, 12, 20, 21, 22 }, l2[] = { 1, 1, 1, 1, 2, 1, 1, 1, 3 };
  static const int k3[] = { 7 }, l3[] = { 1 };
  struct Desc { const int* k; const int* l; int n; };
  static const Desc ds[] = { { k1, l1, 4 }, { k2, l2, 9 }, { k3, l3, 1 }, { k1, l1, 0 } };
  for (int q = 0; q < 4; ++q) {
    Desc dd = ds[q];
    { TreeSt* st = new TreeSt;
      LScn* s = lscn("cotree_copy_" + itos(q), [st, dd]() { st->x = make_tree(dd.k, dd.l, dd.n); st->t = 0; },
                     [st]() { st->t = new (st->buf) CO_Tree(*st->x); }, [st]() { kill_tree(st->t); delete st->x; st->x = 0; },
                     [st]() { return st->x->OK() && (st->t == 0 || st->t->OK()); }, [st]() { return st->t == 0 || cotree_usable(*st->t); });
      s->container = true; { CO_Tree* x = make_tree(dd.k, dd.l, dd.n); s->params = "copy " + cotree_params(*x); delete x; }
      s->own = [st]() { return st->t ? cotree_owned(*st->t) : 0L; }; }
    for (int r = 0; r < 2; ++r) {
      Desc d2 = ds[(q + 1 + r) % 4]; TreeSt* st = new TreeSt;
      LScn* s = lscn("cotree_assign_" + itos(q) + "_" + itos(r), [st, dd, d2]() { st->x = make_tree(dd.k, dd.l, dd.n); st->t = make_tree(d2.k, d2.l, d2.n); },
                     [st]() { *st->t = *st->x; }, [st]() { delete st->t; delete st->x; st->t = st->x = 0; },
                     [st]() { return st->x->OK() && cotree_valid(*st->t); }, [st]() { return cotree_usable(*st->t); });
      s->container = true;
      { CO_Tree* x = make_tree(dd.k, dd.l, dd.n); CO_Tree* t = make_tree(d2.k, d2.l, d2.n);
        s->params = "assign this:" + cotree_params(*t) + " y:" + cotree_params(*x); delete x; delete t; }
      s->own = [st]() { return cotree_owned(*st->t); };
    }
    { TreeSt* st = new TreeSt;
      LScn* s = lscn("cotree_rebuild_" + itos(q), [st, dd]() { st->t = make_tree(dd.k, dd.l, dd.n); },
                     [st]() { st->t->rebuild_bigger_tree(); }, [st]() { delete st->t; st->t = 0; },
                     [st]() { return cotree_cached_ok(*st->t) && st->t->structure_OK(); }, [st]() { return cotree_usable(*st->t); });
      s->container = true; { CO_Tree* x = make_tree(dd.k, dd.l, dd.n); s->params = "rebuild " + cotree_params(*x); delete x; }
      s->own = [st]() { return cotree_owned(*st->t); }; }
  }
  // Dense_Row::resize / copy constructor
  struct DSt { Dense_Row* r; Dense_Row* c; __attribute__((aligned(16))) char buf[sizeof(Dense_Row)]; DSt() : r(0), c(0) {} };
  struct DD { int size, cap, newsize; int limbs[6]; };
  static const DD dds[] = { { 0, 0, 3, {0} }, { 3, 3, 5, {1, 0, 2} }, { 3, 8, 5, {0, 1, 1} }, { 4, 4, 2, {1, 1, 0, 1} }, { 2, 2, 9, {2, 2} } };
  auto mkrow = [](const DD& d) { Dense_Row* r = d.cap ? new Dense_Row(d.size, d.cap) : new Dense_Row(); for (int i = 0; i < d.size; ++i) if (d.limbs[i]) (*r)[i] = big(d.limbs[i], 2 + i); return r; };
  auto row_params = [](const Dense_Row& r) { std::ostringstream o; o << "cap=" << r.capacity() << " coeffs=";
    for (dimension_type i = 0; i < r.size(); ++i) { long l = r[i].get_mpz_t()->_mp_size; if (l < 0) l = -l; o << (i ? "," : "") << l; } if (r.size() == 0) o << "-"; return o.str(); };
  auto row_owned = [](const Dense_Row& r) { long n = r.impl.vec ? 1 : 0; for (dimension_type i = 0; i < r.size(); ++i) if (r[i].get_mpz_t()->_mp_alloc > 0) ++n; return n; };
  for (int q = 0; q < 5; ++q) {
    DD d = dds[q];
    { DSt* st = new DSt;
      LScn* s = lscn("dense_resize_" + itos(q), [st, d, mkrow]() { st->r = mkrow(d); }, [st, d]() { st->r->resize(d.newsize); }, [st]() { delete st->r; st->r = 0; },
                     [st]() { return st->r->OK(); }, [st]() { Dense_Row z(*st->r); st->r->resize(1); (*st->r)[0] = Coefficient(3); *st->r = z; return st->r->OK() && z.OK(); });
      s->container = true; { Dense_Row* r = mkrow(d); s->params = "dense_resize " + row_params(*r) + " new=" + itos(d.newsize); delete r; }
      s->own = [st, row_owned]() { return row_owned(*st->r); }; }
    { DSt* st = new DSt;
      LScn* s = lscn("dense_copy_" + itos(q), [st, d, mkrow]() { st->r = mkrow(d); st->c = 0; }, [st]() { st->c = new (st->buf) Dense_Row(*st->r); }, [st]() { delete st->r; if (st->c) st->c->~Dense_Row(); st->r = st->c = 0; },
                     [st]() { return st->r->OK() && (!st->c || st->c->OK()); }, [st]() { return true; });
      s->container = true; { Dense_Row* r = mkrow(d); s->params = "dense_copy " + row_params(*r); delete r; }
      s->own = [st, row_owned]() { return st->c ? row_owned(*st->c) : 0L; }; }
  }

  // the remaining Dense_Row construction paths: (y, capacity), (y, sz, capacity), resize(sz, capacity), Dense_Row(const Sparse_Row&)
  struct DC { int ysize, ycap, sz, cap; int limbs[6]; };
  static const DC dcs[] = { { 3, 3, 5, 6, {1, 0, 2} }, { 3, 4, 2, 2, {1, 1, 1} }, { 0, 0, 3, 4, {0} }, { 4, 4, 4, 4, {2, 0, 0, 1} }, { 2, 2, 0, 3, {1, 1} } };
  for (int q = 0; q < 5; ++q) {
    DC d = dcs[q];
    auto mky = [d]() { Dense_Row* r = d.ycap ? new Dense_Row(d.ysize, d.ycap) : new Dense_Row(); for (int i = 0; i < d.ysize; ++i) if (d.limbs[i]) (*r)[i] = big(d.limbs[i], 2 + i); return r; };
    { DSt* st = new DSt;
      LScn* s = lscn("dense_copy_sized_" + itos(q), [st, mky]() { st->r = mky(); st->c = 0; }, [st, d]() { st->c = new (st->buf) Dense_Row(*st->r, d.sz, d.cap); },
                     [st]() { delete st->r; if (st->c) st->c->~Dense_Row(); st->r = st->c = 0; }, [st]() { return st->r->OK() && (!st->c || st->c->OK()); }, [st]() { return true; });
      s->container = true; { Dense_Row* r = mky(); s->params = "dense_copy_sized " + row_params(*r) + " sz=" + itos(d.sz) + " capacity=" + itos(d.cap); delete r; }
      s->own = [st, row_owned]() { return st->c ? row_owned(*st->c) : 0L; }; }
    if (d.cap >= d.ysize) { DSt* st = new DSt;
      LScn* s = lscn("dense_copy_cap_" + itos(q), [st, mky]() { st->r = mky(); st->c = 0; }, [st, d]() { st->c = new (st->buf) Dense_Row(*st->r, d.cap); },
                     [st]() { delete st->r; if (st->c) st->c->~Dense_Row(); st->r = st->c = 0; }, [st]() { return st->r->OK() && (!st->c || st->c->OK()); }, [st]() { return true; });
      s->container = true; { Dense_Row* r = mky(); s->params = "dense_copy_cap " + row_params(*r) + " capacity=" + itos(d.cap); delete r; }
      s->own = [st, row_owned]() { return st->c ? row_owned(*st->c) : 0L; }; }
    if (d.sz <= d.cap) { DSt* st = new DSt;
      LScn* s = lscn("dense_resize2_" + itos(q), [st, mky]() { st->r = mky(); }, [st, d]() { st->r->resize(d.sz, d.cap); }, [st]() { delete st->r; st->r = 0; },
                     [st]() { return st->r->OK(); }, [st]() { Dense_Row z(*st->r); st->r->resize(1); (*st->r)[0] = Coefficient(3); *st->r = z; return st->r->OK() && z.OK(); });
      s->container = true; { Dense_Row* r = mky(); s->params = "dense_resize2 " + row_params(*r) + " new=" + itos(d.sz) + " capacity=" + itos(d.cap); delete r; }
      s->own = [st, row_owned]() { return row_owned(*st->r); }; }
  }
  struct SD { int size; int idx[4]; int limbs[4]; int n; };
  static const SD sds[] = { { 5, {0, 2, 4}, {1, 2, 1}, 3 }, { 3, {1}, {1}, 1 }, { 4, {0}, {0}, 0 }, { 6, {0, 1, 2, 5}, {1, 1, 3, 1}, 4 } };
  struct SSt2 { Sparse_Row* s; Dense_Row* c; __attribute__((aligned(16))) char buf[sizeof(Dense_Row)]; SSt2() : s(0), c(0) {} };
  for (int q = 0; q < 4; ++q) {
    SD d = sds[q]; SSt2* st = new SSt2;
    auto mks = [d]() { Sparse_Row* r = new Sparse_Row(d.size); for (int i = 0; i < d.n; ++i) r->insert(d.idx[i], big(d.limbs[i], 3 + i)); return r; };
    LScn* s = lscn("dense_from_sparse_" + itos(q), [st, mks]() { st->s = mks(); st->c = 0; }, [st]() { st->c = new (st->buf) Dense_Row(*st->s); },
                   [st]() { delete st->s; if (st->c) st->c->~Dense_Row(); st->s = 0; st->c = 0; }, [st]() { return st->s->OK() && (!st->c || st->c->OK()); }, [st]() { return true; });
    s->container = true;
    { std::ostringstream o; o << "dense_from_sparse rsize=" << d.size << " elems="; for (int i = 0; i < d.n; ++i) o << (i ? "," : "") << d.idx[i] << ":" << d.limbs[i]; if (d.n == 0) o << "-"; s->params = o.str(); }
    s->own = [st, row_owned]() { return st->c ? row_owned(*st->c) : 0L; };
  }
  // Swapping_Vector<Dense_Row>::reserve
  struct SSt { Swapping_Vector<Dense_Row>* v; SSt() : v(0) {} };
  static const int svs[][2] = { { 0, 4 }, { 3, 10 }, { 5, 6 } };
  for (int q = 0; q < 3; ++q) {
    int sz = svs[q][0], nc = svs[q][1]; SSt* st = new SSt;
    auto mk = [sz]() { Swapping_Vector<Dense_Row>* v = new Swapping_Vector<Dense_Row>(sz); for (int i = 0; i < sz; ++i) { (*v)[i].resize(2); (*v)[i][1] = Coefficient(i + 1); } return v; };
    LScn* s = lscn("sv_reserve_" + itos(q), [st, mk]() { st->v = mk(); }, [st, nc]() { st->v->reserve(nc); }, [st]() { delete st->v; st->v = 0; },
                   [st, sz]() { if ((int) st->v->size() != sz) return false; for (int i = 0; i < sz; ++i) if (!(*st->v)[i].OK() || (*st->v)[i].size() != 2 || (*st->v)[i][1] != i + 1) return false; return true; },
                   [st]() { st->v->resize(st->v->size() + 2); st->v->resize(1); return st->v->size() == 1; });
    s->container = true;
    { Swapping_Vector<Dense_Row>* v = mk(); std::ostringstream o;
      o << "sv_reserve old_cap=" << v->capacity() << " size=" << v->size() << " want=" << nc << " old_bytes=" << v->capacity() * sizeof(Dense_Row)
        << " new_bytes=" << (v->capacity() < (dimension_type) nc ? compute_capacity(nc, v->max_num_rows()) * sizeof(Dense_Row) : 0);
      s->params = o.str(); delete v; }
    // blocks owned by the vector and its rows
    s->own = [st]() { long n = st->v->capacity() ? 1 : 0; for (dimension_type i = 0; i < st->v->size(); ++i) { const Dense_Row& r = (*st->v)[i]; if (r.impl.vec) ++n; for (dimension_type j = 0; j < r.size(); ++j) if (r[j].get_mpz_t()->_mp_alloc > 0) ++n; } return n; };
  }
}

// ---- other containers: enumeration only ------------------------------------------------------------------
static void row_scenarios() {
  struct RSt { Dense_Row* d; Sparse_Row* s; Sparse_Row* s2; Bit_Matrix* bm; Bit_Matrix* bm2; RSt() : d(0), s(0), s2(0), bm(0), bm2(0) {} };
  auto mkdense = [](int n) { Dense_Row* r = new Dense_Row(n); for (int i = 0; i < n; i += 2) (*r)[i] = big(1 + (i % 3 == 0), i + 1); return r; };
  auto mksparse = [](int n, int step) { Sparse_Row* r = new Sparse_Row(n); for (int i = 1; i < n; i += step) r->insert(i, big(1 + (i % 4 == 1), i)); return r; };
  { RSt* st = new RSt;   // the public route to CO_Tree(Iterator, n)
    lscn("sparse_from_dense", [st, mkdense]() { st->d = mkdense(7); st->s = 0; }, [st]() { st->s = new Sparse_Row(*st->d); }, [st]() { delete st->d; delete st->s; st->d = 0; st->s = 0; },
         [st]() { return st->d->OK() && (!st->s || st->s->OK()); }, [st]() { if (st->s) { st->s->insert(2, Coefficient(9)); st->s->reset(0); return st->s->OK(); } return true; }); }
  { RSt* st = new RSt;
    lscn("sparse_from_dense_sz", [st, mkdense]() { st->d = mkdense(9); st->s = 0; }, [st]() { st->s = new Sparse_Row(*st->d, 9, 12); }, [st]() { delete st->d; delete st->s; st->d = 0; st->s = 0; },
         [st]() { return st->d->OK() && (!st->s || st->s->OK()); }); }
  { RSt* st = new RSt;
    lscn("sparse_copy", [st, mksparse]() { st->s = mksparse(20, 2); st->s2 = 0; }, [st]() { st->s2 = new Sparse_Row(*st->s); }, [st]() { delete st->s; delete st->s2; st->s = st->s2 = 0; },
         [st]() { return st->s->OK() && (!st->s2 || st->s2->OK()); }); }
  { RSt* st = new RSt;
    lscn("sparse_assign", [st, mksparse]() { st->s = mksparse(20, 2); st->s2 = mksparse(20, 5); }, [st]() { *st->s2 = *st->s; }, [st]() { delete st->s; delete st->s2; st->s = st->s2 = 0; },
         [st]() { return st->s->OK() && st->s2->OK(); }, [st]() { st->s2->insert(3, Coefficient(4)); st->s2->clear(); return st->s2->OK(); }); }
  { RSt* st = new RSt;
    lscn("sparse_insert_grow", [st, mksparse]() { st->s = mksparse(40, 13); }, [st]() { for (int i = 0; i < 12; ++i) st->s->insert(2 * i, big(1 + (i == 5), i + 1)); },
         [st]() { delete st->s; st->s = 0; }, [st]() { return st->s->OK(); }, [st]() { st->s->insert(39, Coefficient(1)); st->s->reset(2); Sparse_Row z(*st->s); return z.OK() && st->s->OK(); }); }
  { RSt* st = new RSt;
    lscn("sparse_linear_combine", [st, mksparse]() { st->s = mksparse(20, 2); st->s2 = mksparse(20, 3); },
         [st]() { st->s->linear_combine(*st->s2, big(2, 3), Coefficient(-5)); }, [st]() { delete st->s; delete st->s2; st->s = st->s2 = 0; },
         [st]() { return st->s->OK() && st->s2->OK(); }, [st]() { st->s->insert(1, Coefficient(4)); Sparse_Row z(*st->s); return z.OK(); }); }
  { RSt* st = new RSt;
    lscn("sparse_add_zeroes_and_shift", [st, mksparse]() { st->s = mksparse(20, 2); }, [st]() { st->s->add_zeroes_and_shift(5, 4); st->s->resize(40); },
         [st]() { delete st->s; st->s = 0; }, [st]() { return st->s->OK(); }); }
  { RSt* st = new RSt;
    lscn("dense_add_zeroes_and_shift", [st, mkdense]() { st->d = mkdense(6); }, [st]() { st->d->add_zeroes_and_shift(7, 2); },
         [st]() { delete st->d; st->d = 0; }, [st]() { return st->d->OK(); }, [st]() { st->d->resize(3); Dense_Row z(*st->d); return z.OK(); }); }
  { RSt* st = new RSt;
    lscn("dense_from_sparse", [st, mksparse]() { st->s = mksparse(12, 3); st->d = 0; }, [st]() { st->d = new Dense_Row(*st->s); }, [st]() { delete st->s; delete st->d; st->s = 0; st->d = 0; },
         [st]() { return st->s->OK() && (!st->d || st->d->OK()); }); }
  { RSt* st = new RSt;
    lscn("dense_assign", [st, mkdense]() { st->d = mkdense(6); st->s = 0; }, [st]() { Dense_Row y(9); for (int i = 0; i < 9; ++i) y[i] = big(1 + (i == 4), i + 2); *st->d = y; },
         [st]() { delete st->d; st->d = 0; }, [st]() { return st->d->OK(); }); }

  // copies "with a given space dimension" of DENSE expressions / constraints / generators (-> Dense_Row(y, sz, capacity)),
  // of a constraint taken out of a polyhedron, and the merge of two sorted non-minimized constraint systems in intersection_assign
  struct ESt { Linear_Expression* e; Constraint* c; Generator* g; C_Polyhedron* x; C_Polyhedron* y; ESt() : e(0), c(0), g(0), x(0), y(0) {} };
  auto mk_le = [](Representation r) { Linear_Expression t; t += Variable(0) * big(2, 3); t -= 4 * Variable(1); t += Variable(3) * big(1, 7); t += 5; return new Linear_Expression(t, r); };
  static const int dims[] = { 7, 4, 2 }; static const char* dn[] = { "bigger", "same", "smaller" };
  for (int rr = 0; rr < 2; ++rr) {
    Representation rep = rr ? DENSE : SPARSE; std::string rn = rr ? "dense" : "sparse";
    for (int q = 0; q < 3; ++q) { int dm = dims[q]; ESt* st = new ESt;
      lscn("le_" + rn + "_copy_dim_" + dn[q], [st, mk_le, rep]() { st->e = mk_le(rep); }, [st, dm]() { Linear_Expression z(*st->e, dm); (void) z; }, [st]() { delete st->e; st->e = 0; },
           [st]() { return st->e->OK(); }, [st]() { Linear_Expression z(*st->e); z += Variable(1); return z.OK(); }); }
    { ESt* st = new ESt;
      lscn("con_" + rn + "_copy_dim", [st, mk_le, rep]() { Linear_Expression* e = mk_le(rep); st->c = new Constraint(Constraint(*e >= 0), rep); delete e; }, [st]() { Constraint z(*st->c, 6); (void) z; },
           [st]() { delete st->c; st->c = 0; }, [st]() { return st->c->OK(); }); }
    { ESt* st = new ESt;
      lscn("con_" + rn + "_copy_dim_repr", [st, mk_le, rep]() { Linear_Expression* e = mk_le(rep); st->c = new Constraint(Constraint(*e > 0), rep); delete e; }, [st, rep]() { Constraint z(*st->c, 6, rep); (void) z; },
           [st]() { delete st->c; st->c = 0; }, [st]() { return st->c->OK(); }); }
    { ESt* st = new ESt;
      lscn("gen_" + rn + "_copy_dim", [st, mk_le, rep]() { Linear_Expression* e = mk_le(rep); st->g = new Generator(point(*e - 5, big(2, 1)), rep); delete e; }, [st]() { Generator z(*st->g, 5); (void) z; },
           [st]() { delete st->g; st->g = 0; }, [st]() { return st->g->OK(); }); }
  }
  { ESt* st = new ESt;
    lscn("con_from_polyhedron_copy_dim", [st]() { C_Polyhedron ph(3); ph.add_constraint(3 * Variable(0) - 2 * Variable(1) + 5 * Variable(2) <= 7); ph.add_constraint(Variable(0) >= 0);
                                                   (void) ph.minimized_generators(); st->c = new Constraint(*ph.minimized_constraints().begin()); },
         [st]() { Constraint z(*st->c, 6); (void) z; }, [st]() { delete st->c; st->c = 0; }, [st]() { return st->c->OK(); }); }
  { ESt* st = new ESt;
    lscn("C_Polyhedron.intersection_sorted_merge", [st]() { st->x = new C_Polyhedron(3); st->x->add_constraint(Variable(2) >= 1); st->x->add_constraint(Variable(1) >= 0); st->x->add_constraint(Variable(0) + Variable(1) >= 2);
                                               st->y = new C_Polyhedron(3); st->y->add_constraint(2 * Variable(2) >= 1); st->y->add_constraint(Variable(1) + 3 * Variable(2) >= 0); st->y->add_constraint(5 * Variable(0) - Variable(2) >= -4); },
         [st]() { st->x->intersection_assign(*st->y); }, [st]() { delete st->x; delete st->y; st->x = st->y = 0; },
         [st]() { return st->x->OK() && st->y->OK(); }, [st]() { C_Polyhedron z(*st->x); (void) z.is_empty(); z = *st->y; return z.OK(); }); }
  auto mkbm = [](int rows, int cols) { Bit_Matrix* m = new Bit_Matrix(rows, cols); for (int i = 0; i < rows; ++i) for (int j = i % 3; j < cols; j += 3) (*m)[i].set(j); return m; };
  { RSt* st = new RSt;
    lscn("bitmatrix_copy", [st, mkbm]() { st->bm = mkbm(5, 70); st->bm2 = 0; }, [st]() { st->bm2 = new Bit_Matrix(*st->bm); }, [st]() { delete st->bm; delete st->bm2; st->bm = st->bm2 = 0; },
         [st]() { return st->bm->OK() && (!st->bm2 || st->bm2->OK()); }); }
  { RSt* st = new RSt;
    lscn("bitmatrix_transpose", [st, mkbm]() { st->bm = mkbm(5, 70); }, [st]() { st->bm->transpose(); }, [st]() { delete st->bm; st->bm = 0; },
         [st]() { return st->bm->OK(); }, [st]() { st->bm->resize(3, 9); return st->bm->OK(); }); }
  { RSt* st = new RSt;
    lscn("bitmatrix_transpose_assign", [st, mkbm]() { st->bm = mkbm(5, 70); st->bm2 = mkbm(2, 3); }, [st]() { st->bm2->transpose_assign(*st->bm); }, [st]() { delete st->bm; delete st->bm2; st->bm = st->bm2 = 0; },
         [st]() { return st->bm->OK() && st->bm2->OK(); }); }
  { RSt* st = new RSt;
    lscn("bitmatrix_resize_add", [st, mkbm]() { st->bm = mkbm(3, 70); }, [st]() { st->bm->resize(9, 200); Bit_Row r; r.set(150); st->bm->add_recycled_row(r); }, [st]() { delete st->bm; st->bm = 0; },
         [st]() { return st->bm->OK(); }, [st]() { st->bm->sort_rows(); st->bm->remove_trailing_rows(1); return st->bm->OK(); }); }
  struct SVs { Swapping_Vector<Sparse_Row>* v; SVs() : v(0) {} };
  { SVs* st = new SVs;
    lscn("sv_sparse_resize", [st]() { st->v = new Swapping_Vector<Sparse_Row>(3); for (int i = 0; i < 3; ++i) { (*st->v)[i].resize(9); (*st->v)[i].insert(i + 1, big(1 + (i == 1), 7)); } },
         [st]() { st->v->resize(12); st->v->push_back(Sparse_Row(9)); }, [st]() { delete st->v; st->v = 0; },
         [st]() { for (dimension_type i = 0; i < st->v->size(); ++i) if (!(*st->v)[i].OK()) return false; return true; },
         [st]() { st->v->resize(2); st->v->reserve(30); return st->v->size() == 2 && (*st->v)[1].OK(); }); }
}
#endif // PPL_GMP_INTEGERS

// ---- domains -----------------------------------------------------------------------------------------
static Linear_Expression lin(int b, int a0, int a1 = 0, int a2 = 0) {
  Linear_Expression e; e += Coefficient(a0) * Variable(0);
  if (a1) e += Coefficient(a1) * Variable(1); if (a2) e += Coefficient(a2) * Variable(2);
  e += Coefficient(b); return e;
}
// receivers: bounded-difference shaped systems so that every domain accepts them
static Constraint_System cs_a(int dim) {
  Constraint_System cs; cs.insert(Variable(0) >= 0); cs.insert(Variable(0) <= 5);
  if (dim > 1) { cs.insert(Variable(1) >= 1); cs.insert(Variable(1) - Variable(0) <= 3); cs.insert(Variable(0) - Variable(1) <= 2); }
  if (dim > 2) { cs.insert(Variable(2) - Variable(1) <= 4); cs.insert(Variable(2) >= -2); cs.insert(Variable(dim - 1) <= 9); }
  return cs;
}
static Constraint_System cs_b(int dim) {
  Constraint_System cs; cs.insert(Variable(0) >= 1); cs.insert(Variable(0) <= 7);
  if (dim > 1) { cs.insert(Variable(1) >= 0); cs.insert(Variable(1) <= 6); cs.insert(Variable(1) - Variable(0) <= 1); }
  if (dim > 2) { cs.insert(Variable(2) - Variable(0) <= 2); cs.insert(Variable(2) >= 0); cs.insert(Variable(dim - 1) <= 11); }
  return cs;
}
struct PF14 {
  std::vector<long> m;
  bool has_empty_codomain() const { for (size_t i = 0; i < m.size(); ++i) if (m[i] >= 0) return false; return true; }
  dimension_type max_in_codomain() const { long mx = 0; for (size_t i = 0; i < m.size(); ++i) if (m[i] > mx) mx = m[i]; return mx; }
  bool maps(dimension_type i, dimension_type& j) const { if (i >= m.size() || m[i] < 0) return false; j = m[i]; return true; }
};

enum { ST_FRESH = 0, ST_MIN = 1, ST_GEN = 2 };
template <typename D> struct Is_Box { enum { value = 0 }; };
template <typename I> struct Is_Box<Box<I> > { enum { value = 1 }; };
template <typename D> static D* mk_dom(int which, int dim, int state) {
  D* p = new D(dim, UNIVERSE); p->refine_with_constraints(which == 0 ? cs_a(dim) : cs_b(dim));
  if (!Is_Box<D>::value) { delete p; p = new D(which == 0 ? cs_a(dim) : cs_b(dim)); }
  if (state == ST_MIN) (void) p->minimized_constraints();
  if (state == ST_GEN) (void) p->is_empty();
  return p;
}
template <typename D> static void dscn(const std::string& n, std::function<D*()> a, std::function<D*()> b, std::function<void(D&, const D&)> o) {
  scns.push_back(new DScn<D>(n, a, b, o));
}

template <typename D> static void common_domain_scenarios(const std::string& dn, bool has_widening_h79) {
  static const char* stn[] = { "fresh", "min", "gen" };
  for (int st = 0; st < 3; ++st) {
    std::string sfx = std::string("_") + stn[st];
    std::function<D*()> X3 = [st]() { return mk_dom<D>(0, 3, st); };
    std::function<D*()> Y3 = [st]() { return mk_dom<D>(1, 3, (st + 1) % 3); };
    std::function<D*()> X2 = [st]() { return mk_dom<D>(0, 2, st); };
    std::function<D*()> none;
    dscn<D>(dn + ".copy" + sfx, X3, none, [](D& x, const D&) { D z(x); x.m_swap(z); });
    dscn<D>(dn + ".assign" + sfx, X3, Y3, [](D& x, const D& y) { x = y; });
    dscn<D>(dn + ".add_constraint" + sfx, X3, none, [](D& x, const D&) { if (Is_Box<D>::value) x.add_constraint(Variable(2) <= 1); else x.add_constraint(Variable(2) - Variable(0) <= 1); });
    dscn<D>(dn + ".add_constraints" + sfx, X3, none, [](D& x, const D&) { if (Is_Box<D>::value) { Constraint_System cs; cs.insert(Variable(0) >= 1); cs.insert(3 * Variable(2) <= 7); cs.insert(Variable(1) == 2); x.add_constraints(cs); } else x.add_constraints(cs_b(3)); });
    dscn<D>(dn + ".refine_with_constraint" + sfx, X3, none, [](D& x, const D&) { x.refine_with_constraint(Variable(0) + 2 * Variable(1) - Variable(2) <= 6); });
    dscn<D>(dn + ".intersection_assign" + sfx, X3, Y3, [](D& x, const D& y) { x.intersection_assign(y); });
    dscn<D>(dn + ".upper_bound_assign" + sfx, X3, Y3, [](D& x, const D& y) { x.upper_bound_assign(y); });
    dscn<D>(dn + ".difference_assign" + sfx, X3, Y3, [](D& x, const D& y) { x.difference_assign(y); });
    dscn<D>(dn + ".time_elapse_assign" + sfx, X3, Y3, [](D& x, const D& y) { x.time_elapse_assign(y); });
    dscn<D>(dn + ".concatenate_assign" + sfx, X2, Y3, [](D& x, const D& y) { x.concatenate_assign(y); });
    dscn<D>(dn + ".affine_image" + sfx, X3, none, [](D& x, const D&) { x.affine_image(Variable(1), lin(1, 1, 2, 0), Coefficient(2)); });
    dscn<D>(dn + ".affine_preimage" + sfx, X3, none, [](D& x, const D&) { x.affine_preimage(Variable(0), lin(-1, 0, 1, 1), Coefficient(1)); });
    dscn<D>(dn + ".generalized_affine_image" + sfx, X3, none, [](D& x, const D&) { x.generalized_affine_image(Variable(2), LESS_OR_EQUAL, lin(2, 1, 0, 1), Coefficient(1)); });
    dscn<D>(dn + ".generalized_affine_image_lhs" + sfx, X3, none, [](D& x, const D&) { x.generalized_affine_image(lin(0, 1, 1), GREATER_OR_EQUAL, lin(1, 0, 0, 1)); });
    dscn<D>(dn + ".bounded_affine_image" + sfx, X3, none, [](D& x, const D&) { x.bounded_affine_image(Variable(0), lin(0, 0, 1), lin(3, 0, 0, 1), Coefficient(1)); });
    dscn<D>(dn + ".unconstrain" + sfx, X3, none, [](D& x, const D&) { x.unconstrain(Variable(1)); });
    dscn<D>(dn + ".add_space_dimensions_and_embed" + sfx, X3, none, [](D& x, const D&) { x.add_space_dimensions_and_embed(2); });
    dscn<D>(dn + ".add_space_dimensions_and_project" + sfx, X3, none, [](D& x, const D&) { x.add_space_dimensions_and_project(2); });
    dscn<D>(dn + ".remove_space_dimensions" + sfx, X3, none, [](D& x, const D&) { Variables_Set vs; vs.insert(Variable(1)); x.remove_space_dimensions(vs); });
    dscn<D>(dn + ".remove_higher_space_dimensions" + sfx, X3, none, [](D& x, const D&) { x.remove_higher_space_dimensions(1); });
    dscn<D>(dn + ".expand_space_dimension" + sfx, X3, none, [](D& x, const D&) { x.expand_space_dimension(Variable(0), 2); });
    dscn<D>(dn + ".fold_space_dimensions" + sfx, X3, none, [](D& x, const D&) { Variables_Set vs; vs.insert(Variable(0)); x.fold_space_dimensions(vs, Variable(2)); });
    dscn<D>(dn + ".map_space_dimensions" + sfx, X3, none, [](D& x, const D&) { PF14 f; f.m.push_back(1); f.m.push_back(-1); f.m.push_back(0); x.map_space_dimensions(f); });
    dscn<D>(dn + ".queries" + sfx, X3, Y3, [](D& x, const D& y) {
      (void) x.is_empty(); (void) x.is_universe(); (void) x.is_bounded(); (void) x.contains(y); (void) x.is_disjoint_from(y); (void) x.constrains(Variable(1));
      (void) x.relation_with(Variable(0) - Variable(1) >= 0); (void) x.relation_with(point(Variable(0) + Variable(1)));
      Coefficient n, d; bool m; Generator g = point(); (void) x.maximize(lin(0, 1, 1, 1), n, d, m, g); (void) x.bounds_from_below(lin(0, 1, -1));
      (void) x.affine_dimension(); (void) x.contains_integer_point(); (void) x.minimized_constraints(); (void) x.minimized_congruences(); });
    dscn<D>(dn + ".widening" + sfx, [st]() { D* p = mk_dom<D>(0, 3, st); D* q = mk_dom<D>(1, 3, 0); p->upper_bound_assign(*q); delete q; return p; },
            [st]() { return mk_dom<D>(0, 3, (st + 2) % 3); }, [](D& x, const D& y) { x.widening_assign(y); });
    if (dn != "Octagonal_Shape")   // Octagonal_Shape::simplify_using_context_assign does not terminate on this pair even without any fault (not a C14 matter)
      dscn<D>(dn + ".simplify_using_context" + sfx, X3, Y3, [](D& x, const D& y) { (void) x.simplify_using_context_assign(y); });
    dscn<D>(dn + ".wrap_assign" + sfx, X3, none, [](D& x, const D&) { Variables_Set vs; vs.insert(Variable(0)); vs.insert(Variable(2)); x.wrap_assign(vs, BITS_8, UNSIGNED, OVERFLOW_WRAPS); });
    dscn<D>(dn + ".drop_some_non_integer_points" + sfx, X3, none, [](D& x, const D&) { x.drop_some_non_integer_points(); });
  }
  (void) has_widening_h79;
}

static Generator_System gs_a() {
  Generator_System gs; gs.insert(point()); gs.insert(point(3 * Variable(0) + Variable(1)));
  gs.insert(point(Variable(0) + 4 * Variable(1) + 2 * Variable(2), Coefficient(2))); gs.insert(ray(Variable(0) + Variable(1) + Variable(2)));
  gs.insert(point(-Variable(2))); return gs;
}
template <typename PH> static void polyhedron_scenarios(const std::string& dn) {
  std::function<PH*()> none;
  for (int st = 0; st < 3; ++st) {
    static const char* stn[] = { "fresh", "min", "gen" };
    std::string sfx = std::string("_") + stn[st];
    std::function<PH*()> G3 = [st]() { PH* p = new PH(gs_a()); if (st == ST_MIN) (void) p->minimized_generators(); if (st == ST_GEN) (void) p->constraints(); return p; };
    std::function<PH*()> X3 = [st]() { return mk_dom<PH>(0, 3, st); };
    std::function<PH*()> Y3 = [st]() { return mk_dom<PH>(1, 3, (st + 1) % 3); };
    dscn<PH>(dn + ".from_generators" + sfx, G3, none, [](PH& x, const PH&) { PH z(gs_a()); (void) z.minimized_constraints(); x.m_swap(z); });
    dscn<PH>(dn + ".add_generator" + sfx, G3, none, [](PH& x, const PH&) { x.add_generator(point(5 * Variable(1) - Variable(0))); x.add_generator(ray(-Variable(1))); });
    dscn<PH>(dn + ".add_generators" + sfx, X3, none, [](PH& x, const PH&) { x.add_generators(gs_a()); });
    dscn<PH>(dn + ".minimized_generators" + sfx, X3, none, [](PH& x, const PH&) { (void) x.minimized_generators(); (void) x.minimized_constraints(); });
    dscn<PH>(dn + ".poly_hull_gens" + sfx, G3, Y3, [](PH& x, const PH& y) { x.poly_hull_assign(y); });
    dscn<PH>(dn + ".poly_difference_gens" + sfx, G3, Y3, [](PH& x, const PH& y) { x.poly_difference_assign(y); });
    dscn<PH>(dn + ".BHRZ03_widening" + sfx, [st]() { PH* p = mk_dom<PH>(0, 3, st); PH* q = mk_dom<PH>(1, 3, 0); p->upper_bound_assign(*q); delete q; return p; },
             [st]() { return mk_dom<PH>(0, 3, (st + 2) % 3); }, [](PH& x, const PH& y) { x.BHRZ03_widening_assign(y); });
    dscn<PH>(dn + ".limited_H79" + sfx, [st]() { PH* p = mk_dom<PH>(0, 3, st); PH* q = mk_dom<PH>(1, 3, 0); p->upper_bound_assign(*q); delete q; return p; },
             [st]() { return mk_dom<PH>(0, 3, (st + 2) % 3); }, [](PH& x, const PH& y) { x.limited_H79_extrapolation_assign(y, cs_b(3)); });
    dscn<PH>(dn + ".upper_bound_if_exact" + sfx, X3, Y3, [](PH& x, const PH& y) { (void) x.upper_bound_assign_if_exact(y); });
    dscn<PH>(dn + ".add_congruences" + sfx, X3, none, [](PH& x, const PH&) { Congruence_System cgs; cgs.insert((Variable(0) + Variable(1) %= 3) / 0); x.add_congruences(cgs); });
    dscn<PH>(dn + ".topological_closure" + sfx, X3, none, [](PH& x, const PH&) { x.topological_closure_assign(); });
    dscn<PH>(dn + ".generalized_affine_preimage" + sfx, X3, none, [](PH& x, const PH&) { x.generalized_affine_preimage(Variable(1), GREATER_OR_EQUAL, lin(1, 2, 0, -1), Coefficient(3)); });
    dscn<PH>(dn + ".bounded_affine_preimage" + sfx, X3, none, [](PH& x, const PH&) { x.bounded_affine_preimage(Variable(2), lin(0, 1), lin(4, 0, 1), Coefficient(2)); });
  }
}

#include "c14_scenarios2.h"

static void register_scenarios() {
#ifdef PPL_GMP_INTEGERS
  container_scenarios();
  row_scenarios();
#endif
  common_domain_scenarios<C_Polyhedron>("C_Polyhedron", true);
  polyhedron_scenarios<C_Polyhedron>("C_Polyhedron");
  common_domain_scenarios<NNC_Polyhedron>("NNC_Polyhedron", true);
  polyhedron_scenarios<NNC_Polyhedron>("NNC_Polyhedron");
  more_scenarios();
}
